#!/usr/bin/env python3
"""Write MANIFEST.json from the table below (kept in one place so that it stays valid)."""
import json
import os

HERE = os.path.dirname(os.path.dirname(os.path.abspath(__file__)))
BASELINE = json.load(open("/root/.vp/BASELINE.json"))["cmd"] if os.path.exists("/root/.vp/BASELINE.json") else \
    "cd /repo && /venv/bin/python -m pytest -ra -q -p no:cacheprovider --timeout=900 --continue-on-collection-errors --junitxml=<file>"

NOTE = ("Trusted: Coq 8.16.1 kernel (vm_compute, no native_compute), no axioms (Print Assumptions re-run on every check, must say "
        "'Closed under the global context'), the Python-ast translator tools/translate.py that regenerates coq/theories/Gen/*.v "
        "from /repo on every run, extraction with ExtrOcamlBasic only + ml/drv_*.ml, the correspondence harness. ")

CLAIMS = {
    "C04": dict(
        text="Theorems (all file lists, any length/order) about the model of main(): status OK iff only Notices (status is translated "
             "from errors.py), exit_code = 0 iff every file OK (exit_code is translated from the sys.exit expression of __main__.py on "
             "every run), one verdict block per file in order, the first fatal file is named with status 1, empty selection ends "
             "cleanly.  Tied to the code by the translator and by running main() and the extracted run_all on all 341 sequences of "
             "length <= 4 over {clean, notice, erroneous, fatal} (byte-exact stdout + exit status), plus directory/JSON/subprocess modes.",
        ref="DESIGN.md 4.4", technique="Rocq proof over generated+hand model; correspondence with main() (exhaustive to length 4)",
        note=NOTE + "Modelled, not verified: argparse, file selection (C15), the analysis of each file (abstracted as its outcome)."),
    "C08": dict(
        text="Theorems about the comparators translated from errors.py on every run: Error.__lt__ is a strict weak order on diagnostics "
             "with >= 1 highlight (all positions, names, highlight lists), the sort is a permutation, the listed order is ascending in "
             "the (line, column) of the key highlight and - for diagnostics whose first highlight is position-minimal - in the printed "
             "(line, column); both formats render the same sorted list and status; every token of every source text sits at a position "
             "inside the file (1 <= line <= 1 + newlines, column >= 1; engine diagnostics copy token positions); over the table of "
             "all static emission sites regenerated from the source, every literal code is a catalogue key except three listed "
             "ones (at sites that would raise KeyError if reached) and no site has an opaque code; BAD_LEXEME is in the catalogue.  Tied to the code by the translator, by exhaustive "
             "comparator correspondence on a small domain, byte-exact humanized-format correspondence, and by evaluating order, "
             "catalogue text, levels, positions and human/JSON agreement on the real reports of ~270 files.",
        ref="DESIGN.md 4.8", technique="Rocq proof over comparators regenerated from errors.py; differential + report search",
        note=NOTE + "Trusted: list.sort returns the stable sorted permutation on a strict weak order; json.dumps. The catalogue-text and "
             "position parts of the property are checked on real reports (search), not proved."),
    "C09": dict(
        text="Theorem for EVERY input string (unbounded, all code points, any Unicode \\w/\\d classes): each token of the lexer model "
             "carries the (line, visual column) that the independent specification Spec/TruePos computes from the raw text for its "
             "first raw character - through tabs, multi-line comments/strings, line splices inside or between tokens and "
             "di/trigraphs; the bad-lexeme diagnostic sits at the true position; the tokenizer terminates.  Proof: a position "
             "invariant preserved by pop (all escape/splice/tab branches) and by each of the ten sub-parsers.  The model is tied to "
             "lexer.py by tables regenerated on every run, pinned regex parse trees, and a differential run (tokens, values, "
             "positions, raw spans, diagnostics, final state) - exhaustive over reduced alphabets - plus the extracted predicate "
             "applied to the implementation's own tokens.",
        ref="DESIGN.md 4.9", technique="Rocq proof (invariant over the lexer model) + exhaustive differential lexing",
        note=NOTE + "Modelled: lexer.py completely (hand-written Gallina, Model/Lexer.v + NumRe.v). Diagnostics emitted by the rule "
             "engine copy token positions (Highlight.from_token) - not modelled here."),
    "C10": dict(
        text="Theorems for EVERY input string (all code points, any Unicode class oracles): the raw spans of tokens, skipped splices "
             "and bad-lexeme characters recorded by the lexer model are consecutive, non-empty and cover the input exactly; every "
             "skipped span is one line splice; every character that starts no token has its BAD_LEXEME diagnostic at its true "
             "position; the final state has consumed everything; AND the text of every token (its value, or the spelling of its "
             "type) is its raw span up to the documented normalisations as the independent specification Spec/Normalise.norm_ok "
             "decides it (splices removed, di/trigraphs replaced, block-comment tabs expanded at the true column) - all token "
             "kinds, so the full executable statement c10_ok is a theorem (C10_statement_text_holds).  The tool's di/trigraph "
             "tables are proved to be the standard's.  The model is tied to lexer.py by tables regenerated on every run, pinned "
             "regex parse trees and the differential run (exhaustive over reduced alphabets); the extracted c10_ok is also "
             "applied to the implementation's own tokens.",
        ref="DESIGN.md 4.10", technique="Rocq proof (tiling, reporting and token-text normalisation, unbounded) + exhaustive differential lexing + extracted predicate",
        note=NOTE + "Modelled: lexer.py completely. The specification's keep-verbatim allowance for backslash-newline is permissive (see DESIGN 10)."),
    "C11": dict(
        text="Theorems (Props/C11.v) for the finite families of Spec/CConst.v - the property's own bounded quantifier: every integer "
             "constant with any first digit, tails up to length 2 over reduced digit alphabets containing b B e E, all four bases, "
             "EVERY suffix of the source's table (regenerated on every run), decimal and hexadecimal floats with empty integer or "
             "fraction parts and every exponent sign, every escape form in character and string constants with every prefix, each "
             "followed by each delimiter: the first step of the lexer model yields ONE token of the right type spanning exactly the "
             "constant with no diagnostic; every member of the malformed families M1..M15 gets its diagnostic located in the "
             "constant.  Proved by evaluating the model inside Coq on every member (vm_compute, bound in the statement).  Three shapes "
             "of valid constants are still refuted (witness theorems; known findings) and excluded by boolean guards; three were "
             "repaired in the tool.  The same families "
             "are replayed on the implementation (model verdict compared = correspondence; expected verdict = the property), plus "
             "random constants with digit strings up to 14 and the exhaustive lexer correspondence on numeric/quote alphabets.  "
             "UNBOUNDED theorems (all Unicode class oracles, digit strings of any length, every table suffix, every delimiter "
             "continuation): decimal, octal and binary integer constants are accepted; hexadecimal ones under two guards that are "
             "proved to exclude exactly the recorded shapes; decimal floating constants of every form (no guard); string literals of "
             "any length and character constants over plain characters, simple, octal and 1-2 digit hex escapes with every prefix "
             "(partial: no tab, no di/trigraph formed inside the literal - the general case is C10's token-text theorem); "
             "hexadecimal floats of every form (empty fraction or integer part, every suffix).  The tool's suffix tables "
             "are proved equal to the suffix grammar of the property text.",
        ref="DESIGN.md 4.11", technique="Rocq proof (unbounded induction for integer constants; complete evaluation over finite families by vm_compute) + differential lexing + family replay on the implementation",
        note=NOTE + "Modelled: lexer.py completely. Partial: the theorems are for bounded digit strings (the property's quantifier is "
             "bounded too); longer constants are only tested."),
    "C12": dict(
        text="Theorems: (1) finite and complete over the source's own tables (regenerated on every run): every operator and "
             "bracket in EVERY capture-free spelling of each of its characters (digraph, trigraph), followed by every class of "
             "delimiter, is recognised as the same token kind and consumed whole; every PAIR of operators side by side gives the "
             "same sequence of kinds in every spelling (longest match is spelling-independent) - by evaluating the lexer model "
             "inside Coq; (2) unbounded: for every marked text of any length and any set of respelled occurrences that is "
             "capture-free, the character stream the lexer's peek reads is the canonical text; (3) unbounded: a line splice of "
             "either form in front of any text, in any lexer state, is skipped as one item with no token and no diagnostic, and "
             "- by the line/offset parametricity of the whole lexer model (every function commutes with shifting line and raw "
             "offset) - the whole token sequence of the text follows with identical kinds, values and columns, every line one "
             "lower; (4) a splice of either form BETWEEN two lexemes of a file (C12_splice_between_lexemes, Proofs/SpliceBetween.v): "
             "for prefixes of simple lexemes, block comments, // comments and plain strings under the decidable lexs_ok2 (the "
             "lexeme before the splice is complete), whenever the part after the splice contains a newline lexeme "
             "(C12_splice_between_lexemes_line; or under the decidable realignment condition otherwise), the sequences of token kinds and values are equal, the later "
             "items one line lower - with an Example on a program behind the repository's 42 header.  Not proved: splices next "
             "to other lexeme kinds (operators before the splice, character constants, multi-character operators), respelling "
             "composed into equality of whole token sequences, and the diagnostics clause - these are searched: "
             "random subsets of punctuator occurrences respelled and random subsets of token boundaries spliced in conforming / "
             "violating programs and lexeme sequences, (kind, value) sequences compared; braces/brackets respelled in whole "
             "programs, diagnostics compared in (code, line).",
        ref="DESIGN.md 4.12", technique="Rocq proof (table sweeps by vm_compute, induction over marked texts, splice step lemma) + metamorphic search",
        note=NOTE + "Partial: whole-file token equality and the diagnostics clause are tested, not proved."),
    "C13": dict(
        text="Theorems: the model's search decides the denotation of the header regular expression (for every pattern and text); "
             "the expression of check_header.py, parsed with re's own parser on every run, is the eleven line patterns; the "
             "translated run/parse_header/check_header (Gallina regenerated statement by statement from the source) emit "
             "INVALID_HEADER at most once on EVERY statement trace; for ALL field values with date and time free of blanks and at "
             "most 31 characters together the stdheader template text is accepted and its trace yields 0 diagnostics; for ALL "
             "field values without newline or *, each mutation Hm1..Hm8 (first statement not a comment, // comments, one block, "
             "any line removed, any frame width other than 74, any By/Created/Updated line not starting with its keyword) yields "
             "exactly 1.  END TO END at file level for the accept direction: IsComment.run and the first test of "
             "IsPreprocessorStatement.run are translated from the source; the header followed by ANY text is lexed into one "
             "MULT_COMMENT token per template line, the first 11 turns of the registry loop are IsComment matches on which "
             "CheckHeader runs, and no INVALID_HEADER is emitted at any later turn (C13_file_accept; hypothesis: the engine oracle "
             "agrees with the token-level turn where the translated primaries decide it - compared on every run).  The REJECT "
             "direction is proved at file level too (text -> tokenizer model -> turns -> generated machine) for ALL of Hm1..Hm8 "
             "(Hm5 through the multi-line block-comment lemma C13_block_comment_then_text), for any following text that begins with an empty line or whose first item is a token and "
             "that does not begin with /*, under the same oracle hypothesis and the hypothesis that the statement after the "
             "leading comments is recognised (C13_file_reject_*) - for the standard case where that statement is an EMPTY LINE "
             "the recognition is proved too (IsEmptyLine translated, C13_turn_on_empty_line; C13_file_reject_*_emptyline assume "
             "only that the oracle agrees with the translated primaries and that the four untranslated primaries of higher "
             "priority decline a NEWLINE-first statement); a following column-1 block comment, a first item that "
             "is not a token and fields holding di/trigraph pairs, backslash, ? or tab remain trace-level with file->trace "
             "compared on every run.  Recorded "
             "findings are refuted by witness.  Correspondence: the generated state machine replayed in Coq "
             "on events recorded from CheckHeader.run, the regex model vs the source's compiled pattern, the template vs the "
             "repository's sample header; search: field sets x mutations x bodies on the implementation, several-file runs in "
             "twelve orders (each count as for the file alone) and the inline --cfile/--hfile route.",
        ref="DESIGN.md 4.13", technique="Rocq proof (verified regex matcher, counting lemmas, state machine translated from source) + event/regex correspondence + mutation search",
        note=NOTE + "Proved for fields forming no di/trigraph and holding no backslash, ?, tab: the lexer cuts the header followed by ANY "
             "text into one MULT_COMMENT token per template line (C13_header_lexed). Tested, not proved: that IsComment matches "
             "MULT_COMMENT NEWLINE as one statement; that Python's backtracking re.search agrees with the denotation."),
    "C17": dict(
        text="Theorems: for every replacement accepted by replace_ok (same length, newline and tab positions kept, no backslash, own "
             "quote, ? % : and no / in block comments) every observation form that the rules apply to a token's spelling is "
             "unchanged; line-comment and string bodies of such characters lex to the value extended character by character "
             "with identical columns.  FILE level (C17_comment_replace_file_obs2, Proofs/LexPrefix2.v): for every file <prefix of "
             "blanks, identifiers, keywords, one-character operators, brackets, decimal constants, block comments over one or "
             "several lines, // comments and plain unprefixed strings satisfying the decidable lexs_ok2 - so also files that "
             "start with the 42 header (Example with the repository's header)> followed by a // comment up to the line end, replacing the comment text by admissible text of the same "
             "length leaves every other lexeme, the final lexer state and every covered observation unchanged; for other "
             "prefixes the _partial theorem (tokens from the edit site on proved equal, C17_file_compose; tokens in front "
             "assumed equal) plus the tested lexer comparison apply; block-comment and char loops are tested.  The list of "
             "observation forms is tied to the code: every syntactic read of a token's spelling in rules/*.py, context.py, "
             "registry.py, scope.py, errors.py is regenerated on every run (fail-closed taint analysis) and proved covered by the "
             "reviewed forms (a static analysis, trusted).  Refuted by witness: di/trigraph text inside comments (known "
             "finding).  Search: comments and literals (strings on every directive line but a genuine #include) of "
             "conforming/violating programs replaced by code-like text, complete diagnostics compared.",
        ref="DESIGN.md 4.17", technique="Rocq proof (observation invariance + lexer loop lemmas) over a value-read table regenerated from source + metamorphic search",
        note=NOTE + "Rests on the static value-read table (cannot see getattr tricks). Whole-file simulation is proved for simple-lexeme prefixes and // comments, tested otherwise."),
    "C18": dict(
        text="Theorems: for every renaming accepted by rename_ok (same length, number of capitals, lower-case presence, isupper, the "
             "five prefixes; injective on the names of the file; never to or from a keyword, a special spelling or the guard "
             "symbol) every observation form the rules apply to identifier spellings is unchanged, and an admissible renaming is "
             "injective; the lexer model turns an identifier lexeme into one token spanning exactly it at the same position, and "
             "two same-length non-keyword lexemes give the same token type, position and following state.  FILE level "
             "(C18_rename_file_obs2, Proofs/LexPrefix2.v): for every file <prefix of blanks, identifiers, keywords, one-character "
             "operators, brackets, decimal constants, block comments, // comments and plain strings satisfying the decidable "
             "lexs_ok2 - so also files starting with the 42 header (C18_header_program_meets_conditions)> "
             "<identifier at an ident_site> <rest>, renaming that lexeme under pair_ok leaves every other lexeme with its "
             "positions and every covered observation unchanged; a whole-file consistent renaming is the tested iteration of "
             "it, and for other prefixes the _partial theorem (prefix-run assumption) applies.  Ties re-proved on every run over tables regenerated from the source: "
             "every spelling read is covered, every literal a spelling is compared with is reviewed, the keyword table is the "
             "reviewed one.  Search: consistent renamings (incl. near-keywords, and spellings derived from the reviewed special-spelling "
             "and keyword lists - substrings, one-character extensions, case variants - in eight identifier roles) of "
             "conforming/violating programs, complete diagnostics and token streams compared.",
        ref="DESIGN.md 4.18", technique="Rocq proof (observation invariance, identifier lexing lemma) over tables regenerated from source + metamorphic search",
        note=NOTE + "Rests on the static value-read table (trusted). Whole-file simulation is proved for one lexeme behind a simple-lexeme prefix, tested otherwise."),
    "C14": dict(
        text="Theorems (all base names whose File.type is .h, all comment/blank prefixes and suffixes, all bodies with properly nested "
             "conditionals, any statement trace): the correct guard (guard_of base = ASCII upper-casing and . -> _, proved equal to "
             "Python's on ASCII against a live table) produces no HEADER_PROT_* diagnostic; each mutation G1..G6 produces its code "
             "(NAME, UPPER, NODEF, MULT, ALL, ALL_AF); files of another type never produce any (G8); G7 (no guard at all) is refuted "
             "by witness (known finding).  The proofs are about prot_run, a Gallina function regenerated statement by statement from "
             "CheckPreprocessorProtection.run on every run (fail closed), and about IsPreprocessorStatement's effect taken from a "
             "generated directive table; helpers are pinned by AST fingerprints.  FILE level (partial): `[42 header] #ifndef X\\n# "
             "define Y\\n` followed by any text the tokenizer accepts is lexed into exactly the tokens of the two directive "
             "lines plus the shifted tokens of the rest, for all non-keyword identifiers X, Y (guard_of base is one for every "
             "base starting with a letter, _ or .); the views prot_run takes of these lines and of `#endif` are those of the "
             "abstract statements; IsPreprocessorStatement's matcher is translated for ifndef/define/endif (Gen/IsPreproc, fail "
             "closed) and proved to return (True, 5/6/3) on the three token lines for every symbol and continuation, and being "
             "the first primary tried no assumption about other primaries is needed there; hence accept, G1, G2, G3, G6 at file "
             "level (C14_file_*_induced_partial) assuming only that the oracle agrees with the translated primaries where they "
             "decide (induced_g) and that the turns over the body are simulated by a balanced abstract body - both checked on "
             "every run by the per-statement correspondence and by running the translated matcher on every recorded "
             "preprocessor statement; G4 (second guard, recognised by the translated matcher) and G5 (a declaration turn of an "
             "untranslated primary in front of the guard) are proved in the same form (C14_file_G4/G5_induced_partial), each "
             "with an Example in which the tokenizer model is run; and accept, G1-G4, G6 are restated for the realistic layout `42 header, "
             "blank line, #ifndef/#define ...` (C14_file_*_blank_partial): the blank-line turn is decided by the combined turn "
             "function (IsComment + IsEmptyLine + the IsPreprocessorStatement matcher) under the one assumption that the four "
             "untranslated primaries tried before IsEmptyLine decline a NEWLINE-first statement (compared on every recorded turn "
             "by C13's check); a complete realistic header is evaluated end to end (C14_example_real_header).  Correspondence: the real statement sequence, "
             "preprocessor state and emitted codes after every statement vs the model run inside Coq on the abstracted trace.  "
             "Search: 42 header + guard + body x base names over [a-z0-9_.] x {correct, G1..G8} x placements on the implementation.",
        ref="DESIGN.md 4.14", technique="Rocq proof over a check translated from source + per-statement state correspondence + mutation search",
        note=NOTE + "Hand-written and validated by correspondence: the abstraction of real statements into the model's statement type, "
             "history append, File.type. Not proved: diagnostic positions."),
    "C15": dict(
        text="The file-selection code of main() (work-list loop, suffix test, glob expansion, gitignore filter) is translated "
             "statement by statement into Gallina over an abstract OS interface on every run (Gen/SelectCode.v, fail closed) and "
             "the model is proved EQUAL to that translation (C15_model_is_translated_code), so the code is no longer pinned by a "
             "fingerprint.  Theorems over ALL finite directory trees, current directories and argument lists, about "
             "Model/Select.v and about the translated code (glob patterns, suffix tuple, messages and exit codes regenerated "
             "from __main__.py on every run): only regular files ending in .c/.h that are named or lie below a named directory are checked (sound, "
             "also with --use-gitignore); a missing path aborts with status 1 and nothing is checked; a named file with another "
             "suffix gets the rejection message and is not checked; no argument = the argument `.`; with --use-gitignore exactly "
             "the files the git oracle reports ignored are removed; files are reported under their base name; the work list "
             "terminates.  Completeness and once-per-mention are proved for all trees without names starting with `.` below the "
             "named directories (the recorded finding C15-dot-names-skipped, refuted by witness); directories named *.c/*.h are "
             "covered since the repair.  Correspondence: random "
             "trees x argument lists through the real main() and through the model inside Coq (selected names in order, messages, "
             "abort path, exit status); the property is evaluated on the real output against an independent specification.",
        ref="DESIGN.md 4.15", technique="Rocq proof over an abstract file system + differential runs of main() on generated trees",
        note=NOTE + "Modelled, not verified: os.scandir order, CPython glob/fnmatch/pathlib, git check-ignore (oracle). Symlinks, "
             "special files and glob-magic characters in directory arguments are outside the model."),
    "C16": dict(
        text="Theorems: for every rule oracle that does not read the debug level, every token count and every pair of debug levels, "
             "two runs that both reach a verdict have equal diagnostics and verdict, and a verdict at debug 0 is the verdict at "
             "every level; -R sets skip_define iff its last word is exactly CheckDefine, and a run with it equals the run without "
             "it minus exactly the diagnostics coded PREPROC_CONSTANT (the #define-value code; the macro-name and function-like-"
             "macro checks are kept, for every #define line); both formats show the same views for all file lists, the humanized "
             "text is a function of the views and the colour switch, stripping colour sequences gives the uncoloured text, -o is "
             "never read; inline content (any content, CR/CRLF included) yields the same File and Context as a file of that name "
             "holding it.  That colours / format / -o cannot influence the findings is proved from translated code: main()'s "
             "option plumbing is translated statement by statement into a def/use program (Gen/OptFlow.v, fail closed), a generic "
             "noninterference theorem (any statement semantics) shows that the heap - every File with its diagnostics -, the "
             "file list and the exit state at the end of the analysis loop are identical for runs differing only in those "
             "options, which reach only the formatter choice, the formatter call after the loop, its print and the final exit "
             "(C16_analysis_independent_of_presentation); Context.__init__'s use of debug / added_value is translated and "
             "proved equal to the model; the -f clause (both formats show the file's own verdict and a permutation of its "
             "diagnostics) follows from C08's theorems.  The remaining hypotheses on the oracle are justified by reader tables (every syntactic read of debug / "
             "skip_define / the presentation options, the guard structure of the define check, the inline branch of main()) "
             "regenerated from the source on every run and proved equal to reviewed lists (fail closed); they are not proved of "
             "the rule bodies.  Search: conforming and violating files x option sets through the real main(), both formats parsed "
             "back and compared with the baseline run.",
        ref="DESIGN.md 4.16", technique="Rocq proof (generic engine + option model, reader tables from source) + option-matrix differential runs of main()",
        note=NOTE + "Modelled, not verified: argparse, open()'s decoding. Table-justified: rule bodies read the debug level only to raise or print; the skip_define guard structure; the translator's def/use conventions. Tested only: that printed text parses back to the views."),
    "C01": dict(
        text="PARTIAL (the full statement - a complete model of all 39 checks over the whole grammar - is out of reach and is kept "
             "visible, unproved, in Props/C01.v).  Proved for the code set K = {INVALID_HEADER, the six HEADER_PROT_* codes, the 18 "
             "codes emitted by lexer.py}: by the emitter table regenerated from the source on every run a K code can only be "
             "emitted by check_header.py, check_preprocessor_protection.py or lexer.py; no INVALID_HEADER for any 42 header with "
             "well-formed stamps followed by ANY statement trace; no HEADER_PROT_* for a correctly guarded .h with any balanced body "
             "and none for any non-header; the tokenizer model records no diagnostic on any statement line of unbounded length built "
             "from identifiers, single spaces, one-character operators, brackets and 118 listed atoms (constants of every family of "
             "Spec/CConst.v inside their guards, keywords, multi-character operators); all-Notice diagnostics give OK and all-OK "
             "files give exit 0.  FIFTEEN of the 39 checks are proved silent AS A WHOLE on conforming statements, about functions "
             "regenerated from the source on every run, unbounded in the program (C01_checks_silent): CheckTernary, CheckLabel "
             "(hypothesis K: token kinds, tied to the rendered text by conforming_text_kinds), CheckLineLen, CheckManyInstructions "
             "(P: columns, from C09/C03), CheckSpacing, CheckExpressionStatement (statement shape at every position, by loop "
             "invariant), CheckEmptyLine, CheckLineIndent (V: the view at the statement, scope name and indentation derived from "
             "the scope-trace model, history given), CheckFunctionsCount (trace model), CheckIdentifierName (names over the "
             "source's own legal-character string), CheckComment (no comment in the statement, or comments first on their "
             "line / followed by blanks only, outside functions), CheckLineCount (its only diagnostic is guarded by a parent "
             "rule name that no primary of the regenerated registry has), CheckPreprocessorIndent (on conforming directive "
             "lines, from the exact-list theorem), CheckHeader, CheckPreprocessorProtection; five more in part.  K1 (i = 0xb3ba;) is accepted since the repair (C01_accepted_K1).  "
             "TESTED, not proved: the silence of the other 24 checks (listed in Props/C01.v and in the evidence) and the "
             "complete-unit claim - generated conforming programs (one third on the 25/5/4/5/80 limits, one tenth through the real "
             "CLI alone and in every position of several-file invocations in both formats) with a measured construct histogram, "
             "and grids of the known false-positive families.",
        ref="DESIGN.md 4.1", technique="Rocq proof (composition of header, guard, lexer-line and verdict theorems over an emitter table from source) + conforming-program search",
        note=NOTE + "Partial: 24 checks are only searched; which primaries matched (the history) is a hypothesis; programs are generated by the Python renderer, not a Coq AST."),
    "C02": dict(
        text="PARTIAL.  50 of the 84 catalogue operators have machine-checked theorems (S01-S08, S11, L01, W01, W03-W10, W12-W15, "
             "W17, T01-T04, O07, N01, N02, K01-K03, D04, F03, F04, F05, P01-P12), stated for EVERY token list and context view over "
             "Gallina functions regenerated statement by statement from the current source of 15 checks on every run (fail "
             "closed: CheckTernary, LineLen, Label, ManyInstructions, EmptyLine, LineIndent, Spacing, the FORBIDDEN_<type> slice "
             "of UtypeDeclaration, ExpressionStatement, ControlStatement, IdentifierName, Comment, PreprocessorIndent, PreprocessorInclude, PreprocessorDefine - for the last three the EXACT "
             "list of diagnostics is proved, C02_partial_preproc_*_exact) and over the scope/counter "
             "models of the four limits: the pattern the operator creates makes the translated check emit the expected code on "
             "that line (iff / exact-value forms where stated; _given_history / _given_trace where the history or the matching "
             "primary is a hypothesis); S05, L01, K03, F04 are lifted to files over the generic registry-loop model.  Every "
             "recorded invocation of the 15 checks is replayed inside Coq (token window, history, scope fields, emissions, "
             "exception class) and the scope/counter traces are replayed on the limit programs and their one-past-the-limit "
             "edits.  The other 34 operators (5 of them only as known findings) are TESTED: the property itself is evaluated "
             "on the implementation for conforming programs (incl. programs sitting on a limit and multi-dot file names) x all "
             "operators x structurally varied sites; the forbidden constructs (ternary, for, switch, goto, label) are placed "
             "at sites of every statement kind a primary can match.  Ten genuine misses are recorded with narrow site "
             "predicates; four proved operators (W01, W05, N01, N02) coexist with listed findings outside the model's hypotheses.",
        ref="DESIGN.md 4.2", technique="Rocq proof over check bodies translated from source (50 operators) + invocation-level correspondence + catalogue search (84 operators)",
        note=NOTE + "Partial: 34 operators tested only; primaries are an oracle at file level; exit status is C04's theorem."),
    "C19": dict(
        text="PARTIAL.  Theorems: a prefix of complete lines shifts the true position of every raw offset by its number of lines at "
             "the same column (all prefixes, texts, offsets), hence corresponding tokens of src and P ++ src differ by exactly that "
             "many lines (via the lexer position theorem); for every statement trace not starting with a column-1 block comment "
             "and every field value the trace alone yields exactly one INVALID_HEADER and none behind the template header (the "
             "CheckHeader machine translated from source); the table of all history look-backs of the rules, regenerated on every "
             "run, is the reviewed one; the lexer model is line/offset parametric, so from the state reached after a prefix of "
             "complete lines lexing continues exactly as the lexing of the text, shifted; the composition with the run on the "
             "prefix is unconditional for prefixes of one-line block comments and for the 42 header (their steps never look past "
             "their end), conditional on locality for other prefixes.  SEARCHED on every run: header in front (diagnostics = those of T minus INVALID_HEADER, "
             "shifted by 11 lines), comment line at every top-level insertion point (earlier diagnostics untouched, later ones "
             "shifted by one), function appended (identical diagnostics), token streams shift rigidly - over the conforming "
             "family and violating token edits, .c and .h.  Four exceptions are recorded as known findings.",
        ref="DESIGN.md 4.19", technique="Rocq proof (position shift, header count, look-back table tie) + metamorphic search over insertion points",
        note=NOTE + "Partial: that all other rules' diagnostics only shift is searched, resting on the reviewed look-back table."),
    "C03": dict(
        text="Theorems for EVERY source text, every line of it and every mix of tabs and text: with line_width defined by the "
             "independent position scanner (tabs = 4-column stops), every token that starts on a line carries that line's number "
             "and a column <= width + 1, the token starting where the line ends (the NEWLINE token of a code line) sits exactly in "
             "column width + 1, hence for every L `some token of the line lies beyond column L + 1 <-> width > L` (from the lexer's "
             "position theorem C09); the model of CheckLineLen reports exactly the lines of a statement holding a token beyond "
             "column 81, once each.  The compared constants of all seven limit checks (81, 80/81, 25, 26, 5, 4, 5) and structural "
             "fingerprints of the small checks are regenerated from the source on every run and pinned.  The COMPLETE boundary family "
             "of the property (every limit, every n in [L-3, L+6], every generated context: kind of line incl. first/interior/last "
             "block-comment line, position in file, tabs, final newline, nesting, surrounding functions) is evaluated on the "
             "implementation on every run, and the width specification and the two line-length check models are compared with it.  "
             "For CheckCommentLineLen (model pinned by fingerprint and limits, replayed by the driver) it is proved which lines of "
             "a comment token are reported: line l0 + i of a block comment iff the i-th line of its value, the first behind c0 - 1 "
             "columns of padding, is longer than 80, the lines joined by newlines being exactly the value; a // comment iff its "
             "last character lies beyond column 80 (C03_block_comment_check_iff, C03_line_comment_check_iff); and the measured "
             "LENGTH is a visual width: for comment text without newline, backslash, ?, <, : and % the normalisation of C10 "
             "(tabs expanded at the true column) makes c0 - 1 + len(first line) the column of that line's last character and "
             "len(later line) its width by the independent position scanner (C03_comment_value_length_is_visual_width).  "
             "THE 25 LINES: over a trace model of the scope bookkeeping generated from the source on every run (Scope.outer/"
             "get_outer, Context.update, CheckLineCount.run, the line test of CheckBrace, the history scan of IsBlockStart, the "
             "effect of IsBlockEnd), for EVERY well-nested function body (any nesting of braced blocks and chains of brace-less "
             "control structures of any depth, blank/comment/preprocessor lines anywhere): the Function scope has counted every "
             "line end when its closing brace is processed, and TOO_MANY_LINES is emitted exactly once iff the body has more than "
             "25 line ends (none at 25, always at 26); the model is compared with the implementation after every statement.  "
             "THE OTHER COUNTERS (counting code translated from the source on every run): over any file trace TOO_MANY_FUNCS "
             "is emitted exactly at the function definitions beyond the fifth (count = max 0 (k - 5); prototypes, globals, user "
             "types do not count); for a function whose block starts with v declarations TOO_MANY_VARS_FUNC count = max 0 (v - 5), "
             "the counter starting afresh per function; on the token list of ANY parameter list (nested parentheses, pointers, "
             "function pointers) TOO_MANY_ARGS iff more than 4 parameters.  All compared with the implementation after every "
             "statement / on every CheckFuncDeclaration invocation.  Partial: block-comment widths are searched exhaustively, "
             "not proved; bare blocks, switch, declarations nested in control structures and function-pointer-returning "
             "declarators are outside the theorems' grammars (covered by the correspondence).",
        ref="DESIGN.md 4.3", technique="Rocq proof (line width vs token columns from the lexer invariant; line-counter theorem over a scope-trace model generated from source) + per-statement correspondence + exhaustive boundary-family search",
        note=NOTE + "Not modelled: scope bookkeeping of the primaries behind the four counters."),
    "C05": dict(
        text="(a) Theorem for every string: the tokenizer model terminates (its fuel, |src|+1 steps each consuming >= 1 raw character, is "
             "never exhausted) and consumes the whole input; that no exception other than the documented iteration cap escapes is "
             "shown by the exhaustive differential run, not proved.  (b) Theorems for ANY rule set whose matching primaries "
             "consume >= 1 token: the registry loop terminates and ends Ok, with the controlled fatal error, or with an exception a "
             "rule itself raised.  The loop model is replayed against the recorded events of every explored run.  Search: "
             "conforming programs, token prefixes, 1-2 token edits under a CPU-time limit; exceptions classified by class + "
             "innermost frame.  (c) For the code whose model is regenerated from the source on every run (CheckTernary, CheckLineLen, CheckLabel, "
             "CheckManyInstructions, CheckEmptyLine, CheckLineIndent, CheckSpacing, CheckExpressionStatement, CheckControlStatement "
             "(Ok or Hang: the outcome theorem that predicted the check_nest loop), CheckIdentifierName, CheckPreprocessorIndent (ends normally or "
             "raises AttributeError on a missing token, never anything else), CheckPreprocessorInclude and CheckPreprocessorDefine (end normally, "
             "raise AttributeError, or run on only when their unbounded scan has no closing token - fuel adequacy proved), the parameter-counting slice of CheckFuncDeclaration (ends normally or with CParsingError, never AttributeError, since f414d35), the parameter counter of CheckFuncDeclaration "
             "with Context.skip_nest, CheckLineCount / CheckFunctionsCount / the variable counter, the scope bookkeeping of the "
             "registry loop) it is proved for EVERY token list and context that it ends normally under the invariants the "
             "registry guarantees (tokens not exhausted, matched primary already in the history, tkn_scope >= 0, scope chain "
             "rooted in the global scope), that no loop fuel is ever exhausted, and which exception is raised otherwise; the one "
             "reachable exception this characterisation exposed (CheckSpacing at end of file inside a column-1 run of spaces) was "
             "reproduced on the implementation.  Partial: the other rule bodies are not modelled (their crash-freedom is searched, "
             "not proved).",
        ref="DESIGN.md 4.5", technique="Rocq proof (lexer termination, generic loop progress, totality of the checks translated from source) + differential lexing + crash search",
        note=NOTE + "Modelled: lexer.py completely, Registry.run generically (rules = oracle). Not modelled: rule bodies, Context helpers."),
    "C06": dict(
        text="Theorems: the order in which the primaries run and in which the checks of a statement run is the same for every "
             "permutation of the discovered rule classes (sort model; distinctness of the 19 priorities proved on the table "
             "regenerated from rules/*.py; the two sorted(...) calls and the live order are tied by generated tables); the list of "
             "syntactic sites that can touch state outliving one file (module-level objects, class attributes assigned at run "
             "time, global, process-level setters, mutable defaults), regenerated by the translator on every run, equals the "
             "reviewed list.  That the real process behaves like the memoryless model is the correspondence: every file alone in "
             "a fresh interpreter vs after histories of length 1..3 (clean, erroneous, fatal, other type, deep #if, deeply nested) in "
             "one process, twice, reversed, and under shuffled os.listdir.  Partial: the shared-state table is a static analysis, "
             "and interpreter state (recursion limit, import order) is exercised, not modelled.",
        ref="DESIGN.md 4.6", technique="Rocq proof (sort-order invariance, static shared-state table) + history/permutation differential runs",
        note=NOTE + "Trusted: sorted() is stable and correct on distinct keys. Not modelled: interpreter state; rule bodies."),
    "C07": dict(
        text="Theorems for ANY rule set whose matching primaries consume >= 1 token (the oracle of Model/Engine.v): a run that ends "
             "normally splits the tokens into consecutive, non-empty statements covering the whole stream; without -d such a run "
             "has set no token aside, i.e. text that no primary recognises is fatal wherever it sits (also at the end of the "
             "file); the loop terminates.  The loop model is replayed against the recorded pop_tokens/run_rules events of every "
             "explored run.  NESTING DEPTH: over the scope-trace model generated from the source (Gen/ScopeOps.v), after the "
             "closing brace of any function or user-defined type with a well-nested body the scope chain is [Global] again, and "
             "any file of such units ends in the global scope (unbounded; the model is compared with the implementation after "
             "every statement).  Alignment (statements start at column 1 and end at a line end) and the fatal outcome for "
             "inserted fragments are evaluated on real runs: partial (they depend on the unmodelled primaries).",
        ref="DESIGN.md 4.7", technique="Rocq proof (generic registry loop) + event-level correspondence + fragment-insertion search",
        note=NOTE + "Modelled: Registry.run generically. Not modelled: the primaries that decide where statements end."),
}

NOT_YET = {}


def main():
    props = [json.loads(l) for l in open(os.path.join(HERE, "properties.jsonl"))]
    checks = []
    na = []
    for p in props:
        pid = p["id"]
        if pid in CLAIMS:
            c = CLAIMS[pid]
            checks.append({
                "property_id": pid,
                "quick_cmd": "./check %s --tier quick" % pid,
                "thorough_cmd": "./check %s --tier thorough" % pid,
                "evidence_file": "/verif/evidence/%s.json" % pid,
                "replay_cmd_template": "./check %s --replay {path}" % pid,
                "engine": "rocq-proof+correspondence",
                "level_claimed": {"category": "proof", "text": c["text"], "design_ref": c["ref"]},
                "level_note": c["note"],
                "technique": c["technique"],
            })
        else:
            na.append({"property_id": pid, "reason": NOT_YET.get(pid, "check not built yet in this round (planned: DESIGN.md section 4.%d); not claimed until its theorems and correspondence run" % int(pid[1:]))})
    m = {
        "version": 1,
        "setup_cmd": "./setup.sh",
        "hooks": {"guard": "NORMINETTE_VERIF", "enable": "none needed: the harness observes norminette from outside (attribute access / wrapping); the variable is unused by the source",
                  "baseline_off_cmd": BASELINE, "source_commits": [], "add_only": True},
        "engines": [{"name": "rocq-proof+correspondence", "path": "/verif/check",
                     "serves_properties": [c["property_id"] for c in checks],
                     "kind_free_text": "Coq 8.16 theorems over a model regenerated/validated against /repo on every run; extracted OCaml model vs implementation differential runs; property search on the implementation"}],
        "checks": checks,
        "notes": "Fix commits in /repo are listed in KNOWN_FINDINGS.jsonl (status fixed). No source hooks.",
        "not_applicable": na,
    }
    with open(os.path.join(HERE, "MANIFEST.json"), "w") as f:
        json.dump(m, f, indent=1)
    print("MANIFEST.json: %d checks, %d not claimed" % (len(checks), len(na)))


if __name__ == "__main__":
    main()
