#!/bin/sh
# tools/run_mutant.sh <dir with patch.diff> <property id> [tier]
# Runs the check of <property> against a scratch worktree of /repo with the patch applied, from an ISOLATED copy of
# /verif (so that shared Gen/ files and build outputs are not disturbed while other work goes on).  Prints the verdict.
set -e
MUT="$1"; PID="$2"; TIER="${3:-quick}"
COPY=/tmp/verif_mut
WT=$(mktemp -d /tmp/mutwt_XXXX); rmdir "$WT"
git -C /repo worktree add -q --detach "$WT" HEAD
trap 'git -C /repo worktree remove --force "$WT" >/dev/null 2>&1 || true' EXIT
git -C "$WT" apply "$MUT/patch.diff"
mkdir -p "$COPY"
rsync -a --delete --exclude .git --exclude replays /verif/ "$COPY"/
cd "$COPY"
rm -rf replays
set +e
NV_REPO="$WT" ./check "$PID" --tier "$TIER" > "$COPY/mut_out.txt" 2>&1
RC=$?
set -e
grep -c '^VIOLATION' "$COPY/mut_out.txt" | sed "s/^/violation lines: /"
grep '^VIOLATION' "$COPY/mut_out.txt" | head -3
tail -1 "$COPY/mut_out.txt"
echo "exit=$RC"
