"""Gen/ValueReads.v: every syntactic read of a token's SPELLING in the analysed path (rules, context, registry,
scope, errors, and the Token accessors), with the operation that consumes it, in a closed vocabulary
(Model/Obs.v `form`).  Proofs/ObsProofs.v proves by vm_compute over this table that every entry is of a form whose
result is invariant under an admissible renaming (C18) / content replacement (C17).

A syntactic, intra-procedural taint analysis, FAIL CLOSED: a spelling that reaches an operation outside the
vocabulary raises (= broken tie).  Sources: attribute reads `.value`, `.length`, `.unsafe_length`; `str(x)` /
`repr(x)` of a token expression; f-strings; reads of the three places where a spelling is stored
(`scope.fnames`, `context.header`, `Macro.name` through `preproc.macros`).  Local names assigned from a tainted
expression are followed (all their loads in the same function).  It cannot see getattr/setattr/__dict__ tricks
(those names raise), token equality `t1 == t2`, or a token handed to code outside the analysed files: this static
analysis is part of the trusted base of C17/C18."""
import ast
import glob
import os
import string as _string

from pyexpr import TranslateError

FILES = ["norminette/context.py", "norminette/registry.py", "norminette/scope.py", "norminette/errors.py",
         "norminette/lexer/tokens.py"]
LEN_ATTRS = {"length", "unsafe_length"}
STORES = {"fnames": "scope.fnames", "header": "context.header"}
FORBIDDEN_DYNAMIC = {"vars", "setattr", "delattr", "exec", "eval", "globals", "locals", "astuple", "asdict_token"}


def q(x):
    if x is None:
        return None
    if not all(32 <= ord(c) < 127 for c in x):
        return "([" + "; ".join(str(ord(c)) for c in x) + "]%N : str)"
    return '(s "%s"%%string)' % x.replace('"', '""')


def qs(x):
    return '"' + x.replace('"', '""') + '"%string'


class Fn:
    """analysis of one function body"""

    def __init__(self, mod, fn, owner):
        self.mod, self.fn, self.owner = mod, fn, owner
        self.where = (owner + "." if owner else "") + fn.name
        self.parent = {}
        for n in ast.walk(fn):
            for c in ast.iter_child_nodes(n):
                self.parent[c] = n
        self.params = [a.arg for a in fn.args.args + fn.args.kwonlyargs]
        self.out = []            # (form text, kinds, lineno)
        self.derived = {}        # name -> set of (kind, wrappers)
        self.done = set()

    def fail(self, node, why):
        raise TranslateError("%s:%s line %s: spelling reaches %s: %s" % (
            self.mod.rel, self.where, getattr(node, "lineno", "?"), why, ast.unparse(node)[:120]))

    # ------------------------------------------------------------- helpers
    def tainted_expr(self, e):
        for n in ast.walk(e):
            if isinstance(n, ast.Attribute) and n.attr == "value" and isinstance(n.ctx, ast.Load):
                return True
            if isinstance(n, ast.Name) and n.id in self.derived and isinstance(n.ctx, ast.Load):
                return True
            if isinstance(n, ast.Attribute) and n.attr == "name" and isinstance(n.value, ast.Name) and n.value.id == "macro":
                return True
        return False

    def const_strs(self, e):
        """tuple/list of string constants (None entries dropped), directly or through a module-level name"""
        if isinstance(e, ast.Name) and e.id in self.mod.consts:
            e = self.mod.consts[e.id]
        if isinstance(e, (ast.Tuple, ast.List, ast.Set)):
            out = []
            for x in e.elts:
                if isinstance(x, ast.Constant) and isinstance(x.value, str):
                    out.append(x.value)
                elif isinstance(x, ast.Constant) and x.value is None:
                    continue
                else:
                    return None
            return out
        return None

    def const_charset(self, e):
        """a string constant expression: literal, string.<attr>, sums thereof, or a local name bound once to one"""
        if isinstance(e, ast.Constant) and isinstance(e.value, str):
            return e.value
        if isinstance(e, ast.Attribute) and isinstance(e.value, ast.Name) and e.value.id == "string" \
                and e.attr in ("ascii_lowercase", "ascii_uppercase", "ascii_letters", "digits"):
            return getattr(_string, e.attr)
        if isinstance(e, ast.BinOp) and isinstance(e.op, ast.Add):
            a, b = self.const_charset(e.left), self.const_charset(e.right)
            return None if a is None or b is None else a + b
        if isinstance(e, ast.Name):
            binds = [n for n in ast.walk(self.fn) if isinstance(n, ast.Assign) and len(n.targets) == 1
                     and isinstance(n.targets[0], ast.Name) and n.targets[0].id == e.id]
            if len(binds) == 1:
                return self.const_charset(binds[0].value)
        return None

    def file_derived(self, e):
        """an expression computed from the file name only"""
        if isinstance(e, ast.Name):
            binds = [n for n in ast.walk(self.fn) if isinstance(n, ast.Assign) and len(n.targets) == 1
                     and isinstance(n.targets[0], ast.Name) and n.targets[0].id == e.id]
            return len(binds) == 1 and self.file_derived(binds[0].value)
        src = ast.unparse(e)
        return ("file.basename" in src or "context.filename" in src) and not self.tainted_expr(e)

    def kinds_of(self, node):
        """token kinds the surrounding code restricts the token to, when syntactically evident"""
        base = node
        while isinstance(base, (ast.Attribute,)) and base.attr in ("value", "length", "unsafe_length"):
            base = base.value
        key = None
        if isinstance(base, ast.Call) and isinstance(base.func, ast.Attribute) and base.func.attr == "peek_token" and base.args:
            key = ("idx", ast.unparse(base.args[0]))
        elif isinstance(base, ast.Name):
            key = ("name", base.id)
            # a name bound to peek_token(idx)
            for n in ast.walk(self.fn):
                if isinstance(n, ast.Assign) and len(n.targets) == 1 and isinstance(n.targets[0], ast.Name) \
                        and n.targets[0].id == base.id and isinstance(n.value, ast.Call) \
                        and isinstance(n.value.func, ast.Attribute) and n.value.func.attr == "peek_token" and n.value.args:
                    key = ("both", base.id, ast.unparse(n.value.args[0]))
        if key is None:
            return []

        def call_kinds(c):
            if isinstance(c, ast.Call) and isinstance(c.func, ast.Attribute) and c.func.attr == "check_token" and len(c.args) == 2:
                idx = ast.unparse(c.args[0])
                if key[0] == "name" or (key[0] == "idx" and idx != key[1]) or (key[0] == "both" and idx != key[2]):
                    return []
                ks = c.args[1]
                if isinstance(ks, ast.Constant) and isinstance(ks.value, str):
                    return [[ks.value]]
                v = self.const_strs(ks)
                return [v] if v else []
            return []

        def type_cmp(c, opcls):
            if isinstance(c, ast.Compare) and len(c.ops) == 1 and isinstance(c.ops[0], opcls) \
                    and isinstance(c.left, ast.Attribute) and c.left.attr == "type" \
                    and isinstance(c.comparators[0], ast.Constant) and isinstance(c.comparators[0].value, str):
                b = ast.unparse(c.left.value)
                if (key[0] in ("name", "both") and b == key[1]) or (key[0] in ("idx", "both") and b.endswith("peek_token(%s)" % key[-1])):
                    return [[c.comparators[0].value]]
            return []

        def is_const(c, v):
            return isinstance(c, ast.Compare) and len(c.ops) == 1 and isinstance(c.ops[0], ast.Is) \
                and isinstance(c.comparators[0], ast.Constant) and c.comparators[0].value is v

        def kinds_in_test(t):
            """constraints that hold when t is true"""
            if isinstance(t, ast.Call):
                return call_kinds(t)
            if is_const(t, True):
                return call_kinds(t.left)
            if isinstance(t, ast.BoolOp) and isinstance(t.op, ast.And):
                return [k for v in t.values for k in kinds_in_test(v)]
            if isinstance(t, ast.UnaryOp) and isinstance(t.op, ast.Not):
                return kinds_if_false(t.operand)
            return type_cmp(t, ast.Eq)

        def kinds_if_false(t):
            """constraints that hold when t is false"""
            if is_const(t, False):
                return call_kinds(t.left)
            if isinstance(t, ast.UnaryOp) and isinstance(t.op, ast.Not):
                return kinds_in_test(t.operand)
            if isinstance(t, ast.BoolOp) and isinstance(t.op, ast.Or):
                return [k for v in t.values for k in kinds_if_false(v)]
            return type_cmp(t, ast.NotEq)

        idx_names = set()
        if key[0] in ("idx", "both"):
            idx_names = {x.id for x in ast.walk(ast.parse(key[-1], mode="eval")) if isinstance(x, ast.Name)}
        if key[0] in ("name", "both"):
            idx_names.add(key[1])

        def modified(stmts):
            """is the index (or the token name) re-bound somewhere in these statements?"""
            for st in stmts:
                for x in ast.walk(st):
                    tg = []
                    if isinstance(x, ast.Assign):
                        tg = x.targets
                    elif isinstance(x, (ast.AugAssign, ast.AnnAssign, ast.NamedExpr, ast.For)):
                        tg = [x.target]
                    for t in tg:
                        for y in ast.walk(t):
                            if isinstance(y, ast.Name) and y.id in idx_names:
                                return True
            return False

        res = []
        cur = node
        while cur in self.parent:
            p = self.parent[cur]
            if isinstance(p, (ast.If, ast.While)) and cur in p.body and not modified(p.body[:p.body.index(cur)]):
                res += kinds_in_test(p.test)
            if isinstance(p, ast.IfExp) and cur is p.body:
                res += kinds_in_test(p.test)
            if isinstance(p, ast.BoolOp):
                for v in p.values:
                    if v is cur:
                        break
                    res += kinds_in_test(v) if isinstance(p.op, ast.And) else kinds_if_false(v)
            if isinstance(p, ast.Compare) or isinstance(p, ast.BoolOp):
                pass
            # guard statements earlier in the same block:  if not check_token(i, K): return
            for field in ("body", "orelse"):
                blk = getattr(p, field, None)
                if isinstance(blk, list) and cur in blk:
                    for k_, st in enumerate(blk[:blk.index(cur)]):
                        if modified(blk[k_ + 1:blk.index(cur)]):
                            continue
                        if isinstance(st, ast.If) and st.body and isinstance(st.body[-1], (ast.Return, ast.Raise, ast.Continue)):
                            res += kinds_if_false(st.test)
            if isinstance(p, (ast.While, ast.For)) and modified(p.body):
                break             # the index moves inside this loop: nothing established outside it survives
            cur = p
        if not res:
            return []
        ks = set(res[0])
        for r in res[1:]:
            ks &= set(r)
        return sorted(ks)

    def emit(self, form, node, origin):
        self.out.append((form, self.kinds_of(origin), getattr(node, "lineno", 0)))

    @staticmethod
    def wrap(form, wr):
        """apply the string wrappers (innermost first in wr) around a terminal form"""
        for w in reversed(wr):
            if w == "upper":
                form = "(FUpper %s)" % form
            elif w == "lower":
                form = "(FLower %s)" % form
            elif w in ("or_type", "or_empty", "padded", "piece"):
                continue          # handled by the terminal forms that allow them
            elif isinstance(w, tuple) and w[0] == "strip":
                form = "(FStrip %s %s)" % ("None" if w[1] is None else "(Some %s)" % q(w[1]), form)
            elif isinstance(w, tuple) and w[0] == "split":
                continue
            elif w in ("splitext0", "splitext1"):
                form = "(FSplitExt %s %s)" % ("false" if w == "splitext0" else "true", form)
            else:
                raise TranslateError("wrapper %r" % (w,))
        return form

    # ------------------------------------------------------------- the consumer of a tainted expression
    def consume(self, n, kind, wr, origin):
        p = self.parent.get(n)
        if p is None:
            self.fail(n, "the function boundary")
        only_len = any(w == "padded" for w in wr)
        split = [w for w in wr if isinstance(w, tuple) and w[0] == "split"]

        def terminal(form):
            if only_len or split:
                self.fail(p, "an operation on a padded/split spelling other than len")
            self.emit(self.wrap(form, wr), p, origin)

        # method call on the spelling
        if isinstance(p, ast.Attribute) and p.value is n:
            gp = self.parent.get(p)
            if not (isinstance(gp, ast.Call) and gp.func is p) or kind not in ("V",):
                self.fail(p, "an attribute of a spelling")
            m = p.attr
            cargs = [a.value for a in gp.args if isinstance(a, ast.Constant) and isinstance(a.value, str)]
            if len(cargs) != len(gp.args) or gp.keywords:
                self.fail(gp, "a string method with non-literal arguments")
            if m in ("startswith", "endswith") and len(cargs) == 1:
                return terminal("(%s %s)" % ("FStartsWith" if m == "startswith" else "FEndsWith", q(cargs[0])))
            if m == "isupper" and not cargs:
                return terminal("FIsUpper")
            if m == "islower" and not cargs:
                return terminal("FIsLower")
            if m in ("upper", "lower") and not cargs:
                return self.consume(gp, "V", wr + (m,), origin)
            if m == "strip" and len(cargs) <= 1:
                return self.consume(gp, "V", wr + (("strip", cargs[0] if cargs else None),), origin)
            if m == "split" and len(cargs) == 1 and not split:
                return self.consume(gp, "L", wr + (("split", cargs[0]),), origin)
            self.fail(gp, "string method .%s()" % m)
        if isinstance(p, ast.Compare):
            if len(p.ops) != 1:
                self.fail(p, "a chained comparison")
            op, other = p.ops[0], (p.comparators[0] if p.left is n else p.left)
            left = p.left is n
            if isinstance(op, (ast.Eq, ast.NotEq)) and kind == "V":
                if isinstance(other, ast.Constant) and isinstance(other.value, str):
                    return terminal("(FEqLit %s)" % q(other.value))
                if self.tainted_expr(other):
                    return terminal("FEqOther")
                if self.file_derived(other):
                    return terminal("FEqFileDerived")
                if isinstance(other, ast.Name) and other.id in self.params:
                    return terminal("(FEqParam %s %d)" % (qs(self.fn.name), self.params.index(other.id)))
                self.fail(p, "a comparison with an unclassified expression")
            if isinstance(op, (ast.In, ast.NotIn)) and left and kind == "V":
                ls = self.const_strs(other)
                if ls is not None:
                    return terminal("(FInLits [%s])" % "; ".join(q(x) for x in ls))
                self.fail(p, "a membership test in a non-literal collection")
            if isinstance(op, (ast.In, ast.NotIn)) and left and kind == "C":
                cs = self.const_charset(other)
                if cs is None:
                    self.fail(p, "a character test against a non-constant set")
                # shape of the loop: does the branch that fires end the loop?
                brk = False
                cur = p
                while cur in self.parent and not isinstance(self.parent[cur], ast.For):
                    cur = self.parent[cur]
                    if isinstance(cur, ast.If):
                        brk = any(isinstance(x, (ast.Break, ast.Return)) for s_ in cur.body for x in ast.walk(s_))
                        break
                neg = isinstance(op, ast.NotIn)
                return terminal("(%s %s %s)" % ("FCharsNotIn" if neg else "FCharsIn", q(cs), "true" if brk else "false"))
            if isinstance(op, (ast.In, ast.NotIn)) and not left and kind == "V" and isinstance(other, ast.Constant) \
                    and isinstance(other.value, str):
                return terminal("(FContains %s)" % q(other.value))
            if isinstance(op, (ast.Is, ast.IsNot)) and isinstance(other, ast.Constant) and other.value is None:
                return terminal("FIsNone")
            self.fail(p, "comparison operator %s" % type(op).__name__)
        if isinstance(p, ast.Call) and n in p.args:
            f = ast.unparse(p.func)
            if f == "len" and kind in ("V",):
                if split:
                    self.emit("(FSplitLens %s)" % q(split[0][1]), p, origin)
                else:
                    self.emit(self.wrap("FLen", tuple(w for w in wr if w != "padded")), p, origin)
                return
            if f == "enumerate" and kind == "L":
                return self.consume(p, "E", wr, origin)
            if f.endswith("fnames.append") and kind == "V":
                return terminal("(FStore %s)" % qs("scope.fnames"))
            if f in ("Macro", "cls") and kind == "V" and p.args[0] is n:
                return terminal("(FStore %s)" % qs("Macro.name"))
            if f == "os.path.splitext" and kind == "V":
                if "splitext0" in wr or "splitext1" in wr:
                    return        # `file, ext = os.path.splitext(file)`: the re-bound name, already followed
                gp = self.parent.get(p)
                if isinstance(gp, ast.Assign) and len(gp.targets) == 1 and isinstance(gp.targets[0], ast.Tuple) \
                        and len(gp.targets[0].elts) == 2 and all(isinstance(e, ast.Name) for e in gp.targets[0].elts):
                    for e, w in zip(gp.targets[0].elts, ("splitext0", "splitext1")):
                        self.derive(e.id, "V", wr + (w,), origin)
                    return
            if f == "print":
                return self.emit("FDebugPrint", p, origin)
            self.fail(p, "a call %s(...)" % f)
        if isinstance(p, ast.BinOp) and isinstance(p.op, ast.Add) and kind == "V":
            other = p.right if p.left is n else p.left
            if self.tainted_expr(other):
                self.fail(p, "a concatenation of two spellings")
            return self.consume(p, "V", wr + ("padded",), origin)
        if isinstance(p, ast.BoolOp) and isinstance(p.op, ast.Or) and p.values[0] is n and kind == "V" and len(p.values) == 2:
            o = p.values[1]
            w = "or_empty" if isinstance(o, ast.Constant) and o.value == "" else "or_type"
            if w == "or_type" and not (isinstance(o, ast.Attribute) and o.attr == "type"):
                self.fail(p, "`spelling or <expr>`")
            return self.consume(p, "V", wr + (w,), origin)
        if isinstance(p, ast.IfExp):
            if p.test is n:
                return terminal("FTruthy")
            other = p.orelse if p.body is n else p.body
            if isinstance(other, ast.Attribute) and other.attr == "type" or isinstance(other, ast.JoinedStr):
                return self.consume(p, kind, wr, origin)
            self.fail(p, "a conditional expression mixing a spelling with something else")
        if isinstance(p, (ast.If, ast.While)) and p.test is n:
            return terminal("FTruthy")
        if isinstance(p, ast.Assign) and p.value is n and len(p.targets) == 1:
            t = p.targets[0]
            if isinstance(t, ast.Name):
                return self.derive(t.id, kind, wr, origin)
            if isinstance(t, ast.Subscript) and isinstance(t.value, ast.Name) and t.value.id in self.derived:
                return            # written back into the list it came from (lines[0] = pad + lines[0])
            self.fail(p, "an assignment to %s" % ast.unparse(t))
        if isinstance(p, ast.AugAssign) and p.value is n and isinstance(p.op, ast.Add) \
                and isinstance(p.target, ast.Attribute) and p.target.attr == "header":
            self.out.append(("(FStore %s)" % qs("context.header"), self.kinds_of(origin), p.lineno))
            return
        if isinstance(p, ast.For) and p.iter is n:
            if kind == "V" and isinstance(p.target, ast.Name):
                if only_len or split:
                    self.fail(p, "iteration over a padded spelling")
                return self.derive(p.target.id, "C", wr, origin)
            if kind == "L" and isinstance(p.target, ast.Name):
                return self.derive(p.target.id, "V", wr + ("piece",), origin)
            if kind == "E" and isinstance(p.target, ast.Tuple) and len(p.target.elts) == 2 and isinstance(p.target.elts[1], ast.Name):
                return self.derive(p.target.elts[1].id, "V", wr + ("piece",), origin)
            self.fail(p, "a loop")
        if isinstance(p, ast.Subscript) and p.value is n and kind == "L":
            if isinstance(p.ctx, ast.Store):
                return
            return self.consume(p, "V", wr + ("piece",), origin)
        if isinstance(p, ast.FormattedValue):
            js = self.parent.get(p)
            return self.fstring(js, origin, kind, wr)
        if isinstance(p, ast.Return) and self.mod.rel.endswith("tokens.py"):
            return terminal("FTokenStr")
        self.fail(p, type(p).__name__)

    def fstring(self, js, origin, kind="V", wr=()):
        d = self.parent.get(js)
        while isinstance(d, ast.IfExp):
            d = self.parent.get(d)
        if isinstance(d, ast.Call):
            f = ast.unparse(d.func)
            if f.endswith("CParsingError"):
                return self.emit("FFatalMessage", js, origin)
            if f == "print":
                return self.emit("FDebugPrint", js, origin)
            if f == "getattr" and d.args and d.args[1] is js and len(js.values) == 2 and isinstance(js.values[0], ast.Constant):
                prefix = js.values[0].value
                names = sorted(m.name[len(prefix):] for m in self.mod.class_methods.get(self.owner, []) if m.name.startswith(prefix))
                form = "(FDispatch [%s])" % "; ".join(q(x) for x in names)
                return self.emit(self.wrap(form, wr), js, origin)
        if isinstance(d, (ast.Assign, ast.Return)) and self.mod.rel.endswith("tokens.py"):
            return self.emit("FTokenStr", js, origin)
        self.fail(js, "an f-string used as %s" % (ast.unparse(d)[:60] if d is not None else "?"))

    def derive(self, name, kind, wr, origin):
        key = (name, kind, wr)
        if key in self.done:
            return
        self.done.add(key)
        self.derived.setdefault(name, set()).add((kind, wr))
        for n in ast.walk(self.fn):
            if isinstance(n, ast.Name) and n.id == name and isinstance(n.ctx, ast.Load):
                self.consume(n, kind, wr, origin)

    # ------------------------------------------------------------- sources
    def run(self):
        for n in ast.walk(self.fn):
            if isinstance(n, ast.Call) and isinstance(n.func, ast.Name):
                if n.func.id in FORBIDDEN_DYNAMIC:
                    raise TranslateError("%s:%s: dynamic construct %s()" % (self.mod.rel, self.where, n.func.id))
                if n.func.id in ("str", "repr", "format") and n.args and not isinstance(n.args[0], ast.Constant):
                    src = ast.unparse(n.args[0])
                    if "peek_token(" in src or "tokens[" in src or src in ("token", "tkn", "t", "self"):
                        p = self.parent.get(n)
                        if isinstance(p, ast.Call) and ast.unparse(p.func) == "len":
                            self.out.append(("FLenStr", self.kinds_of(n.args[0]), n.lineno))
                        elif isinstance(p, ast.Call) and ast.unparse(p.func) == "print":
                            self.out.append(("FDebugPrint", [], n.lineno))
                        else:
                            self.fail(n, "str(token) used other than in len()")
                    elif self.mod.rel.endswith("errors.py") and self.fn.name == "__repr__":
                        pass          # repr of the list of Error objects (they hold positions and lengths, no spelling)
                    elif not self.tainted_expr(n.args[0]):
                        raise TranslateError("%s:%s line %d: str() of an unclassified expression %s" % (
                            self.mod.rel, self.where, n.lineno, src))
                if n.func.id == "print":
                    self.out.append(("FDebugPrint", [], n.lineno))
            if isinstance(n, ast.Attribute) and n.attr == "__dict__":
                raise TranslateError("%s:%s: __dict__ access" % (self.mod.rel, self.where))
            if isinstance(n, ast.Attribute) and isinstance(n.ctx, ast.Load):
                if n.attr in LEN_ATTRS:
                    self.out.append(("FLen", self.kinds_of(n), n.lineno))
                elif n.attr == "value":
                    self.consume(n, "V", (), n)
                elif n.attr == "fnames":
                    p = self.parent.get(n)
                    if isinstance(p, ast.Attribute) and p.attr == "append":
                        continue
                    if isinstance(p, ast.Subscript) and p.value is n:
                        self.consume(p, "V", (), n)
                    else:
                        self.fail(n, "a read of scope.fnames other than an element")
                elif n.attr == "header" and not isinstance(self.parent.get(n), ast.AugAssign):
                    p = self.parent.get(n)
                    if isinstance(p, ast.Call) and ast.unparse(p.func).endswith(".search"):
                        self.out.append(("FHeaderRegex", ["MULT_COMMENT"], n.lineno))
                    else:
                        self.fail(n, "a read of context.header other than regex.search(context.header)")
                elif n.attr == "name" and isinstance(n.value, ast.Name) and n.value.id == "macro":
                    # Macro.name: the stored spelling of a #define
                    self.consume(n, "V", (), n)
        for n in ast.walk(self.fn):      # second pass: the derived names are known now
            if isinstance(n, ast.JoinedStr):
                # an f-string none of whose fields is a (tainted) spelling: its fields must be of a harmless shape
                for fv in n.values:
                    if not isinstance(fv, ast.FormattedValue) or self.tainted_expr(fv.value):
                        continue
                    e = fv.value
                    src = ast.unparse(e)
                    d = self.parent.get(n)
                    while isinstance(d, (ast.IfExp, ast.BinOp)):
                        d = self.parent.get(d)
                    dest = ast.unparse(d.func) if isinstance(d, ast.Call) else ""
                    if dest.endswith("CParsingError"):
                        self.out.append(("FFatalMessage", [], n.lineno))
                    elif dest == "print":
                        self.out.append(("FDebugPrint", [], n.lineno))
                    elif isinstance(e, ast.Attribute) and e.attr in ("type", "name", "basename", "filename") \
                            or src in ("directive", "self.directive", "rule"):
                        continue
                    elif self.mod.rel.endswith("tokens.py") or self.mod.rel.endswith("errors.py") or "colors(" in src:
                        continue
                    else:
                        self.fail(n, "an f-string field of unclassified shape {%s}" % src)
        return self.out


class Mod:
    def __init__(self, repo, path):
        self.rel = os.path.relpath(path, repo)
        with open(path) as f:
            self.tree = ast.parse(f.read(), filename=path)
        self.consts = {}
        for n in self.tree.body:
            if isinstance(n, ast.Assign) and len(n.targets) == 1 and isinstance(n.targets[0], ast.Name):
                self.consts[n.targets[0].id] = n.value
        self.class_methods = {}
        for n in ast.walk(self.tree):
            if isinstance(n, ast.ClassDef):
                self.class_methods[n.name] = [m for m in n.body if isinstance(m, (ast.FunctionDef, ast.AsyncFunctionDef))]

    def functions(self):
        def rec(body, owner):
            for n in body:
                if isinstance(n, (ast.FunctionDef, ast.AsyncFunctionDef)):
                    yield n, owner
                elif isinstance(n, ast.ClassDef):
                    yield from rec(n.body, n.name)
        yield from rec(self.tree.body, "")


def gen_value_reads(repo, L):
    paths = sorted(glob.glob(os.path.join(repo, "norminette/rules/*.py"))) + [os.path.join(repo, f) for f in FILES]
    entries = []
    mods = [Mod(repo, p) for p in paths]
    calls = {}     # function name -> list of (module, Call)
    for m in mods:
        for n in ast.walk(m.tree):
            if isinstance(n, ast.Call):
                nm = n.func.attr if isinstance(n.func, ast.Attribute) else (n.func.id if isinstance(n.func, ast.Name) else None)
                if nm:
                    calls.setdefault(nm, []).append((m, n))
    for m in mods:
        for fn, owner in m.functions():
            a = Fn(m, fn, owner)
            for form, kinds, line in a.run():
                entries.append((m.rel, a.where, kinds, form, line))
    # a spelling compared with a parameter: classify what the callers pass
    resolved = []
    for rel, where, kinds, form, line in entries:
        if form.startswith("(FEqParam ") or "(FEqParam " in form:
            import re
            mm = re.search(r'\(FEqParam "(\w+)"%string (\d+)\)', form)
            fname, idx = mm.group(1), int(mm.group(2)) - 1       # params include self
            sites = calls.get(fname, [])
            if not sites:
                raise TranslateError("%s: %s compares a spelling with its parameter but is never called" % (rel, fname))
            repl = None
            for cm, c in sites:
                if idx >= len(c.args):
                    raise TranslateError("%s: call of %s without positional argument %d" % (cm.rel, fname, idx))
                arg = c.args[idx]
                # the enclosing function of the call decides whether the argument is derived from the file name
                encl = None
                for fn, owner in cm.functions():
                    if any(x is c for x in ast.walk(fn)):
                        encl = Fn(cm, fn, owner)
                if isinstance(arg, ast.Constant) and isinstance(arg.value, str):
                    r = "(FEqLit %s)" % q(arg.value)
                elif encl is not None and encl.file_derived(arg):
                    r = "FEqFileDerived"
                else:
                    raise TranslateError("%s: argument %s of %s(): unclassified" % (cm.rel, ast.unparse(arg), fname))
                if repl not in (None, r):
                    raise TranslateError("%s(): callers pass different kinds of names" % fname)
                repl = r
            form = form[:mm.start()] + repl + form[mm.end():]
        resolved.append((rel, where, kinds, form, line))
    entries = sorted(set((a, b, tuple(c), d) for a, b, c, d, _ in resolved))
    import re
    lits = set()
    for _, _, _, form in entries:
        for mm in re.finditer(r'\((FEqLit|FInLits|FDispatch) (\[[^\]]*\]|\(s "[^"]*"%string\))', form):
            for x in re.findall(r'\(s "([^"]*)"%string\)', mm.group(2)):
                lits.add(x)
    o = "From NV Require Import Model.Base Model.Obs.\n\n"
    o += "(* (file, function, token kinds when syntactically evident ([] = not evident), form): every syntactic read of a\n"
    o += "   token's spelling in rules/*.py, context.py, registry.py, scope.py, errors.py, lexer/tokens.py *)\n"
    o += "Definition value_reads : list (string * string * list string * form) :=\n  [%s].\n\n" % ";\n   ".join(
        "(%s, %s, [%s], %s)" % (qs(a), qs(b), "; ".join(qs(k) for k in c), d) for a, b, c, d in entries)
    o += "(* every string literal an identifier spelling is compared with (==, in, getattr dispatch), any case *)\n"
    o += "Definition special_literals : list str :=\n  [%s].\n" % "; ".join(q(x) for x in sorted(lits))
    return o


GENERATORS = {"ValueReads": gen_value_reads}

if __name__ == "__main__":
    import sys
    print(gen_value_reads(sys.argv[1] if len(sys.argv) > 1 else "/repo", {}))
