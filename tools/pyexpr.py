"""Fail-closed translation of a tiny, pure subset of Python (if/return/compare/and/or/
len/min/bool/all/any) into Gallina text.  Used by translate.py for the comparators of
errors.py, Errors.status and the exit expression of __main__.py.  Anything outside the
subset raises TranslateError: a broken tie, never a guess."""
import ast


class TranslateError(Exception):
    pass


def coq_str(x: str) -> str:
    ok = all(32 <= ord(ch) < 127 and ch not in '"' for ch in x)
    if ok:
        return '(s "%s"%%string)' % x
    return "([" + "; ".join(str(ord(ch)) for ch in x) + "]%N : str)"


# (owner type, attribute) -> (coq projection, result type)
ATTRS = {
    ("hl", "lineno"): ("h_line", "Z"),
    ("hl", "column"): ("h_col", "Z"),
    ("hl", "length"): ("h_len", "optZ"),
    ("hl", "hint"): ("h_hint", "optstr"),
    ("diag", "name"): ("d_name", "str"),
    ("diag", "text"): ("d_text", "str"),
    ("diag", "level"): ("d_level", "str"),
    ("diag", "highlights"): ("d_hls", "hls"),
    ("errors", "_inner"): ("", "diags"),          # Errors is modelled as its list
    ("errors", "status"): ("status", "str"),
    ("file", "errors"): ("f_errors", "errors"),
}


class Tr:
    def __init__(self, env):
        self.env = dict(env)     # python name -> (coq text, type)

    def fail(self, node, why):
        raise TranslateError("%s at line %s: %s" % (why, getattr(node, "lineno", "?"), ast.dump(node)[:200]))

    # ---------------------------------------------------------------- expressions
    def expr(self, n):
        if isinstance(n, ast.Name):
            if n.id not in self.env:
                self.fail(n, "unknown name")
            return self.env[n.id]
        if isinstance(n, ast.Constant):
            if isinstance(n.value, bool):
                return ("true" if n.value else "false", "bool")
            if isinstance(n.value, int):
                return ("(%d)" % n.value, "Z")
            if isinstance(n.value, str):
                return (coq_str(n.value), "str")
            self.fail(n, "constant")
        if isinstance(n, ast.Attribute):
            o, t = self.expr(n.value)
            key = (t, n.attr)
            if key not in ATTRS:
                self.fail(n, "unknown attribute")
            proj, rt = ATTRS[key]
            return ("(%s %s)" % (proj, o) if proj else o, rt)
        if isinstance(n, ast.Tuple):
            parts = [self.expr(e) for e in n.elts]
            if len(parts) == 2 and all(t == "Z" for _, t in parts):
                return ("(%s, %s)" % (parts[0][0], parts[1][0]), "ZZ")
            self.fail(n, "tuple")
        if isinstance(n, ast.BoolOp):
            parts = [self.expr(e) for e in n.values]
            if isinstance(n.op, ast.Or) and len(parts) == 2 and parts[0][1] == "optstr" and parts[1][1] == "str" \
                    and isinstance(n.values[1], ast.Constant) and n.values[1].value == "":
                return ("(or_empty %s)" % parts[0][0], "str")
            bs = [self.truth(e) for e in n.values]
            op = " || " if isinstance(n.op, ast.Or) else " && "
            return ("(" + op.join(bs) + ")", "bool")
        if isinstance(n, ast.UnaryOp) and isinstance(n.op, ast.Not):
            return ("(negb %s)" % self.truth(n.operand), "bool")
        if isinstance(n, ast.Compare):
            if len(n.ops) != 1:
                self.fail(n, "chained comparison")
            a, ta = self.expr(n.left)
            b, tb = self.expr(n.comparators[0])
            op = n.ops[0]
            if ta != tb:
                self.fail(n, "comparison of different types %s %s" % (ta, tb))
            tbl = {
                ("Z", ast.Eq): "(Z.eqb %s %s)", ("Z", ast.Lt): "(Z.ltb %s %s)", ("Z", ast.Gt): "(Z.ltb %[2]s %[1]s)",
                ("Z", ast.NotEq): "(negb (Z.eqb %s %s))", ("Z", ast.LtE): "(Z.leb %s %s)",
                ("Z", ast.GtE): "(Z.leb %[2]s %[1]s)",
                ("str", ast.Eq): "(str_eqb %s %s)", ("str", ast.NotEq): "(negb (str_eqb %s %s))",
                ("str", ast.Lt): "(str_ltb %s %s)", ("str", ast.Gt): "(str_ltb %[2]s %[1]s)",
                ("ZZ", ast.Lt): "(pair_ltb %s %s)", ("ZZ", ast.Gt): "(pair_ltb %[2]s %[1]s)",
            }
            key = (ta, type(op))
            if key not in tbl:
                self.fail(n, "comparison operator")
            f = tbl[key]
            if "%[" in f:
                return (f.replace("%[2]s", b).replace("%[1]s", a), "bool")
            return (f % (a, b), "bool")
        if isinstance(n, ast.IfExp):
            c = self.truth(n.test)
            a, ta = self.expr(n.body)
            b, tb = self.expr(n.orelse)
            if ta != tb:
                self.fail(n, "conditional branches of different types")
            return ("(if %s then %s else %s)" % (c, a, b), ta)
        if isinstance(n, ast.Call) and isinstance(n.func, ast.Name) and not n.keywords:
            f = n.func.id
            if f == "len" and len(n.args) == 1:
                a, t = self.expr(n.args[0])
                if t in ("str", "hls", "diags", "errors"):
                    return ("(zlen %s)" % a, "Z")
                self.fail(n, "len of %s" % t)
            if f == "bool" and len(n.args) == 1:
                return (self.truth(n.args[0]), "bool")
            if f == "min" and len(n.args) == 1:
                a, t = self.expr(n.args[0])
                if t == "hls":
                    return ("(min_by hl_lt hl0 %s)" % a, "hl")
                self.fail(n, "min of %s" % t)
            if f in ("all", "any") and len(n.args) == 1 and isinstance(n.args[0], ast.GeneratorExp):
                g = n.args[0]
                if len(g.generators) != 1 or g.generators[0].ifs or not isinstance(g.generators[0].target, ast.Name):
                    self.fail(n, "generator shape")
                it, t = self.expr(g.generators[0].iter)
                elt = {"diags": "diag", "errors": "diag", "files": "file", "hls": "hl"}.get(t)
                if elt is None:
                    self.fail(n, "iteration over %s" % t)
                v = g.generators[0].target.id
                sub = Tr(self.env)
                sub.env[v] = ("x_" + v, elt)
                body = sub.truth(g.elt)
                comb = "forallb" if f == "all" else "existsb"
                return ("(%s (fun x_%s => %s) %s)" % (comb, v, body, it), "bool")
        self.fail(n, "expression outside the translated subset")

    def truth(self, n):
        a, t = self.expr(n)
        if t == "bool":
            return a
        if t in ("hls", "diags", "str", "errors"):
            return "(nonempty %s)" % a
        if t == "Z":
            return "(negb (Z.eqb %s 0))" % a
        self.fail(n, "truth value of %s" % t)

    # ---------------------------------------------------------------- statements
    def body(self, stmts, want):
        """Translate a statement list that must end by returning on every path."""
        if not stmts:
            raise TranslateError("path without return")
        st, rest = stmts[0], stmts[1:]
        if isinstance(st, ast.Expr) and isinstance(st.value, ast.Constant) and isinstance(st.value.value, str):
            return self.body(rest, want)            # docstring
        if isinstance(st, ast.Assert):
            t = st.test
            if isinstance(t, ast.Call) and isinstance(t.func, ast.Name) and t.func.id == "isinstance":
                return self.body(rest, want)
            self.fail(st, "assert")
        if isinstance(st, ast.Return):
            if st.value is None:
                self.fail(st, "bare return")
            a, t = self.expr(st.value)
            if t != want:
                if want == "bool":
                    return self.truth(st.value)
                self.fail(st, "return type %s, expected %s" % (t, want))
            return a
        if isinstance(st, ast.If):
            c = self.truth(st.test)
            # a branch that does not return on every path falls through to `rest`
            thn = self.body(st.body if self._returns(st.body) else st.body + rest, want)
            els = self.body(st.orelse if self._returns(st.orelse) else st.orelse + rest, want)
            return "(if %s then %s else %s)" % (c, thn, els)
        if isinstance(st, ast.Assign) and len(st.targets) == 1:
            tg = st.targets[0]
            if isinstance(tg, ast.Name):
                a, t = self.expr(st.value)
                sub = Tr(self.env)
                sub.env[tg.id] = ("v_" + tg.id, t)
                return "(let v_%s := %s in %s)" % (tg.id, a, sub.body(rest, want))
            if isinstance(tg, ast.Tuple) and isinstance(st.value, ast.Tuple) and len(tg.elts) == len(st.value.elts) \
                    and all(isinstance(e, ast.Name) for e in tg.elts):
                sub = Tr(self.env)
                out = ""
                vals = [self.expr(v) for v in st.value.elts]   # evaluated before binding
                for e, (a, t) in zip(tg.elts, vals):
                    sub.env[e.id] = ("v_" + e.id, t)
                    out += "let v_%s := %s in " % (e.id, a)
                return "(" + out + sub.body(rest, want) + ")"
        self.fail(st, "statement outside the translated subset")

    def _returns(self, stmts):
        if not stmts:
            return False
        last = stmts[-1]
        if isinstance(last, ast.Return):
            return True
        if isinstance(last, ast.If):
            return self._returns(last.body) and bool(last.orelse) and self._returns(last.orelse)
        return False
