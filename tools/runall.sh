#!/bin/sh
# tools/runall.sh [tier]  - every claimed check, one after the other; prints one summary line per check
cd "$(dirname "$0")/.."
TIER="${1:-quick}"
for p in $(python3 -c "import json;print(' '.join(c['property_id'] for c in json.load(open('MANIFEST.json'))['checks']))"); do
  s=$(date +%s)
  out=$(./check $p --tier $TIER 2>&1); rc=$?
  e=$(date +%s)
  echo "$p rc=$rc $((e-s))s | $(echo "$out" | grep -c '^VIOLATION') violation lines | $(echo "$out" | tail -1)"
done
