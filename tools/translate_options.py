"""Gen/Options.v - where the command-line options are read (C16).

Emitted from the ASTs of /repo/norminette (syntactic, fail closed):
  debug_reads        every read of `<x>.debug` / the local `debug` of main() / the parameter `debug` of
                     Context.__init__, with the kind of use (what the test guards)
  skip_reads         every read of `.skip_define` / `added_value`
  define_codes_before_guard / define_codes_after_guard / define_after_guard_calls / define_after_guard_targets
                     structure of CheckPreprocessorDefine.run around `if context.preproc.skip_define: return`
  silenced_code_mentions   every string constant equal to one of the codes emitted after the guard, per file
  dynamic_emitters   emission calls whose code is not a string literal
  main_args_reads    every read of `args.<dest>` in __main__.py with the statement it occurs in
  inline_branch      the statements of main()'s `if args.cfile or args.hfile:` branch (incl. the newline translation)
  formatter_option_reads   reads of the formatter options in errors.py
  presentation_names_in_analysis   uses of the presentation names outside __main__.py / errors.py
  argparse_table     the add_argument calls: flags, dest, action, default, nargs
The reviewed copies live in Model/Options.v; Proofs/OptionsProofs.v proves equality by reflexivity."""
import ast
import glob
import os

from pyexpr import TranslateError

EMIT_FUNCS = {"new_error", "new_warning", "from_name"}
PRESENTATION = {"use_colors", "no_colors", "only_filename", "cfile", "hfile"}


def lit(x):
    if not all(32 <= ord(c) < 127 for c in x):
        raise TranslateError("non-ASCII in options table entry: %r" % x)
    return '"' + x.replace('"', '""') + '"%string'


def lst(xs):
    return "[" + "; ".join(xs) + "]"


def tup(*xs):
    return "(" + ", ".join(xs) + ")"


def src_files(repo):
    files = []
    for pat in ("norminette/*.py", "norminette/lexer/*.py", "norminette/rules/*.py", "norminette/tools/*.py"):
        files += glob.glob(os.path.join(repo, pat))
    if not files:
        raise OSError("no source under %s/norminette" % repo)
    return sorted(files)


def parents(tree):
    par = {}
    for n in ast.walk(tree):
        for c in ast.iter_child_nodes(n):
            par[c] = n
    return par


def where(par, n):
    """'Class.function' (or 'Class' / '<module>') enclosing node n"""
    names = []
    while n in par:
        n = par[n]
        if isinstance(n, (ast.FunctionDef, ast.AsyncFunctionDef, ast.ClassDef, ast.Lambda)):
            names.append(getattr(n, "name", "<lambda>"))
    return ".".join(reversed(names)) or "<module>"


def enclosing_stmt(par, n):
    while not isinstance(n, ast.stmt):
        n = par[n]
    return n


def enclosing_func(par, n):
    while n in par:
        n = par[n]
        if isinstance(n, (ast.FunctionDef, ast.AsyncFunctionDef)):
            return n
    return None


def is_print(st):
    return isinstance(st, ast.Expr) and isinstance(st.value, ast.Call) and isinstance(st.value.func, ast.Name) \
        and st.value.func.id == "print"


def body_kind(body):
    """what a guarded block does, in a closed vocabulary; anything else is spelled out (and will not be in the reviewed list)"""
    kinds = []
    for st in body:
        if isinstance(st, ast.Raise):
            exc = st.exc
            name = ast.unparse(exc.func) if isinstance(exc, ast.Call) else ast.unparse(exc) if exc else ""
            kinds.append("raise " + name)
        elif isinstance(st, ast.Pass):
            kinds.append("pass")
        elif isinstance(st, ast.Return) and st.value is None:
            kinds.append("return")
        elif is_print(st):
            kinds.append("print")
        else:
            kinds.append("OTHER " + ast.unparse(st)[:60].replace("\n", " "))
    out = []
    for k in kinds:
        if not out or out[-1] != k:
            out.append(k)
    return ",".join(out)


def effect_free_print_only(stmts, locals_):
    """True when the statements only print: local-name assignments, for/if, print(...) - no attribute stores, no
    other calls as statements, no raise"""
    for st in stmts:
        if is_print(st):
            continue
        if isinstance(st, (ast.Assign, ast.AugAssign)):
            tg = st.targets if isinstance(st, ast.Assign) else [st.target]
            if all(isinstance(t, ast.Name) for t in tg):
                continue
            return False
        if isinstance(st, ast.For):
            if isinstance(st.target, ast.Name) and effect_free_print_only(st.body + st.orelse, locals_):
                continue
            return False
        if isinstance(st, ast.If):
            if effect_free_print_only(st.body + st.orelse, locals_):
                continue
            return False
        if isinstance(st, ast.Expr) and isinstance(st.value, ast.Constant):
            continue      # docstring
        return False
    return True


def classify_read(par, n):
    """kind of use of an expression node n that reads an option value"""
    p = par[n]
    # comparison used as (part of) an if/elif test
    if isinstance(p, ast.Compare) and p.left is n and len(p.ops) == 1 and isinstance(p.comparators[0], ast.Constant):
        op = {ast.Eq: "==", ast.NotEq: "!=", ast.Lt: "<", ast.LtE: "<=", ast.Gt: ">", ast.GtE: ">="}.get(type(p.ops[0]))
        if op is None:
            raise TranslateError("comparison operator on an option value: %s" % ast.unparse(p))
        cmp_txt = "compare %s %s" % (op, ast.unparse(p.comparators[0]))
        q = par[p]
        if isinstance(q, ast.If) and q.test is p:
            k = cmp_txt + " guarding " + body_kind(q.body)
            if q.orelse and not (len(q.orelse) == 1 and isinstance(q.orelse[0], ast.If)):
                k += " else " + body_kind(q.orelse)
            fn = enclosing_func(par, q)
            if body_kind(q.body) == "return" and fn is not None and q in fn.body:
                rest = fn.body[fn.body.index(q) + 1:]
                k += "; rest of function " + ("print-only" if effect_free_print_only(rest, set()) else "HAS EFFECTS")
            return k
        return cmp_txt + " inside " + ast.unparse(enclosing_stmt(par, p))[:80].replace("\n", " ")
    if isinstance(p, ast.Call):
        fn = ast.unparse(p.func)
        if n in p.args:
            return "argument %d of %s" % (p.args.index(n), fn)
        for kw in p.keywords:
            if kw.value is n:
                return "keyword %s of %s" % (kw.arg, fn)
    if isinstance(p, ast.Assign) and p.value is n and len(p.targets) == 1:
        return "assigned to " + ast.unparse(p.targets[0])
    if isinstance(p, ast.If) and p.test is n:
        return "truth test guarding " + body_kind(p.body)
    st = enclosing_stmt(par, n)
    head = ast.unparse(st.test) if isinstance(st, (ast.If, ast.While)) else ast.unparse(st)
    return "in " + " ".join(head.split())[:100]


def check_dynamic(rel, tree, par):
    """no reflective access that could read an option without naming it"""
    for n in ast.walk(tree):
        if isinstance(n, ast.Call) and isinstance(n.func, ast.Name) and n.func.id in ("getattr", "vars", "eval", "exec"):
            if n.func.id == "getattr" and len(n.args) >= 2:
                a = n.args[1]
                if isinstance(a, ast.Constant) and isinstance(a.value, str) and a.value not in (
                        "debug", "skip_define", "options", "use_colors"):
                    continue
                if isinstance(a, ast.JoinedStr) and a.values and isinstance(a.values[0], ast.Constant) \
                        and str(a.values[0].value).startswith("check_"):
                    continue
            raise TranslateError("%s: reflective access %s in %s" % (rel, ast.unparse(n)[:60], where(par, n)))
        if isinstance(n, ast.Attribute) and n.attr == "__dict__":
            raise TranslateError("%s: __dict__ access in %s" % (rel, where(par, n)))


def emission_code(call):
    """(is emission call, code literal or None, source of the code expression)"""
    f = call.func
    name = f.attr if isinstance(f, ast.Attribute) else f.id if isinstance(f, ast.Name) else None
    is_emit = name in EMIT_FUNCS or (name in ("add", "append") and isinstance(f, ast.Attribute)
                                     and ast.unparse(f.value).endswith("errors"))
    if name == "Error" and isinstance(f, ast.Name):
        is_emit = True
    if not is_emit or not call.args:
        return False, None, ""
    a = call.args[0]
    if isinstance(a, ast.Constant) and isinstance(a.value, str):
        return True, a.value, ast.unparse(a)
    return True, None, ast.unparse(a)


def error_object_name(par, call):
    """the first argument is a local name bound (only) to Error(...)/Error.from_name(...) results in this function:
    the code is then the literal / expression of that constructor call, which is itself an emission call"""
    a = call.args[0]
    if not isinstance(a, ast.Name):
        return False
    fn = enclosing_func(par, call)
    if fn is None:
        return False
    binds = []
    for n in ast.walk(fn):
        if isinstance(n, ast.Assign) and any(isinstance(t, ast.Name) and t.id == a.id for t in n.targets):
            binds.append(n.value)
        elif isinstance(n, (ast.AugAssign, ast.AnnAssign, ast.NamedExpr, ast.For)) and isinstance(n.target, ast.Name) \
                and n.target.id == a.id:
            return False
    if not binds or any(x.arg == a.id for x in fn.args.args + fn.args.kwonlyargs + fn.args.posonlyargs):
        return False
    return all(isinstance(v, ast.Call) and ast.unparse(v.func) in ("Error", "Error.from_name") for v in binds)


def gen_options(repo, L):
    debug_reads, skip_reads, pres_in_analysis, dynamic_emitters = [], [], [], []
    trees = {}
    for p in src_files(repo):
        rel = os.path.relpath(p, repo)
        with open(p) as f:
            tree = ast.parse(f.read(), filename=p)
        par = parents(tree)
        trees[rel] = (tree, par)
        check_dynamic(rel, tree, par)
        for n in ast.walk(tree):
            # ---- debug
            if isinstance(n, ast.Attribute) and n.attr == "debug":
                if isinstance(n.ctx, ast.Load):
                    debug_reads.append((rel, where(par, n), ast.unparse(n) + ": " + classify_read(par, n)))
                else:
                    st = enclosing_stmt(par, n)
                    debug_reads.append((rel, where(par, n), "STORE " + " ".join(ast.unparse(st).split())[:80]))
            elif isinstance(n, ast.Name) and n.id == "debug" and isinstance(n.ctx, ast.Load):
                debug_reads.append((rel, where(par, n), "debug: " + classify_read(par, n)))
            elif isinstance(n, ast.Name) and n.id == "debug" and isinstance(n.ctx, ast.Store):
                st = enclosing_stmt(par, n)
                debug_reads.append((rel, where(par, n), "STORE " + " ".join(ast.unparse(st).split())[:80]))
            # ---- skip_define / added_value
            if isinstance(n, ast.Attribute) and n.attr == "skip_define":
                if isinstance(n.ctx, ast.Load):
                    skip_reads.append((rel, where(par, n), ast.unparse(n) + ": " + classify_read(par, n)))
                else:
                    st = enclosing_stmt(par, n)
                    skip_reads.append((rel, where(par, n), "STORE " + " ".join(ast.unparse(st).split())[:100]))
            elif isinstance(n, ast.Name) and n.id == "added_value" and isinstance(n.ctx, ast.Load):
                skip_reads.append((rel, where(par, n), "added_value: " + classify_read(par, n)))
            # ---- presentation names outside the CLI / formatter modules
            if rel not in ("norminette/__main__.py", "norminette/errors.py"):
                if isinstance(n, ast.Name) and n.id in PRESENTATION:
                    pres_in_analysis.append((rel, where(par, n), n.id))
                if isinstance(n, ast.Attribute) and n.attr in (PRESENTATION | {"options", "argv"}):
                    pres_in_analysis.append((rel, where(par, n), ast.unparse(n)))
                if isinstance(n, ast.arg) and n.arg in PRESENTATION:
                    pres_in_analysis.append((rel, where(par, n), "parameter " + n.arg))
            # ---- emission calls with a computed code
            if isinstance(n, ast.Call):
                is_emit, code, src = emission_code(n)
                if is_emit and code is None and not error_object_name(par, n):
                    dynamic_emitters.append((rel, where(par, n), " ".join(src.split())[:80]))

    # ---- CheckPreprocessorDefine.run around the guard
    drel = "norminette/rules/check_preprocessor_define.py"
    tree, par = trees[drel]                                     # KeyError = file gone = broken tie
    runs = [n for n in ast.walk(tree) if isinstance(n, ast.FunctionDef) and n.name == "run"]
    if len(runs) != 1:
        raise TranslateError("check_preprocessor_define.py: expected exactly one run()")
    run = runs[0]
    guards = [i for i, st in enumerate(run.body)
              if isinstance(st, ast.If) and ast.unparse(st.test) == "context.preproc.skip_define"]
    if len(guards) != 1:
        raise TranslateError("check_preprocessor_define.py: expected exactly one top-level `if context.preproc.skip_define:`")
    g = run.body[guards[0]]
    if g.orelse or len(g.body) != 1 or not (isinstance(g.body[0], ast.Return) and g.body[0].value is None):
        raise TranslateError("check_preprocessor_define.py: the skip_define guard is not `return`")
    all_skip = [n for n in ast.walk(run) if isinstance(n, ast.Attribute) and n.attr == "skip_define"]
    if len(all_skip) != 1:
        raise TranslateError("check_preprocessor_define.py: skip_define read more than once in run()")

    def codes_of(stmts):
        out = []
        for st in stmts:
            for n in ast.walk(st):
                if isinstance(n, ast.Call):
                    is_emit, code, src = emission_code(n)
                    if is_emit:
                        if code is None:
                            raise TranslateError("check_preprocessor_define.py: computed diagnostic code %s" % src)
                        out.append((n.lineno, n.col_offset, code))
        return [c for _, _, c in sorted(out)]

    before = codes_of(run.body[:guards[0]])
    after = codes_of(run.body[guards[0] + 1:])
    both = sorted(set(before) & set(after))
    if both:
        # silencing is modelled as a filter on the code: a code emitted on both sides of the guard would make the
        # filter remove diagnostics that -R CheckDefine keeps
        raise TranslateError("check_preprocessor_define.py: code(s) %s emitted both before and after the skip_define guard" % both)
    calls, targets = set(), set()
    for st in run.body[guards[0] + 1:]:
        for n in ast.walk(st):
            if isinstance(n, ast.Call):
                calls.add(ast.unparse(n.func))
            if isinstance(n, (ast.Assign, ast.AugAssign, ast.AnnAssign, ast.NamedExpr)):
                tg = n.targets if isinstance(n, ast.Assign) else [n.target]
                for t in tg:
                    targets.add(ast.unparse(t))
            if isinstance(n, (ast.Raise, ast.Global, ast.Nonlocal, ast.Delete, ast.With, ast.Try, ast.Import, ast.ImportFrom,
                              ast.FunctionDef, ast.ClassDef, ast.Yield, ast.YieldFrom, ast.Await, ast.Lambda)):
                raise TranslateError("check_preprocessor_define.py: unexpected construct after the guard: %s" % type(n).__name__)
    # the rule returns nothing: Registry.run_rules ignores a Check's result, so what follows the guard can only act
    # through the calls and assignments listed here
    for n in ast.walk(run):
        if isinstance(n, ast.Return) and n.value is not None:
            raise TranslateError("check_preprocessor_define.py: run() returns a value")

    silenced = sorted(set(after))
    mentions = []
    for rel, (tree2, par2) in sorted(trees.items()):
        for n in ast.walk(tree2):
            if isinstance(n, ast.Constant) and isinstance(n.value, str) and n.value in silenced:
                mentions.append((rel, n.value))
    mentions = sorted(set(mentions))

    # ---- __main__.py: args.<dest> reads, argparse table
    mrel = "norminette/__main__.py"
    tree, par = trees[mrel]
    mains = [n for n in tree.body if isinstance(n, ast.FunctionDef) and n.name == "main"]
    if len(mains) != 1:
        raise TranslateError("__main__.py: main() not found")
    args_reads = []
    for n in ast.walk(tree):
        if isinstance(n, ast.Attribute) and isinstance(n.value, ast.Name) and n.value.id == "args":
            if not isinstance(n.ctx, ast.Load):
                raise TranslateError("__main__.py: args.%s is assigned" % n.attr)
            st = enclosing_stmt(par, n)
            if isinstance(st, (ast.If, ast.While)):
                head = "if " + ast.unparse(st.test)
            elif isinstance(st, ast.For):
                head = "for " + ast.unparse(st.target) + " in " + ast.unparse(st.iter)
            elif isinstance(st, ast.Try):
                raise TranslateError("__main__.py: args read directly in a try header")
            else:
                head = ast.unparse(st)
            args_reads.append((n.attr, where(par, n), " ".join(head.split())[:120]))
        elif isinstance(n, ast.Name) and n.id == "args" and isinstance(n.ctx, ast.Load):
            if not (isinstance(par[n], ast.Attribute) and par[n].value is n):
                raise TranslateError("__main__.py: `args` used as a whole: %s" % ast.unparse(enclosing_stmt(par, n))[:80])
    args_reads = sorted(set(args_reads))

    # ---- the inline branch of main(): every statement of `if args.cfile or args.hfile:` (what happens to the content
    #      between the command line and File(...))
    inl = [n for n in ast.walk(mains[0]) if isinstance(n, ast.If) and ast.unparse(n.test) == "args.cfile or args.hfile"]
    if len(inl) != 1:
        raise TranslateError("__main__.py: expected exactly one `if args.cfile or args.hfile:`")
    inline_branch = []
    for st in inl[0].body:
        if not isinstance(st, (ast.Assign, ast.Expr)):
            raise TranslateError("__main__.py: unexpected statement in the inline branch: %s" % type(st).__name__)
        inline_branch.append(" ".join(ast.unparse(st).split()))

    table = []
    for n in ast.walk(mains[0]):
        if isinstance(n, ast.Call) and isinstance(n.func, ast.Attribute) and n.func.attr == "add_argument":
            flags = []
            for a in n.args:
                if not (isinstance(a, ast.Constant) and isinstance(a.value, str)):
                    raise TranslateError("add_argument with a computed flag")
                flags.append(a.value)
            kw = {k.arg: k.value for k in n.keywords}
            if None in kw:
                raise TranslateError("add_argument(**kwargs)")
            if "dest" in kw:
                if not isinstance(kw["dest"], ast.Constant):
                    raise TranslateError("add_argument computed dest")
                dest = kw["dest"].value
            else:
                longs = [f for f in flags if f.startswith("--")]
                shorts = [f for f in flags if f.startswith("-") and not f.startswith("--")]
                dest = (longs[0][2:] if longs else shorts[0][1:] if shorts else flags[0]).replace("-", "_")
            action = kw["action"].value if "action" in kw and isinstance(kw["action"], ast.Constant) else \
                ("store" if "action" not in kw else None)
            if action is None:
                raise TranslateError("add_argument computed action")
            unknown = set(kw) - {"dest", "action", "help", "default", "nargs", "choices", "version", "type", "required",
                                 "metavar", "const"}
            if unknown:
                raise TranslateError("add_argument unknown keywords %r" % sorted(unknown))
            for k in ("type", "const", "required"):
                if k in kw:
                    raise TranslateError("add_argument uses %s=: not modelled" % k)
            default = ast.unparse(kw["default"]) if "default" in kw else "None"
            nargs = ast.unparse(kw["nargs"]) if "nargs" in kw else ""
            table.append((n.lineno, flags, dest, action, default, nargs))
    table = [t[1:] for t in sorted(table)]
    if not table:
        raise TranslateError("__main__.py: no add_argument call")
    pa = [n for n in ast.walk(mains[0]) if isinstance(n, ast.Call) and isinstance(n.func, ast.Attribute)
          and n.func.attr in ("parse_args", "parse_known_args", "parse_intermixed_args")]
    if len(pa) != 1 or pa[0].func.attr != "parse_args" or pa[0].args or pa[0].keywords:
        raise TranslateError("__main__.py: expected exactly one parser.parse_args()")

    # ---- errors.py: reads of the formatter options
    erel = "norminette/errors.py"
    tree, par = trees[erel]
    fmt_reads = []
    for n in ast.walk(tree):
        if isinstance(n, ast.Attribute) and n.attr in ("options", "use_colors") and isinstance(n.ctx, ast.Load):
            st = enclosing_stmt(par, n)
            head = "if " + ast.unparse(st.test) if isinstance(st, (ast.If, ast.While)) else ast.unparse(st)
            fmt_reads.append((where(par, n), ast.unparse(n), " ".join(head.split())[:120]))
        if isinstance(n, ast.Name) and n.id == "options" and isinstance(n.ctx, ast.Load):
            st = enclosing_stmt(par, n)
            fmt_reads.append((where(par, n), "options", " ".join(ast.unparse(st).split())[:120]))
    fmt_reads = sorted(set(fmt_reads))

    def t3(rows):
        return lst([tup(lit(a), lit(b), lit(c)) for a, b, c in rows])

    o = "From NV Require Import Model.Base.\n\n"
    o += "(* (file, function, use): every syntactic read/write of a debug level *)\n"
    o += "Definition debug_reads : list (string * string * string) :=\n  %s.\n\n" % t3(sorted(set(debug_reads)))
    o += "(* (file, function, use): every syntactic use of skip_define / added_value *)\n"
    o += "Definition skip_reads : list (string * string * string) :=\n  %s.\n\n" % t3(sorted(set(skip_reads)))
    o += "(* CheckPreprocessorDefine.run: diagnostic codes emitted textually before / after `if context.preproc.skip_define: return` *)\n"
    o += "Definition define_codes_before_guard : list str :=\n  %s.\n" % lst(['(s %s)' % lit(c) for c in before])
    o += "Definition define_codes_after_guard : list str :=\n  %s.\n" % lst(['(s %s)' % lit(c) for c in after])
    o += "Definition define_after_guard_calls : list string :=\n  %s.\n" % lst([lit(c) for c in sorted(calls)])
    o += "Definition define_after_guard_targets : list string :=\n  %s.\n\n" % lst([lit(c) for c in sorted(targets)])
    o += "(* (file, code): every string constant equal to a code emitted after the guard *)\n"
    o += "Definition silenced_code_mentions : list (string * string) :=\n  %s.\n\n" % lst([tup(lit(a), lit(b)) for a, b in mentions])
    o += "(* (file, function, expression): emission calls whose code is computed *)\n"
    o += "Definition dynamic_emitters : list (string * string * string) :=\n  %s.\n\n" % t3(sorted(set(dynamic_emitters)))
    o += "(* (dest, function, statement): every read of args.<dest> in __main__.py *)\n"
    o += "Definition main_args_reads : list (string * string * string) :=\n  %s.\n\n" % t3(args_reads)
    o += "(* the statements of main()'s `if args.cfile or args.hfile:` branch, in order *)\n"
    o += "Definition inline_branch : list string :=\n  %s.\n\n" % lst([lit(x) for x in inline_branch])
    o += "(* (function, expression, statement): reads of the formatter options in errors.py *)\n"
    o += "Definition formatter_option_reads : list (string * string * string) :=\n  %s.\n\n" % t3(fmt_reads)
    o += "(* (file, function, name): presentation option names used outside __main__.py / errors.py *)\n"
    o += "Definition presentation_names_in_analysis : list (string * string * string) :=\n  %s.\n\n" % t3(sorted(set(pres_in_analysis)))
    o += "(* (flags, dest, action, default, nargs) of every parser.add_argument call, in source order *)\n"
    o += "Definition argparse_table : list (list string * string * string * string * string) :=\n  %s.\n" % lst(
        [tup(lst([lit(f) for f in fl]), lit(d), lit(a), lit(df), lit(na)) for fl, d, a, df, na in table])
    return o


GENERATORS = {"Options": gen_options}


# ======================================================================================================================
# Gen/OptFlow.v - main()'s option plumbing, statement by statement, as a def/use program (C16)
#
# Every top-level statement of main() after `args = parser.parse_args()` becomes (label, uses, defs) over the variables
#   local names | "args.<dest>" (the namespace is never assigned nor used whole: checked) | "HEAP" | "EXIT"
# Variables hold references; every object (File, Errors, Context, lists ...) lives in HEAP.  A statement USES HEAP when
# it reads an attribute / subscript / iterates / calls; it DEFINES HEAP when it contains a call (other than the builtins
# next/filter over pure arguments), an attribute / subscript store, a loop or a comprehension.  EXIT = "the process has
# left main()": defined by statements containing sys.exit / raise / return.  Every statement also uses EXIT and its own
# defs (weak update), so "defs := f(uses)" covers conditional and skipped execution.  Compound statements are one
# statement (their inner control flow is inside f).
PURE_CALLS = {"next", "filter"}


def _pure_expr(n):
    """expressions that cannot write the heap: names, constants, attribute loads, == / != / not / and / or / if-else,
    lambdas over such, calls of next/filter over such (trusted: no property / dunder with side effects on these values)"""
    if isinstance(n, (ast.Name, ast.Constant)):
        return True
    if isinstance(n, ast.Attribute):
        return _pure_expr(n.value)
    if isinstance(n, ast.Compare):
        return all(isinstance(o, (ast.Eq, ast.NotEq, ast.Is, ast.IsNot)) for o in n.ops) and _pure_expr(n.left) \
            and all(_pure_expr(c) for c in n.comparators)
    if isinstance(n, ast.UnaryOp) and isinstance(n.op, ast.Not):
        return _pure_expr(n.operand)
    if isinstance(n, ast.BoolOp):
        return all(_pure_expr(v) for v in n.values)
    if isinstance(n, ast.IfExp):
        return _pure_expr(n.test) and _pure_expr(n.body) and _pure_expr(n.orelse)
    if isinstance(n, ast.Lambda):
        return _pure_expr(n.body)
    if isinstance(n, ast.Call) and isinstance(n.func, ast.Name) and n.func.id in PURE_CALLS and not n.keywords:
        return all(_pure_expr(a) for a in n.args)
    if isinstance(n, (ast.Tuple, ast.List)):
        return all(_pure_expr(e) for e in n.elts)
    return False


def _flow_stmt(st):
    uses, defs = set(), set()
    reads_heap = writes_heap = exits = False
    # names bound by a lambda / a comprehension are local to that expression (Python 3 scoping): not program variables
    scoped = {}

    def mark(node, bound):
        for c in ast.iter_child_nodes(node):
            b = bound
            if isinstance(c, ast.Lambda):
                b = bound | {a.arg for a in c.args.args + c.args.kwonlyargs + c.args.posonlyargs}
            elif isinstance(c, (ast.ListComp, ast.SetComp, ast.DictComp, ast.GeneratorExp)):
                tg = set()
                for g in c.generators:
                    for x in ast.walk(g.target):
                        if isinstance(x, ast.Name):
                            tg.add(x.id)
                b = bound | tg
            if isinstance(c, (ast.Name, ast.arg)):
                scoped[c] = b
            mark(c, b)
    mark(st, frozenset())
    for n in ast.walk(st):
        if isinstance(n, ast.Name) and n.id in scoped.get(n, ()):
            continue
        if isinstance(n, ast.arg) and n.arg in scoped.get(n, ()):
            continue
        if isinstance(n, ast.Attribute) and isinstance(n.value, ast.Name) and n.value.id == "args":
            if not isinstance(n.ctx, ast.Load):
                raise TranslateError("main(): args.%s assigned" % n.attr)
            uses.add("args." + n.attr)
        elif isinstance(n, ast.Name):
            if n.id == "args":
                continue                        # only as args.<dest> (checked by gen_options)
            (uses if isinstance(n.ctx, ast.Load) else defs).add(n.id)
            if isinstance(n.ctx, ast.Del):
                defs.add(n.id)
        elif isinstance(n, ast.arg):
            defs.add(n.arg)
        elif isinstance(n, (ast.Attribute, ast.Subscript)):
            reads_heap = True
            if not isinstance(n.ctx, ast.Load):
                writes_heap = True
        elif isinstance(n, (ast.For, ast.While, ast.ListComp, ast.SetComp, ast.DictComp, ast.GeneratorExp, ast.With, ast.JoinedStr,
                            ast.BinOp, ast.AugAssign, ast.Starred, ast.Try)):
            reads_heap = writes_heap = True
        elif isinstance(n, ast.Call):
            reads_heap = True
            if ast.unparse(n.func) == "sys.exit":
                exits = True
        elif isinstance(n, (ast.Raise, ast.Return)):
            exits = True
        elif isinstance(n, (ast.Global, ast.Nonlocal, ast.Import, ast.ImportFrom, ast.FunctionDef, ast.ClassDef, ast.Yield,
                            ast.YieldFrom, ast.Await, ast.NamedExpr)):
            raise TranslateError("main(): construct not covered by the flow translation: %s" % type(n).__name__)
    # heap writes: any call outside the pure grammar
    if isinstance(st, ast.Assign) and len(st.targets) == 1 and isinstance(st.targets[0], ast.Name) and _pure_expr(st.value):
        pass
    elif any(isinstance(n, ast.Call) for n in ast.walk(st)):
        writes_heap = True
    if reads_heap or writes_heap:
        uses.add("HEAP")
    if writes_heap:
        defs.add("HEAP")
    if exits:
        defs.add("EXIT")
    uses.add("EXIT")
    uses |= defs
    if isinstance(st, (ast.If, ast.While)):
        label = "if " + ast.unparse(st.test)
    elif isinstance(st, ast.For):
        label = "for " + ast.unparse(st.target) + " in " + ast.unparse(st.iter)
    else:
        label = ast.unparse(st)
    return " ".join(label.split())[:110], sorted(uses), sorted(defs)


def gen_optflow(repo, L):
    with open(os.path.join(repo, "norminette/__main__.py")) as f:
        tree = ast.parse(f.read())
    mains = [n for n in tree.body if isinstance(n, ast.FunctionDef) and n.name == "main"]
    if len(mains) != 1:
        raise TranslateError("__main__.py: main() not found")
    body = mains[0].body
    pa = [i for i, st in enumerate(body) if isinstance(st, ast.Assign) and ast.unparse(st) == "args = parser.parse_args()"]
    if len(pa) != 1:
        raise TranslateError("__main__.py: `args = parser.parse_args()` is not a top-level statement of main()")
    rest = body[pa[0] + 1:]
    for st in body[:pa[0]]:
        if any(isinstance(n, ast.Name) and n.id == "args" for n in ast.walk(st)):
            raise TranslateError("__main__.py: args used before parse_args()")
    flow = [_flow_stmt(st) for st in rest]

    def has_call(st, name):
        return any(isinstance(n, ast.Call) and ast.unparse(n.func) == name for n in ast.walk(st))
    loops = [i for i, st in enumerate(rest) if isinstance(st, ast.For) and has_call(st, "registry.run")]
    if len(loops) != 1 or not all(has_call(rest[loops[0]], c) for c in ("Lexer", "Context")):
        raise TranslateError("__main__.py: the analysis loop (for ...: Lexer / Context / registry.run) is not one top-level for")
    for i, st in enumerate(rest):
        if i != loops[0] and any(has_call(st, c) for c in ("Lexer", "Context", "registry.run")):
            raise TranslateError("__main__.py: analysis call outside the analysis loop")
    fmts = [i for i, st in enumerate(rest) if isinstance(st, ast.Assign) and isinstance(st.value, ast.Call)
            and isinstance(st.value.func, ast.Name) and st.value.func.id == "format"]
    if len(fmts) != 1:
        raise TranslateError("__main__.py: expected exactly one top-level `<x> = format(...)`")
    # Context(...) call and Context.__init__
    ccalls = [n for n in ast.walk(rest[loops[0]]) if isinstance(n, ast.Call) and ast.unparse(n.func) == "Context"]
    if len(ccalls) != 1 or ccalls[0].keywords:
        raise TranslateError("__main__.py: expected one positional Context(...) call")
    call_args = []
    for a in ccalls[0].args:
        if isinstance(a, ast.Name):
            call_args.append(a.id)
        elif isinstance(a, ast.Attribute) and isinstance(a.value, ast.Name) and a.value.id == "args":
            call_args.append("args." + a.attr)
        else:
            raise TranslateError("__main__.py: Context(...) argument is not a name")
    with open(os.path.join(repo, "norminette/context.py")) as f:
        ctree = ast.parse(f.read())
    cls = [n for n in ctree.body if isinstance(n, ast.ClassDef) and n.name == "Context"]
    if len(cls) != 1:
        raise TranslateError("context.py: class Context not found")
    inits = [n for n in cls[0].body if isinstance(n, ast.FunctionDef) and n.name == "__init__"]
    if len(inits) != 1:
        raise TranslateError("context.py: Context.__init__ not found")
    init = inits[0]
    params = [a.arg for a in init.args.args][1:]
    if init.args.vararg or init.args.kwarg or init.args.kwonlyargs:
        raise TranslateError("context.py: Context.__init__ signature")
    dbg = [st for st in init.body if isinstance(st, ast.Assign) and ast.unparse(st.targets[0]) == "self.debug"]
    skp = [st for st in init.body if isinstance(st, ast.Assign) and ast.unparse(st.targets[0]) == "self.preproc.skip_define"]
    if len(dbg) != 1 or len(skp) != 1:
        raise TranslateError("context.py: expected one assignment each to self.debug and self.preproc.skip_define")
    v = dbg[0].value
    if not (isinstance(v, ast.Call) and isinstance(v.func, ast.Name) and v.func.id == "int" and len(v.args) == 1
            and isinstance(v.args[0], ast.Name) and v.args[0].id in params and not v.keywords):
        raise TranslateError("context.py: self.debug is not int(<parameter>)")
    dbg_param = v.args[0].id
    v = skp[0].value
    if not (isinstance(v, ast.Compare) and len(v.ops) == 1 and isinstance(v.ops[0], ast.In) and isinstance(v.left, ast.Constant)
            and isinstance(v.left.value, str) and isinstance(v.comparators[0], ast.BoolOp) and isinstance(v.comparators[0].op, ast.Or)
            and len(v.comparators[0].values) == 2 and isinstance(v.comparators[0].values[0], ast.Name)
            and v.comparators[0].values[0].id in params and isinstance(v.comparators[0].values[1], ast.List)
            and not v.comparators[0].values[1].elts):
        raise TranslateError("context.py: skip_define is not `<str> in (<parameter> or [])`")
    skip_word, skip_param = v.left.value, v.comparators[0].values[0].id
    for st in init.body:        # the two parameters are read nowhere else in __init__
        if st is dbg[0] or st is skp[0]:
            continue
        for n in ast.walk(st):
            if isinstance(n, ast.Name) and n.id in (dbg_param, skip_param):
                raise TranslateError("context.py: %s read outside its one assignment in Context.__init__" % n.id)

    def sl(xs):
        return lst([lit(x) for x in xs])
    o = "From NV Require Import Model.Base.\n\n"
    o += "(* main() after `args = parser.parse_args()`: (statement, uses, defs) of every top-level statement, in order *)\n"
    o += "Definition main_flow : list (string * list string * list string) :=\n  [%s].\n\n" % ";\n   ".join(
        tup(lit(a), sl(u), sl(d)) for a, u, d in flow)
    o += "Definition analysis_loop_index : nat := %d.\nDefinition format_call_index : nat := %d.\n\n" % (loops[0], fmts[0])
    o += "(* Context(...) in the analysis loop and Context.__init__(self, ...) *)\n"
    o += "Definition context_call_args : list string := %s.\n" % sl(call_args)
    o += "Definition context_init_params : list string := %s.\n" % sl(params)
    o += "Definition context_debug_param : string := %s.\nDefinition context_skip_param : string := %s.\n\n" % (lit(dbg_param), lit(skip_param))
    o += "(* self.debug = int(%s)   [argparse action=count: an int, int(x) = x] *)\n" % dbg_param
    o += "Definition gen_ctx_debug (%s : Z) : Z := %s.\n" % (dbg_param, dbg_param)
    o += "(* self.preproc.skip_define = %s *)\n" % " ".join(ast.unparse(skp[0].value).split())
    o += "Definition py_or_nil (x : option (list str)) : list str := match x with Some (c :: r) => c :: r | _ => [] end.\n"
    o += "Definition gen_ctx_skip (%s : option (list str)) : bool := str_in (s %s) (py_or_nil %s).\n" % (skip_param, lit(skip_word), skip_param)
    return o


GENERATORS["OptFlow"] = gen_optflow
