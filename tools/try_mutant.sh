#!/bin/sh
# try_mutant.sh <patch.diff> <property id> [tier]: apply to /repo, run the check, undo.  Prints the verdict.
P="$1"; ID="$2"; TIER="${3:-quick}"
cd /repo || exit 2
git diff --quiet || { echo "repo not clean"; exit 2; }
git apply "$P" || { echo "patch does not apply"; exit 2; }
T=$(/venv/bin/python -m pytest -q -p no:cacheprovider 2>&1 | tail -1)
cd /verif
OUT=$(./check "$ID" --tier "$TIER" 2>&1); RC=$?
git -C /repo checkout -- .
echo "tests: $T"
echo "$OUT" | grep -v "^KNOWN-FINDING" | tail -6
echo "check rc=$RC"
