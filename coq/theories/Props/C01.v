(* C01 - Norm-conforming files are accepted.
   Only statements here; proofs are in Proofs/ConformingProofs.v, Proofs/C01Compose.v, Proofs/EmittersProofs.v.

   THE FULL STATEMENT IS NOT PROVED AND IS FALSE OF THE CURRENT TREE.  It needs a complete model `analyse` of the
   tokenizer + all 58 rules (39 checks) and a renderer of the whole grammar G of DESIGN 4.1; neither exists in Coq, so the
   statement is kept visible as a definition over them (no axiom, nothing assumed): *)
From NV Require Import Model.Base Model.Diag Model.Lexer Spec.CConst Spec.Conforming Gen.ErrOrder Gen.MainExit
  Proofs.EmittersProofs Proofs.ConformingProofs Proofs.C01Compose.
From NV Require Import Model.RuleChecks Gen.RuleChecks Gen.MoreChecks.

Definition C01_statement (unit_ : Type) (wf : unit_ -> Prop) (render_unit : unit_ -> str) (name_ok : unit_ -> str -> Prop)
  (analyse : str -> str -> outcome (list diag)) : Prop :=
  forall u, wf u -> forall name, name_ok u name ->
  exists ds, analyse name (render_unit u) = Ok ds /\ (forall d, In d ds -> d_level d = s "Notice")
             /\ status ds = s "OK" /\ exit_code [mkfile name ds] = 0.

(* What IS proved (C01_partial_K, one conjunction; every part is stated over a model regenerated from / tied to the source):
   1. the translated checks emit NOTHING on conforming statements (C01_checks_silent_statement, Proofs/ConformingChecks.v,
      Proofs/ConformingCounters.v) - theorems about the generated functions of Gen/RuleChecks.v, Gen/MoreChecks.v, Gen/Counters.v,
      Gen/ScopeOps.v, for ANY remaining token list / statement length / context view under the stated conforming conditions
      (K = token kinds, tied to the text by conforming_text_kinds; P = columns, C09 / C03; V = the view at the statement, given):
        whole checks (13): CheckTernary (K), CheckLabel (K), CheckLineLen (P), CheckManyInstructions (P),
                          CheckEmptyLine (V: statements and empty lines), CheckFunctionsCount (trace model),
                          CheckLineIndent (V: skipped statements, plain lines, `}` lines, `{` lines),
                          CheckExpressionStatement (K/shape: expr_pos_ok at every position, `return ;` / `return (...) ;` by return_ok),
                          CheckSpacing (shape: sp_ok at every position of the statement - loop invariant over the statement),
                          CheckIdentifierName (names over [a-z0-9_]; functions at global scope), CheckComment (K: no comment token in
                          the remaining tokens; or outside functions every comment first on its line / followed by blanks only),
                          CheckLineCount (unconditional: its guard names a rule no primary has; V: the history holds primaries),
                          CheckPreprocessorIndent (P/shape/V: ppi_line_ok - `#` in column 1, global scope, directive name at the
                          expected indentation for the given preproc.indent, one space before the argument);
        partial (5):      CheckControlStatement (translated part = 4 of its 6 codes: cs_pos_ok at every position of the control line,
                          every `(` closed before the line end - invariant of the scan and of check_nest; not at global scope),
                          CheckUtypeDeclaration (translated part, in headers), CheckBrace (TOO_MANY_LINES at <= 25 lines),
                          CheckVariableDeclaration (TOO_MANY_VARS_FUNC at <= 5), CheckFuncDeclaration (TOO_MANY_ARGS at <= 4);
      the scope-name / indentation part of V is DERIVED from the scope-trace model (Proofs/ScopeViewProofs.v, ConformingTraced.v):
      every chain reachable by Model/ScopeTrace.v from the initial state is non-global scopes above one GlobalScope, the
      indentation is the depth of the chain (Gen/ScopeIndent.v, regenerated from scope.py), so "at global scope" <-> indentation 0;
      the traced theorems for CheckControlStatement, CheckEmptyLine and CheckLineIndent assume only `view_of q v` for a model run.
      Still given: the history (which primaries matched) and vdeclarations_allowed;
   2. the code set {INVALID_HEADER} + HEADER_PROT_* + the lexical codes, as before: emitter ties (Gen/Emitters.v), (a) header
      (C13: CheckHeader), (b) guard (C14: CheckPreprocessorProtection), (c) lexer: a conforming TEXT - any number of lines of
      tabs, identifiers (any letter or _ first except l L u U), single spaces, one-character operators, brackets, the listed atoms,
      line ends - is cut into exactly one token per lexeme, of the kind lx_type says, and NO diagnostic is recorded,
      (d) verdict / exit (C04).
   Checks proved silent as a whole: 15 of 39 (the thirteen above, CheckHeader, CheckPreprocessorProtection).
   TESTED ONLY by tools/harness/c01.py (24 checks; the five marked * have the partial theorems above):
     CheckAssignation CheckAssignationIndent CheckBlockStart CheckBrace* CheckCommentLineLen CheckControlStatement*
     CheckDeclaration CheckEnumVarDecl CheckFuncArgumentsName CheckFuncDeclaration* CheckFuncSpacing CheckGeneralSpacing
     CheckGlobalNaming CheckInHeader CheckNestLineIndent CheckNewlineIndent
     CheckOperatorsSpacing CheckPreprocessorDefine CheckPreprocessorInclude CheckPrototypeIndent
     CheckStructNaming CheckUtypeDeclaration* CheckVariableDeclaration* CheckVariableIndent
   Why the five stay partial: CheckControlStatement's TOO_MANY_TAB / TOO_FEW_TAB part is left out by the translator
   (tools/translate_more.py, not ours); CheckBrace, CheckVariableDeclaration and CheckFuncDeclaration emit further codes
   (BRACE_SHOULD_EOL, SPC_BEFORE_NL, VAR_DECL_START_FUNC, MULT_DECL_LINE, BRACE_NEWLINE, ...) on paths the counter models do not
   cover; CheckUtypeDeclaration is translated up to its FORBIDDEN_<type> test only.
   Also only tested: that the engine cuts a rendered unit into statements with the views the V hypotheses describe; for (c):
   `.` `->` `?` `:` `#`, constants outside the atom list, comments. *)
Theorem C01_partial_K : C01_partial_K_statement.
Proof. exact partial_K. Qed.
Print Assumptions C01_partial_K.

(* the silence of the translated checks on its own *)
Theorem C01_checks_silent : C01_checks_silent_statement.
Proof. exact checks_silent. Qed.
Print Assumptions C01_checks_silent.

(* (c), with the token kinds: one token per lexeme, of the kind lx_type says, for texts of any number of lines *)
Theorem C01_conforming_text_tokens_partial : forall ls, chain ls = true ->
  exists items xf, lex nouni nouni (render ls) = Ok (items, xf) /\ errs xf = [] /\ rest xf = [] /\
                   forallb is_tok items = true /\ map t_type (tokens_of items) = map lx_type ls.
Proof. exact conforming_text_tokens. Qed.
Print Assumptions C01_conforming_text_tokens_partial.

(* (c) on its own *)
Theorem C01_conforming_line_lexes_silently_partial : forall ls, chain ls = true ->
  exists items xf, lex nouni nouni (render ls) = Ok (items, xf) /\ errs xf = [] /\ rest xf = [] /\
                   List.length items = List.length ls /\ forallb is_tok items = true.
Proof. exact conforming_line_silent. Qed.
Print Assumptions C01_conforming_line_lexes_silently_partial.

(* the atoms are inside the guards of Spec/CConst (none has one of the refuted shapes) *)
Theorem C01_atoms_inside_guards : atoms_guarded = true.
Proof. exact atoms_are_guarded. Qed.
Print Assumptions C01_atoms_inside_guards.

(* every literal diagnostic code of the source is a key of the catalogue, except the recorded ones *)
Theorem C01_every_static_code_in_catalogue_partial :
  forallb (fun x => is_dynamic (site_code x) || existsb (String.eqb (site_code x)) codes_missing_from_catalogue
                    || in_catalogue (site_code x)) Gen.Emitters.emitters = true.
Proof. exact every_static_code_in_catalogue_partial. Qed.
Print Assumptions C01_every_static_code_in_catalogue_partial.

(* K1 (former finding C01-K1-hex-b-digits, repaired in the source): the statement `i = 0xb3ba;` lexes without diagnostic
   in the lexer model (positive theorem below).  K2, K3, K4 (findings C01-K2-unary-after-logical,
   C01-K3-unary-before-sizeof-or-char, C01-K4-cast-before-char) come from CheckOperatorsSpacing / Context.is_glued_operator,
   which are NOT modelled: they are established on the implementation only, by tools/harness/c01.py. *)
Theorem C01_accepted_K1 :
  shape_k1 (s "0xb3ba") = true /\ int_body (s "0xb3ba") = Some Hex /\
  lex_one_ok (s "CONSTANT") (s "0xb3ba") (s ";") = true /\ k1_silent = true.
Proof. exact accepted_K1. Qed.
Print Assumptions C01_accepted_K1.

(* non-vacuity *)
From NV Require Proofs.ConformingExamples.
(* the statement-shape hypotheses of the silence theorems hold on the tokens of `<TAB>if (a == b)` / `<TAB><TAB>return (a);` and the
   generated checks, evaluated on them, report nothing *)
Example C01_shapes_nonvacuous : check_control_statement ConformingExamples.ex_if 11 ConformingExamples.ex_v = Ok ([], ConformingExamples.ex_v)
  /\ check_spacing ConformingExamples.ex_if 11 ConformingExamples.ex_v = Ok ([], ConformingExamples.ex_v).
Proof. exact (conj (proj1 ConformingExamples.checks_agree) (proj1 (proj2 ConformingExamples.checks_agree))). Qed.
Example C01_example_text : chain ex_text3 = true /\ kinds_ok ex_text3 = true.
Proof. split; [exact (proj1 ex_text_ok)|exact (proj1 (proj2 ex_text_ok))]. Qed.
Example C01_example :
  chain ex_line1 = true /\ render ex_line1 = s "a = -b + fn(c, 0x1F) * 'a';" /\
  chain ex_line2 = true /\ render ex_line2 = s "while (i < len && !p[i])".
Proof. exact ex_lines_ok. Qed.
