(* C01 - Norm-conforming files are accepted.
   Only statements here; proofs are in Proofs/ConformingProofs.v, Proofs/C01Compose.v, Proofs/EmittersProofs.v.

   THE FULL STATEMENT IS NOT PROVED AND IS FALSE OF THE CURRENT TREE.  It needs a complete model `analyse` of the
   tokenizer + all 58 rules (39 checks) and a renderer of the whole grammar G of DESIGN 4.1; neither exists in Coq, so the
   statement is kept visible as a definition over them (no axiom, nothing assumed): *)
From NV Require Import Model.Base Model.Diag Model.Lexer Spec.CConst Spec.Conforming Gen.ErrOrder Gen.MainExit
  Proofs.EmittersProofs Proofs.ConformingProofs Proofs.C01Compose.

Definition C01_statement (unit_ : Type) (wf : unit_ -> Prop) (render_unit : unit_ -> str) (name_ok : unit_ -> str -> Prop)
  (analyse : str -> str -> outcome (list diag)) : Prop :=
  forall u, wf u -> forall name, name_ok u name ->
  exists ds, analyse name (render_unit u) = Ok ds /\ (forall d, In d ds -> d_level d = s "Notice")
             /\ status ds = s "OK" /\ exit_code [mkfile name ds] = 0.

(* What IS proved: for the code set K = {INVALID_HEADER} + HEADER_PROT_* + the lexical codes (every code emitted by
   lexer.py), over the models that exist:
   - K is tied to the source: by Gen/Emitters.v (every static emission site of /repo, regenerated on every run) only
     check_header.py can emit INVALID_HEADER, only check_preprocessor_protection.py a HEADER_PROT_* code, only lexer.py a
     lexical code, and no emission site has an opaque code;
   - (a) header (C13), (b) guard (C14): given-trace theorems, for all field values / all following statements / all balanced bodies;
   - (c) lexer: a conforming statement line - a list, of ANY length, of identifiers (any letter or _ first except l L u U,
     then any identifier characters), single spaces, one-character operators , ; ~ + - * / < > ^ & | ! = (the extendable ones
     followed by a space or an operand), brackets, and the 118 listed atoms (constants of every family of Spec/CConst inside
     their guards, keywords, the operators of two and three characters and %, names starting with l / u) each followed by one
     of ` ; ) , ]` newline or the end - is cut into exactly one token per lexeme and NO diagnostic is recorded;
   - (d) verdict / exit (C04).
   Missing for the full statement, and only TESTED by tools/harness/c01.py: the silence of the 37 other checks; for (c): `.` `->`
   `?` `:` `#`, constants outside the list (the bounded families of C11 are covered there by evaluation with the fixed
   delimiters of Spec/CConst.delims), tabs / newlines inside a line, comments; that the engine cuts a rendered unit into the
   statement trace the (a)/(b) theorems are about (the given-trace hypothesis, tested by c13.py / c14.py). *)
Theorem C01_partial_K : C01_partial_K_statement.
Proof. exact partial_K. Qed.
Print Assumptions C01_partial_K.

(* (c) on its own *)
Theorem C01_conforming_line_lexes_silently_partial : forall ls, chain ls = true ->
  exists items xf, lex nouni nouni (render ls) = Ok (items, xf) /\ errs xf = [] /\ rest xf = [] /\
                   List.length items = List.length ls /\ forallb is_tok items = true.
Proof. exact conforming_line_silent. Qed.
Print Assumptions C01_conforming_line_lexes_silently_partial.

(* the atoms are inside the guards of Spec/CConst (none has one of the refuted shapes) *)
Theorem C01_atoms_inside_guards : atoms_guarded = true.
Proof. exact atoms_are_guarded. Qed.
Print Assumptions C01_atoms_inside_guards.

(* every literal diagnostic code of the source is a key of the catalogue, except the recorded ones *)
Theorem C01_every_static_code_in_catalogue_partial :
  forallb (fun x => is_dynamic (site_code x) || existsb (String.eqb (site_code x)) codes_missing_from_catalogue
                    || in_catalogue (site_code x)) Gen.Emitters.emitters = true.
Proof. exact every_static_code_in_catalogue_partial. Qed.
Print Assumptions C01_every_static_code_in_catalogue_partial.

(* K1 (former finding C01-K1-hex-b-digits, repaired in the source): the statement `i = 0xb3ba;` lexes without diagnostic
   in the lexer model (positive theorem below).  K2, K3, K4 (findings C01-K2-unary-after-logical,
   C01-K3-unary-before-sizeof-or-char, C01-K4-cast-before-char) come from CheckOperatorsSpacing / Context.is_glued_operator,
   which are NOT modelled: they are established on the implementation only, by tools/harness/c01.py. *)
Theorem C01_accepted_K1 :
  shape_k1 (s "0xb3ba") = true /\ int_body (s "0xb3ba") = Some Hex /\
  lex_one_ok (s "CONSTANT") (s "0xb3ba") (s ";") = true /\ k1_silent = true.
Proof. exact accepted_K1. Qed.
Print Assumptions C01_accepted_K1.

(* non-vacuity *)
Example C01_example :
  chain ex_line1 = true /\ render ex_line1 = s "a = -b + fn(c, 0x1F) * 'a';" /\
  chain ex_line2 = true /\ render ex_line2 = s "while (i < len && !p[i])".
Proof. exact ex_lines_ok. Qed.
