(* C14 - Include-guard validation follows the file name.
   Statements only; proofs in Proofs/GuardProofs.v.  The check itself (CheckPreprocessorProtection.run) is
   Gen.Guard.prot_run, translated from /repo on every run; Model/Guard.v adds the statement trace, the effect of
   IsPreprocessorStatement (through the generated directive table) and File.type.
   Trace vocabulary: SPre kind arg = preprocessor statement, SDecl = any other statement, SBlank, SComment.
   emitted base t = the HEADER_PROT_* codes, in order, of analysing a file named `base` whose statements are t.
   nocond x = x is not #if/#ifdef/#ifndef/#endif;  balanced l = the conditionals of l are properly nested. *)
From NV Require Import Model.Base Model.GuardBase Gen.Guard Gen.Registry Model.Guard Proofs.GuardProofs.

(* ---- which names are headers: File.type = ".h" for every stem with a character that is not a dot ---- *)
Theorem C14_header_names : forall stem, existsb (fun ch => negb (N.eqb ch 46)) stem = true ->
  file_type (stem ++ s ".h") = s ".h".
Proof. exact file_type_h. Qed.
Print Assumptions C14_header_names.

(* ---- the expected symbol ---- *)
Theorem C14_guard_of_idempotent : forall b, guard_of (guard_of b) = guard_of b.
Proof. exact guard_of_idem. Qed.
Print Assumptions C14_guard_of_idempotent.

Theorem C14_guard_of_alphabet : forall b, Forall name_char b -> Forall macro_char (guard_of b).
Proof. exact guard_of_alphabet. Qed.
Print Assumptions C14_guard_of_alphabet.

Theorem C14_guard_of_shape : forall a b,
  guard_of (a ++ b) = guard_of a ++ guard_of b /\ List.length (guard_of b) = List.length b
  /\ py_upper (guard_of b) = guard_of b.
Proof. exact guard_of_shape. Qed.
Print Assumptions C14_guard_of_shape.

(* Python's str.upper agrees with the model on every ASCII string (table computed by the running interpreter), and the
   source's own guard expression / os.path.splitext agree with guard_of / file_type on the sample names *)
Theorem C14_guard_of_is_pythons : forall b, Forall (fun c => (c < 128)%N) b ->
  py_upper b = List.concat (map (fun c => nth (N.to_nat c) live_ascii_upper []) b).
Proof. exact py_upper_live. Qed.
Print Assumptions C14_guard_of_is_pythons.

Theorem C14_live_samples :
  (forallb (fun p => str_eqb (guard_of (fst p)) (snd p)) live_guard_samples = true
   /\ Nat.leb 10 (List.length live_guard_samples) = true)
  /\ (forallb (fun p => str_eqb (file_type (fst p)) (snd p)) live_splitext_samples = true
      /\ Nat.leb 20 (List.length live_splitext_samples) = true).
Proof. exact live_samples. Qed.
Print Assumptions C14_live_samples.

(* ---- the generated check, by statement kind ---- *)
Theorem C14_check_by_kind : forall x rest c, prot_run (view_of x rest) c = prot_spec x rest c.
Proof. exact prot_run_spec. Qed.
Print Assumptions C14_check_by_kind.

(* ---- accepted: comments/blank lines, #ifndef G, # define G, any balanced body, #endif, comments/blank lines ---- *)
Theorem C14_accept : forall base, file_type base = s ".h" -> forall pre body post a,
  Forall (fun x => is_trivia x = true) pre -> balanced body -> Forall (fun x => is_trivia x = true) post ->
  emitted base (pre ++ SPre DIfndef (guard_of base) :: SPre DDefine (guard_of base) :: body ++ SPre DEndif a :: post) = [].
Proof. exact accept. Qed.
Print Assumptions C14_accept.

(* ---- G1: another symbol -> HEADER_PROT_NAME (whatever follows) ---- *)
Theorem C14_G1 : forall base, file_type base = s ".h" -> forall pre x rest,
  Forall nocond pre -> x <> guard_of base -> py_upper x <> guard_of base ->
  In (s "HEADER_PROT_NAME") (emitted base (pre ++ SPre DIfndef x :: rest)).
Proof. exact G1. Qed.
Print Assumptions C14_G1.

(* ---- G2: the right symbol in any other case pattern -> HEADER_PROT_UPPER ---- *)
Theorem C14_G2 : forall base, file_type base = s ".h" -> forall pre x rest,
  Forall nocond pre -> x <> guard_of base -> py_upper x = guard_of base ->
  In (s "HEADER_PROT_UPPER") (emitted base (pre ++ SPre DIfndef x :: rest)).
Proof. exact G2. Qed.
Print Assumptions C14_G2.

(* ---- G3: the expected symbol is not #defined (missing, or another name) before the closing #endif -> HEADER_PROT_NODEF ---- *)
Theorem C14_G3 : forall base, file_type base = s ".h" -> forall pre x body a post,
  Forall nocond pre -> balanced body -> defines (guard_of base) (pre ++ body) = false ->
  In (s "HEADER_PROT_NODEF") (emitted base (pre ++ SPre DIfndef x :: body ++ SPre DEndif a :: post)).
Proof. exact G3. Qed.
Print Assumptions C14_G3.

(* ---- G4: a second guard after the first -> HEADER_PROT_MULT ---- *)
Theorem C14_G4 : forall base, file_type base = s ".h" -> forall pre x body a mid y rest,
  Forall nocond pre -> balanced body -> Forall nocond mid ->
  In (s "HEADER_PROT_MULT")
     (emitted base (pre ++ SPre DIfndef x :: body ++ SPre DEndif a :: mid ++ SPre DIfndef y :: rest)).
Proof. exact G4. Qed.
Print Assumptions C14_G4.

(* ---- G5: a declaration / include / define before the #ifndef -> HEADER_PROT_ALL ---- *)
Theorem C14_G5 : forall base, file_type base = s ".h" -> forall pre x rest,
  Forall nocond pre -> existsb (fun y => negb (is_trivia y)) pre = true ->
  In (s "HEADER_PROT_ALL") (emitted base (pre ++ SPre DIfndef x :: rest)).
Proof. exact G5. Qed.
Print Assumptions C14_G5.

(* ---- G6: anything but comments and blank lines after the closing #endif -> HEADER_PROT_ALL_AF ---- *)
Theorem C14_G6 : forall base, file_type base = s ".h" -> forall pre x body a post,
  Forall nocond pre -> balanced body -> existsb (fun y => negb (is_trivia y)) post = true ->
  In (s "HEADER_PROT_ALL_AF") (emitted base (pre ++ SPre DIfndef x :: body ++ SPre DEndif a :: post)).
Proof. exact G6. Qed.
Print Assumptions C14_G6.

(* ---- G8: a file that is not a .h is never subject to the check, whatever it contains ---- *)
Theorem C14_G8 : forall base t, file_type base <> s ".h" -> emitted base t = [].
Proof. exact G8. Qed.
Print Assumptions C14_G8.

(* ---- G7 (known finding C14-no-guard-unreported): a header with declarations and no guard is NOT reported.
        The property asks for a protection diagnostic here; the model (= the code) provably gives none: ---- *)
Theorem C14_G7_refuted :
  exists base t, file_type base = s ".h" /\ In SDecl t /\ Forall no_guard_directive t /\ emitted base t = [].
Proof. exact G7_refuted. Qed.
Print Assumptions C14_G7_refuted.

(* ... and not just on the witness: no trace without #ifndef and #endif is ever reported *)
Theorem C14_G7_unguarded_never_reported : forall base t, Forall no_guard_directive t -> emitted base t = [].
Proof. exact unguarded_never_reported. Qed.
Print Assumptions C14_G7_unguarded_never_reported.

(* ---- ties of the hand-written part to the source ---- *)
Theorem C14_source_tie :
  (helper_fingerprints =
   [("IsPreprocessorStatement.run"%string, "48a46efb9364135d5587"%string);
    ("IsPreprocessorStatement.check_define"%string, "fd0af073f96d7a23da4a"%string);
    ("IsPreprocessorStatement.check_if"%string, "253bcc99a52ab6b60919"%string);
    ("IsPreprocessorStatement.check_elif"%string, "3c0afe23745e0e037cd8"%string);
    ("IsPreprocessorStatement.check_ifdef"%string, "c4ed40de330b99826894"%string);
    ("IsPreprocessorStatement.check_ifndef"%string, "379b2a6aa71f0ec26d3a"%string);
    ("IsPreprocessorStatement.check_else"%string, "ca52ce0c4bf13144ac0d"%string);
    ("IsPreprocessorStatement.check_endif"%string, "347640b99ba61b3be6b8"%string);
    ("context.PreProcessors"%string, "491920c469f97a7b8d24"%string);
    ("context.Macro"%string, "a2ac579f6f7279f40917"%string);
    ("context.Context.skip_ws"%string, "8a2f7cd42bbf735d2091"%string);
    ("context.Context.peek_token"%string, "d088a963519c514bd22b"%string);
    ("context.Context.check_token"%string, "8df73448beb7e789b2b1"%string);
    ("registry.Registry.run_rules"%string, "32df293fcb9dde5268b3"%string);
    ("rule.Rule.__eq__"%string, "bc234333279ed021bbc6"%string);
    ("file.File.__init__"%string, "cc0d0724822971e5539a"%string)]
   /\ ctx_init_preproc_state =
      ["Context: self.history = []"%string; "Context: self.protected = False"%string;
       "PreProcessors: self.indent = 0"%string; "PreProcessors: self.macros = []"%string]
   /\ prot_depends_on = [s "IsPreprocessorStatement"]
   /\ prot_class_bases = ["Rule"%string; "Check"%string]).
Proof. exact guard_source_tie. Qed.
Print Assumptions C14_source_tie.

Theorem C14_directive_effects : forall k,
  directive_effect k =
  match k with
  | DIfndef | DIf | DIfdef => (1, false)
  | DEndif => (-1, false)
  | DDefine => (0, true)
  | _ => (0, false)
  end.
Proof. exact directive_effect_eq. Qed.
Print Assumptions C14_directive_effects.

Theorem C14_registry_tie :
  existsb (fun k => str_eqb (c_name k) (s "CheckPreprocessorProtection")
                    && match c_depends k with [d] => str_eqb d (s "IsPreprocessorStatement") | _ => false end
                    && negb (c_start k) && negb (c_rule k) && negb (c_end k)) checks = true
  /\ forallb (fun p => str_eqb (p_name p) (s "IsPreprocessorStatement") || Z.ltb (p_priority p) 100) primaries = true
  /\ existsb (fun p => str_eqb (p_name p) (s "IsPreprocessorStatement") && Z.eqb (p_priority p) 100
                       && match p_scope p with [] => true | _ => false end) primaries = true.
Proof. exact guard_registry_tie. Qed.
Print Assumptions C14_registry_tie.

(* the only writers of context.protected / preproc.indent / preproc.macros / context.history in the package *)
Theorem C14_state_frame :
  map (fun e => fst (fst e)) state_writers =
  ["norminette/context.py"; "norminette/context.py"; "norminette/context.py"; "norminette/context.py";
   "norminette/context.py"; "norminette/registry.py"; "norminette/rules/check_preprocessor_protection.py";
   "norminette/rules/is_preprocessor_statement.py"; "norminette/rules/is_preprocessor_statement.py";
   "norminette/rules/is_preprocessor_statement.py"; "norminette/rules/is_preprocessor_statement.py";
   "norminette/rules/is_preprocessor_statement.py"; "norminette/scope.py"]%string.
Proof. exact state_frame. Qed.
Print Assumptions C14_state_frame.

(* ====================================================================== file -> tokens -> turns (round 2) *)
From NV Require Import Model.GuardTok Proofs.GuardTok Proofs.GuardLex Proofs.GuardFile.

(* ---- FILE LEVEL, lexer half: `#ifndef X \n # define Y \n` before any text R the tokenizer accepts ---- *)
Theorem C14_lex_guard_open :
  forall (uw ud : N -> bool) (x y R : str) (itemsR : list Lexer.item) (xR : Lexer.st),
  ident_ok x ->
  ident_ok y ->
  Lexer.lex uw ud R = Ok (itemsR, xR) ->
  exists (its1 its2 : list Lexer.item) (m : nat),
  Lexer.lex uw ud (ifndef_text x ++ define_text y ++ R) =
  Ok (its1 ++ its2 ++ map (LineShift.sh_item 2 m) itemsR, LineShift.shl 2 m xR) /\
  map tv (Lexer.tokens_of its1) = ifndef_line x /\ map tv (Lexer.tokens_of its2) = define_line y.
Proof. exact lex_guard_open. Qed.
Print Assumptions C14_lex_guard_open.

(* ... and behind the 42 header *)
Theorem C14_lex_header_guard_open :
  forall (uw ud : N -> bool) (f : Header.fields) (x y R : str) (itemsR : list Lexer.item)
  (xR : Lexer.st),
  HeaderLex.fields_lex_ok f = true ->
  ident_ok x ->
  ident_ok y ->
  Lexer.lex uw ud R = Ok (itemsR, xR) ->
  exists (its1 its2 itsR : list Lexer.item) (xf : Lexer.st),
  Lexer.lex uw ud (Header.lines_text (Header.template f) ++ ifndef_text x ++ define_text y ++ R) =
  Ok (CommentLines.comment_items 0 1 (Header.template_mids f) ++ its1 ++ its2 ++ itsR, xf) /\
  map tv (Lexer.tokens_of its1) = ifndef_line x /\
  map tv (Lexer.tokens_of its2) = define_line y /\
  map tv (Lexer.tokens_of itsR) = map tv (Lexer.tokens_of itemsR).
Proof. exact lex_header_guard_open. Qed.
Print Assumptions C14_lex_header_guard_open.

(* the closing line *)
Theorem C14_lex_endif_alone :
  forall uw ud : N -> bool,
  exists (its : list Lexer.item) (xf : Lexer.st),
  Lexer.lex uw ud endif_text = Ok (its, xf) /\ map tv (Lexer.tokens_of its) = endif_line.
Proof. exact lex_endif_alone. Qed.
Print Assumptions C14_lex_endif_alone.

(* the expected symbol of a name over [a-z0-9_.] that starts with a letter, `_` or `.` is an identifier and no keyword *)
Theorem C14_guard_of_ident_ok :
  forall (c : N) (stem : list N),
  name_start c -> Forall name_char stem -> ident_ok (guard_of ((c :: stem) ++ s ".h")).
Proof. exact guard_of_ident_ok. Qed.
Print Assumptions C14_guard_of_ident_ok.

(* ---- engine half: a turn on a guard line (as tokens) is the abstract step of the statement ---- *)
Theorem C14_tok_step_ifndef :
  forall (c : gctx) (l1 : list Lexer.token) (x : str) (rest : list Lexer.token) (r : list stmt),
  map tv l1 = ifndef_line x -> tok_step c PRE (l1 ++ rest) = step c (SPre DIfndef x) r.
Proof. exact tok_step_ifndef. Qed.
Print Assumptions C14_tok_step_ifndef.

Theorem C14_tok_step_define :
  forall (c : gctx) (l2 : list Lexer.token) (x : str) (rest : list Lexer.token) (r : list stmt),
  map tv l2 = define_line x -> tok_step c PRE (l2 ++ rest) = step c (SPre DDefine x) r.
Proof. exact tok_step_define. Qed.
Print Assumptions C14_tok_step_define.

Theorem C14_tok_step_endif :
  forall (c : gctx) (l3 rest : list Lexer.token) (r : list stmt),
  map tv l3 = endif_line ->
  rest = [] \/
  (exists (t : Lexer.token) (more : list Lexer.token),
  rest = t :: more /\ is_trivia_ty (Lexer.t_type t) = false) ->
  forallb is_trivia r = match rest with
  | [] => true
  | _ :: _ => false
  end -> tok_step c PRE (l3 ++ rest) = step c (SPre DEndif []) r.
Proof. exact tok_step_endif. Qed.
Print Assumptions C14_tok_step_endif.

(* a range of turns simulated statement by statement emits what the trace model emits *)
Theorem C14_tok_run_sim :
  forall (xs : list stmt) (oracle : nat -> Engine.tryres) (toks : list Lexer.token) 
  (start : nat) (tl : list stmt) (c : gctx),
  simulates oracle toks start xs tl ->
  tok_run oracle toks start (Datatypes.length xs) c = run_tl c xs tl.
Proof. exact tok_run_sim. Qed.
Print Assumptions C14_tok_run_sim.

(* ---- token level: guarded_shape = comment/blank turns, the `#ifndef x` turn, the `# define y` turn, body turns
        simulated by abstract statements, the `#endif` turn, then `after` ---- *)
Theorem C14_tok_accept :
  forall base : str,
  file_type base = s ".h" ->
  forall (oracle : nat -> Engine.tryres) (toks : list Lexer.token) (pre body : list stmt),
  balanced body ->
  guarded_shape oracle toks pre body (guard_of base) (guard_of base) [] ->
  tok_emitted base oracle toks (turns pre body) = [].
Proof. exact tok_accept. Qed.
Print Assumptions C14_tok_accept.

Theorem C14_tok_G1 :
  forall base : str,
  file_type base = s ".h" ->
  forall (oracle : nat -> Engine.tryres) (toks : list Lexer.token) (pre body : list stmt) (x y : str),
  x <> guard_of base ->
  py_upper x <> guard_of base ->
  guarded_shape oracle toks pre body x y [] ->
  In (s "HEADER_PROT_NAME") (tok_emitted base oracle toks (turns pre body)).
Proof. exact tok_G1. Qed.
Print Assumptions C14_tok_G1.

Theorem C14_tok_G2 :
  forall base : str,
  file_type base = s ".h" ->
  forall (oracle : nat -> Engine.tryres) (toks : list Lexer.token) (pre body : list stmt) (x y : str),
  x <> guard_of base ->
  py_upper x = guard_of base ->
  guarded_shape oracle toks pre body x y [] ->
  In (s "HEADER_PROT_UPPER") (tok_emitted base oracle toks (turns pre body)).
Proof. exact tok_G2. Qed.
Print Assumptions C14_tok_G2.

Theorem C14_tok_G3 :
  forall base : str,
  file_type base = s ".h" ->
  forall (oracle : nat -> Engine.tryres) (toks : list Lexer.token) (pre body : list stmt) (x y : str),
  y <> guard_of base ->
  balanced body ->
  defines (guard_of base) body = false ->
  guarded_shape oracle toks pre body x y [] ->
  In (s "HEADER_PROT_NODEF") (tok_emitted base oracle toks (turns pre body)).
Proof. exact tok_G3. Qed.
Print Assumptions C14_tok_G3.

Theorem C14_tok_G6 :
  forall base : str,
  file_type base = s ".h" ->
  forall (oracle : nat -> Engine.tryres) (toks : list Lexer.token) (pre body : list stmt)
  (x y : str) (t : Lexer.token) (more : list Lexer.token),
  is_trivia_ty (Lexer.t_type t) = false ->
  balanced body ->
  guarded_shape oracle toks pre body x y (t :: more) ->
  In (s "HEADER_PROT_ALL_AF") (tok_emitted base oracle toks (turns pre body)).
Proof. exact tok_G6. Qed.
Print Assumptions C14_tok_G6.

(* ---- file level: text -> lex -> tokens -> turns.  Hypotheses left: the oracle recognises the two opening lines as
        IsPreprocessorStatement (jump 5 / 6), and rest_shape (body turns simulated, closing `#endif` line) ---- *)
Theorem C14_file_shape_header :
  forall (uw ud : N -> bool) (f : Header.fields) (x y R : str) (itemsR : list Lexer.item)
  (xR : Lexer.st) (items' : list Lexer.item) (xf' : Lexer.st) (oracle : nat -> Engine.tryres)
  (body : list stmt) (after : list Lexer.token),
  HeaderLex.fields_lex_ok f = true ->
  ident_ok x ->
  ident_ok y ->
  Lexer.lex uw ud R = Ok (itemsR, xR) ->
  Lexer.lex uw ud (Header.lines_text (Header.template f) ++ ifndef_text x ++ define_text y ++ R) =
  Ok (items', xf') ->
  EngineTok.induced oracle (Lexer.tokens_of items') ->
  oracle 11%nat = Engine.Matched PRE 5 ->
  oracle 12%nat = Engine.Matched PRE 6 ->
  rest_shape oracle (Lexer.tokens_of items') 13 body after ->
  guarded_shape oracle (Lexer.tokens_of items') comments11 body x y after.
Proof. exact file_shape_header. Qed.
Print Assumptions C14_file_shape_header.

Theorem C14_file_accept_partial :
  forall (uw ud : N -> bool) (base : str),
  file_type base = s ".h" ->
  forall f : Header.fields,
  HeaderLex.fields_lex_ok f = true ->
  forall (R : str) (itemsR : list Lexer.item) (xR : Lexer.st),
  Lexer.lex uw ud R = Ok (itemsR, xR) ->
  forall (oracle : nat -> Engine.tryres) (body : list stmt) (items' : list Lexer.item) (xf' : Lexer.st),
  ident_ok (guard_of base) ->
  Lexer.lex uw ud
  (Header.lines_text (Header.template f) ++
  ifndef_text (guard_of base) ++ define_text (guard_of base) ++ R) = Ok (items', xf') ->
  EngineTok.induced oracle (Lexer.tokens_of items') ->
  oracle 11%nat = Engine.Matched PRE 5 ->
  oracle 12%nat = Engine.Matched PRE 6 ->
  rest_shape oracle (Lexer.tokens_of items') 13 body [] ->
  balanced body -> tok_emitted base oracle (Lexer.tokens_of items') (turns comments11 body) = [].
Proof. exact file_accept_partial. Qed.
Print Assumptions C14_file_accept_partial.

Theorem C14_file_G1_partial :
  forall (uw ud : N -> bool) (base : str),
  file_type base = s ".h" ->
  forall f : Header.fields,
  HeaderLex.fields_lex_ok f = true ->
  forall (R : str) (itemsR : list Lexer.item) (xR : Lexer.st),
  Lexer.lex uw ud R = Ok (itemsR, xR) ->
  forall (oracle : nat -> Engine.tryres) (body : list stmt) (x y : str) (items' : list Lexer.item)
  (xf' : Lexer.st),
  ident_ok x ->
  ident_ok y ->
  x <> guard_of base ->
  py_upper x <> guard_of base ->
  Lexer.lex uw ud (Header.lines_text (Header.template f) ++ ifndef_text x ++ define_text y ++ R) =
  Ok (items', xf') ->
  EngineTok.induced oracle (Lexer.tokens_of items') ->
  oracle 11%nat = Engine.Matched PRE 5 ->
  oracle 12%nat = Engine.Matched PRE 6 ->
  rest_shape oracle (Lexer.tokens_of items') 13 body [] ->
  In (s "HEADER_PROT_NAME") (tok_emitted base oracle (Lexer.tokens_of items') (turns comments11 body)).
Proof. exact file_G1_partial. Qed.
Print Assumptions C14_file_G1_partial.

Theorem C14_file_G2_partial :
  forall (uw ud : N -> bool) (base : str),
  file_type base = s ".h" ->
  forall f : Header.fields,
  HeaderLex.fields_lex_ok f = true ->
  forall (R : str) (itemsR : list Lexer.item) (xR : Lexer.st),
  Lexer.lex uw ud R = Ok (itemsR, xR) ->
  forall (oracle : nat -> Engine.tryres) (body : list stmt) (x y : str) (items' : list Lexer.item)
  (xf' : Lexer.st),
  ident_ok x ->
  ident_ok y ->
  x <> guard_of base ->
  py_upper x = guard_of base ->
  Lexer.lex uw ud (Header.lines_text (Header.template f) ++ ifndef_text x ++ define_text y ++ R) =
  Ok (items', xf') ->
  EngineTok.induced oracle (Lexer.tokens_of items') ->
  oracle 11%nat = Engine.Matched PRE 5 ->
  oracle 12%nat = Engine.Matched PRE 6 ->
  rest_shape oracle (Lexer.tokens_of items') 13 body [] ->
  In (s "HEADER_PROT_UPPER") (tok_emitted base oracle (Lexer.tokens_of items') (turns comments11 body)).
Proof. exact file_G2_partial. Qed.
Print Assumptions C14_file_G2_partial.

Theorem C14_file_G3_partial :
  forall (uw ud : N -> bool) (base : str),
  file_type base = s ".h" ->
  forall f : Header.fields,
  HeaderLex.fields_lex_ok f = true ->
  forall (R : str) (itemsR : list Lexer.item) (xR : Lexer.st),
  Lexer.lex uw ud R = Ok (itemsR, xR) ->
  forall (oracle : nat -> Engine.tryres) (body : list stmt) (x y : str) (items' : list Lexer.item)
  (xf' : Lexer.st),
  ident_ok x ->
  ident_ok y ->
  y <> guard_of base ->
  balanced body ->
  defines (guard_of base) body = false ->
  Lexer.lex uw ud (Header.lines_text (Header.template f) ++ ifndef_text x ++ define_text y ++ R) =
  Ok (items', xf') ->
  EngineTok.induced oracle (Lexer.tokens_of items') ->
  oracle 11%nat = Engine.Matched PRE 5 ->
  oracle 12%nat = Engine.Matched PRE 6 ->
  rest_shape oracle (Lexer.tokens_of items') 13 body [] ->
  In (s "HEADER_PROT_NODEF") (tok_emitted base oracle (Lexer.tokens_of items') (turns comments11 body)).
Proof. exact file_G3_partial. Qed.
Print Assumptions C14_file_G3_partial.

Theorem C14_file_G6_partial :
  forall (uw ud : N -> bool) (base : str),
  file_type base = s ".h" ->
  forall f : Header.fields,
  HeaderLex.fields_lex_ok f = true ->
  forall (R : str) (itemsR : list Lexer.item) (xR : Lexer.st),
  Lexer.lex uw ud R = Ok (itemsR, xR) ->
  forall (oracle : nat -> Engine.tryres) (body : list stmt) (x y : str) (t : Lexer.token)
  (more : list Lexer.token) (items' : list Lexer.item) (xf' : Lexer.st),
  ident_ok x ->
  ident_ok y ->
  is_trivia_ty (Lexer.t_type t) = false ->
  balanced body ->
  Lexer.lex uw ud (Header.lines_text (Header.template f) ++ ifndef_text x ++ define_text y ++ R) =
  Ok (items', xf') ->
  EngineTok.induced oracle (Lexer.tokens_of items') ->
  oracle 11%nat = Engine.Matched PRE 5 ->
  oracle 12%nat = Engine.Matched PRE 6 ->
  rest_shape oracle (Lexer.tokens_of items') 13 body (t :: more) ->
  In (s "HEADER_PROT_ALL_AF") (tok_emitted base oracle (Lexer.tokens_of items') (turns comments11 body)).
Proof. exact file_G6_partial. Qed.
Print Assumptions C14_file_G6_partial.

Theorem C14_file_accept_plain_partial :
  forall (uw ud : N -> bool) (base R : str) (itemsR : list Lexer.item) (xR : Lexer.st)
  (items' : list Lexer.item) (xf' : Lexer.st) (oracle : nat -> Engine.tryres)
  (body : list stmt),
  file_type base = s ".h" ->
  ident_ok (guard_of base) ->
  Lexer.lex uw ud R = Ok (itemsR, xR) ->
  Lexer.lex uw ud (ifndef_text (guard_of base) ++ define_text (guard_of base) ++ R) = Ok (items', xf') ->
  oracle 0%nat = Engine.Matched PRE 5 ->
  oracle 1%nat = Engine.Matched PRE 6 ->
  rest_shape oracle (Lexer.tokens_of items') 2 body [] ->
  balanced body -> tok_emitted base oracle (Lexer.tokens_of items') (turns [] body) = [].
Proof. exact file_accept_plain_partial. Qed.
Print Assumptions C14_file_accept_plain_partial.

(* non-vacuity of the file-level hypotheses: a complete three-line header, tokenizer model run, obvious oracle *)
Theorem C14_file_example :
  match Lexer.lex nouni_ nouni_ ex_text with
  | Ok (items, _) =>
      rest_shape ex_oracle (Lexer.tokens_of items) 2 [] [] /\
      tok_emitted (s "a.h") ex_oracle (Lexer.tokens_of items) 3 = [] /\ guard_of (s "a.h") = s "A_H"
  | _ => False
  end.
Proof. exact ex_file_accept. Qed.
Print Assumptions C14_file_example.

(* ====================================================================== the oracle hypotheses discharged (round 3) *)
From NV Require Import Gen.IsPreproc Model.GuardTurn Proofs.GuardMatch.

(* ---- round 3: IsPreprocessorStatement's matcher translated (Gen/IsPreproc.v); turn_g = turn with it ---- *)
Theorem C14_turn_refines :
  forall (order : list str) (toks : list Lexer.token) (r : Engine.tryres),
  EngineTok.turn order toks = Some r -> turn_g order toks = Some r.
Proof. exact turn_refines. Qed.
Print Assumptions C14_turn_refines.

Theorem C14_induced_g_induced :
  forall (oracle : nat -> Engine.tryres) (toks : list Lexer.token),
  induced_g oracle toks -> EngineTok.induced oracle toks.
Proof. exact induced_g_induced. Qed.
Print Assumptions C14_induced_g_induced.

Theorem C14_turn_g_pre :
  forall (toks : list Lexer.token) (j : Z),
  ispreproc_run toks = Some (true, j) ->
  turn_g RegistryOrder.primaries_order toks = Some (Engine.Matched PRE j).
Proof. exact turn_g_pre. Qed.
Print Assumptions C14_turn_g_pre.

(* the translated matcher on the three guard lines, whatever follows them *)
Theorem C14_match_ifndef :
  forall (l1 : list Lexer.token) (x : str) (rest : list Lexer.token),
  map tv l1 = ifndef_line x -> ispreproc_run (l1 ++ rest) = Some (true, 5).
Proof. exact match_ifndef. Qed.
Print Assumptions C14_match_ifndef.

Theorem C14_match_define :
  forall (l2 : list Lexer.token) (x : str) (rest : list Lexer.token),
  map tv l2 = define_line x -> ispreproc_run (l2 ++ rest) = Some (true, 6).
Proof. exact match_define. Qed.
Print Assumptions C14_match_define.

Theorem C14_match_endif :
  forall l3 rest : list Lexer.token,
  map tv l3 = endif_line -> ispreproc_run (l3 ++ rest) = Some (true, 3).
Proof. exact match_endif. Qed.
Print Assumptions C14_match_endif.

(* file level without O1 / O2 / the closing-turn hypothesis: all derived from induced_g.  Left: induced_g itself
   (the oracle agrees with the TRANSLATED primaries where they decide), the body simulation, the position of the `#endif` line *)
Theorem C14_file_shape_header_g :
  forall (uw ud : N -> bool) (f : Header.fields) (x y R : str) (itemsR : list Lexer.item)
  (xR : Lexer.st) (items' : list Lexer.item) (xf' : Lexer.st) (oracle : nat -> Engine.tryres)
  (body : list stmt) (after : list Lexer.token),
  HeaderLex.fields_lex_ok f = true ->
  ident_ok x ->
  ident_ok y ->
  Lexer.lex uw ud R = Ok (itemsR, xR) ->
  Lexer.lex uw ud (Header.lines_text (Header.template f) ++ ifndef_text x ++ define_text y ++ R) =
  Ok (items', xf') ->
  induced_g oracle (Lexer.tokens_of items') ->
  rest_shape_g oracle (Lexer.tokens_of items') 13 body after ->
  guarded_shape oracle (Lexer.tokens_of items') comments11 body x y after.
Proof. exact file_shape_header_g. Qed.
Print Assumptions C14_file_shape_header_g.

Theorem C14_file_accept_induced_partial :
  forall (uw ud : N -> bool) (base : str),
  file_type base = s ".h" ->
  forall f : Header.fields,
  HeaderLex.fields_lex_ok f = true ->
  forall (R : str) (itemsR : list Lexer.item) (xR : Lexer.st),
  Lexer.lex uw ud R = Ok (itemsR, xR) ->
  forall (oracle : nat -> Engine.tryres) (body : list stmt) (items' : list Lexer.item) (xf' : Lexer.st),
  ident_ok (guard_of base) ->
  Lexer.lex uw ud
  (Header.lines_text (Header.template f) ++
  ifndef_text (guard_of base) ++ define_text (guard_of base) ++ R) = Ok (items', xf') ->
  induced_g oracle (Lexer.tokens_of items') ->
  rest_shape_g oracle (Lexer.tokens_of items') 13 body [] ->
  balanced body -> tok_emitted base oracle (Lexer.tokens_of items') (turns comments11 body) = [].
Proof. exact file_accept_induced_partial. Qed.
Print Assumptions C14_file_accept_induced_partial.

Theorem C14_file_G1_induced_partial :
  forall (uw ud : N -> bool) (base : str),
  file_type base = s ".h" ->
  forall f : Header.fields,
  HeaderLex.fields_lex_ok f = true ->
  forall (R : str) (itemsR : list Lexer.item) (xR : Lexer.st),
  Lexer.lex uw ud R = Ok (itemsR, xR) ->
  forall (oracle : nat -> Engine.tryres) (body : list stmt) (x y : str) (items' : list Lexer.item)
  (xf' : Lexer.st),
  ident_ok x ->
  ident_ok y ->
  x <> guard_of base ->
  py_upper x <> guard_of base ->
  Lexer.lex uw ud (Header.lines_text (Header.template f) ++ ifndef_text x ++ define_text y ++ R) =
  Ok (items', xf') ->
  induced_g oracle (Lexer.tokens_of items') ->
  rest_shape_g oracle (Lexer.tokens_of items') 13 body [] ->
  In (s "HEADER_PROT_NAME") (tok_emitted base oracle (Lexer.tokens_of items') (turns comments11 body)).
Proof. exact file_G1_induced_partial. Qed.
Print Assumptions C14_file_G1_induced_partial.

Theorem C14_file_G2_induced_partial :
  forall (uw ud : N -> bool) (base : str),
  file_type base = s ".h" ->
  forall f : Header.fields,
  HeaderLex.fields_lex_ok f = true ->
  forall (R : str) (itemsR : list Lexer.item) (xR : Lexer.st),
  Lexer.lex uw ud R = Ok (itemsR, xR) ->
  forall (oracle : nat -> Engine.tryres) (body : list stmt) (x y : str) (items' : list Lexer.item)
  (xf' : Lexer.st),
  ident_ok x ->
  ident_ok y ->
  x <> guard_of base ->
  py_upper x = guard_of base ->
  Lexer.lex uw ud (Header.lines_text (Header.template f) ++ ifndef_text x ++ define_text y ++ R) =
  Ok (items', xf') ->
  induced_g oracle (Lexer.tokens_of items') ->
  rest_shape_g oracle (Lexer.tokens_of items') 13 body [] ->
  In (s "HEADER_PROT_UPPER") (tok_emitted base oracle (Lexer.tokens_of items') (turns comments11 body)).
Proof. exact file_G2_induced_partial. Qed.
Print Assumptions C14_file_G2_induced_partial.

Theorem C14_file_G3_induced_partial :
  forall (uw ud : N -> bool) (base : str),
  file_type base = s ".h" ->
  forall f : Header.fields,
  HeaderLex.fields_lex_ok f = true ->
  forall (R : str) (itemsR : list Lexer.item) (xR : Lexer.st),
  Lexer.lex uw ud R = Ok (itemsR, xR) ->
  forall (oracle : nat -> Engine.tryres) (body : list stmt) (x y : str) (items' : list Lexer.item)
  (xf' : Lexer.st),
  ident_ok x ->
  ident_ok y ->
  y <> guard_of base ->
  balanced body ->
  defines (guard_of base) body = false ->
  Lexer.lex uw ud (Header.lines_text (Header.template f) ++ ifndef_text x ++ define_text y ++ R) =
  Ok (items', xf') ->
  induced_g oracle (Lexer.tokens_of items') ->
  rest_shape_g oracle (Lexer.tokens_of items') 13 body [] ->
  In (s "HEADER_PROT_NODEF") (tok_emitted base oracle (Lexer.tokens_of items') (turns comments11 body)).
Proof. exact file_G3_induced_partial. Qed.
Print Assumptions C14_file_G3_induced_partial.

Theorem C14_file_G6_induced_partial :
  forall (uw ud : N -> bool) (base : str),
  file_type base = s ".h" ->
  forall f : Header.fields,
  HeaderLex.fields_lex_ok f = true ->
  forall (R : str) (itemsR : list Lexer.item) (xR : Lexer.st),
  Lexer.lex uw ud R = Ok (itemsR, xR) ->
  forall (oracle : nat -> Engine.tryres) (body : list stmt) (x y : str) (t : Lexer.token)
  (more : list Lexer.token) (items' : list Lexer.item) (xf' : Lexer.st),
  ident_ok x ->
  ident_ok y ->
  is_trivia_ty (Lexer.t_type t) = false ->
  balanced body ->
  Lexer.lex uw ud (Header.lines_text (Header.template f) ++ ifndef_text x ++ define_text y ++ R) =
  Ok (items', xf') ->
  induced_g oracle (Lexer.tokens_of items') ->
  rest_shape_g oracle (Lexer.tokens_of items') 13 body (t :: more) ->
  In (s "HEADER_PROT_ALL_AF") (tok_emitted base oracle (Lexer.tokens_of items') (turns comments11 body)).
Proof. exact file_G6_induced_partial. Qed.
Print Assumptions C14_file_G6_induced_partial.

Theorem C14_matcher_tie : corresponding_endif_fingerprint = "5269749532a226d76a85"%string
  /\ ispreproc_dispatched = [s "ifndef"; s "define"; s "endif"].
Proof. exact corresponding_endif_pinned. Qed.
Print Assumptions C14_matcher_tie.

(* non-vacuity: on the three-line header every turn is decided by turn_g, with the jumps 5 / 6 / 3 *)
Theorem C14_turns_example :
  match Lexer.lex nouni_ nouni_ ex_text with
  | Ok (items, _) =>
      map (fun k => turn_g RegistryOrder.primaries_order (EngineTok.remaining ex_oracle (Lexer.tokens_of items) k)) [0%nat; 1%nat; 2%nat]
      = [Some (Engine.Matched PRE 5); Some (Engine.Matched PRE 6); Some (Engine.Matched PRE 3)]
      /\ EngineTok.remaining ex_oracle (Lexer.tokens_of items) 3 = []
  | _ => False
  end.
Proof. exact ex_turns_decided. Qed.
Print Assumptions C14_turns_example.

(* ====================================================================== G4 / G5 at file level (round 4) *)
From NV Require Import Proofs.GuardMore.

(* ---- round 4: G4 (second guard after the first) and G5 (a declaration before the guard) at token and file level ---- *)
Theorem C14_tok_G4 :
  forall base : str,
  file_type base = s ".h" ->
  forall (oracle : nat -> Engine.tryres) (toks : list Lexer.token) (pre body : list stmt)
  (x y : str) (l4 rest4 : list Lexer.token) (x2 : str) (j4 : Z),
  balanced body ->
  map tv l4 = ifndef_line x2 ->
  guarded_shape oracle toks pre body x y (l4 ++ rest4) ->
  EngineTok.remaining oracle toks (turns pre body) = l4 ++ rest4 ->
  oracle (turns pre body) = Engine.Matched PRE j4 ->
  In (s "HEADER_PROT_MULT") (tok_emitted base oracle toks (S (turns pre body))).
Proof. exact tok_G4. Qed.
Print Assumptions C14_tok_G4.

Theorem C14_tok_G5 :
  forall base : str,
  file_type base = s ".h" ->
  forall (oracle : nat -> Engine.tryres) (toks : list Lexer.token) (pre : list stmt)
  (x : str) (l1 rest1 : list Lexer.token) (j : Z),
  (forall (i : nat) (s0 : stmt), nth_error pre i = Some s0 -> front_turn oracle i s0) ->
  existsb (fun s0 : stmt => negb (is_trivia s0)) pre = true ->
  EngineTok.remaining oracle toks (Datatypes.length pre) = l1 ++ rest1 ->
  map tv l1 = ifndef_line x ->
  oracle (Datatypes.length pre) = Engine.Matched PRE j ->
  In (s "HEADER_PROT_ALL") (tok_emitted base oracle toks (S (Datatypes.length pre))).
Proof. exact tok_G5. Qed.
Print Assumptions C14_tok_G5.

(* file level.  G4: what follows the closing `#endif` line starts with the tokens of another `#ifndef` line (the translated
   matcher recognises it, jump 5).  Left: induced_g, the body simulation, the position of the `#endif` line, and that the tokens
   after it begin with an ifndef_line (all statements about the token list / `remaining`, none about the oracle) *)
Theorem C14_file_G4_induced_partial :
  forall (uw ud : N -> bool) (base : str),
  file_type base = s ".h" ->
  forall f : Header.fields,
  HeaderLex.fields_lex_ok f = true ->
  forall (R : str) (itemsR : list Lexer.item) (xR : Lexer.st),
  Lexer.lex uw ud R = Ok (itemsR, xR) ->
  forall (oracle : nat -> Engine.tryres) (body : list stmt) (x y x2 : str) (l4 rest4 : list Lexer.token)
  (items' : list Lexer.item) (xf' : Lexer.st),
  ident_ok x ->
  ident_ok y ->
  balanced body ->
  map tv l4 = ifndef_line x2 ->
  Lexer.lex uw ud (Header.lines_text (Header.template f) ++ ifndef_text x ++ define_text y ++ R) =
  Ok (items', xf') ->
  induced_g oracle (Lexer.tokens_of items') ->
  rest_shape_g oracle (Lexer.tokens_of items') 13 body (l4 ++ rest4) ->
  In (s "HEADER_PROT_MULT")
  (tok_emitted base oracle (Lexer.tokens_of items') (S (turns comments11 body))).
Proof. exact file_G4_induced_partial. Qed.
Print Assumptions C14_file_G4_induced_partial.

(* G5: turn 11 (right after the header) is matched by a primary other than IsComment / IsEmptyLine / IsPreprocessorStatement
   (an untranslated primary: abstract IsOther turn) and leaves the `#ifndef` line in front.  Left: induced_g, that turn, the
   position of the `#ifndef` line *)
Theorem C14_file_G5_induced_partial :
  forall (uw ud : N -> bool) (base : str),
  file_type base = s ".h" ->
  forall f : Header.fields,
  HeaderLex.fields_lex_ok f = true ->
  forall (oracle : nat -> Engine.tryres) (S0 : str) (itemsS : list Lexer.item)
  (xS : Lexer.st) (items' : list Lexer.item) (xf' : Lexer.st) (nm : str) (j : Z)
  (x : str) (l1 rest1 : list Lexer.token),
  Lexer.lex uw ud S0 = Ok (itemsS, xS) ->
  Lexer.lex uw ud (Header.lines_text (Header.template f) ++ S0) = Ok (items', xf') ->
  induced_g oracle (Lexer.tokens_of items') ->
  oracle 11%nat = Engine.Matched nm j ->
  str_eqb nm PRE = false ->
  norm_name nm = s "IsOther" ->
  EngineTok.remaining oracle (Lexer.tokens_of items') 12 = l1 ++ rest1 ->
  map tv l1 = ifndef_line x ->
  In (s "HEADER_PROT_ALL") (tok_emitted base oracle (Lexer.tokens_of items') 13).
Proof. exact file_G5_induced_partial. Qed.
Print Assumptions C14_file_G5_induced_partial.

Theorem C14_after_ifndef_ok :
  forall (l4 rest4 : list Lexer.token) (x2 : str),
  map tv l4 = ifndef_line x2 ->
  l4 ++ rest4 = [] \/
  (exists (t : Lexer.token) (more : list Lexer.token),
  l4 ++ rest4 = t :: more /\ is_trivia_ty (Lexer.t_type t) = false).
Proof. exact after_ifndef_ok. Qed.
Print Assumptions C14_after_ifndef_ok.

(* examples: concrete header texts, tokenizer model run, turns decided by the translated primaries *)
Theorem C14_example_file_G4 :
  match Lexer.lex nouni_ nouni_ ex_text_G4 with
  | Ok (items, _) =>
  tok_emitted (s "a.h") ex_oracle_G4 (Lexer.tokens_of items) 4 =
  [s "HEADER_PROT_ALL_AF"; s "HEADER_PROT_MULT"] /\
  map
  (fun k : nat =>
  turn_g RegistryOrder.primaries_order
  (EngineTok.remaining ex_oracle_G4 (Lexer.tokens_of items) k)) [0%nat; 1%nat; 2%nat; 3%nat] =
  [Some (Engine.Matched PRE 5); Some (Engine.Matched PRE 6); Some (Engine.Matched PRE 3);
  Some (Engine.Matched PRE 5)]
  | _ => False
  end.
Proof. exact ex_file_G4. Qed.
Print Assumptions C14_example_file_G4.

Theorem C14_example_file_G5 :
  match Lexer.lex nouni_ nouni_ ex_text_G5 with
  | Ok (items, _) =>
  tok_emitted (s "a.h") ex_oracle_G5 (Lexer.tokens_of items) 2 = [s "HEADER_PROT_ALL"] /\
  Datatypes.length (Lexer.tokens_of items) = 22%nat /\
  map tv (firstn 5 (EngineTok.remaining ex_oracle_G5 (Lexer.tokens_of items) 1)) =
  ifndef_line (s "A_H") /\
  turn_g RegistryOrder.primaries_order (EngineTok.remaining ex_oracle_G5 (Lexer.tokens_of items) 1) =
  Some (Engine.Matched PRE 5) /\ norm_name (s "IsFuncPrototype") = s "IsOther"
  | _ => False
  end.
Proof. exact ex_file_G5. Qed.
Print Assumptions C14_example_file_G5.

(* ====================================================================== the blank line behind the 42 header (round 5) *)
From NV Require Import Model.GuardTurnE Proofs.GuardBlank.

(* the combined turn function turn_ge um = EngineTokE.turn_e with IsPreprocessorStatement answered by the translated matcher:
   it refines turn_g (unconditionally) and turn_e um (when um is silent on IsPreprocessorStatement) *)
Theorem C14_turn_g_refines :
  forall (um : str -> list Lexer.token -> option (bool * Z)) (order : list str)
  (toks : list Lexer.token) (r : Engine.tryres),
  turn_g order toks = Some r -> turn_ge um order toks = Some r.
Proof. exact turn_g_refines. Qed.
Print Assumptions C14_turn_g_refines.

Theorem C14_turn_e_refines_ge :
  forall (um : str -> list Lexer.token -> option (bool * Z)) (order : list str)
  (toks : list Lexer.token) (r : Engine.tryres),
  silent_on_pre um -> EngineTokE.turn_e um order toks = Some r -> turn_ge um order toks = Some r.
Proof. exact turn_e_refines. Qed.
Print Assumptions C14_turn_e_refines_ge.

Theorem C14_induced_ge_induced_g :
  forall (um : str -> list Lexer.token -> option (bool * Z)) (oracle : nat -> Engine.tryres)
  (toks : list Lexer.token), induced_ge um oracle toks -> induced_g oracle toks.
Proof. exact induced_ge_induced_g. Qed.
Print Assumptions C14_induced_ge_induced_g.

Theorem C14_induced_ge_induced_e :
  forall (um : str -> list Lexer.token -> option (bool * Z)) (oracle : nat -> Engine.tryres)
  (toks : list Lexer.token),
  silent_on_pre um -> induced_ge um oracle toks -> EngineTokE.induced_e um oracle toks.
Proof. exact induced_ge_induced_e. Qed.
Print Assumptions C14_induced_ge_induced_e.

Theorem C14_induced_ge_induced :
  forall (um : str -> list Lexer.token -> option (bool * Z)) (oracle : nat -> Engine.tryres)
  (toks : list Lexer.token), induced_ge um oracle toks -> EngineTok.induced oracle toks.
Proof. exact induced_ge_induced. Qed.
Print Assumptions C14_induced_ge_induced.

(* the blank-line turn: decided, under c13's assumption that the four primaries tried before IsEmptyLine decline a
   NEWLINE-first statement *)
Theorem C14_turn_ge_empty_line :
  forall (um : str -> list Lexer.token -> option (bool * Z)) (t : Lexer.token) (rest : list Lexer.token),
  EngineTokE.declines_newline um ->
  Lexer.t_type t = CommentLines.NEWLINE ->
  turn_ge um RegistryOrder.primaries_order (t :: rest) = Some (Engine.Matched (s "IsEmptyLine") 1).
Proof. exact turn_ge_empty_line. Qed.
Print Assumptions C14_turn_ge_empty_line.

Theorem C14_lex_newline_then :
  forall (uw ud : N -> bool) (S0 : str) (itemsS : list Lexer.item) (xS : Lexer.st),
  Lexer.lex uw ud S0 = Ok (itemsS, xS) ->
  Lexer.lex uw ud (10%N :: S0) =
  Ok
  (Lexer.ITok
  {|
  Lexer.t_type := CommentLines.NEWLINE; Lexer.t_line := 1; Lexer.t_col := 1; Lexer.t_val := None
  |} 0 1 :: map (LineShift.sh_item 1 1) itemsS, LineShift.shl 1 1 xS).
Proof. exact lex_newline_then. Qed.
Print Assumptions C14_lex_newline_then.

Theorem C14_blank_turn :
  forall (um : str -> list Lexer.token -> option (bool * Z)) (oracle : nat -> Engine.tryres)
  (toks : list Lexer.token) (k : nat) (t : Lexer.token) (rest : list Lexer.token),
  EngineTokE.declines_newline um ->
  induced_ge um oracle toks ->
  EngineTok.remaining oracle toks k = t :: rest ->
  Lexer.t_type t = CommentLines.NEWLINE ->
  oracle k = Engine.Matched (s "IsEmptyLine") 1 /\
  (forall (c : gctx) (r : list stmt), tok_step c (s "IsEmptyLine") (t :: rest) = step c SBlank r).
Proof. exact blank_turn. Qed.
Print Assumptions C14_blank_turn.

(* file level for  42 header ++ "\n" ++ `#ifndef X\n# define Y\n` ++ R : turns 0..10 comments, 11 the blank line, 12 / 13 the
   opening lines (all derived), 14 = first body turn.  Left: declines_newline um, induced_ge, the body simulation, the position of
   the `#endif` line *)
Theorem C14_file_shape_blank_g :
  forall (uw ud : N -> bool) (um : str -> list Lexer.token -> option (bool * Z)) 
  (f : Header.fields) (x y R : str) (itemsR : list Lexer.item) (xR : Lexer.st)
  (items' : list Lexer.item) (xf' : Lexer.st) (oracle : nat -> Engine.tryres)
  (body : list stmt) (after : list Lexer.token),
  EngineTokE.declines_newline um ->
  HeaderLex.fields_lex_ok f = true ->
  ident_ok x ->
  ident_ok y ->
  Lexer.lex uw ud R = Ok (itemsR, xR) ->
  Lexer.lex uw ud (Header.lines_text (Header.template f) ++ 10%N :: ifndef_text x ++ define_text y ++ R) =
  Ok (items', xf') ->
  induced_ge um oracle (Lexer.tokens_of items') ->
  rest_shape_g oracle (Lexer.tokens_of items') 14 body after ->
  guarded_shape oracle (Lexer.tokens_of items') (comments11 ++ [SBlank]) body x y after.
Proof. exact file_shape_blank_g. Qed.
Print Assumptions C14_file_shape_blank_g.

Theorem C14_file_accept_blank_partial :
  forall (uw ud : N -> bool) (um : str -> list Lexer.token -> option (bool * Z)),
  EngineTokE.declines_newline um ->
  forall base : str,
  file_type base = s ".h" ->
  forall f : Header.fields,
  HeaderLex.fields_lex_ok f = true ->
  forall (R : str) (itemsR : list Lexer.item) (xR : Lexer.st),
  Lexer.lex uw ud R = Ok (itemsR, xR) ->
  forall (oracle : nat -> Engine.tryres) (body : list stmt) (items' : list Lexer.item) (xf' : Lexer.st),
  ident_ok (guard_of base) ->
  Lexer.lex uw ud
  (Header.lines_text (Header.template f) ++
  10%N :: ifndef_text (guard_of base) ++ define_text (guard_of base) ++ R) =
  Ok (items', xf') ->
  induced_ge um oracle (Lexer.tokens_of items') ->
  rest_shape_g oracle (Lexer.tokens_of items') 14 body [] ->
  balanced body ->
  tok_emitted base oracle (Lexer.tokens_of items') (turns (comments11 ++ [SBlank]) body) = [].
Proof. exact file_accept_blank_partial. Qed.
Print Assumptions C14_file_accept_blank_partial.

Theorem C14_file_G1_blank_partial :
  forall (uw ud : N -> bool) (um : str -> list Lexer.token -> option (bool * Z)),
  EngineTokE.declines_newline um ->
  forall base : str,
  file_type base = s ".h" ->
  forall f : Header.fields,
  HeaderLex.fields_lex_ok f = true ->
  forall (R : str) (itemsR : list Lexer.item) (xR : Lexer.st),
  Lexer.lex uw ud R = Ok (itemsR, xR) ->
  forall (oracle : nat -> Engine.tryres) (body : list stmt) (x y : str) (items' : list Lexer.item)
  (xf' : Lexer.st),
  ident_ok x ->
  ident_ok y ->
  x <> guard_of base ->
  py_upper x <> guard_of base ->
  Lexer.lex uw ud (Header.lines_text (Header.template f) ++ 10%N :: ifndef_text x ++ define_text y ++ R) =
  Ok (items', xf') ->
  induced_ge um oracle (Lexer.tokens_of items') ->
  rest_shape_g oracle (Lexer.tokens_of items') 14 body [] ->
  In (s "HEADER_PROT_NAME")
  (tok_emitted base oracle (Lexer.tokens_of items') (turns (comments11 ++ [SBlank]) body)).
Proof. exact file_G1_blank_partial. Qed.
Print Assumptions C14_file_G1_blank_partial.

Theorem C14_file_G2_blank_partial :
  forall (uw ud : N -> bool) (um : str -> list Lexer.token -> option (bool * Z)),
  EngineTokE.declines_newline um ->
  forall base : str,
  file_type base = s ".h" ->
  forall f : Header.fields,
  HeaderLex.fields_lex_ok f = true ->
  forall (R : str) (itemsR : list Lexer.item) (xR : Lexer.st),
  Lexer.lex uw ud R = Ok (itemsR, xR) ->
  forall (oracle : nat -> Engine.tryres) (body : list stmt) (x y : str) (items' : list Lexer.item)
  (xf' : Lexer.st),
  ident_ok x ->
  ident_ok y ->
  x <> guard_of base ->
  py_upper x = guard_of base ->
  Lexer.lex uw ud (Header.lines_text (Header.template f) ++ 10%N :: ifndef_text x ++ define_text y ++ R) =
  Ok (items', xf') ->
  induced_ge um oracle (Lexer.tokens_of items') ->
  rest_shape_g oracle (Lexer.tokens_of items') 14 body [] ->
  In (s "HEADER_PROT_UPPER")
  (tok_emitted base oracle (Lexer.tokens_of items') (turns (comments11 ++ [SBlank]) body)).
Proof. exact file_G2_blank_partial. Qed.
Print Assumptions C14_file_G2_blank_partial.

Theorem C14_file_G3_blank_partial :
  forall (uw ud : N -> bool) (um : str -> list Lexer.token -> option (bool * Z)),
  EngineTokE.declines_newline um ->
  forall base : str,
  file_type base = s ".h" ->
  forall f : Header.fields,
  HeaderLex.fields_lex_ok f = true ->
  forall (R : str) (itemsR : list Lexer.item) (xR : Lexer.st),
  Lexer.lex uw ud R = Ok (itemsR, xR) ->
  forall (oracle : nat -> Engine.tryres) (body : list stmt) (x y : str) (items' : list Lexer.item)
  (xf' : Lexer.st),
  ident_ok x ->
  ident_ok y ->
  y <> guard_of base ->
  balanced body ->
  defines (guard_of base) body = false ->
  Lexer.lex uw ud (Header.lines_text (Header.template f) ++ 10%N :: ifndef_text x ++ define_text y ++ R) =
  Ok (items', xf') ->
  induced_ge um oracle (Lexer.tokens_of items') ->
  rest_shape_g oracle (Lexer.tokens_of items') 14 body [] ->
  In (s "HEADER_PROT_NODEF")
  (tok_emitted base oracle (Lexer.tokens_of items') (turns (comments11 ++ [SBlank]) body)).
Proof. exact file_G3_blank_partial. Qed.
Print Assumptions C14_file_G3_blank_partial.

Theorem C14_file_G4_blank_partial :
  forall (uw ud : N -> bool) (um : str -> list Lexer.token -> option (bool * Z)),
  EngineTokE.declines_newline um ->
  forall base : str,
  file_type base = s ".h" ->
  forall f : Header.fields,
  HeaderLex.fields_lex_ok f = true ->
  forall (R : str) (itemsR : list Lexer.item) (xR : Lexer.st),
  Lexer.lex uw ud R = Ok (itemsR, xR) ->
  forall (oracle : nat -> Engine.tryres) (body : list stmt) (x y x2 : str) (l4 rest4 : list Lexer.token)
  (items' : list Lexer.item) (xf' : Lexer.st),
  ident_ok x ->
  ident_ok y ->
  balanced body ->
  map tv l4 = ifndef_line x2 ->
  Lexer.lex uw ud (Header.lines_text (Header.template f) ++ 10%N :: ifndef_text x ++ define_text y ++ R) =
  Ok (items', xf') ->
  induced_ge um oracle (Lexer.tokens_of items') ->
  rest_shape_g oracle (Lexer.tokens_of items') 14 body (l4 ++ rest4) ->
  In (s "HEADER_PROT_MULT")
  (tok_emitted base oracle (Lexer.tokens_of items') (S (turns (comments11 ++ [SBlank]) body))).
Proof. exact file_G4_blank_partial. Qed.
Print Assumptions C14_file_G4_blank_partial.

Theorem C14_file_G6_blank_partial :
  forall (uw ud : N -> bool) (um : str -> list Lexer.token -> option (bool * Z)),
  EngineTokE.declines_newline um ->
  forall base : str,
  file_type base = s ".h" ->
  forall f : Header.fields,
  HeaderLex.fields_lex_ok f = true ->
  forall (R : str) (itemsR : list Lexer.item) (xR : Lexer.st),
  Lexer.lex uw ud R = Ok (itemsR, xR) ->
  forall (oracle : nat -> Engine.tryres) (body : list stmt) (x y : str) (t : Lexer.token)
  (more : list Lexer.token) (items' : list Lexer.item) (xf' : Lexer.st),
  ident_ok x ->
  ident_ok y ->
  is_trivia_ty (Lexer.t_type t) = false ->
  balanced body ->
  Lexer.lex uw ud (Header.lines_text (Header.template f) ++ 10%N :: ifndef_text x ++ define_text y ++ R) =
  Ok (items', xf') ->
  induced_ge um oracle (Lexer.tokens_of items') ->
  rest_shape_g oracle (Lexer.tokens_of items') 14 body (t :: more) ->
  In (s "HEADER_PROT_ALL_AF")
  (tok_emitted base oracle (Lexer.tokens_of items') (turns (comments11 ++ [SBlank]) body)).
Proof. exact file_G6_blank_partial. Qed.
Print Assumptions C14_file_G6_blank_partial.

(* a complete realistic header (42 header, blank, guard, blank, prototype, blank, #endif): tokenizer model run; every comment,
   blank-line and guard-line turn decided by turn_ge; only the prototype turn is left to an untranslated primary *)
Theorem C14_example_real_header :
  match Lexer.lex nouni_ nouni_ ex_real_text with
  | Ok (items, _) =>
  tok_emitted (s "foo.h") ex_real_oracle (Lexer.tokens_of items) 18 = [] /\
  EngineTok.remaining ex_real_oracle (Lexer.tokens_of items) 18 = [] /\
  forallb
  (fun k : nat =>
  match
  turn_ge um_newline RegistryOrder.primaries_order
  (EngineTok.remaining ex_real_oracle (Lexer.tokens_of items) k)
  with
  | Some (Engine.Matched nm j) =>
  match ex_real_oracle k with
  | Engine.Matched nm' j' => str_eqb nm nm' && (j =? j')
  | _ => false
  end
  | _ => false
  end)
  [0%nat; 1%nat; 2%nat; 3%nat; 4%nat; 5%nat; 6%nat; 7%nat; 8%nat; 9%nat; 10%nat; 11%nat; 12%nat;
  13%nat; 14%nat; 16%nat; 17%nat] = true /\
  turn_ge um_newline RegistryOrder.primaries_order
  (EngineTok.remaining ex_real_oracle (Lexer.tokens_of items) 15) = None
  | _ => False
  end.
Proof. exact ex_real_header. Qed.
Print Assumptions C14_example_real_header.
