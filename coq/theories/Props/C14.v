(* C14 - Include-guard validation follows the file name.
   Statements only; proofs in Proofs/GuardProofs.v.  The check itself (CheckPreprocessorProtection.run) is
   Gen.Guard.prot_run, translated from /repo on every run; Model/Guard.v adds the statement trace, the effect of
   IsPreprocessorStatement (through the generated directive table) and File.type.
   Trace vocabulary: SPre kind arg = preprocessor statement, SDecl = any other statement, SBlank, SComment.
   emitted base t = the HEADER_PROT_* codes, in order, of analysing a file named `base` whose statements are t.
   nocond x = x is not #if/#ifdef/#ifndef/#endif;  balanced l = the conditionals of l are properly nested. *)
From NV Require Import Model.Base Model.GuardBase Gen.Guard Gen.Registry Model.Guard Proofs.GuardProofs.

(* ---- which names are headers: File.type = ".h" for every stem with a character that is not a dot ---- *)
Theorem C14_header_names : forall stem, existsb (fun ch => negb (N.eqb ch 46)) stem = true ->
  file_type (stem ++ s ".h") = s ".h".
Proof. exact file_type_h. Qed.
Print Assumptions C14_header_names.

(* ---- the expected symbol ---- *)
Theorem C14_guard_of_idempotent : forall b, guard_of (guard_of b) = guard_of b.
Proof. exact guard_of_idem. Qed.
Print Assumptions C14_guard_of_idempotent.

Theorem C14_guard_of_alphabet : forall b, Forall name_char b -> Forall macro_char (guard_of b).
Proof. exact guard_of_alphabet. Qed.
Print Assumptions C14_guard_of_alphabet.

Theorem C14_guard_of_shape : forall a b,
  guard_of (a ++ b) = guard_of a ++ guard_of b /\ List.length (guard_of b) = List.length b
  /\ py_upper (guard_of b) = guard_of b.
Proof. exact guard_of_shape. Qed.
Print Assumptions C14_guard_of_shape.

(* Python's str.upper agrees with the model on every ASCII string (table computed by the running interpreter), and the
   source's own guard expression / os.path.splitext agree with guard_of / file_type on the sample names *)
Theorem C14_guard_of_is_pythons : forall b, Forall (fun c => (c < 128)%N) b ->
  py_upper b = List.concat (map (fun c => nth (N.to_nat c) live_ascii_upper []) b).
Proof. exact py_upper_live. Qed.
Print Assumptions C14_guard_of_is_pythons.

Theorem C14_live_samples :
  (forallb (fun p => str_eqb (guard_of (fst p)) (snd p)) live_guard_samples = true
   /\ Nat.leb 10 (List.length live_guard_samples) = true)
  /\ (forallb (fun p => str_eqb (file_type (fst p)) (snd p)) live_splitext_samples = true
      /\ Nat.leb 20 (List.length live_splitext_samples) = true).
Proof. exact live_samples. Qed.
Print Assumptions C14_live_samples.

(* ---- the generated check, by statement kind ---- *)
Theorem C14_check_by_kind : forall x rest c, prot_run (view_of x rest) c = prot_spec x rest c.
Proof. exact prot_run_spec. Qed.
Print Assumptions C14_check_by_kind.

(* ---- accepted: comments/blank lines, #ifndef G, # define G, any balanced body, #endif, comments/blank lines ---- *)
Theorem C14_accept : forall base, file_type base = s ".h" -> forall pre body post a,
  Forall (fun x => is_trivia x = true) pre -> balanced body -> Forall (fun x => is_trivia x = true) post ->
  emitted base (pre ++ SPre DIfndef (guard_of base) :: SPre DDefine (guard_of base) :: body ++ SPre DEndif a :: post) = [].
Proof. exact accept. Qed.
Print Assumptions C14_accept.

(* ---- G1: another symbol -> HEADER_PROT_NAME (whatever follows) ---- *)
Theorem C14_G1 : forall base, file_type base = s ".h" -> forall pre x rest,
  Forall nocond pre -> x <> guard_of base -> py_upper x <> guard_of base ->
  In (s "HEADER_PROT_NAME") (emitted base (pre ++ SPre DIfndef x :: rest)).
Proof. exact G1. Qed.
Print Assumptions C14_G1.

(* ---- G2: the right symbol in any other case pattern -> HEADER_PROT_UPPER ---- *)
Theorem C14_G2 : forall base, file_type base = s ".h" -> forall pre x rest,
  Forall nocond pre -> x <> guard_of base -> py_upper x = guard_of base ->
  In (s "HEADER_PROT_UPPER") (emitted base (pre ++ SPre DIfndef x :: rest)).
Proof. exact G2. Qed.
Print Assumptions C14_G2.

(* ---- G3: the expected symbol is not #defined (missing, or another name) before the closing #endif -> HEADER_PROT_NODEF ---- *)
Theorem C14_G3 : forall base, file_type base = s ".h" -> forall pre x body a post,
  Forall nocond pre -> balanced body -> defines (guard_of base) (pre ++ body) = false ->
  In (s "HEADER_PROT_NODEF") (emitted base (pre ++ SPre DIfndef x :: body ++ SPre DEndif a :: post)).
Proof. exact G3. Qed.
Print Assumptions C14_G3.

(* ---- G4: a second guard after the first -> HEADER_PROT_MULT ---- *)
Theorem C14_G4 : forall base, file_type base = s ".h" -> forall pre x body a mid y rest,
  Forall nocond pre -> balanced body -> Forall nocond mid ->
  In (s "HEADER_PROT_MULT")
     (emitted base (pre ++ SPre DIfndef x :: body ++ SPre DEndif a :: mid ++ SPre DIfndef y :: rest)).
Proof. exact G4. Qed.
Print Assumptions C14_G4.

(* ---- G5: a declaration / include / define before the #ifndef -> HEADER_PROT_ALL ---- *)
Theorem C14_G5 : forall base, file_type base = s ".h" -> forall pre x rest,
  Forall nocond pre -> existsb (fun y => negb (is_trivia y)) pre = true ->
  In (s "HEADER_PROT_ALL") (emitted base (pre ++ SPre DIfndef x :: rest)).
Proof. exact G5. Qed.
Print Assumptions C14_G5.

(* ---- G6: anything but comments and blank lines after the closing #endif -> HEADER_PROT_ALL_AF ---- *)
Theorem C14_G6 : forall base, file_type base = s ".h" -> forall pre x body a post,
  Forall nocond pre -> balanced body -> existsb (fun y => negb (is_trivia y)) post = true ->
  In (s "HEADER_PROT_ALL_AF") (emitted base (pre ++ SPre DIfndef x :: body ++ SPre DEndif a :: post)).
Proof. exact G6. Qed.
Print Assumptions C14_G6.

(* ---- G8: a file that is not a .h is never subject to the check, whatever it contains ---- *)
Theorem C14_G8 : forall base t, file_type base <> s ".h" -> emitted base t = [].
Proof. exact G8. Qed.
Print Assumptions C14_G8.

(* ---- G7 (known finding C14-no-guard-unreported): a header with declarations and no guard is NOT reported.
        The property asks for a protection diagnostic here; the model (= the code) provably gives none: ---- *)
Theorem C14_G7_refuted :
  exists base t, file_type base = s ".h" /\ In SDecl t /\ Forall no_guard_directive t /\ emitted base t = [].
Proof. exact G7_refuted. Qed.
Print Assumptions C14_G7_refuted.

(* ... and not just on the witness: no trace without #ifndef and #endif is ever reported *)
Theorem C14_G7_unguarded_never_reported : forall base t, Forall no_guard_directive t -> emitted base t = [].
Proof. exact unguarded_never_reported. Qed.
Print Assumptions C14_G7_unguarded_never_reported.

(* ---- ties of the hand-written part to the source ---- *)
Theorem C14_source_tie :
  (helper_fingerprints =
   [("IsPreprocessorStatement.run"%string, "48a46efb9364135d5587"%string);
    ("IsPreprocessorStatement.check_define"%string, "fd0af073f96d7a23da4a"%string);
    ("IsPreprocessorStatement.check_if"%string, "253bcc99a52ab6b60919"%string);
    ("IsPreprocessorStatement.check_elif"%string, "3c0afe23745e0e037cd8"%string);
    ("IsPreprocessorStatement.check_ifdef"%string, "c4ed40de330b99826894"%string);
    ("IsPreprocessorStatement.check_ifndef"%string, "379b2a6aa71f0ec26d3a"%string);
    ("IsPreprocessorStatement.check_else"%string, "ca52ce0c4bf13144ac0d"%string);
    ("IsPreprocessorStatement.check_endif"%string, "347640b99ba61b3be6b8"%string);
    ("context.PreProcessors"%string, "491920c469f97a7b8d24"%string);
    ("context.Macro"%string, "a2ac579f6f7279f40917"%string);
    ("context.Context.skip_ws"%string, "8a2f7cd42bbf735d2091"%string);
    ("context.Context.peek_token"%string, "d088a963519c514bd22b"%string);
    ("context.Context.check_token"%string, "8df73448beb7e789b2b1"%string);
    ("registry.Registry.run_rules"%string, "32df293fcb9dde5268b3"%string);
    ("rule.Rule.__eq__"%string, "bc234333279ed021bbc6"%string);
    ("file.File.__init__"%string, "cc0d0724822971e5539a"%string)]
   /\ ctx_init_preproc_state =
      ["Context: self.history = []"%string; "Context: self.protected = False"%string;
       "PreProcessors: self.indent = 0"%string; "PreProcessors: self.macros = []"%string]
   /\ prot_depends_on = [s "IsPreprocessorStatement"]
   /\ prot_class_bases = ["Rule"%string; "Check"%string]).
Proof. exact guard_source_tie. Qed.
Print Assumptions C14_source_tie.

Theorem C14_directive_effects : forall k,
  directive_effect k =
  match k with
  | DIfndef | DIf | DIfdef => (1, false)
  | DEndif => (-1, false)
  | DDefine => (0, true)
  | _ => (0, false)
  end.
Proof. exact directive_effect_eq. Qed.
Print Assumptions C14_directive_effects.

Theorem C14_registry_tie :
  existsb (fun k => str_eqb (c_name k) (s "CheckPreprocessorProtection")
                    && match c_depends k with [d] => str_eqb d (s "IsPreprocessorStatement") | _ => false end
                    && negb (c_start k) && negb (c_rule k) && negb (c_end k)) checks = true
  /\ forallb (fun p => str_eqb (p_name p) (s "IsPreprocessorStatement") || Z.ltb (p_priority p) 100) primaries = true
  /\ existsb (fun p => str_eqb (p_name p) (s "IsPreprocessorStatement") && Z.eqb (p_priority p) 100
                       && match p_scope p with [] => true | _ => false end) primaries = true.
Proof. exact guard_registry_tie. Qed.
Print Assumptions C14_registry_tie.

(* the only writers of context.protected / preproc.indent / preproc.macros / context.history in the package *)
Theorem C14_state_frame :
  map (fun e => fst (fst e)) state_writers =
  ["norminette/context.py"; "norminette/context.py"; "norminette/context.py"; "norminette/context.py";
   "norminette/context.py"; "norminette/registry.py"; "norminette/rules/check_preprocessor_protection.py";
   "norminette/rules/is_preprocessor_statement.py"; "norminette/rules/is_preprocessor_statement.py";
   "norminette/rules/is_preprocessor_statement.py"; "norminette/rules/is_preprocessor_statement.py";
   "norminette/rules/is_preprocessor_statement.py"; "norminette/scope.py"]%string.
Proof. exact state_frame. Qed.
Print Assumptions C14_state_frame.
