(* C13 - The 42 header is recognised exactly.
   Only statements here; proofs are in Proofs/HeaderReProofs.v and Proofs/HeaderProofs.v.
   header_re (Gen/HeaderRe.v) is the expression compiled in CheckHeader.check_header, parsed by Python's own
   re parser on every run; run_step / ctx_init (Gen/HeaderSM.v) are CheckHeader.run, parse_header,
   check_header and Context.__init__ translated statement by statement on every run.
   A trace is the list of statements the primary rules recognised: (rule name, type and text of the
   statement's first token).  That a file made of the template lines is lexed and cut into eleven
   `IsComment / MULT_COMMENT / line` events followed by the body's statements is NOT proved here: it is the
   correspondence run by tools/harness/c13.py (events recorded from the implementation vs. predicted). *)
From NV Require Import Model.Base Model.HeaderRe Model.HeaderState Gen.HeaderRe Gen.HeaderSM Model.Header
  Proofs.HeaderReProofs Proofs.HeaderProofs.
Local Open Scope nat_scope.

(* ---- the matcher used by the model decides the denotation of the expression *)
Theorem C13_searchb_correct : forall p t, searchb p t = true <-> searches p t.
Proof. exact searchb_correct. Qed.
Print Assumptions C13_searchb_correct.

Theorem C13_backtracking_matcher_correct : forall p t, fullb p t = true <-> matches p t.
Proof. exact fullb_correct. Qed.
Print Assumptions C13_backtracking_matcher_correct.

Theorem C13_tabulated_matcher_is_backtracking : forall p t, tab p t = map (fullb p) (suffixes t).
Proof. exact tab_spec. Qed.
Print Assumptions C13_tabulated_matcher_is_backtracking.

(* ---- the source's expression is the eleven line patterns, used with search under DOTALL *)
Theorem C13_header_re_shape :
  header_re = P_frame ++ P_plain ++ P_plain ++ P_file ++ P_plain ++ P_by ++ P_plain ++
              P_stamp (s "Created") 3 ++ P_stamp (s "Updated") 5 ++ P_plain ++ P_frame.
Proof. exact header_re_shape. Qed.
Print Assumptions C13_header_re_shape.

Theorem C13_header_re_use : header_re_method = "search"%string /\ header_re_dotall = true.
Proof. exact header_re_used_with_search. Qed.
Print Assumptions C13_header_re_use.

(* ---- the generated state machine, restated case by case *)
Theorem C13_run_step_spec : forall st ev, run_step st ev = step_spec st ev.
Proof. exact run_step_spec. Qed.
Print Assumptions C13_run_step_spec.

(* CheckHeader runs once after every recognised statement and at no other time; nothing else in the
   package touches its three context attributes or emits its code *)
Theorem C13_schedule_and_footprint :
  header_check_schedule = ([], false, true, false) /\
  header_other_mentions =
    [("norminette/colors.py"%string, "constant INVALID_HEADER"%string);
     ("norminette/context.py"%string, "writes self.header"%string);
     ("norminette/context.py"%string, "writes self.header_parsed"%string);
     ("norminette/context.py"%string, "writes self.header_started"%string);
     ("norminette/norm_error.py"%string, "constant INVALID_HEADER"%string)] /\
  ctx_init = mkhs false false [] [].
Proof. exact schedule_and_footprint. Qed.
Print Assumptions C13_schedule_and_footprint.

(* ---- acceptance of every template instance *)
Theorem C13_header_accepted : forall f, stamps_ok f = true -> searches header_re (lines_text (template f)).
Proof. exact header_accepted. Qed.
Print Assumptions C13_header_accepted.

Theorem C13_shape_accepted : forall ls, shape ls -> matches header_re (lines_text ls).
Proof. exact shape_accepted. Qed.
Print Assumptions C13_shape_accepted.

(* ---- at most once, for every trace *)
Theorem C13_at_most_once : forall evs, invalid_count evs <= 1.
Proof. exact at_most_once. Qed.
Print Assumptions C13_at_most_once.

(* ---- first half of the property on traces: NO guard on what follows the header.
   What the machine does with it: further block comments that start in column 1 are appended to the header
   text (the search still succeeds); the first statement of any other kind - code, an empty line, a // comment,
   a comment after blanks - triggers the single check, which succeeds; at end of file nothing is checked. *)
Theorem C13_accept : forall f rest, stamps_ok f = true -> invalid_count (header_events f ++ rest) = 0.
Proof. exact accept. Qed.
Print Assumptions C13_accept.

(* the repaired finding C13-comment-after-header, as a positive statement *)
Theorem C13_accept_comment_after_header : forall f x rest, stamps_ok f = true ->
  invalid_count (header_events f ++ line_comment_event x :: rest) = 0.
Proof. exact accept_comment_after_header. Qed.
Print Assumptions C13_accept_comment_after_header.

Theorem C13_accept_trace : forall b0 blocks rest,
  forallb is_block_ev (b0 :: blocks) = true ->
  searches header_re (lines_text (map ev_tok_value (b0 :: blocks))) ->
  invalid_count ((b0 :: blocks) ++ rest) = 0.
Proof. exact accept_trace. Qed.
Print Assumptions C13_accept_trace.

(* ---- second half: each mutation gives exactly one diagnostic, for all field values.
   `is_block_ev ev = false`: the statement after the leading block comments is anything but a block comment in
   column 1 (code, empty line, preprocessor line, // comment, comment after blanks). *)
Theorem C13_reject_Hm1_Hm2_Hm3 : forall ev rest, is_comment_ev ev = false -> invalid_count (ev :: rest) = 1.
Proof. exact reject_first_not_comment. Qed.
Print Assumptions C13_reject_Hm1_Hm2_Hm3.

Theorem C13_reject_first_not_block : forall ev rest, is_block_ev ev = false -> invalid_count (ev :: rest) = 1.
Proof. exact reject_first_not_block. Qed.
Print Assumptions C13_reject_first_not_block.

Theorem C13_reject_Hm4 : forall f rest, invalid_count (hm4_events f ++ rest) = 1.
Proof. exact reject_Hm4. Qed.
Print Assumptions C13_reject_Hm4.

Theorem C13_reject_line_as_line_comment : forall k f rest, k < 11 -> fields_plain f = true ->
  invalid_count (hm4k_events k f ++ rest) = 1.
Proof. exact reject_line_as_line_comment. Qed.
Print Assumptions C13_reject_line_as_line_comment.

Theorem C13_reject_line_comment_above : forall x f rest,
  invalid_count (line_comment_event x :: header_events f ++ rest) = 1.
Proof. exact reject_line_comment_above. Qed.
Print Assumptions C13_reject_line_comment_above.

Theorem C13_reject_text : forall b0 blocks ev rest, forallb is_block_ev (b0 :: blocks) = true ->
  is_block_ev ev = false -> ~ searches header_re (lines_text (map ev_tok_value (b0 :: blocks))) ->
  invalid_count ((b0 :: blocks) ++ ev :: rest) = 1.
Proof. exact reject_text. Qed.
Print Assumptions C13_reject_text.

Theorem C13_reject_Hm5 : forall f ev rest, fields_plain f = true -> is_block_ev ev = false ->
  invalid_count (hm5_events f ++ ev :: rest) = 1.
Proof. exact reject_Hm5. Qed.
Print Assumptions C13_reject_Hm5.

Theorem C13_reject_Hm6 : forall k f ev rest, k < 11 -> fields_plain f = true -> is_block_ev ev = false ->
  invalid_count (map comment_event (hm6_lines k f) ++ ev :: rest) = 1.
Proof. exact reject_Hm6. Qed.
Print Assumptions C13_reject_Hm6.

Theorem C13_reject_Hm7 : forall last n f ev rest, n <> 74 -> fields_plain f = true -> is_block_ev ev = false ->
  invalid_count (map comment_event (hm7_lines last n f) ++ ev :: rest) = 1.
Proof. exact reject_Hm7. Qed.
Print Assumptions C13_reject_Hm7.

Theorem C13_reject_Hm8 : forall k x f ev rest, (k = 5 \/ k = 7 \/ k = 8) -> fields_plain f = true ->
  no_char 42 x = true -> starts_with (keyword_of k) (textline x (art_of k)) = false ->
  is_block_ev ev = false ->
  invalid_count (map comment_event (hm8_lines k x f) ++ ev :: rest) = 1.
Proof. exact reject_Hm8. Qed.
Print Assumptions C13_reject_Hm8.

(* the necessary conditions behind Hm5..Hm8, for any eleven comment lines *)
Theorem C13_needs_eleven_comments : forall t, searches header_re t -> (11 <= occ (s "/*") t)%nat.
Proof. exact re_needs_11. Qed.
Print Assumptions C13_needs_eleven_comments.

Theorem C13_keyword_needed : forall k ls, (k = 5 \/ k = 7 \/ k = 8)%nat -> Forall cline ls -> List.length ls = 11%nat ->
  searches header_re (lines_text ls) -> starts_with (keyword_of k) (nth k ls []) = true.
Proof. exact keyword_needed. Qed.
Print Assumptions C13_keyword_needed.

Theorem C13_frames_needed : forall ls, Forall cline ls -> List.length ls = 11%nat -> searches header_re (lines_text ls) ->
  starts_with frame_line (nth 0 ls []) = true /\ starts_with frame_line (nth 10 ls []) = true.
Proof. exact frames_needed. Qed.
Print Assumptions C13_frames_needed.

(* finding C13-comments-only: no statement other than comments follows, nothing is ever checked *)
Theorem C13_reject_refuted_comments_only :
  exists f, fields_ok f = true /\ invalid_count (map comment_event (hm6_lines 3 f)) = 0.
Proof. exact reject_refuted_comments_only. Qed.
Print Assumptions C13_reject_refuted_comments_only.

(* non-vacuity: the template instance of the repository's own sample, accepted; its mutations, rejected *)
Example C13_example :
  template hud_fields = sample_header_1012 /\ fields_ok hud_fields = true /\
  invalid_count (header_events hud_fields ++ [empty_line_event; code_event]) = 0%nat /\
  invalid_count (map comment_event (hm7_lines true 73 hud_fields) ++ [empty_line_event]) = 1%nat /\
  invalid_count (header_events hud_fields ++ [line_comment_event (s " note"); empty_line_event; code_event]) = 0%nat /\
  invalid_count (hm4k_events 5 hud_fields ++ [empty_line_event]) = 1%nat.
Proof. repeat split; vm_compute; reflexivity. Qed.

(* ---- the lexer half of file -> trace (Proofs/CommentLines.v, Proofs/HeaderLex.v): for all fields whose texts form no
   di/trigraph and hold no backslash, ?, tab (fields_lex_ok), the 42 header followed by ANY text is lexed into exactly one
   MULT_COMMENT token per template line (value = the line, column 1) and its NEWLINE, then the tokens of the text shifted by
   11 lines.  That IsComment matches MULT_COMMENT NEWLINE stays tested. *)
From NV Require Import Model.Lexer Proofs.LineShift Proofs.LineShiftCor Proofs.CommentLines Proofs.HeaderLex.
Theorem C13_header_lexed : forall uw ud f src items xf, fields_lex_ok f = true ->
  lex uw ud src = Ok (items, xf) ->
  lex uw ud (lines_text (template f) ++ src) =
    Ok (comment_items 0 1 (template_mids f) ++ map (sh_item 11 (List.length (lines_text (template f)))) items,
        shl 11 (List.length (lines_text (template f))) xf).
Proof. exact header_then_text_lexed. Qed.
Print Assumptions C13_header_lexed.

Theorem C13_header_tokens : forall f,
  map (fun t => (t_type t, t_val t)) (tokens_of (comment_items 0 1 (template_mids f))) =
  flat_map (fun line => [(MULT_COMMENT, Some line); (NEWLINE, None)]) (template f).
Proof. exact header_tokens. Qed.
Print Assumptions C13_header_tokens.

Theorem C13_header_comment_positions : forall bs o l,
  map (fun t => (t_line t, t_col t)) (filter (fun t => str_eqb (t_type t) MULT_COMMENT) (tokens_of (comment_items o l bs))) =
  map (fun i => (l + Z.of_nat i, 1)) (seq 0 (List.length bs)).
Proof. exact comment_items_positions. Qed.
Print Assumptions C13_header_comment_positions.

Theorem C13_fields_simple_lex_ok : forall f, fields_simple f = true -> fields_lex_ok f = true.
Proof. exact fields_simple_lex_ok. Qed.
Print Assumptions C13_fields_simple_lex_ok.

(* ---- the parser half of file -> trace for the header, and the accept direction END TO END at file level for the modelled
   part of the engine (Proofs/HeaderTurns.v): IsComment.run and the first test of IsPreprocessorStatement.run are translated
   from the source on every run (Gen/IsComment.v); on the header's tokens the first 11 turns of the registry loop are
   IsComment matches of 2 tokens, CheckHeader runs on each, and for ALL fields (fields_lex_ok, stamps_ok), ALL following
   text and ALL later turns no INVALID_HEADER is emitted.  Hypothesis `induced`: the oracle of Model/Engine.v agrees with the
   token-level turn wherever the turn is decided by the translated primaries (compared on every run). *)
From NV Require Import Model.RuleChecks Model.EngineTok0 Model.Engine Model.RegistryOrder Gen.Registry Gen.IsComment Model.EngineTok Proofs.HeaderTurns.
Theorem C13_iscomment_matches_comment_line : forall (t1 t2 : token) rest,
  t_type t1 = MULT_COMMENT -> t_type t2 = NEWLINE -> iscomment_run (t1 :: t2 :: rest) = (true, 2).
Proof. exact iscomment_matches_comment_line. Qed.
Print Assumptions C13_iscomment_matches_comment_line.

Theorem C13_earlier_primaries_do_not_match :
  (exists r, primaries_order = s "IsPreprocessorStatement" :: s "IsComment" :: r) /\
  forall (t1 : token) rest, t_type t1 = MULT_COMMENT -> ispreproc_prefix (t1 :: rest) = Some (false, 0).
Proof. split; [exact order_head|exact earlier_primaries_do_not_match]. Qed.
Print Assumptions C13_earlier_primaries_do_not_match.

Theorem C13_turn_on_comment_line : forall (t1 t2 : token) rest,
  t_type t1 = MULT_COMMENT -> t_type t2 = NEWLINE ->
  turn primaries_order (t1 :: t2 :: rest) = Some (Matched (s "IsComment") 2).
Proof. exact turn_on_comment_line. Qed.
Print Assumptions C13_turn_on_comment_line.

Theorem C13_checkheader_runs_on_iscomment : str_in (s "CheckHeader") (checks_run_on (s "IsComment")) = true.
Proof. exact checkheader_runs_on_iscomment. Qed.
Print Assumptions C13_checkheader_runs_on_iscomment.

Theorem C13_header_turns : forall f X oracle, induced oracle (tokens_of (comment_items 0 1 (template_mids f)) ++ X) ->
  (forall k, (k < 11)%nat -> oracle k = Matched (s "IsComment") 2) /\
  remaining oracle (tokens_of (comment_items 0 1 (template_mids f)) ++ X) 11 = X /\
  forall m, events_upto oracle (tokens_of (comment_items 0 1 (template_mids f)) ++ X) (11 + m) =
            header_events f ++ events_range oracle (tokens_of (comment_items 0 1 (template_mids f)) ++ X) 11 m.
Proof. exact header_turns. Qed.
Print Assumptions C13_header_turns.

Theorem C13_file_accept : forall uw ud f src items xf items' xf' oracle n,
  fields_lex_ok f = true -> stamps_ok f = true ->
  lex uw ud src = Ok (items, xf) ->
  lex uw ud (lines_text (template f) ++ src) = Ok (items', xf') ->
  induced oracle (tokens_of items') ->
  count_code INVALID_HEADER (run_from ctx_init (events_upto oracle (tokens_of items') n)) = 0%nat.
Proof. exact file_accept. Qed.
Print Assumptions C13_file_accept.

Theorem C13_engine_ties :
  eol_fingerprint = "9a0c1c8b8c7f30bfd678"%string /\
  registry_primary_loop =
    ["if rule.scope and context.scope not in rule.scope:     continue"%string;
     "ret, jump = self.run_rules(context, rule)"%string;
     "if ret is True: ... context.pop_tokens(jump); break"%string].
Proof. split; [exact eol_pinned|exact registry_loop_pinned]. Qed.
Print Assumptions C13_engine_ties.

(* ---- the reject direction at file level: source text -> lexer model -> turns -> generated machine *)
From NV Require Import Model.Diag Proofs.HeaderReject Proofs.FirstToken Proofs.HeaderReject2.
(* ---- append block for Props/C13.v (imports to add: Proofs.HeaderReject Proofs.FirstToken Proofs.HeaderReject2) *)
Theorem C13_file_reject_lines : forall uw ud bs src items xf items' xf' oracle name jmp m,
  forallb body_ok bs = true -> bs <> [] -> ~ searches header_re (comment_lines bs) ->
  lex uw ud src = Ok (items, xf) -> first_tok_not_block (tokens_of items) = true ->
  lex uw ud (comment_lines bs ++ src) = Ok (items', xf') ->
  induced oracle (tokens_of items') -> oracle (List.length bs) = Matched name jmp ->
  diag_count (events_upto oracle (tokens_of items') (List.length bs + S m)) = 1%nat.
Proof. exact file_reject_lines. Qed.
Print Assumptions C13_file_reject_lines.

Theorem C13_file_reject_Hm6 : forall uw ud j f src items xf items' xf' oracle name jmp m,
  (j < 11)%nat -> fields_lex_ok f = true -> fields_plain f = true ->
  lex uw ud src = Ok (items, xf) -> first_tok_not_block (tokens_of items) = true ->
  lex uw ud (lines_text (hm6_lines j f) ++ src) = Ok (items', xf') ->
  induced oracle (tokens_of items') -> oracle 10%nat = Matched name jmp ->
  diag_count (events_upto oracle (tokens_of items') (10 + S m)) = 1%nat.
Proof. exact file_reject_Hm6. Qed.
Print Assumptions C13_file_reject_Hm6.

Theorem C13_file_reject_Hm7 : forall uw ud last n f src items xf items' xf' oracle name jmp m,
  n <> 74%nat -> fields_lex_ok f = true -> fields_plain f = true ->
  lex uw ud src = Ok (items, xf) -> first_tok_not_block (tokens_of items) = true ->
  lex uw ud (lines_text (hm7_lines last n f) ++ src) = Ok (items', xf') ->
  induced oracle (tokens_of items') -> oracle 11%nat = Matched name jmp ->
  diag_count (events_upto oracle (tokens_of items') (11 + S m)) = 1%nat.
Proof. exact file_reject_Hm7. Qed.
Print Assumptions C13_file_reject_Hm7.

Theorem C13_file_reject_Hm8 : forall uw ud k x f src items xf items' xf' oracle name jmp m,
  (k = 5 \/ k = 7 \/ k = 8)%nat -> fields_lex_ok f = true -> fields_plain f = true ->
  chain_ok 32 x = true -> no_char 42 x = true -> starts_with (keyword_of k) (textline x (art_of k)) = false ->
  lex uw ud src = Ok (items, xf) -> first_tok_not_block (tokens_of items) = true ->
  lex uw ud (lines_text (hm8_lines k x f) ++ src) = Ok (items', xf') ->
  induced oracle (tokens_of items') -> oracle 11%nat = Matched name jmp ->
  diag_count (events_upto oracle (tokens_of items') (11 + S m)) = 1%nat.
Proof. exact file_reject_Hm8. Qed.
Print Assumptions C13_file_reject_Hm8.

Theorem C13_file_reject_Hm3 : forall uw ud r items' xf' oracle name jmp m,
  lex uw ud (10%N :: r) = Ok (items', xf') -> oracle 0%nat = Matched name jmp ->
  diag_count (events_upto oracle (tokens_of items') (S m)) = 1%nat.
Proof. exact file_reject_Hm3. Qed.
Print Assumptions C13_file_reject_Hm3.

Theorem C13_file_reject_Hm4 : forall uw ud r items' xf' oracle name jmp m,
  lex uw ud (47%N :: 47%N :: r) = Ok (items', xf') -> oracle 0%nat = Matched name jmp ->
  diag_count (events_upto oracle (tokens_of items') (S m)) = 1%nat.
Proof. exact file_reject_Hm4. Qed.
Print Assumptions C13_file_reject_Hm4.

Theorem C13_file_reject_no_opening : forall uw ud file t lo hi its xf' oracle name jmp m,
  lex uw ud file = Ok (ITok t lo hi :: its, xf') -> no_opening file -> oracle 0%nat = Matched name jmp ->
  diag_count (events_upto oracle (tokens_of (ITok t lo hi :: its)) (S m)) = 1%nat.
Proof. exact file_reject_no_opening. Qed.
Print Assumptions C13_file_reject_no_opening.

Theorem C13_src_condition : forall uw ud src items xf,
  lex uw ud src = Ok (items, xf) ->
  ((exists r, src = 10%N :: r) \/ (no_opening src /\ exists t lo hi its, items = ITok t lo hi :: its)) ->
  first_tok_not_block (tokens_of items) = true.
Proof. exact src_condition. Qed.
Print Assumptions C13_src_condition.

Theorem C13_only_opening_makes_block_comment : forall uw ud x t x', raw_peek 2 (rest x) <> Some (s "/*") ->
  try_parsers uw ud parsers x = PTok t x' -> not_mult (t_type t) = true.
Proof. exact try_parsers_not_mult. Qed.
Print Assumptions C13_only_opening_makes_block_comment.

(* ---- multi-line block comments; Hm5 (the header as ONE block comment) at file level *)
From NV Require Import Proofs.MultiLineComment Proofs.HeaderRejectHm5.
(* ---- append block for Props/C13.v (imports to add: Proofs.MultiLineComment Proofs.HeaderRejectHm5) *)
Theorem C13_step_comment_multiline : forall uw ud body tail o l c e, bodym_ok body = true ->
  step uw ud (mkst (47%N :: 42%N :: body ++ 42%N :: 47%N :: tail) o l c e) =
    StepItem (ITok (mktok MULT_COMMENT l c (Some (comment_text body))) o (o + List.length body + 4)%nat)
             (mkst tail (o + List.length body + 4)%nat (fst (posm l (c + 2) body)) (snd (posm l (c + 2) body) + 2) e).
Proof. exact step_comment_ml. Qed.
Print Assumptions C13_step_comment_multiline.

Theorem C13_block_comment_then_text : forall uw ud body src items xf, bodym_ok body = true ->
  lex uw ud src = Ok (items, xf) ->
  lex uw ud (comment_text body ++ 10%N :: src) =
    Ok (ITok (mktok MULT_COMMENT 1 1 (Some (comment_text body))) 0 (List.length body + 4)%nat
        :: ITok (mktok NEWLINE (1 + count_nl body) (snd (posm 1 3 body) + 2) None) (List.length body + 4)%nat (List.length body + 4 + 1)%nat
        :: map (sh_item (count_nl body + 1) (List.length body + 4 + 1)%nat) items,
        shl (count_nl body + 1) (List.length body + 4 + 1)%nat xf).
Proof. exact lex_block_comment_then_text. Qed.
Print Assumptions C13_block_comment_then_text.

Theorem C13_file_reject_Hm5 : forall uw ud f src items xf items' xf' oracle name jmp m,
  fields_lex_ok f = true -> fields_plain f = true ->
  lex uw ud src = Ok (items, xf) -> first_tok_not_block (tokens_of items) = true ->
  lex uw ud (hm5_text f ++ 10%N :: src) = Ok (items', xf') ->
  induced oracle (tokens_of items') -> oracle 1%nat = Matched name jmp ->
  diag_count (events_upto oracle (tokens_of items') (2 + m)) = 1%nat.
Proof. exact file_reject_Hm5. Qed.
Print Assumptions C13_file_reject_Hm5.

(* ---- the statement after the leading comments is an EMPTY LINE: IsEmptyLine translated, its turn proved, the
   recognition hypothesis of the file-level reject theorems discharged (assumption left: declines_newline, i.e. the four
   untranslated primaries between IsComment and IsEmptyLine do not match a NEWLINE-first statement) *)
From NV Require Import Gen.IsEmptyLine Model.EngineTokE Proofs.EmptyLineTurn.
(* ---- append block for Props/C13.v (imports to add: Gen.IsEmptyLine Model.EngineTokE Proofs.EmptyLineTurn) *)
Theorem C13_turn_e_refines : forall um order toks r, turn order toks = Some r -> turn_e um order toks = Some r.
Proof. exact turn_refines. Qed.
Print Assumptions C13_turn_e_refines.

Theorem C13_induced_e_induced : forall um oracle toks, induced_e um oracle toks -> induced oracle toks.
Proof. exact induced_e_induced. Qed.
Print Assumptions C13_induced_e_induced.

Theorem C13_isemptyline_on_newline : forall (t : token) rest, t_type t = NEWLINE -> isemptyline_run (t :: rest) = (true, 1).
Proof. exact isemptyline_on_newline. Qed.
Print Assumptions C13_isemptyline_on_newline.

Theorem C13_turn_on_empty_line : forall um (t : token) rest, declines_newline um -> t_type t = NEWLINE ->
  turn_e um primaries_order (t :: rest) = Some (Matched (s "IsEmptyLine") 1).
Proof. exact turn_on_empty_line. Qed.
Print Assumptions C13_turn_on_empty_line.

Theorem C13_file_reject_lines_emptyline : forall um uw ud bs rest items xf items' xf' oracle m,
  declines_newline um -> forallb body_ok bs = true -> bs <> [] -> ~ searches header_re (comment_lines bs) ->
  lex uw ud (10%N :: rest) = Ok (items, xf) ->
  lex uw ud (comment_lines bs ++ 10%N :: rest) = Ok (items', xf') ->
  induced_e um oracle (tokens_of items') ->
  diag_count (events_upto oracle (tokens_of items') (List.length bs + S m)) = 1%nat.
Proof. exact file_reject_lines_emptyline. Qed.
Print Assumptions C13_file_reject_lines_emptyline.

Theorem C13_file_reject_Hm6_emptyline : forall um uw ud j f rest items xf items' xf' oracle m,
  declines_newline um -> (j < 11)%nat -> fields_lex_ok f = true -> fields_plain f = true ->
  lex uw ud (10%N :: rest) = Ok (items, xf) ->
  lex uw ud (lines_text (hm6_lines j f) ++ 10%N :: rest) = Ok (items', xf') ->
  induced_e um oracle (tokens_of items') ->
  diag_count (events_upto oracle (tokens_of items') (10 + S m)) = 1%nat.
Proof. exact file_reject_Hm6_emptyline. Qed.
Print Assumptions C13_file_reject_Hm6_emptyline.

Theorem C13_file_reject_Hm7_emptyline : forall um uw ud last n f rest items xf items' xf' oracle m,
  declines_newline um -> n <> 74%nat -> fields_lex_ok f = true -> fields_plain f = true ->
  lex uw ud (10%N :: rest) = Ok (items, xf) ->
  lex uw ud (lines_text (hm7_lines last n f) ++ 10%N :: rest) = Ok (items', xf') ->
  induced_e um oracle (tokens_of items') ->
  diag_count (events_upto oracle (tokens_of items') (11 + S m)) = 1%nat.
Proof. exact file_reject_Hm7_emptyline. Qed.
Print Assumptions C13_file_reject_Hm7_emptyline.

Theorem C13_file_reject_Hm8_emptyline : forall um uw ud k x f rest items xf items' xf' oracle m,
  declines_newline um -> (k = 5 \/ k = 7 \/ k = 8)%nat -> fields_lex_ok f = true -> fields_plain f = true ->
  chain_ok 32 x = true -> no_char 42 x = true -> starts_with (keyword_of k) (textline x (art_of k)) = false ->
  lex uw ud (10%N :: rest) = Ok (items, xf) ->
  lex uw ud (lines_text (hm8_lines k x f) ++ 10%N :: rest) = Ok (items', xf') ->
  induced_e um oracle (tokens_of items') ->
  diag_count (events_upto oracle (tokens_of items') (11 + S m)) = 1%nat.
Proof. exact file_reject_Hm8_emptyline. Qed.
Print Assumptions C13_file_reject_Hm8_emptyline.

Theorem C13_file_reject_Hm5_emptyline : forall um uw ud f rest items xf items' xf' oracle m,
  declines_newline um -> fields_lex_ok f = true -> fields_plain f = true ->
  lex uw ud (10%N :: rest) = Ok (items, xf) ->
  lex uw ud (hm5_text f ++ 10%N :: 10%N :: rest) = Ok (items', xf') ->
  induced_e um oracle (tokens_of items') ->
  diag_count (events_upto oracle (tokens_of items') (2 + m)) = 1%nat.
Proof. exact file_reject_Hm5_emptyline. Qed.
Print Assumptions C13_file_reject_Hm5_emptyline.
