(* C03 - Numeric limits are enforced exactly at their boundary.
   Line length (proved, for EVERY source text, every line of it, every mix of tabs and text):
     the specification `line_width` folds the independent position scanner of Spec/TruePos over the line (tabs = 4-column
     tab stops).  From the lexer's position theorem (C09): every token that starts on the line carries the line's number
     and a column <= width + 1, and the token that starts where the line ends - the NEWLINE token of a code line - sits
     exactly in column width + 1.  Hence, for every L: some token of the line lies beyond column L + 1  <->  width > L.
     CheckLineLen's model reports exactly the lines of a statement that have a token beyond column 81, once each; 81 is read
     from the comparison in the source on every run (Gen.Limits), so the boundary is 80 / 81 columns.
   Ties: the compared constants of all seven limit checks (81, 80/81, 25, 26, 5, 4, 5) and structural fingerprints of the
     four small checks, regenerated from the source on every run.
   Not proved (searched exhaustively over the boundary family on every run): that a NEWLINE token exists for every code
     line and that every statement is passed to CheckLineLen (C07's tiling gives the latter for any rule set); the block
     comment lines; the counters behind 25 lines / 5 functions / 4 parameters / 5 variables (scope bookkeeping of the
     unmodelled primaries). *)
From Coq Require Import String.
From NV Require Import Model.Base Model.Diag Model.Lexer Spec.TruePos Spec.LexProps Spec.Width Gen.Limits Gen.LineLen
  Proofs.WidthProofs.

Theorem C03_token_in_line : forall pre line post, ends_lines pre = true -> no_nl line = true ->
  forall uw ud items xf, lex uw ud (pre ++ line ++ post) = Ok (items, xf) ->
  forall t lo hi k, In (ITok t lo hi) items -> lo = (List.length pre + k)%nat -> (k <= List.length line)%nat ->
    t_line t = 1 + count_nl pre /\ t_col t <= line_width line + 1.
Proof. exact token_in_line. Qed.
Print Assumptions C03_token_in_line.

Theorem C03_end_of_line_token_column : forall pre line post, ends_lines pre = true -> no_nl line = true ->
  forall uw ud items xf, lex uw ud (pre ++ line ++ post) = Ok (items, xf) ->
  forall t hi, In (ITok t (List.length pre + List.length line) hi) items ->
    t_line t = 1 + count_nl pre /\ t_col t = line_width line + 1.
Proof. exact end_token_column. Qed.
Print Assumptions C03_end_of_line_token_column.

(* the boundary: with L = 80, `a token of the line beyond column 81` <-> `the line is wider than 80 columns` *)
Theorem C03_width_iff_token_beyond : forall pre line post, ends_lines pre = true -> no_nl line = true ->
  forall uw ud items xf, lex uw ud (pre ++ line ++ post) = Ok (items, xf) ->
  forall L tn hn, In (ITok tn (List.length pre + List.length line) hn) items ->
    ((exists t lo hi k, In (ITok t lo hi) items /\ lo = (List.length pre + k)%nat /\ (k <= List.length line)%nat /\ L + 1 < t_col t)
     <-> L < line_width line).
Proof. exact width_iff_token_beyond. Qed.
Print Assumptions C03_width_iff_token_beyond.

(* CheckLineLen on one statement (any token list): the reported lines are exactly those holding a token beyond column 81 *)
Theorem C03_line_len_check_iff : forall toks l,
  In l (map fst (line_len_check [] toks)) <-> exists t, In t toks /\ t_line t = l /\ 81 < t_col t.
Proof. exact line_len_check_iff. Qed.
Print Assumptions C03_line_len_check_iff.

Theorem C03_line_reported_once : forall toks, NoDup (map fst (line_len_check [] toks)).
Proof. intros toks. exact (proj1 (line_len_check_once toks [])). Qed.
Print Assumptions C03_line_reported_once.

(* the constants the code compares with, regenerated from the source on every run *)
Theorem C03_limits :
  limits_check_line_len = [("tkn.pos[1]", ">", 81)]%string /\
  limits_check_comment_line_len = [("len(line)", ">", 80); ("index + len(token.value)", ">", 81)]%string /\
  limits_check_line_count = [("context.scope.lines", ">", 25)]%string /\
  limits_check_brace = [("context.scope.lines", ">", 26)]%string /\
  limits_check_functions_count = [("context.scope.functions", ">", 5)]%string /\
  limits_check_func_declaration = [("arg", ">", 4)]%string /\
  limits_check_variable_declaration = [("context.scope.vars", ">", 5)]%string.
Proof. repeat split; reflexivity. Qed.
Print Assumptions C03_limits.

Theorem C03_source_tie : limit_check_fingerprints =
  [("norminette/rules/check_line_len.py", "CheckLineLen.run", "b9d9d412e9fcd3c9b701ac8d712ba97adbf45fc4045000a022b15f2927d141af");
   ("norminette/rules/check_comment_line_len.py", "CheckCommentLineLen.run", "26bc9d535ff4b4bd38cec28b16cd96b0e568243c6d108ada2f1380998491899a");
   ("norminette/rules/check_line_count.py", "CheckLineCount.run", "0527cef8b747a5f5672ec5a173146ff72561934b3ea07ed5df89b32731d98adf");
   ("norminette/rules/check_functions_count.py", "CheckFunctionsCount.run", "1f16477d859bd7faea2c08bbb09a6c3d16bc2905551f9c85b3809bdb6d3f5877")]%string.
Proof. reflexivity. Qed.
Print Assumptions C03_source_tie.

(* non-vacuity: a line of width exactly 80 and one of width 81, with tabs, lexed by the model *)
Example C03_boundary_example :
  let l80 := [9%N] ++ repeat 97%N 75 ++ s ";" in
  let l81 := [9%N] ++ repeat 97%N 76 ++ s ";" in
  line_width l80 = 80 /\ line_width l81 = 81 /\
  match lex (fun _ => false) (fun _ => false) (l80 ++ [10%N] ++ l81 ++ [10%N]) with
  | Ok (items, _) => map (fun t => (t_line t, t_col t)) (filter (fun t => str_eqb (t_type t) (s "NEWLINE")) (tokens_of items)) = [(1, 81); (2, 82)]
  | _ => False
  end.
Proof. vm_compute. repeat split. Qed.
(* ---- the 25 lines: scope-trace model (Model/ScopeTrace.v over Gen/ScopeOps.v, regenerated from the source on every run) *)
From NV Require Import Model.ScopeBase Gen.ScopeOps Model.ScopeTrace Model.ScopeBody Proofs.ScopeTraceProofs.
Local Open Scope Z_scope.

(* at the closing brace of a function with a well-nested body the Function scope has counted every line end of the gap, the `{`
   statement and all body statements: lines handed up by brace-less control structures of any depth are not lost *)
Theorem C03_lines_counter : forall g rest hs E nl gap nlo b, isglobal g -> last_ok hs -> gap_ok gap -> body b ->
  exists q F, run (mkstate (g :: rest) hs E) (s_func nl :: gap ++ s_open nlo :: b) = Some q /\
    hd_error (chain q) = Some F /\ s_kind F = k_function /\ s_lines F = total_nl gap + nlo + total_nl b.
Proof. exact lines_counter. Qed.
Print Assumptions C03_lines_counter.

Theorem C03_too_many_lines_iff : forall g rest hs E nl nlo b nlc, isglobal g -> last_ok hs -> body b ->
  exists q, run (mkstate (g :: rest) hs E) (block_of (s_func nl) [] nlo b nlc) = Some q /\
    ems q = (if nlo + total_nl b >? brace_limit then [tml] else []) ++ E.
Proof. exact too_many_lines_iff. Qed.
Print Assumptions C03_too_many_lines_iff.

(* `{` alone on its line: exactly one TOO_MANY_LINES iff the body has more than 25 line ends - none at 25, always at 26 *)
Theorem C03_too_many_lines_25 : forall g rest hs E nl b nlc, isglobal g -> last_ok hs -> body b ->
  exists q, run (mkstate (g :: rest) hs E) (block_of (s_func nl) [] 1 b nlc) = Some q /\
    ((total_nl b > 25 -> ems q = tml :: E) /\ (total_nl b <= 25 -> ems q = E)).
Proof. exact too_many_lines_25. Qed.
Print Assumptions C03_too_many_lines_25.

(* Context.update pops every one-instruction control structure that holds its instruction, crediting each parent *)
Theorem C03_update_pops_chain : forall cs c H rest fuel hist,
  (match hist with x :: _ => str_in x update_skipped | [] => false end) = false ->
  Forall ready (c :: cs) -> bl H = false -> (List.length cs < fuel)%nat ->
  ctx_update (S fuel) hist (c :: cs ++ H :: rest) None = Some (add_lines H (sum_lines (c :: cs)) :: rest, None).
Proof. exact update_pops. Qed.
Print Assumptions C03_update_pops_chain.

Theorem C03_limits_tie : NV.Gen.Limits.limits_check_brace = [("context.scope.lines"%string, ">"%string, brace_limit)] /\
                         NV.Gen.Limits.limits_check_line_count = [("context.scope.lines"%string, ">"%string, line_count_limit)].
Proof. exact limits_tie. Qed.
Print Assumptions C03_limits_tie.

Theorem C03_nine_shapes_at_the_boundary :
  map (fun sh => (emitted_by (sh 25%nat), emitted_by (sh 26%nat))) shapes = repeat (Some ([], 1%nat), Some ([tml], 1%nat)) 9.
Proof. exact nine_shapes_at_the_boundary. Qed.
Print Assumptions C03_nine_shapes_at_the_boundary.
(* ---- 5 functions, 4 parameters, 5 variables: Gen/Counters.v (counting code translated from the source on every run),
   Model/CounterTrace.v (functions / vars on top of the scope-trace model), token-level model of the parameter counter *)
From NV Require Import Model.RuleChecks Model.CounterBase Gen.Counters Model.ScopeTrace Model.ScopeBody Model.CounterTrace
  Proofs.ScopeTraceProofs Proofs.CounterProofs.
Local Open Scope Z_scope.

(* along any file the counter is the number of IsFuncDeclaration matches; TOO_MANY_FUNCS exactly at the matches that bring it
   above the limit: k definitions give max(0, k - 5) diagnostics (prototypes, globals, user-defined types are other primaries) *)
Theorem C03_funcs_iff : forall f, file f ->
  exists q, crun cstate0 f = Some q /\ functions q = nfuncs f /\ fems q = tmf_list 0 f /\
    zlen (fems q) = Z.max 0 (nfuncs f - functions_limit).
Proof. exact funcs_iff. Qed.
Print Assumptions C03_funcs_iff.

Theorem C03_funcs_file : forall f, file f -> forall q, at_file_level q ->
  exists q', crun q f = Some q' /\ at_file_level q' /\
    functions q' = functions q + nfuncs f /\ fems q' = tmf_list (functions q) f ++ fems q.
Proof. exact funcs_file. Qed.
Print Assumptions C03_funcs_file.

(* a function that starts with the declarations nls: the counter starts at 0 for this function whatever came before, one
   TOO_MANY_VARS_FUNC for every declaration beyond the 5th *)
Theorem C03_vars_iff : forall q nl gap nlo nls rest nlc, at_file_level q -> cinv q -> gap_ok gap -> body rest ->
  forallb (fun x => negb (is_vdecl x)) rest = true ->
  exists q', crun q (block_of (s_func nl) gap nlo (map vdecl nls ++ rest) nlc) = Some q' /\
    vems q' = tmv_list 0 (map vdecl nls) ++ vems q /\
    zlen (tmv_list 0 (map vdecl nls)) = Z.max 0 (zlen nls - vars_limit) /\
    at_file_level q' /\ cinv q'.
Proof. exact vars_iff. Qed.
Print Assumptions C03_vars_iff.

(* the parameter counter on `name ( l ) tp ...`: 1 + the number of top-level commas of l (parenthesised groups are skipped
   whole, `(void)` and `()` count as one); TOO_MANY_ARGS, at the token after `)`, iff that exceeds 4 *)
Theorem C03_args_iff : forall pre name lp l n rp tp post scope v,
  t_type lp = ty_lpar -> t_type rp = ty_rpar -> plist l n ->
  check_func_decl_args (pre ++ name :: lp :: l ++ rp :: tp :: post) scope (zlen pre) v
  = Ok (args_start + n, zlen pre + 2 + zlen l + 1,
        if args_start + n >? args_limit then [(s "TOO_MANY_ARGS", t_line tp, t_col tp)] else []).
Proof. exact args_iff. Qed.
Print Assumptions C03_args_iff.

Theorem C03_skip_nest_group : forall pre o g c post, closer_of (t_type o) = Some (t_type c) -> bal g ->
  skip_nest (pre ++ o :: g ++ c :: post) (zlen pre) = Ok (zlen pre + 1 + zlen g).
Proof. exact skip_nest_group. Qed.
Print Assumptions C03_skip_nest_group.

Theorem C03_counter_limits_tie :
  NV.Gen.Limits.limits_check_functions_count = [("context.scope.functions"%string, ">"%string, functions_limit)] /\
  NV.Gen.Limits.limits_check_variable_declaration = [("context.scope.vars"%string, ">"%string, vars_limit)] /\
  NV.Gen.Limits.limits_check_func_declaration = [("arg"%string, ">"%string, args_limit)].
Proof. exact counter_limits_tie. Qed.
Print Assumptions C03_counter_limits_tie.

Theorem C03_counters_at_the_boundary :
  map (fun k => match crun cstate0 (file_of k) with Some q => Some (functions q, fems q) | None => None end) [5%nat; 6%nat; 8%nat]
  = [Some (5, []); Some (6, [tmf]); Some (8, [tmf; tmf; tmf])].
Proof. exact funcs_at_the_boundary. Qed.
Print Assumptions C03_counters_at_the_boundary.

(* ---- CheckCommentLineLen (Spec/Width.block_comment_check / line_comment_check: pinned to the source by C03_source_tie
   and the limits of Gen/Limits; replayed against the implementation by the `blockcomment` command of the driver):
   which lines of a comment are reported.  That the VALUE of a comment token is its raw text with tabs expanded is
   C10's theorem; di/trigraphs inside comments are the recorded finding C17-digraph-in-comment-width. *)
From NV Require Import Proofs.CommentWidth.

Theorem C03_block_comment_check_iff : forall l0 c0 v n,
  In n (block_comment_check l0 c0 v) <->
  exists first more i line, split_nl v [] = first :: more /\
    nth_error ((repeat 32%N (Z.to_nat (c0 - 1)) ++ first) :: more) i = Some line /\ n = (l0 + Z.of_nat i)%Z /\ (80 < zl line)%Z.
Proof. exact block_comment_check_iff. Qed.
Print Assumptions C03_block_comment_check_iff.

Theorem C03_block_comment_lines_are_the_value : forall v, join_nl (split_nl v []) = v.
Proof. exact block_comment_lines_are_the_value. Qed.
Print Assumptions C03_block_comment_lines_are_the_value.

Theorem C03_block_comment_one_line : forall l0 c0 v, forallb (fun c => negb (N.eqb c 10)) v = true -> (1 <= c0)%Z ->
  block_comment_check l0 c0 v = if (80 <? (c0 - 1) + zl v)%Z then [l0] else [].
Proof. exact block_comment_one_line. Qed.
Print Assumptions C03_block_comment_one_line.

Theorem C03_line_comment_check_iff : forall c0 v, line_comment_check c0 v = true <-> (80 < c0 + zl v - 1)%Z.
Proof. exact line_comment_check_iff. Qed.
Print Assumptions C03_line_comment_check_iff.

Example C03_block_comment_example :
  block_comment_check 5 3 (s "/* a" ++ 10%N :: repeat 120%N 81 ++ 10%N :: s "*/") = [6%Z].
Proof. exact block_comment_example. Qed.

(* ---- the LENGTH that CheckCommentLineLen measures is a visual width: for comment text without newline, backslash,
   ?, <, : and % (nothing spliced or respelt) the documented normalisation of C10 (tabs expanded at the true column)
   makes c0 - 1 + len(first line of the value) the visual column of that line's last character, and len(later line)
   its visual width (col_after = the independent position scanner of Spec/TruePos) *)
From NV Require Import Spec.Normalise Proofs.CommentValueWidth.

Theorem C03_comment_value_length_is_visual_width : forall r fuel c, forallb plainc r = true -> (List.length r < fuel)%nat ->
  (c + zl (normalise_from fuel true c r) = col_after c r)%Z.
Proof. exact normalise_plain_width. Qed.
Print Assumptions C03_comment_value_length_is_visual_width.

Theorem C03_comment_first_line_len_is_end_column : forall r c0, forallb plainc r = true ->
  ((c0 - 1) + zl (normalise true c0 r) = col_after c0 r - 1)%Z.
Proof. exact comment_first_line_len_is_end_column. Qed.
Print Assumptions C03_comment_first_line_len_is_end_column.

Theorem C03_comment_later_line_len_is_width : forall r, forallb plainc r = true ->
  (zl (normalise true 1 r) = col_after 1 r - 1)%Z.
Proof. exact comment_later_line_len_is_width. Qed.
Print Assumptions C03_comment_later_line_len_is_width.
