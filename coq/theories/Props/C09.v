(* C09 - Token and diagnostic positions are true source positions.
   Model: Model/Lexer.v (tables from Gen.Dict / Gen.LexTables, regenerated from /repo on every run).
   Specification: Spec/TruePos.v (independent scanner: newline, 4-column tab stops, one column per
   other raw character).  uw / ud: Python's Unicode \w / \d classes, arbitrary. *)
From NV Require Import Model.Base Model.Diag Model.Lexer Spec.TruePos Spec.LexProps Proofs.LexMain Proofs.LexTies.

(* every token of every input carries the true (line, visual column) of its first raw character *)
Theorem C09_positions : forall (uw ud : N -> bool) (src : str) items xf,
  lex uw ud src = Ok (items, xf) -> c09_ok src items = true.
Proof. intros uw ud src items xf H. exact (proj1 (proj2 (lex_positions_and_tiling uw ud src items xf H))). Qed.
Print Assumptions C09_positions.

(* unfolded: for each token item *)
Theorem C09_token : forall (uw ud : N -> bool) (src : str) items xf t lo hi,
  lex uw ud src = Ok (items, xf) -> In (ITok t lo hi) items -> true_pos src lo = (t_line t, t_col t).
Proof.
  intros uw ud src items xf t lo hi H Hin.
  pose proof (C09_positions uw ud src items xf H) as Hc. unfold c09_ok in Hc.
  rewrite forallb_forall in Hc. specialize (Hc _ Hin). cbn in Hc. unfold c09_tok_ok in Hc.
  destruct (true_pos src lo) as [l c]. apply andb_true_iff in Hc as [H1 H2].
  apply Z.eqb_eq in H1, H2. now subst.
Qed.
Print Assumptions C09_token.

(* the bad-lexeme diagnostic points at the offending character *)
Theorem C09_bad_lexeme_position : forall (uw ud : N -> bool) (src : str) items xf lo,
  lex uw ud src = Ok (items, xf) -> In (IBad lo) items -> bad_reported src (errs xf) lo = true.
Proof.
  intros uw ud src items xf lo H Hin.
  destruct (lex_positions_and_tiling uw ud src items xf H) as [_ [_ [_ [_ Hr]]]].
  rewrite forallb_forall in Hr. exact (Hr _ Hin).
Qed.
Print Assumptions C09_bad_lexeme_position.

(* the tokenizer terminates on every input (the model's fuel is never exhausted) *)
Theorem C09_lex_terminates : forall (uw ud : N -> bool) (src : str), lex uw ud src <> Hang.
Proof. exact lex_no_hang. Qed.
Print Assumptions C09_lex_terminates.

(* the numeric matchers of the model were written from the patterns the source compiles today *)
Theorem C09_pattern_ties :
  String.eqb INT_LITERAL_PATTERN_tree Model.NumReExpected.expected_INT_LITERAL_PATTERN_tree = true /\
  INT_LITERAL_PATTERN_flags = Model.NumReExpected.expected_INT_LITERAL_PATTERN_flags.
Proof. exact int_pattern_tie. Qed.
Print Assumptions C09_pattern_ties.

(* non-vacuity: a splice inside a string, tabs, a trigraph; positions as the property reads them *)
Example C09_example :
  let src := s "	" ++ [34; 97; 92; 10; 98; 34]%N ++ s " + x??(1];" in
  match lex (fun _ => false) (fun _ => false) src with
  | Ok (items, _) => c09_ok src items = true /\ List.length (tokens_of items) = 10%nat
  | _ => False
  end.
Proof. vm_compute. split; reflexivity. Qed.
