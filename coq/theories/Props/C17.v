(* C17 - Comment text and string contents are opaque.
   Model: Model/Obs.v (observation vocabulary, replace_ok), Model/Lexer.v; tie: Gen/ValueReads.v.
   Proved: (B) every covered observation of a comment / literal value is invariant under every replacement accepted by
   replace_ok; the generated table of reads is covered; (A) the comment / string loops of the lexer model consume an
   admissible content character as one pop (value extended by it, column + 1).
   Known finding C17-digraph-in-comment-width (refuted below): replace_ok therefore excludes ? % : .
   NOT proved: block-comment loop, char-literal loop and the whole-file composition (tested on the real lexer). *)
From NV Require Import Model.Base Model.Diag Model.Lexer Model.Obs Gen.ValueReads Proofs.ObsProofs Proofs.LexRename.

Theorem C17_obs_invariant_replace : forall guard other k o c old new f,
  In (o, c) (frames k) -> replace_ok k old new = true -> replace_inv f = true ->
  eval_obs guard other f (o ++ new ++ c) = eval_obs guard other f (o ++ old ++ c).
Proof. exact obs_invariant_replace. Qed.
Print Assumptions C17_obs_invariant_replace.

Theorem C17_value_reads_covered : forallb covered value_reads = true.
Proof. exact value_reads_covered. Qed.
Print Assumptions C17_value_reads_covered.

(* `<` and `>` are harmless in replacement text: every trigraph starts with `?`, every digraph contains `%` or `:` *)
Theorem C17_trigraphs_start_with_qmark :
  forallb (fun kv => match fst kv with c :: _ => N.eqb c 63 | [] => false end) trigraphs = true.
Proof. exact trigraphs_start_with_qmark. Qed.
Print Assumptions C17_trigraphs_start_with_qmark.
Theorem C17_digraphs_need_pct_colon :
  forallb (fun kv => match fst kv with [a; b] => chr_in a [37; 58]%N || chr_in b [37; 58]%N | _ => false end) digraphs = true.
Proof. exact digraphs_need_pct_colon. Qed.
Print Assumptions C17_digraphs_need_pct_colon.

(* (A) a `//` comment body of admissible characters, ended by a newline or the end of input *)
Theorem C17_lex_line_comment_content_partial : forall v fuel acc x tail,
  plain_content KLine v = true -> rest x = v ++ tail -> (tail = [] \/ exists t, tail = 10%N :: t) -> (List.length v < fuel)%nat ->
  lc_loop fuel acc x = LDone (acc ++ v) (shift (List.length v) x).
Proof. exact lc_loop_run. Qed.
Print Assumptions C17_lex_line_comment_content_partial.

(* (A) a string body of admissible characters up to the closing quote *)
Theorem C17_lex_string_content_partial : forall v fuel acc x tail,
  plain_content KString v = true -> rest x = v ++ 34%N :: tail -> (List.length v < fuel)%nat ->
  string_loop fuel acc x = SDone (acc ++ v ++ [34%N]) true (shift (S (List.length v)) x).
Proof. exact string_loop_run. Qed.
Print Assumptions C17_lex_string_content_partial.

(* (A) one admissible character of any of the four kinds is one pop, whatever the pop flags *)
Theorem C17_pop_content_char : forall k us ue x c r, rest x = c :: r -> content_char_ok k c = true -> next_ok r = true ->
  pop1 us ue x = PopOk [c] (shift 1 x).
Proof. exact pop1_content. Qed.
Print Assumptions C17_pop_content_char.

(* the known finding, evaluated on the lexer model: `ab` -> `<:` inside a // comment changes the measured length *)
Theorem C17_refuted_digraph_in_comment_width :
  exists old new : str,
    List.length new = List.length old /\
    forallb (fun c => negb (chr_in c [10; 9; 92; 34; 39]%N)) new = true /\
    exists v v', comment_value (s "//" ++ old ++ [10%N]) = Some v /\ comment_value (s "//" ++ new ++ [10%N]) = Some v' /\
      eval_obs [] [] FLen v' <> eval_obs [] [] FLen v.
Proof. exact digraph_in_comment_width_refuted. Qed.
Print Assumptions C17_refuted_digraph_in_comment_width.
