(* C17 - Comment text and string contents are opaque.
   Model: Model/Obs.v (observation vocabulary, replace_ok), Model/Lexer.v; tie: Gen/ValueReads.v.
   Proved: (B) every covered observation of a comment / literal value is invariant under every replacement accepted by
   replace_ok; the generated table of reads is covered; (A) the comment / string loops of the lexer model consume an
   admissible content character as one pop (value extended by it, column + 1).
   Known finding C17-digraph-in-comment-width (refuted below): replace_ok therefore excludes ? % : .
   NOT proved: block-comment loop, char-literal loop and the whole-file composition (tested on the real lexer). *)
From NV Require Import Model.Base Model.Diag Model.Lexer Model.Obs Gen.ValueReads Proofs.ObsProofs Proofs.LexRename.

Theorem C17_obs_invariant_replace : forall guard other k o c old new f,
  In (o, c) (frames k) -> replace_ok k old new = true -> replace_inv f = true ->
  eval_obs guard other f (o ++ new ++ c) = eval_obs guard other f (o ++ old ++ c).
Proof. exact obs_invariant_replace. Qed.
Print Assumptions C17_obs_invariant_replace.

Theorem C17_value_reads_covered : forallb covered value_reads = true.
Proof. exact value_reads_covered. Qed.
Print Assumptions C17_value_reads_covered.

(* `<` and `>` are harmless in replacement text: every trigraph starts with `?`, every digraph contains `%` or `:` *)
Theorem C17_trigraphs_start_with_qmark :
  forallb (fun kv => match fst kv with c :: _ => N.eqb c 63 | [] => false end) trigraphs = true.
Proof. exact trigraphs_start_with_qmark. Qed.
Print Assumptions C17_trigraphs_start_with_qmark.
Theorem C17_digraphs_need_pct_colon :
  forallb (fun kv => match fst kv with [a; b] => chr_in a [37; 58]%N || chr_in b [37; 58]%N | _ => false end) digraphs = true.
Proof. exact digraphs_need_pct_colon. Qed.
Print Assumptions C17_digraphs_need_pct_colon.

(* (A) a `//` comment body of admissible characters, ended by a newline or the end of input *)
Theorem C17_lex_line_comment_content_partial : forall v fuel acc x tail,
  plain_content KLine v = true -> rest x = v ++ tail -> (tail = [] \/ exists t, tail = 10%N :: t) -> (List.length v < fuel)%nat ->
  lc_loop fuel acc x = LDone (acc ++ v) (shift (List.length v) x).
Proof. exact lc_loop_run. Qed.
Print Assumptions C17_lex_line_comment_content_partial.

(* (A) a string body of admissible characters up to the closing quote *)
Theorem C17_lex_string_content_partial : forall v fuel acc x tail,
  plain_content KString v = true -> rest x = v ++ 34%N :: tail -> (List.length v < fuel)%nat ->
  string_loop fuel acc x = SDone (acc ++ v ++ [34%N]) true (shift (S (List.length v)) x).
Proof. exact string_loop_run. Qed.
Print Assumptions C17_lex_string_content_partial.

(* (A) one admissible character of any of the four kinds is one pop, whatever the pop flags *)
Theorem C17_pop_content_char : forall k us ue x c r, rest x = c :: r -> content_char_ok k c = true -> next_ok r = true ->
  pop1 us ue x = PopOk [c] (shift 1 x).
Proof. exact pop1_content. Qed.
Print Assumptions C17_pop_content_char.

(* the known finding, evaluated on the lexer model: `ab` -> `<:` inside a // comment changes the measured length *)
Theorem C17_refuted_digraph_in_comment_width :
  exists old new : str,
    List.length new = List.length old /\
    forallb (fun c => negb (chr_in c [10; 9; 92; 34; 39]%N)) new = true /\
    exists v v', comment_value (s "//" ++ old ++ [10%N]) = Some v /\ comment_value (s "//" ++ new ++ [10%N]) = Some v' /\
      eval_obs [] [] FLen v' <> eval_obs [] [] FLen v.
Proof. exact digraph_in_comment_width_refuted. Qed.
Print Assumptions C17_refuted_digraph_in_comment_width.

(* ---- composition at FILE level (Proofs/LexCompose.v), unbounded in the file: replacing the text of a // comment by
   admissible text of the same length - IF both runs of the tokenizer stand at the comment with the same items so far (the
   prefix assumption: tested on the real lexer for every sampled pair, not proved - the sub-parsers look ahead) THEN the
   complete results agree: the COMMENT token keeps type, line, column and raw span, EVERY later item, the final state and
   its diagnostics are identical, and every covered observation of the token value is unchanged.  With
   C17_value_reads_covered the only other assumption is the reviewed reader table. *)
From NV Require Import Proofs.LexCompose.

Theorem C17_comment_replace_file_obs_partial : forall (uw ud : N -> bool) src src' k x accp v v' tail items xf guard other f,
  List.length src' = List.length src ->
  run uw ud k (init src) [] (with_rest x (47%N :: 47%N :: v ++ tail)) accp ->
  run uw ud k (init src') [] (with_rest x (47%N :: 47%N :: v' ++ tail)) accp ->
  plain_content KLine v = true -> plain_content KLine v' = true -> List.length v' = List.length v -> line_end tail ->
  replace_inv f = true ->
  lex uw ud src = Ok (items, xf) ->
  exists later t t',
    items = rev accp ++ ITok t (off x) (off x + (2 + List.length v)) :: later /\
    lex uw ud src' = Ok (rev accp ++ ITok t' (off x) (off x + (2 + List.length v)) :: later, xf) /\
    t_type t' = t_type t /\ t_line t' = t_line t /\ t_col t' = t_col t /\
    t_val t = Some (47%N :: 47%N :: v) /\ t_val t' = Some (47%N :: 47%N :: v') /\
    eval_obs guard other f (47%N :: 47%N :: v') = eval_obs guard other f (47%N :: 47%N :: v).
Proof. exact comment_replace_file_obs_partial. Qed.
Print Assumptions C17_comment_replace_file_obs_partial.

(* the generic composition step: same items so far, next turn yields T resp. T' and the same state => the complete results
   agree except for T / T' *)
Theorem C17_file_compose : forall (uw ud : N -> bool) src src' k X X' accp T T' Y items xf,
  List.length src' = List.length src ->
  run uw ud k (init src) [] X accp -> run uw ud k (init src') [] X' accp ->
  step uw ud X = StepItem T Y -> step uw ud X' = StepItem T' Y ->
  lex uw ud src = Ok (items, xf) ->
  exists later, items = rev accp ++ T :: later /\ lex uw ud src' = Ok (rev accp ++ T' :: later, xf).
Proof. exact file_compose. Qed.
Print Assumptions C17_file_compose.

(* the string the property excludes is the one of #include: the rule that reads it tests the directive name for "include" only *)
Theorem C17_include_string_guarded : include_guard_literals = [Some (s "h"); Some (s "include")].
Proof. exact include_string_guarded. Qed.
Print Assumptions C17_include_string_guarded.

(* ---- file level WITHOUT the prefix assumption (Proofs/LexPrefix.v): <prefix lexemes> // text <newline or end> <anything>,
   prefix lexemes of the kinds blank / tab / newline, identifier or keyword, one-character operator, bracket, decimal constant;
   named boundary conditions lexs_ok (decidable; see Props/C18.v) and line_end.  Prefixes holding other lexemes stay under
   the _partial theorem above plus the test on the real lexer. *)
From NV Require Import Proofs.LexPrefix.

Theorem C17_comment_replace_file_obs : forall (uw ud : N -> bool) ls v v' tail items xf guard other f,
  lexs_ok ls (47%N :: 47%N :: v ++ tail) = true ->
  plain_content KLine v = true -> plain_content KLine v' = true -> List.length v' = List.length v -> line_end tail ->
  replace_inv f = true ->
  lex uw ud (raws ls ++ 47%N :: 47%N :: v ++ tail) = Ok (items, xf) ->
  let x := lex_nexts pos0 ls in
  exists later t t',
    items = lex_items pos0 ls ++ ITok t (off x) (off x + (2 + List.length v)) :: later /\
    lex uw ud (raws ls ++ 47%N :: 47%N :: v' ++ tail) = Ok (lex_items pos0 ls ++ ITok t' (off x) (off x + (2 + List.length v)) :: later, xf) /\
    t_type t' = t_type t /\ t_line t' = t_line t /\ t_col t' = t_col t /\
    t_val t = Some (47%N :: 47%N :: v) /\ t_val t' = Some (47%N :: 47%N :: v') /\
    eval_obs guard other f (47%N :: 47%N :: v') = eval_obs guard other f (47%N :: 47%N :: v).
Proof. exact comment_replace_file_obs. Qed.
Print Assumptions C17_comment_replace_file_obs.

(* ---- file level for prefixes that also hold comments and plain strings (Proofs/LexPrefix2.v): prefix lexemes as above plus
   block comments over one or several lines (body satisfying bodym_ok), // comments with plain content followed by a newline
   and string literals with plain content; decidable boundary condition lexs_ok2.  In particular the file may start with the
   42 header: Props/C18.v C18_header_program_meets_conditions shows the repository's sample header, an empty line and a
   function in front of the `// done` comment meeting the condition. *)
From NV Require Import Proofs.LexPrefix2.

Theorem C17_comment_replace_file_obs2 : forall (uw ud : N -> bool) ls v v' tail items xf guard other f,
  lexs_ok2 ls (47%N :: 47%N :: v ++ tail) = true ->
  plain_content KLine v = true -> plain_content KLine v' = true -> List.length v' = List.length v -> line_end tail ->
  replace_inv f = true ->
  lex uw ud (raws2 ls ++ 47%N :: 47%N :: v ++ tail) = Ok (items, xf) ->
  let x := lex_nexts2 pos0 ls in
  exists later t t',
    items = lex_items2 pos0 ls ++ ITok t (off x) (off x + (2 + List.length v)) :: later /\
    lex uw ud (raws2 ls ++ 47%N :: 47%N :: v' ++ tail) = Ok (lex_items2 pos0 ls ++ ITok t' (off x) (off x + (2 + List.length v)) :: later, xf) /\
    t_type t' = t_type t /\ t_line t' = t_line t /\ t_col t' = t_col t /\
    t_val t = Some (47%N :: 47%N :: v) /\ t_val t' = Some (47%N :: 47%N :: v') /\
    eval_obs guard other f (47%N :: 47%N :: v') = eval_obs guard other f (47%N :: 47%N :: v).
Proof. exact comment_replace_file_obs2. Qed.
Print Assumptions C17_comment_replace_file_obs2.

(* the step this needs beyond Proofs/MultiLineComment.v: a string literal with plain content is one STRING token for any tail *)
Theorem C17_step_string_plain : forall (uw ud : N -> bool) x v Y, plain_content KString v = true -> rest x = 34%N :: v ++ 34%N :: Y ->
  step uw ud x = StepItem (ITok (mktok (s "STRING") (line x) (col x) (Some (34%N :: v ++ [34%N]))) (off x) (off x + (2 + List.length v)))
                          (shift (2 + List.length v) x).
Proof. exact step_string_plain. Qed.
Print Assumptions C17_step_string_plain.
