(* C12 - Alternative spellings and line splices do not change the tokens.
   Model: Model/Lexer.v; tables (operators, brackets, digraphs, trigraphs) from Gen.Dict, regenerated from
   lexer/dictionary.py on every run.
   Proved:
   (1) finite and complete (the bound - the source's own tables - is in the statement): every operator and bracket,
       in EVERY capture-free spelling of each of its characters, followed by every class of delimiter, is recognised as
       the same token kind and consumed whole; every PAIR of operators written side by side gives the same sequence of
       token kinds in every capture-free spelling of the pair (longest match is spelling-independent);
   (2) unbounded: for every marked text (any length, any choice of occurrences respelled) that is capture-free
       (`wf_marks`: no plain character forms a di/trigraph with what follows - C's own maximal-munch caveat), the
       character stream the lexer's `peek` reads is the canonical text; two spellings of the same text read the same;
   (3) unbounded: a line splice (either form) in front of ANY text is skipped as one item, produces no token and no
       diagnostic, and the tokenizer continues with that text.
   Not proved (tested on every run): that the ten sub-parsers only look at the text through `peek` in token
   positions, i.e. the composition of (2),(3) into equality of whole token sequences; diagnostics of whole files. *)
From NV Require Import Model.Base Model.Diag Model.Lexer Spec.CConst Spec.Respell Gen.Dict Proofs.RespellProofs.

Theorem C12_every_spelling_same_token : forall w ty w' r,
  In (w, ty) all_ops -> In w' (respellings w) -> reads_as w' w = true -> In r op_rests -> rest_applies w r = true ->
  one_op_ok ty w' r = true.
Proof. exact every_spelling_same_token. Qed.
Print Assumptions C12_every_spelling_same_token.

Theorem C12_longest_match_every_spelling : forall a b, In a all_ops -> In b all_ops -> pair_ok (fst a) (fst b) = true.
Proof. exact longest_match_every_spelling. Qed.
Print Assumptions C12_longest_match_every_spelling.

Theorem C12_peek_respell : forall ms, wf_marks ms = true -> reads_as (render ms) (canon ms) = true.
Proof. exact peek_respell. Qed.
Print Assumptions C12_peek_respell.

Theorem C12_respelling_same_stream : forall ms ms', wf_marks ms = true -> wf_marks ms' = true -> canon ms = canon ms' ->
  logical (S (List.length (render ms))) (render ms) = logical (S (List.length (render ms'))) (render ms').
Proof. exact respelling_same_stream. Qed.
Print Assumptions C12_respelling_same_stream.

Theorem C12_splice_then_text : forall uw ud sp src, sp = splice1 \/ sp = splice2 ->
  step uw ud (init (sp ++ src)) = StepItem (ISkip 0 (List.length sp)) (mkst src (List.length sp) 2 1 []).
Proof. exact splice_then_text. Qed.
Print Assumptions C12_splice_then_text.

(* at any point of a run: the state after a splice differs from the state before it only by position *)
Theorem C12_splice_anywhere : forall uw ud x r, rest x = 92%N :: 10%N :: r ->
  step uw ud x = StepItem (ISkip (off x) (off x + 2)) (mkst r (off x + 2) (line x + 1) 1 (errs x)).
Proof. exact step_splice1. Qed.
Print Assumptions C12_splice_anywhere.
Theorem C12_trigraph_splice_anywhere : forall uw ud x r, rest x = 63%N :: 63%N :: 47%N :: 10%N :: r ->
  step uw ud x = StepItem (ISkip (off x) (off x + 4)) (mkst r (off x + 4) (line x + 1) 1 (errs x)).
Proof. exact step_splice2. Qed.
Print Assumptions C12_trigraph_splice_anywhere.

Example C12_nonvacuous :
  wf_marks [Plain 97; Alt (s "<:") 91; Plain 49; Alt (s "??)") 93; Plain 32; Alt (s "%:") 35; Plain 60; Plain 60; Alt (s "??!") 124]%N = true /\
  wf_marks [Plain 60; Alt (s ":>") 93]%N = false /\
  In (s "||", s "OR") all_ops /\ In (s "??!|") (respellings (s "||")) /\ reads_as (s "??!|") (s "||") = true.
Proof. vm_compute. repeat split; auto 60. Qed.

(* ---- line/offset parametricity of the whole lexer model (Proofs/LineShift.v): the tokenizer never branches on the line
   number or the raw offset, it only records them *)
From NV Require Import Proofs.LineShift Proofs.LineShiftCor.
(* a line splice of either form in front of ANY text: the whole token sequence of the text follows, kinds, values and
   columns identical, every line one lower, raw spans shifted by the length of the splice; a crash stays the same crash *)
Theorem C12_splice_then_text_items : forall uw ud sp src items xf, sp = splice1 \/ sp = splice2 ->
  lex uw ud src = Ok (items, xf) ->
  lex uw ud (sp ++ src) =
    Ok (ISkip 0 (List.length sp) :: map (sh_item 1 (List.length sp)) items, shl 1 (List.length sp) xf).
Proof. exact splice_then_text_items. Qed.
Print Assumptions C12_splice_then_text_items.

Theorem C12_splice_then_text_tokens : forall uw ud sp src items xf items' xf', sp = splice1 \/ sp = splice2 ->
  lex uw ud src = Ok (items, xf) -> lex uw ud (sp ++ src) = Ok (items', xf') ->
  map (fun t => (t_type t, t_val t)) (tokens_of items') = map (fun t => (t_type t, t_val t)) (tokens_of items) /\
  map t_col (tokens_of items') = map t_col (tokens_of items) /\
  map t_line (tokens_of items') = map (fun t => t_line t + 1) (tokens_of items).
Proof. exact splice_then_text_tokens. Qed.
Print Assumptions C12_splice_then_text_tokens.

Theorem C12_splice_then_text_crash : forall uw ud sp src e, sp = splice1 \/ sp = splice2 ->
  lex uw ud src = Crash e -> lex uw ud (sp ++ src) = Crash e.
Proof. exact splice_then_text_crash. Qed.
Print Assumptions C12_splice_then_text_crash.


(* ---- a line splice BETWEEN two lexemes of a file (Proofs/SpliceBetween.v, on the prefix machinery of Proofs/LexPrefix2.v).
   Files  raws2 ls1 ++ sp ++ raws2 ls2 ++ X  and  raws2 ls1 ++ raws2 ls2 ++ X : ls1, ls2 lists of lexemes (blanks, identifiers /
   keywords, one-character operators, brackets, decimal constants, block comments, // comments, plain strings), X any text.
   Boundary conditions (decidable): lexs_ok2 ls1 against the first character of the splice AND against what follows the
   splice (the lexeme in front of the splice is complete: the splice does not stand inside a token - there the tool, which
   does not perform C's phase-2 line joining, would give other tokens), lexs_ok2 ls2 X.
   Positions, exactly: the splice turn of the main loop consumes the |sp| raw characters as one skipped item and continues at
   (line + 1, column 1) = after_splice; the items of ls2 are those of ls2 laid out from there (lex_items2 pA ls2: columns of
   the rest of that line restart at 1); `realigned`: after ls2 the state is the one without splice, one line lower and |sp|
   raw characters further (true as soon as ls2 holds a newline; decidable by computation for given ls1 ls2) - then every
   later item is shifted by (1 line, |sp| characters), columns equal, and the final state and its diagnostics likewise.
   Conclusion: same sequence of token TYPES and VALUES. *)
From NV Require Import Proofs.LexCompose Proofs.LexPrefix Proofs.LexPrefix2 Proofs.SpliceBetween.

Theorem C12_splice_between_lexemes : forall (uw ud : N -> bool) sp ls1 ls2 X itemsB xfB,
  sp = splice1 \/ sp = splice2 ->
  lexs_ok2 ls1 (sp ++ raws2 ls2 ++ X) = true -> lexs_ok2 ls1 (raws2 ls2 ++ X) = true -> lexs_ok2 ls2 X = true ->
  let n := List.length sp in
  let pB := lex_nexts2 pos0 ls1 in
  let pA := after_splice n pB in
  realigned n pB ls2 ->
  lex uw ud (raws2 ls1 ++ raws2 ls2 ++ X) = Ok (itemsB, xfB) ->
  exists later itemsA,
    itemsB = lex_items2 pos0 ls1 ++ lex_items2 pB ls2 ++ later /\
    itemsA = lex_items2 pos0 ls1 ++ ISkip (off pB) (off pB + n) :: lex_items2 pA ls2 ++ map (sh_item 1 n) later /\
    lex uw ud (raws2 ls1 ++ sp ++ raws2 ls2 ++ X) = Ok (itemsA, shl 1 n xfB) /\
    map kv (tokens_of itemsA) = map kv (tokens_of itemsB).
Proof. exact splice_between_lexemes. Qed.
Print Assumptions C12_splice_between_lexemes.

(* the splice turn at any position of a run, with the exact next state *)
Theorem C12_step_splice_at : forall (uw ud : N -> bool) p sp R, sp = splice1 \/ sp = splice2 ->
  step uw ud (with_rest p (sp ++ R)) =
    StepItem (ISkip (off p) (off p + List.length sp)) (with_rest (after_splice (List.length sp) p) R).
Proof. exact step_splice_at. Qed.
Print Assumptions C12_step_splice_at.

(* types and values of the items of a lexeme list do not depend on the position it is laid out from *)
Theorem C12_lex_items2_kv : forall ls p q, map kv (tokens_of (lex_items2 p ls)) = map kv (tokens_of (lex_items2 q ls)).
Proof. exact lex_items2_kv. Qed.
Print Assumptions C12_lex_items2_kv.

(* non-vacuity on a real file: sample 42 header (tools/harness/data/hdr.txt), empty line, int main(void) { int count; count = 0;
   // done  return (count); }, the splice (either spelling) between `count` and ` = 0;`: all conditions hold by computation, and
   the tokenizer model run on the three complete files gives the same 59 (type, value) pairs *)
Theorem C12_splice_in_header_program :
  let nouni := fun _ : N => false in
  let pB := lex_nexts2 pos0 sp_ls1 in
  raws2 sp_ls1 ++ raws2 sp_ls2 ++ sp_X = hdemo_file /\
  lexs_ok2 sp_ls1 (splice1 ++ raws2 sp_ls2 ++ sp_X) = true /\ lexs_ok2 sp_ls1 (splice2 ++ raws2 sp_ls2 ++ sp_X) = true /\
  lexs_ok2 sp_ls1 (raws2 sp_ls2 ++ sp_X) = true /\ lexs_ok2 sp_ls2 sp_X = true /\
  realigned 2 pB sp_ls2 /\ realigned 4 pB sp_ls2 /\
  (line pB, col pB) = (17, 10) /\
  hd_error (lex_items2 (after_splice 2 pB) sp_ls2) = Some (ITok (mktok (s "SPACE") 18 1 None) (off pB + 2) (off pB + 3)) /\
  hd_error (lex_items2 pB sp_ls2) = Some (ITok (mktok (s "SPACE") 17 10 None) (off pB) (off pB + 1)) /\
  match lex nouni nouni hdemo_file, lex nouni nouni (raws2 sp_ls1 ++ splice1 ++ raws2 sp_ls2 ++ sp_X),
        lex nouni nouni (raws2 sp_ls1 ++ splice2 ++ raws2 sp_ls2 ++ sp_X) with
  | Ok (iB, _), Ok (iA, _), Ok (iA2, _) =>
      map kv (tokens_of iA) = map kv (tokens_of iB) /\ map kv (tokens_of iA2) = map kv (tokens_of iB) /\
      List.length iA = S (List.length iB) /\ List.length (tokens_of iB) = 59%nat
  | _, _, _ => False
  end.
Proof. exact splice_in_header_program. Qed.
Print Assumptions C12_splice_in_header_program.

(* ---- the same WITHOUT the realignment hypothesis: the part after the splice holds a lexeme after which the column is 1
   wherever the part started - a newline (PS (PWs 10)) or a block comment with a newline in its body (has_newline, decidable).
   Proofs/SpliceBetween.v realigned_line: every component of the state after a lexeme depends on the same component before it
   only (the column on the column; nexts2_param), and after such a lexeme the column depends on nothing. *)
Theorem C12_splice_between_lexemes_line : forall (uw ud : N -> bool) sp ls1 ls2 X itemsB xfB,
  sp = splice1 \/ sp = splice2 ->
  lexs_ok2 ls1 (sp ++ raws2 ls2 ++ X) = true -> lexs_ok2 ls1 (raws2 ls2 ++ X) = true -> lexs_ok2 ls2 X = true ->
  has_newline ls2 = true ->
  let n := List.length sp in
  let pB := lex_nexts2 pos0 ls1 in
  let pA := after_splice n pB in
  lex uw ud (raws2 ls1 ++ raws2 ls2 ++ X) = Ok (itemsB, xfB) ->
  exists later itemsA,
    itemsB = lex_items2 pos0 ls1 ++ lex_items2 pB ls2 ++ later /\
    itemsA = lex_items2 pos0 ls1 ++ ISkip (off pB) (off pB + n) :: lex_items2 pA ls2 ++ map (sh_item 1 n) later /\
    lex uw ud (raws2 ls1 ++ sp ++ raws2 ls2 ++ X) = Ok (itemsA, shl 1 n xfB) /\
    map kv (tokens_of itemsA) = map kv (tokens_of itemsB).
Proof. exact splice_between_lexemes_line. Qed.
Print Assumptions C12_splice_between_lexemes_line.

Theorem C12_realigned_line : forall n pB ls2 X, lexs_ok2 ls2 X = true -> has_newline ls2 = true -> errs pB = [] ->
  realigned n pB ls2.
Proof. exact realigned_line. Qed.
Print Assumptions C12_realigned_line.

(* the decomposition form: ls2 = ls2a ++ newline :: ls2b *)
Theorem C12_has_newline_mid : forall a b, has_newline (a ++ PS (PWs 10) :: b) = true.
Proof. exact has_newline_mid. Qed.
Print Assumptions C12_has_newline_mid.

(* non-vacuity: the part after the splice in C12_splice_in_header_program holds a newline; a // comment alone does not *)
Theorem C12_splice_line_example :
  has_newline sp_ls2 = true /\ has_newline [PS (PWs 32); PBlock (s " a" ++ [10%N] ++ s " b ")] = true /\
  has_newline [PS (PWs 32); PLine (s " x")] = false.
Proof. exact splice_line_example. Qed.
Print Assumptions C12_splice_line_example.
