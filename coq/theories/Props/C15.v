(* C15 - Exactly the requested C sources are checked.
   Only statements here; proofs are in Proofs/SelectProofs.v.  The model (Model/Select.v) takes the glob patterns,
   the accepted suffixes, the message formats and the exit codes from Gen.Select, regenerated from /repo's
   __main__.py on every run; the file-selection code itself is translated statement by statement (Gen/SelectCode.v) and
   proved equal to the model (C15_model_is_translated_code).
   root : the directory tree from "/";  cwd : the current directory;  check_ignore : the `git check-ignore` oracle.
   The operating system, CPython's glob/pathlib and git are modelled (and compared with the real ones on every run
   by the correspondence), not verified. *)
From NV Require Import Model.Base Model.Select Model.PyStmt Gen.SelectCode Proofs.SelectProofs Proofs.SelectCodeProofs.
From Coq Require Import Permutation.

(* the tie to the source: the hand-written model equals the statement-by-statement translation of the selection part of
   main() (Gen/SelectCode.v, regenerated on every run) under the model's interpretation of pathlib / os.path / glob / git *)
Theorem C15_model_is_translated_code : forall root cwd check_ignore g args,
  to_outcome (code root cwd check_ignore (S (cost root cwd (stack0 root cwd args))) g args)
  = select root cwd check_ignore g args.
Proof. exact select_is_translated_code. Qed.
Print Assumptions C15_model_is_translated_code.

Theorem C15_tables_tie :
  glob_cwd_pattern = "**/*.[ch]"%string /\ glob_cwd_recursive = true /\
  glob_dir_pattern = "/**/*.[ch]"%string /\ glob_dir_recursive = true /\
  glob_cwd_last = glob_dir_last /\ glob_cwd_files_only = true /\ glob_dir_files_only = true /\
  accepted_suffixes = [s ".c"; s ".h"] /\
  test_order = ["not path.exists()"; "path.is_file()"; "path.suffix not in ('.c', '.h')"; "path.is_dir()"]%string /\
  exit_missing = 1 /\ exit_bad_suffix = None /\ exit_git_fatal = 0 /\
  git_command = ["git"; "check-ignore"; "-q"; "target.path"]%string /\
  git_codes = [(0, "drop"); (1, "keep"); (128, "exit")]%string.
Proof. exact selection_tables_pinned. Qed.
Print Assumptions C15_tables_tie.

(* the glob pattern and pathlib's suffix test both mean "the name ends in .c or .h" (the latter: unless the name starts with '.') *)
Theorem C15_pattern_is_suffix : forall x, fnm glob_dir_last x = is_src x.
Proof. exact fnm_is_src. Qed.
Print Assumptions C15_pattern_is_suffix.

Theorem C15_accepted_is_src : forall name, suffix_accepted name = true -> is_src name = true.
Proof. exact accepted_is_src. Qed.
Print Assumptions C15_accepted_is_src.

Theorem C15_src_accepted : forall name, hidden name = false -> is_src name = true -> suffix_accepted name = true.
Proof. exact src_accepted. Qed.
Print Assumptions C15_src_accepted.

(* every tree, every argument list, with or without --use-gitignore: only wanted files are checked *)
Theorem C15_select_sound : forall root cwd check_ignore g args fs ms,
  select root cwd check_ignore g args = Ok (Selected fs ms) ->
  forall f, In f fs ->
    In (apath cwd f) (wanted_files root cwd args) /\
    lookup root (apath cwd f) = Some File /\ is_src (item_name f) = true.
Proof. exact select_sound. Qed.
Print Assumptions C15_select_sound.

(* all wanted files are checked, each once per mention - outside the known finding C15-dot-names-skipped: the guard
   (`guarded`) only asks that no name below a named directory starts with '.'; directories named *.c / *.h are covered *)
Theorem C15_select_complete_partial : forall root cwd check_ignore args,
  wfb root = true -> (exists ch, lookup root cwd = Some (Dir ch)) ->
  (forall a, In a (eff_args args) -> guarded root cwd a = true) ->
  wanted_abort root cwd args = false ->
  exists fs ms, select root cwd check_ignore false args = Ok (Selected fs ms) /\
                Permutation (map (apath cwd) fs) (wanted_files root cwd args) /\
                ms = map bad_suffix_msg (wanted_rejects root cwd args).
Proof. exact select_complete_partial. Qed.
Print Assumptions C15_select_complete_partial.

Theorem C15_missing_aborts : forall root cwd check_ignore g args a,
  In a args -> lookup root (apath cwd a) = None ->
  exists b ms, select root cwd check_ignore g args = Ok (Exited 1 (ms ++ [missing_msg b])) /\
               In b args /\ lookup root (apath cwd b) = None.
Proof. exact missing_aborts. Qed.
Print Assumptions C15_missing_aborts.

Theorem C15_bad_suffix_message : forall root cwd check_ignore g args fs ms a,
  select root cwd check_ignore g args = Ok (Selected fs ms) ->
  In a args -> lookup root (apath cwd a) = Some File -> is_src (item_name a) = false ->
  In (bad_suffix_msg a) ms /\ ~ In a fs.
Proof. exact bad_suffix_message. Qed.
Print Assumptions C15_bad_suffix_message.

Theorem C15_no_args_is_cwd_tree : forall root cwd check_ignore,
  wfb root = true -> (exists ch, lookup root cwd = Some (Dir ch)) ->
  res_equiv (select root cwd check_ignore false []) (select root cwd check_ignore false [dot_item]).
Proof. exact no_args_is_cwd_tree. Qed.
Print Assumptions C15_no_args_is_cwd_tree.

Theorem C15_gitignore_filters : forall root cwd check_ignore args fs ms,
  select root cwd check_ignore false args = Ok (Selected fs ms) ->
  (forall f, In f fs -> check_ignore f = 0 \/ check_ignore f = 1) ->
  select root cwd check_ignore true args = Ok (Selected (filter (fun f => Z.eqb (check_ignore f) 1) fs) ms) /\
  forall f, In f (filter (fun f => Z.eqb (check_ignore f) 1) fs) <-> In f fs /\ check_ignore f <> 0.
Proof. exact gitignore_filters. Qed.
Print Assumptions C15_gitignore_filters.

Theorem C15_git_fatal_exits_zero : forall root cwd check_ignore args pre f rest ms,
  select root cwd check_ignore false args = Ok (Selected (pre ++ f :: rest) ms) ->
  (forall x, In x pre -> check_ignore x = 0 \/ check_ignore x = 1) -> check_ignore f = 128 ->
  select root cwd check_ignore true args = Ok (Exited 0 (ms ++ [git_fatal_msg f])).
Proof. exact git_fatal_exits_zero. Qed.
Print Assumptions C15_git_fatal_exits_zero.

(* the work list of the model always runs to its end *)
Theorem C15_select_terminates : forall root cwd check_ignore g args,
  wfb root = true -> select root cwd check_ignore g args <> Hang.
Proof. exact select_terminates. Qed.
Print Assumptions C15_select_terminates.

(* fixed finding C15-dir-named-like-source: the former witness (d/lib.c/x.c, nested d/lib.c/inc.h/y.h) is inside the guard of
   C15_select_complete_partial; every file is checked once, with argument d and with no argument from inside d *)
Theorem C15_dir_named_like_source_once :
  exists fs ms,
    wfb tree_lib = true /\ guarded tree_lib [] (A_ "d") = true /\
    select tree_lib [] always_kept false [A_ "d"] = Ok (Selected fs ms) /\
    map (apath []) fs = [[s "d"; s "z.c"]; [s "d"; s "lib.c"; s "x.c"]; [s "d"; s "lib.c"; s "inc.h"; s "y.h"]] /\
    Permutation (map (apath []) fs) (wanted_files tree_lib [] [A_ "d"]) /\
    select tree_lib [s "d"] always_kept false [] = Ok (Selected (map (fun f => mkitem (skipn 2 (i_raw f)) false (tl (i_comps f))) fs) ms).
Proof. exact dir_named_like_source_once. Qed.
Print Assumptions C15_dir_named_like_source_once.

(* known finding C15-dot-names-skipped *)
Theorem C15_dot_names_skipped_refuted :
  exists root cwd args ms,
    wfb root = true /\ select root cwd always_kept false args = Ok (Selected [] ms) /\
    wanted_files root cwd args = [[s "d"; s ".hid"; s "h.c"]; [s "d"; s ".x.c"]].
Proof. exact dot_names_skipped_refuted. Qed.
Print Assumptions C15_dot_names_skipped_refuted.

Theorem C15_dot_c_argument_refuted :
  exists root cwd a ms,
    select root cwd always_kept false [a] = Ok (Selected [] ms) /\ wanted_files root cwd [a] = [apath cwd a] /\
    ms = [s "Error: '.c' is not valid C or C header file"].
Proof. exact dot_c_argument_refuted. Qed.
Print Assumptions C15_dot_c_argument_refuted.

(* every checked file is reported under its base name (os.path.basename of the string given to File = last path component) *)
Theorem C15_reported_under_basename : forall root cwd check_ignore g args fs ms,
  names_okb root = true ->
  (forall a, In a args -> py_basename (i_raw a) = item_name a) ->
  select root cwd check_ignore g args = Ok (Selected fs ms) ->
  forall f, In f fs -> py_basename (i_raw f) = item_name f /\ item_name f = last (apath cwd f) [].
Proof. exact reported_under_basename. Qed.
Print Assumptions C15_reported_under_basename.

(* the main theorems read directly on the translated code *)
Theorem C15_translated_code_sound : forall root cwd check_ignore g args s,
  code root cwd check_ignore (S (cost root cwd (stack0 root cwd args))) g args = Next s ->
  forall f, In f (st_files item s) ->
    In (apath cwd f) (wanted_files root cwd args) /\ lookup root (apath cwd f) = Some File /\ is_src (item_name f) = true.
Proof. exact translated_code_sound. Qed.
Print Assumptions C15_translated_code_sound.

Theorem C15_translated_code_complete_partial : forall root cwd check_ignore args,
  wfb root = true -> (exists ch, lookup root cwd = Some (Dir ch)) ->
  (forall a, In a (eff_args args) -> guarded root cwd a = true) ->
  wanted_abort root cwd args = false ->
  exists s, code root cwd check_ignore (S (cost root cwd (stack0 root cwd args))) false args = Next s /\
            Permutation (map (apath cwd) (st_files item s)) (wanted_files root cwd args) /\
            st_out item s = map bad_suffix_msg (wanted_rejects root cwd args).
Proof. exact translated_code_complete_partial. Qed.
Print Assumptions C15_translated_code_complete_partial.

Theorem C15_translated_code_missing_aborts : forall root cwd check_ignore g args a,
  In a args -> lookup root (apath cwd a) = None ->
  exists b ms, code root cwd check_ignore (S (cost root cwd (stack0 root cwd args))) g args = Exit 1 (ms ++ [missing_msg b]) /\
               In b args /\ lookup root (apath cwd b) = None.
Proof. exact translated_code_missing_aborts. Qed.
Print Assumptions C15_translated_code_missing_aborts.

Theorem C15_translated_code_terminates : forall root cwd check_ignore g args,
  wfb root = true -> code root cwd check_ignore (S (cost root cwd (stack0 root cwd args))) g args <> Stuck.
Proof. exact translated_code_terminates. Qed.
Print Assumptions C15_translated_code_terminates.
