(* C19 - Diagnostics are local: unrelated text only shifts them.
   PROVED here (statements only; proofs in Proofs/ShiftProofs.v, Proofs/HeaderProofs.v, Proofs/HistoryTie.v):
   * positions: a prefix of complete lines shifts the true position of every raw offset by its number of lines,
     same column; with Props/C09 (every token carries the true position of its first raw character) corresponding
     tokens of src and P ++ src differ by exactly that many lines;
   * the header diagnostic: a headerless statement trace gets exactly one INVALID_HEADER, the same trace behind a
     well-formed header gets none, for all traces and all field values (generated CheckHeader machine);
   * the table of every look-back into the statement history is the reviewed one.
   SEARCHED by tools/harness/c19.py, not proved: that the diagnostics of all other rules are the shifted ones
   (header in front; comment line at every top-level insertion point; a further function appended). *)
From NV Require Import Model.Base Model.Diag Model.Lexer Spec.TruePos Spec.LexProps
  Model.HeaderRe Model.HeaderState Gen.HeaderRe Gen.HeaderSM Model.Header Gen.HistoryReads
  Proofs.HeaderProofs Proofs.ShiftProofs Proofs.HistoryTie.

Theorem C19_true_pos_shift : forall P src off, complete_lines P = true ->
  true_pos (P ++ src) (List.length P + off) = shift_line (count_nl P) (true_pos src off).
Proof. exact true_pos_shift. Qed.
Print Assumptions C19_true_pos_shift.

Theorem C19_token_shift : forall (uw ud : N -> bool) P src items xf items' xf' t lo hi t' hi',
  complete_lines P = true ->
  lex uw ud src = Ok (items, xf) -> lex uw ud (P ++ src) = Ok (items', xf') ->
  In (ITok t lo hi) items -> In (ITok t' (List.length P + lo) hi') items' ->
  t_line t' = t_line t + count_nl P /\ t_col t' = t_col t.
Proof. exact token_shift. Qed.
Print Assumptions C19_token_shift.

Theorem C19_prepend_header_count : forall f T, stamps_ok f = true -> headerless T = true ->
  invalid_count T = 1%nat /\ invalid_count (header_events f ++ T) = 0%nat.
Proof. exact prepend_header_count. Qed.
Print Assumptions C19_prepend_header_count.

Theorem C19_header_diag_at_most_once : forall T, (invalid_count T <= 1)%nat.
Proof. exact header_diag_at_most_once. Qed.
Print Assumptions C19_header_diag_at_most_once.

Theorem C19_history_reads_reviewed : history_reads = reviewed_history_reads.
Proof. exact history_reads_tie. Qed.
Print Assumptions C19_history_reads_reviewed.

Example C19_example :
  let P := s "/* a */" ++ [10%N] ++ s "/* b */" ++ [10%N] in
  let src := s "int" ++ [9%N] ++ s "x;" ++ [10%N] ++ [9%N] ++ s "y" in
  complete_lines P = true /\ count_nl P = 2 /\
  true_pos src 8%nat = (2, 5) /\ true_pos (P ++ src) (List.length P + 8)%nat = (4, 5).
Proof. vm_compute. repeat split; reflexivity. Qed.

(* ---- line/offset parametricity of the whole lexer model (Proofs/LineShift.v): the tokenizer never branches on the line
   number or the raw offset, it only records them *)
From NV Require Import Proofs.LineShift Proofs.LineShiftCor.
(* from the state reached after a prefix of complete lines, lexing continues exactly as the lexing of the text from the
   initial state, n lines lower and m raw characters later; composed with the run on the prefix GIVEN that the steps
   inside the prefix do not look past its end (`steps_local`, checked by evaluation for concrete prefixes; searched otherwise) *)
Theorem C19_step_line_offset_parametric : forall k d uw ud x, step uw ud (shl k d x) = sh_step k d (step uw ud x).
Proof. exact step_shl. Qed.
Print Assumptions C19_step_line_offset_parametric.

Theorem C19_lex_from_shift : forall k d uw ud fuel x acc,
  lex_loop uw ud fuel (shl k d x) acc = pre_items acc (sh_out k d (lex_loop uw ud fuel x [])).
Proof. exact lex_from_shift. Qed.
Print Assumptions C19_lex_from_shift.

Theorem C19_continue_after_prefix : forall uw ud src n m acc items xf fuel,
  lex uw ud src = Ok (items, xf) -> (S (List.length src) <= fuel)%nat ->
  lex_loop uw ud fuel (mkst src m (1 + n) 1 []) acc = Ok (rev acc ++ map (sh_item n m) items, shl n m xf).
Proof. exact continue_after_prefix. Qed.
Print Assumptions C19_continue_after_prefix.

Theorem C19_prefix_then_text_given_locality : forall uw ud P src n itemsP items xf,
  lex uw ud P = Ok (itemsP, mkst [] (List.length P) (1 + n) 1 []) ->
  steps_local uw ud src (S (List.length P)) (init P) ->
  lex uw ud src = Ok (items, xf) ->
  lex uw ud (P ++ src) = Ok (itemsP ++ map (sh_item n (List.length P)) items, shl n (List.length P) xf).
Proof. exact prefix_then_text_given_locality. Qed.
Print Assumptions C19_prefix_then_text_given_locality.

(* ---- the composition made unconditional for prefixes of one-line block comments, and for the 42 header
   (Proofs/CommentLines.v, Proofs/HeaderLex.v): the steps inside such a prefix never look past its end *)
From NV Require Import Proofs.CommentLines Proofs.HeaderLex.
Theorem C19_comment_line_steps : forall uw ud body r o l c e, body_ok body = true ->
  step uw ud (mkst (47%N :: 42%N :: body ++ 42%N :: 47%N :: 10%N :: r) o l c e) =
    StepItem (ITok (mktok MULT_COMMENT l c (Some (comment_text body))) o (o + List.length body + 4)%nat)
             (mkst (10%N :: r) (o + List.length body + 4)%nat l (c + Z.of_nat (List.length body) + 4) e) /\
  step uw ud (mkst (10%N :: r) (o + List.length body + 4)%nat l (c + Z.of_nat (List.length body) + 4) e) =
    StepItem (ITok (mktok NEWLINE l (c + Z.of_nat (List.length body) + 4) None) (o + List.length body + 4)%nat (o + List.length body + 4 + 1)%nat)
             (mkst r (o + List.length body + 4 + 1)%nat (l + 1) 1 e).
Proof. intros uw ud body r o l c e Hb. split; [exact (step_comment uw ud body (10%N :: r) o l c e Hb)|apply step_newline]. Qed.
Print Assumptions C19_comment_line_steps.

Theorem C19_comment_lines_then_text : forall uw ud bs src items xf, forallb body_ok bs = true ->
  lex uw ud src = Ok (items, xf) ->
  lex uw ud (comment_lines bs ++ src) =
    Ok (comment_items 0 1 bs ++ map (sh_item (Z.of_nat (List.length bs)) (List.length (comment_lines bs))) items,
        shl (Z.of_nat (List.length bs)) (List.length (comment_lines bs)) xf).
Proof. exact lex_comment_lines_then_text. Qed.
Print Assumptions C19_comment_lines_then_text.

Theorem C19_comment_lines_local : forall uw ud bs src o l e fuel, forallb body_ok bs = true ->
  steps_local uw ud src fuel (mkst (comment_lines bs) o l 1 e).
Proof. exact comment_lines_local. Qed.
Print Assumptions C19_comment_lines_local.

Theorem C19_header_then_text_lexed : forall uw ud f src items xf, fields_lex_ok f = true ->
  lex uw ud src = Ok (items, xf) ->
  lex uw ud (lines_text (template f) ++ src) =
    Ok (comment_items 0 1 (template_mids f) ++ map (sh_item 11 (List.length (lines_text (template f)))) items,
        shl 11 (List.length (lines_text (template f))) xf).
Proof. exact header_then_text_lexed. Qed.
Print Assumptions C19_header_then_text_lexed.


