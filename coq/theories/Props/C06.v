(* C06 - The verdict is a pure function of the file.
   1. The rule order is independent of the order in which the rule modules are listed: theorems
      about the sort model (any permutation of the discovered classes gives the same order), with
      the distinctness of the 19 priorities checked on the table regenerated from the source.
   2. Shared state: the translator lists every syntactic site that can touch state outliving one
      file (module-level objects, class attributes assigned at run time, `global`, process-level
      setters, mutable default arguments); the list must equal the reviewed list below.  This is a
      static analysis emitted by the translator and compared in Coq, not a semantic proof.
   3. That the real process behaves like the memoryless model (a fresh context per file) is the
      correspondence run by the check: every file analysed alone in a fresh process, after
      histories in one process, and under permuted directory listings.  Partial for that reason. *)
From NV Require Import Model.Base Model.Errors Model.RegistryOrder Gen.Registry Gen.Footprint Proofs.OrderProofs.
From Coq Require Import Sorting.Permutation.

Theorem C06_primaries_order_invariant : forall l l' : list primary_decl, Permutation l l' ->
  NoDup (map p_priority l) -> sort_primaries l = sort_primaries l'.
Proof. exact primaries_order_invariant. Qed.
Print Assumptions C06_primaries_order_invariant.

Theorem C06_priorities_distinct : NoDup (map p_priority primaries).
Proof. exact priorities_distinct. Qed.
Print Assumptions C06_priorities_distinct.

(* hence: whatever order the file system lists the rule modules in, the primaries run in this order *)
Theorem C06_listing_independent : forall l', Permutation primaries l' ->
  map p_name (sort_primaries l') = primaries_order.
Proof.
  intros l' Hp. unfold primaries_order. f_equal. symmetry.
  apply primaries_order_invariant; [exact Hp|exact priorities_distinct].
Qed.
Print Assumptions C06_listing_independent.

Theorem C06_dependency_order_invariant : forall l l' : list str, Permutation l l' -> sort_names l = sort_names l'.
Proof. exact names_order_invariant. Qed.
Print Assumptions C06_dependency_order_invariant.

Theorem C06_sorted_calls :
  primaries_sorted_call = ["Primary.__subclasses__()"%string; "attrgetter('priority')"%string; "True"%string] /\
  dependencies_sorted_call = ["dependencies"%string; "attrgetter('__name__')"%string; "True"%string].
Proof. exact sorted_calls_tie. Qed.
Print Assumptions C06_sorted_calls.

Theorem C06_live_order : live_primaries_order = primaries_order.
Proof. exact live_order_tie. Qed.
Print Assumptions C06_live_order.

(* reviewed: Rule.context / Rule.name are rewritten by Rule.__new__ before every use (run_rules
   instantiates the rule first); __init_subclass__ assignments happen once at import; Rules.__instance
   is the singleton of the rule table; recursion_limit restores the limit (try/finally, fixed);
   Context's mutable default `added_value` is never mutated (`added_value or []`). *)
Definition allowed_mutations : list (string * string * string) :=
  [("norminette/context.py"%string, "Context.__init__"%string, "mutable default argument added_value"%string);
   ("norminette/errors.py"%string, "_formatter.__init_subclass__"%string, "assigns class/module attribute cls.name"%string);
   ("norminette/registry.py"%string, "Registry"%string, "global has_err"%string);
   ("norminette/rules/__init__.py"%string, "Rules.__new__"%string, "assigns class/module attribute cls.__instance"%string);
   ("norminette/rules/is_preprocessor_statement.py"%string, "recursion_limit"%string, "process: sys.setrecursionlimit"%string);
   ("norminette/rules/rule.py"%string, "Check.__init_subclass__"%string, "assigns class/module attribute cls.depends_on"%string);
   ("norminette/rules/rule.py"%string, "Check.__init_subclass__"%string, "assigns class/module attribute cls.runs_on_end"%string);
   ("norminette/rules/rule.py"%string, "Check.__init_subclass__"%string, "assigns class/module attribute cls.runs_on_rule"%string);
   ("norminette/rules/rule.py"%string, "Check.__init_subclass__"%string, "assigns class/module attribute cls.runs_on_start"%string);
   ("norminette/rules/rule.py"%string, "Primary.__init_subclass__"%string, "assigns class/module attribute cls.priority"%string);
   ("norminette/rules/rule.py"%string, "Primary.__init_subclass__"%string, "assigns class/module attribute cls.scope"%string);
   ("norminette/rules/rule.py"%string, "Rule.__new__"%string, "assigns class/module attribute cls.context"%string);
   ("norminette/rules/rule.py"%string, "Rule.__new__"%string, "assigns class/module attribute cls.name"%string)].

Theorem C06_shared_state_sites : shared_mutations = allowed_mutations.
Proof. reflexivity. Qed.
Print Assumptions C06_shared_state_sites.
