(* C02 - Every enforced violation is reported on its line.   PARTIAL.

   The full statement quantifies over the conforming family, the 77 edit operators of DESIGN 4.2 and the complete
   rule set; it is kept visible below and is NOT proved (it needs models of all 58 rules).  What is proved, for every
   token list, every statement length and every context view (unbounded), about the Gallina functions that
   tools/translate_rules.py generates from the CURRENT source of the checks (Gen/RuleChecks.v):
   if the statement contains the pattern an operator creates, the check emits the operator's code at that line.
   `_given_history` / `_given_trace`: the hypothesis names the primaries recorded in context.history (or the primary
   that matched), which the generic engine does not decide; the harness validates it on recorded runs.
   File level (S05, L01): composed with the tiling theorem of the generic registry loop (C07) - every token of a run
   that ends normally lies in one matched statement - and with Gen.Registry (the check runs on every statement).
   Assumed there: primaries are an oracle (Model/Engine.v), a primary never claims more tokens than remain, and
   diagnostics are only ever appended (Context.new_error -> Errors.add, pinned by fingerprint). *)
From NV Require Import Model.Base Model.Diag Model.RuleChecks Gen.RuleChecks Model.Engine Model.RegistryOrder Gen.Registry.
From NV Require Import Proofs.EngineProofs Proofs.RuleChecksProofs Proofs.RuleChecksProofs2 Proofs.RuleChecksLift.
From NV Require Import Proofs.RuleChecksSpacing Proofs.RuleChecksSpacing3 Proofs.SpacingTotal Proofs.RuleChecksSpacing2.
From NV Require Import Model.CounterBase Gen.MoreChecks Proofs.MoreChecksProofs.
From NV Require Import Model.NameBase Gen.NameChecks Proofs.NameChecksProofs Proofs.NameChecksLift.
From NV Require Import Model.PreprocBase Gen.PreprocChecks Proofs.PreprocProofs.
From NV Require Import Model.PreprocBase2 Gen.PreprocChecks2 Proofs.PreprocProofs2.
From NV Require Import Gen.Counters Model.ScopeBase Gen.ScopeOps Model.ScopeTrace Model.ScopeBody Model.CounterTrace Proofs.ScopeTraceProofs Proofs.CounterProofs.
Local Open Scope Z_scope.

(* the full property, over the components that are not all modelled (kept visible, not proved) *)
Definition C02_statement (program : Type) (wf : program -> Prop) (render : program -> str)
    (apply_op : str -> nat -> str -> option (str * str * Z))         (* operator, site, text -> edited text, code, line *)
    (analyse : str -> str -> outcome (list diag)) (cli_verdict : list diag -> str)
    (cli_exit : list (outcome (list diag)) -> Z) : Prop :=
  forall u, wf u -> forall op site txt code line name, apply_op op site (render u) = Some (txt, code, line) ->
  exists ds, analyse name txt = Ok ds /\
    (exists d h, In d ds /\ d_name d = code /\ d_level d = s "Error" /\ hd_error (d_hls d) = Some h /\ h_line h = line) /\
    cli_verdict ds = s "Error!" /\ cli_exit [Ok ds] <> 0.

Definition proved_operators : list string :=
  ["S05"; "L01"; "S03"; "S04"; "S07"; "S08"; "W01"; "W03"; "W04"; "W05"; "W06"; "W07"; "W08"; "W09"; "W10"; "W12"; "W13"; "W14"; "W15"; "W17";
   "T01"; "T02"; "T03"; "T04"; "S01"; "S02"; "S06"; "S11"; "O07"; "N01"; "N02"; "K01"; "K02"; "K03"; "D04"; "F03"; "F04"; "F05"; "P04"; "P05"; "P06"; "P09"; "P10"; "P11"; "P12"; "P01"; "P02"; "P03"; "P07"; "P08"]%string.

(* ---- S05 ternary *)
Theorem C02_partial_S05 : forall toks scope v i t,
  0 <= i < scope -> peek toks i = Some t -> t_type t = ty_tern ->
  exists E, check_ternary toks scope v = Ok (E, v) /\ In (c_ternary, t_line t, t_col t) E.
Proof. exact check_ternary_reports. Qed.
Print Assumptions C02_partial_S05.

Theorem C02_partial_S05_iff : forall toks scope v, exists E, check_ternary toks scope v = Ok (E, v) /\
  forall e, In e E <-> exists i t, 0 <= i < scope /\ peek toks i = Some t /\ t_type t = ty_tern /\ e = (c_ternary, t_line t, t_col t).
Proof. exact check_ternary_iff. Qed.
Print Assumptions C02_partial_S05_iff.

Theorem C02_partial_S05_file : forall oracle (ftoks : list token) segs k t,
  good oracle -> run_file oracle 0 (List.length ftoks) = Ok segs -> nth_error ftoks k = Some t -> t_type t = ty_tern ->
  exists name before after, In (SMatch name before after) segs /\ In (s "CheckTernary") (checks_run_on name) /\
    forall v, exists E, check_ternary (skipn (List.length ftoks - before) ftoks) (Z.of_nat (before - after)) v = Ok (E, v)
                        /\ In (c_ternary, t_line t, t_col t) E.
Proof. exact file_ternary_reported. Qed.
Print Assumptions C02_partial_S05_file.

(* ---- L01 line length *)
Theorem C02_partial_L01 : forall toks scope v, exists E, check_line_len toks scope v = Ok (E, v) /\
  (forall t, In t (py_slice_to toks scope) -> t_col t > 81 -> exists c, c > 81 /\ In (c_linelen, t_line t, c) E) /\
  (forall e, In e E -> exists t, In t (py_slice_to toks scope) /\ t_col t > 81 /\ e = (c_linelen, t_line t, t_col t)).
Proof. exact check_line_len_spec. Qed.
Print Assumptions C02_partial_L01.

Theorem C02_partial_L01_file : forall oracle (ftoks : list token) segs k t,
  good oracle -> run_file oracle 0 (List.length ftoks) = Ok segs -> nth_error ftoks k = Some t -> t_col t > 81 ->
  exists name before after, In (SMatch name before after) segs /\ In (s "CheckLineLen") (checks_run_on name) /\
    forall v, exists E c, check_line_len (skipn (List.length ftoks - before) ftoks) (Z.of_nat (before - after)) v = Ok (E, v)
                        /\ c > 81 /\ In (c_linelen, t_line t, c) E.
Proof. exact file_line_too_long_reported. Qed.
Print Assumptions C02_partial_L01_file.

(* ---- S03 goto, S04 label *)
Theorem C02_partial_S03 : forall toks scope v k t0 tg,
  in_function v = true -> leading toks ws_no_nl k -> peek toks (Z.of_nat k) = Some tg -> t_type tg = s "GOTO" ->
  peek toks 0 = Some t0 ->
  check_label toks scope v = Ok ([(c_goto, t_line t0, t_col t0)], v).
Proof. exact check_label_goto. Qed.
Print Assumptions C02_partial_S03.

Theorem C02_partial_S04 : forall toks scope v k k2 t0 ti tc,
  in_function v = true -> leading toks ws_no_nl k -> peek toks (Z.of_nat k) = Some ti -> t_type ti = s "IDENTIFIER" ->
  skip_ws toks (Z.of_nat k + 1) = k2 -> peek toks k2 = Some tc -> t_type tc = s "COLON" ->
  peek toks 0 = Some t0 ->
  check_label toks scope v = Ok ([(c_label, t_line t0, t_col t0)], v).
Proof. exact check_label_label. Qed.
Print Assumptions C02_partial_S04.

(* ---- S07, S08 several instructions on a line (dependent check: given that one of its primaries matched) *)
Theorem C02_partial_S07_S08_given_trace : forall toks scope v t0, peek toks 0 = Some t0 ->
  check_many_instructions toks scope v = Ok (if t_col t0 >? 1 then [(c_many, t_line t0, t_col t0)] else [], v).
Proof. exact check_many_instructions_value. Qed.
Print Assumptions C02_partial_S07_S08_given_trace.

(* ---- empty lines (CheckEmptyLine), given the recorded history *)
Theorem C02_partial_W12_given_history : forall toks scope v t0,
  v_history v = [r_empty] -> peek toks 0 = Some t0 ->
  check_empty_line toks scope v = Ok ([(s "EMPTY_LINE_FILE_START", t_line t0, t_col t0)], v).
Proof. exact empty_line_file_start. Qed.
Print Assumptions C02_partial_W12_given_history.

Theorem C02_partial_W08_given_history : forall toks scope v t0 rest,
  v_history v = r_empty :: r_empty :: rest -> peek toks 0 = Some t0 ->
  exists E v', check_empty_line toks scope v = Ok (E, v') /\ In (s "CONSECUTIVE_NEWLINES", t_line t0, t_col t0) E.
Proof. exact empty_line_consecutive. Qed.
Print Assumptions C02_partial_W08_given_history.

Theorem C02_partial_W03_W04_given_history : forall toks scope v t0 h2 rest,
  v_history v = r_empty :: h2 :: rest -> peek toks 0 = Some t0 -> t_type t0 <> s "NEWLINE" ->
  exists E v', check_empty_line toks scope v = Ok (E, v') /\ In (s "SPACE_EMPTY_LINE", t_line t0, t_col t0) E.
Proof. exact empty_line_space. Qed.
Print Assumptions C02_partial_W03_W04_given_history.

Theorem C02_partial_W09_given_history : forall toks scope v t0 h2 rest,
  v_history v = r_empty :: h2 :: rest -> h2 <> r_vardecl -> v_scope_name v <> n_global -> peek toks 0 = Some t0 ->
  exists E v', check_empty_line toks scope v = Ok (E, v') /\ In (s "EMPTY_LINE_FUNCTION", t_line t0, t_col t0) E.
Proof. exact empty_line_function. Qed.
Print Assumptions C02_partial_W09_given_history.

Theorem C02_partial_W13_given_history : forall toks scope v t0 h2 rest,
  v_history v = r_empty :: h2 :: rest -> peek toks 0 = Some t0 -> t_type t0 = s "NEWLINE" -> peek toks 1 = None ->
  exists E v', check_empty_line toks scope v = Ok (E, v') /\ In (s "EMPTY_LINE_EOF", t_line t0, t_col t0) E.
Proof. exact empty_line_eof. Qed.
Print Assumptions C02_partial_W13_given_history.

Theorem C02_partial_W17_given_history : forall toks scope v t0 h1 rest,
  v_history v = h1 :: r_preproc :: rest -> str_in h1 [r_preproc; r_empty; r_comment] = false -> v_scope_name v = n_global ->
  peek toks 0 = Some t0 ->
  check_empty_line toks scope v = Ok ([(s "NL_AFTER_PREPROC", t_line t0, t_col t0)], v).
Proof. exact empty_line_after_preproc. Qed.
Print Assumptions C02_partial_W17_given_history.

Theorem C02_partial_W10_given_history : forall toks scope v t0 h1 rest,
  v_history v = h1 :: rest -> str_in h1 [r_vardecl; r_empty; r_comment] = false ->
  v_scope_name v <> n_global -> v_vdecl_allowed v = true ->
  (str_eqb h1 r_blockend && str_eqb (v_scope_name v) (s "Function")) = false ->
  peek toks 0 = Some t0 ->
  check_empty_line toks scope v = Ok ([(s "NL_AFTER_VAR_DECL", t_line t0, t_col t0)], set_vdecl_allowed v false).
Proof. exact empty_line_after_var_decl. Qed.
Print Assumptions C02_partial_W10_given_history.

(* ---- W06, W07 indentation depth (exact: TOO_FEW_TAB iff k < indent, TOO_MANY_TAB iff k > indent) *)
Theorem C02_partial_W06_W07_given_history : forall toks scope v k h1 rest t0,
  v_history v = h1 :: rest -> str_in h1 indent_skipped = false ->
  leading toks [ty_tab] k ->
  (forall t, peek toks (Z.of_nat k) = Some t -> str_in (t_type t) [s "LBRACE"; s "RBRACE"] = false) ->
  peek toks 0 = Some t0 ->
  exists v', check_line_indent toks scope v =
    Ok ((if v_scope_indent v >? Z.of_nat k then [(s "TOO_FEW_TAB", t_line t0, t_col t0)]
         else if Z.of_nat k >? v_scope_indent v then [(s "TOO_MANY_TAB", t_line t0, t_col t0)] else []), v') /\
    v_scope_indent v' = v_scope_indent v.
Proof. exact check_line_indent_value. Qed.
Print Assumptions C02_partial_W06_W07_given_history.

(* ---- W05 spaces instead of the indentation, on the first line of a statement.  CheckSpacing is total on what the registry
   passes (tkn_scope >= 0, the matched primary in the history: Proofs/SpacingTotal.v), so these are unconditional *)
Theorem C02_partial_W05_first_line : forall toks scope v h1 rest ts t1,
  0 <= scope -> v_history v = h1 :: rest -> str_in h1 spacing_skipped = false ->
  peek toks 0 = Some ts -> t_type ts = ty_space -> t_col ts = 1 -> 0 < slice_len toks scope ->
  peek toks (after_spaces toks scope) = Some t1 ->
  exists E v', check_spacing toks scope v = Ok (E, v') /\
    In ((if truthy (check1 toks (after_spaces toks scope + 1) (s "NEWLINE")) then s "SPACE_EMPTY_LINE" else s "SPACE_REPLACE_TAB"),
        t_line t1, t_col t1) E.
Proof. exact check_spacing_leading_space_total. Qed.
Print Assumptions C02_partial_W05_first_line.

(* ---- W01, W14, W15: blanks inside a statement, at ANY position i of the statement (CheckSpacing's loop reaches every
   SPACE that does not follow another SPACE) *)
Theorem C02_partial_W01 : forall (toks : list token) (scope i : Z) (ts : token),
  0 <= i < slice_len toks scope -> peek toks i = Some ts -> t_type ts = ty_space ->
  (0 < i -> truthy (check1 toks (i - 1) ty_space) = false) -> 0 <= scope ->
  forall (v : view) (h1 : str) (rest : list str),
  v_history v = h1 :: rest -> str_in h1 spacing_skipped = false ->
  t_col ts <> 1 ->
  truthy (checkl toks (i - 1) [s "LBRACE"; s "RBRACE"]) = false ->
  truthy (check1 toks (skip_ws toks i) (s "NEWLINE")) = true ->
  exists E v', check_spacing toks scope v = Ok (E, v') /\ In (s "SPC_BEFORE_NL", t_line ts, t_col ts) E.
Proof. exact check_spacing_trailing_space_total. Qed.
Print Assumptions C02_partial_W01.

(* once per statement: at this space, or the statement already has the code from an earlier pair *)
Theorem C02_partial_W14 : forall (toks : list token) (scope i : Z) (ts : token),
  0 <= i < slice_len toks scope -> peek toks i = Some ts -> t_type ts = ty_space ->
  (0 < i -> truthy (check1 toks (i - 1) ty_space) = false) -> 0 <= scope ->
  forall (v : view) (h1 : str) (rest : list str),
  v_history v = h1 :: rest -> str_in h1 spacing_skipped = false ->
  t_col ts <> 1 -> truthy (check1 toks (i + 1) ty_space) = true ->
  exists E v', check_spacing toks scope v = Ok (E, v') /\
    (In (s "CONSECUTIVE_SPC", t_line ts, t_col ts) E \/ has_code (s "CONSECUTIVE_SPC") E).
Proof. exact check_spacing_double_space_total. Qed.
Print Assumptions C02_partial_W14.

Theorem C02_partial_W15 : forall (toks : list token) (scope i : Z) (ts : token),
  0 <= i < slice_len toks scope -> peek toks i = Some ts -> t_type ts = ty_space ->
  (0 < i -> truthy (check1 toks (i - 1) ty_space) = false) -> 0 <= scope ->
  forall (v : view) (h1 : str) (rest : list str),
  v_history v = h1 :: rest -> str_in h1 spacing_skipped = false ->
  t_col ts <> 1 -> truthy (check1 toks (i + 1) (s "TAB")) = true ->
  exists E v', check_spacing toks scope v = Ok (E, v') /\
    (In (s "MIXED_SPACE_TAB", t_line ts, t_col ts) E \/ has_code (s "MIXED_SPACE_TAB") E).
Proof. exact check_spacing_space_tab_total. Qed.
Print Assumptions C02_partial_W15.

(* ---- second batch (Gen/MoreChecks.v, tools/translate_more.py): dependent checks, `_given_trace` = the primary they depend on
   matched the statement *)
(* T01-T04: struct / union / enum / typedef keyword first in a statement of a .c file, outside a user-defined type *)
Theorem C02_partial_T01_T04_given_trace : forall toks scope v k tk,
  leading toks ws_no_nl k -> peek toks (Z.of_nat k) = Some tk ->
  str_in (t_type tk) utype_keywords = true -> str_in (v_scope_name v) utype_scopes = false ->
  exists E, check_utype_forbidden toks scope (s ".c") v = Ok (E, v) /\ In (s "FORBIDDEN_" ++ t_type tk, t_line tk, t_col tk) E.
Proof. exact utype_forbidden_in_c. Qed.
Print Assumptions C02_partial_T01_T04_given_trace.

(* S01, S02: `for` / `switch` reached by CheckControlStatement's scan (before any `(`, `;`, line end) *)
Theorem C02_partial_S01_S02_given_trace : forall l0 tf rest scope v,
  forallb inert_c l0 = true -> str_in (t_type tf) control_forbidden_cs = true ->
  exists E, check_control_statement (l0 ++ tf :: rest) scope v = Ok (E, v) /\ In (s "FORBIDDEN_CS", t_line tf, t_col tf) E.
Proof. exact control_forbidden_cs_reported. Qed.
Print Assumptions C02_partial_S01_S02_given_trace.

(* S06: an assignment operator inside the parentheses of the condition, before any of them closes *)
Theorem C02_partial_S06_given_trace : forall l0 lp l1 ta rest scope v,
  forallb inert_c l0 = true -> t_type lp = ty_lpar -> forallb inert_n l1 = true -> str_in (t_type ta) control_assigns = true ->
  exists E, check_control_statement (l0 ++ lp :: l1 ++ ta :: rest) scope v = Ok (E, v) /\ In (s "ASSIGN_IN_CONTROL", t_line ta, t_col ta) E.
Proof. exact control_assign_reported. Qed.
Print Assumptions C02_partial_S06_given_trace.

(* S11: `return` followed (after blanks) by something that is neither `;` nor `(` *)
Theorem C02_partial_S11_given_trace : forall l0 tr rest scope v tx,
  forallb inert_e l0 = true -> t_type tr = ty_return ->
  peek (l0 ++ tr :: rest) (skip_ws (l0 ++ tr :: rest) (zlen l0 + 1)) = Some tx ->
  str_eqb (t_type tx) ty_semi = false -> str_eqb (t_type tx) ty_lpar = false ->
  exists E, check_expression_statement (l0 ++ tr :: rest) scope v = Ok (E, v) /\ In (s "RETURN_PARENTHESIS", t_line tx, t_col tx) E.
Proof. exact return_parenthesis_reported. Qed.
Print Assumptions C02_partial_S11_given_trace.

(* O07: a keyword directly followed by a token that is no blank, line end, `)` or comment (the check ends normally or with
   skip_nest's CParsingError: C05_check_expression_statement_outcomes) *)
Theorem C02_partial_O07_given_trace : forall l0 tk rest scope v tn E v',
  forallb inert_e l0 = true -> str_in (t_type tk) expression_kw = true ->
  str_in (t_type tk) [ty_semi; ty_nl] = false ->
  peek (l0 ++ tk :: rest) (zlen l0 + 1) = Some tn -> str_in (t_type tn) after_kw_ok = false ->
  check_expression_statement (l0 ++ tk :: rest) scope v = Ok (E, v') ->
  In (s "SPACE_AFTER_KW", t_line tk, t_col tk) E.
Proof. exact space_after_kw_reported. Qed.
Print Assumptions C02_partial_O07_given_trace.

(* ---- third batch (Gen/NameChecks.v, tools/translate_names.py): CheckIdentifierName and CheckComment, both `_rule` checks *)
(* N01: at a function definition (history[-1] = IsFuncDeclaration, global scope; fname = the name IsFuncDeclaration stored, fpos the
   position it stored) a character outside a-z 0-9 _ in the name: FORBIDDEN_CHAR_NAME at the name token *)
Theorem C02_partial_N01_given_trace : forall toks fname fpos vars t udt,
  illegal_name fname = true -> peek toks fpos = Some t ->
  exists E, check_identifier_name toks ident_func_rule true udt (Some fname) fpos vars = Ok E /\ In (c_char_name, t_line t, t_col t) E.
Proof. exact ident_func_reported. Qed.
Print Assumptions C02_partial_N01_given_trace.
Theorem C02_partial_N01_silent : forall toks fname fpos vars t udt,
  illegal_name fname = false -> peek toks fpos = Some t ->
  check_identifier_name toks ident_func_rule true udt (Some fname) fpos vars = Ok (var_diags vars).
Proof. exact ident_func_silent. Qed.
Print Assumptions C02_partial_N01_silent.

(* N02: a name in scope.vars_name (what the declaration primaries stored) with such a character: reported at its token, exactly then *)
Theorem C02_partial_N02_given_trace : forall toks last glob udt fname fpos vars E val l c,
  check_identifier_name toks last glob udt fname fpos vars = Ok E -> In (val, l, c) vars -> illegal_name val = true ->
  In (c_char_name, l, c) E.
Proof. exact ident_var_reported. Qed.
Print Assumptions C02_partial_N02_given_trace.
Theorem C02_partial_N02_iff : forall toks last fname fpos vars l c, str_eqb last ident_func_rule = false ->
  exists E, check_identifier_name toks last true false fname fpos vars = Ok E /\
    (In (c_char_name, l, c) E <-> exists val, In (val, l, c) vars /\ illegal_name val = true).
Proof. exact ident_var_iff. Qed.
Print Assumptions C02_partial_N02_iff.

(* K03: a comment that is not the first token of the statement's first line and is followed there by something other than blanks and
   comments: COMMENT_ON_INSTR at it, for every history and scope; and only such comments get it *)
Theorem C02_partial_K03 : forall toks hist cls l0 tc r,
  collect_line toks (skip_ws toks 0) = l0 ++ tc :: r -> l0 <> [] -> is_comment tc = true -> comment_is_last r = false ->
  In (c_on_instr, t_line tc, t_col tc) (check_comment toks hist cls).
Proof. exact comment_on_instr_reported. Qed.
Print Assumptions C02_partial_K03.
Theorem C02_partial_K03_only : forall inside l first li co,
  In (c_on_instr, li, co) (comment_scan inside first l) ->
  exists l0 tc r, l = l0 ++ tc :: r /\ (first = false \/ l0 <> []) /\ is_comment tc = true /\ comment_is_last r = false /\
                  li = t_line tc /\ co = t_col tc.
Proof. exact comment_on_instr_only. Qed.
Print Assumptions C02_partial_K03_only.
(* the same over the statements of a run of the generic registry loop: CheckComment is run on each of them *)
Theorem C02_partial_K03_file : forall oracle (ftoks : list token) segs name before after l0 tc r,
  good oracle -> run_file oracle 0 (List.length ftoks) = Ok segs -> In (SMatch name before after) segs ->
  let rem := skipn (List.length ftoks - before) ftoks in
  collect_line rem (skip_ws rem 0) = l0 ++ tc :: r -> l0 <> [] -> is_comment tc = true -> comment_is_last r = false ->
  In (s "CheckComment") (checks_run_on name) /\
  forall hist cls, In (c_on_instr, t_line tc, t_col tc) (check_comment rem hist cls).
Proof. exact file_comment_on_instr. Qed.
Print Assumptions C02_partial_K03_file.

(* K01, K02: when is_inside_a_function holds - in particular whenever the scope is a Function or the statement follows the function's
   opening brace - every comment of the line gets WRONG_SCOPE_COMMENT; outside any function none does *)
Theorem C02_partial_K01_K02 : forall toks hist cls l0 tc r,
  comment_inside_function hist cls = true -> collect_line toks (skip_ws toks 0) = l0 ++ tc :: r -> is_comment tc = true ->
  In (c_wrong_scope, t_line tc, t_col tc) (check_comment toks hist cls).
Proof. exact comment_wrong_scope_reported. Qed.
Print Assumptions C02_partial_K01_K02.
Theorem C02_partial_K01_K02_inside : forall hist cls,
  str_eqb cls comment_func_class = true \/ (exists rest, hist = s "IsBlockStart" :: s "IsFuncDeclaration" :: rest) ->
  comment_inside_function hist cls = true.
Proof. exact comment_inside_function_direct. Qed.
Print Assumptions C02_partial_K01_K02_inside.
Theorem C02_partial_K01_K02_only : forall l first li co, ~ In (c_wrong_scope, li, co) (comment_scan false first l).
Proof. exact comment_wrong_scope_only. Qed.
Print Assumptions C02_partial_K01_K02_only.

(* ---- the limit operators, decided by the counter theorems of C03 (Gen/Counters.v, Gen/ScopeOps.v; trace level: which statements
   are IsFuncDeclaration / IsVarDeclaration matches is taken from the trace) *)
(* F04, at FILE level: along any file of the statement grammar the k-th function definition gets TOO_MANY_FUNCS iff k > 5 *)
Theorem C02_partial_F04_file : forall f, file f ->
  exists q, crun cstate0 f = Some q /\ functions q = nfuncs f /\ fems q = tmf_list 0 f /\
    zlen (fems q) = Z.max 0 (nfuncs f - functions_limit).
Proof. exact funcs_iff. Qed.
Print Assumptions C02_partial_F04_file.
(* D04: the declarations at the start of a function body beyond the 5th get TOO_MANY_VARS_FUNC, per function *)
Theorem C02_partial_D04_given_trace : forall q nl gap nlo nls rest nlc, at_file_level q -> cinv q -> gap_ok gap -> body rest ->
  forallb (fun x => negb (is_vdecl x)) rest = true ->
  exists q', crun q (block_of (s_func nl) gap nlo (map vdecl nls ++ rest) nlc) = Some q' /\
    vems q' = tmv_list 0 (map vdecl nls) ++ vems q /\
    zlen (tmv_list 0 (map vdecl nls)) = Z.max 0 (zlen nls - vars_limit) /\
    at_file_level q' /\ cinv q'.
Proof. exact vars_iff. Qed.
Print Assumptions C02_partial_D04_given_trace.
(* F03: a parameter list with n top-level commas: TOO_MANY_ARGS (at the token after the closing parenthesis) iff 1 + n > 4 *)
Theorem C02_partial_F03_given_trace : forall pre name lp l n rp tp post scope v,
  t_type lp = CounterProofs.ty_lpar -> t_type rp = CounterProofs.ty_rpar -> plist l n ->
  check_func_decl_args (pre ++ name :: lp :: l ++ rp :: tp :: post) scope (zlen pre) v
  = Ok (args_start + n, zlen pre + 2 + zlen l + 1,
        if args_start + n >? args_limit then [(s "TOO_MANY_ARGS", t_line tp, t_col tp)] else []).
Proof. exact args_iff. Qed.
Print Assumptions C02_partial_F03_given_trace.
(* F05: a function whose `{` is alone on its line and whose well-nested body has more than 25 line ends: TOO_MANY_LINES at its
   closing brace, exactly then *)
Theorem C02_partial_F05_given_trace : forall g rest hs E nl b nlc, isglobal g -> last_ok hs -> body b ->
  exists q, run (mkstate (g :: rest) hs E) (block_of (s_func nl) [] 1 b nlc) = Some q /\
    ((total_nl b > 25 -> ems q = tml :: E) /\ (total_nl b <= 25 -> ems q = E)).
Proof. exact too_many_lines_25. Qed.
Print Assumptions C02_partial_F05_given_trace.

(* ---- CheckPreprocessorIndent (Gen/PreprocChecks.v): h = the first token of the line that is not white space (the `#`), whenever the
   check ends normally *)
(* the EXACT list of diagnostics of the check, part by part *)
Theorem C02_partial_preproc_indent_exact : forall toks glob pindent h E, peek toks (skip_ws toks 0) = Some h ->
  check_preproc_indent toks glob pindent = Ok E ->
  (empty_directive toks = true /\ E = start_part h ++ global_part glob h) \/
  (empty_directive toks = false /\ exists t3 ind, peek toks (name_pos toks) = Some t3 /\ expected_indent toks (name_pos toks) t3 pindent ind /\
     E = start_part h ++ global_part glob h ++ tab1_part toks ++ indent_part h t3 ind ++
         (if has_args toks (name_pos toks) t3 then args_part toks (name_pos toks + 1) else [])).
Proof. exact ppi_exact. Qed.
Print Assumptions C02_partial_preproc_indent_exact.
(* P09: the `#` is not in column 1 *)
Theorem C02_partial_P09 : forall toks glob pindent h E, peek toks (skip_ws toks 0) = Some h ->
  check_preproc_indent toks glob pindent = Ok E -> t_col h <> 1 -> In (at_tok ppi_c_start h) E.
Proof. exact ppi_start_reported. Qed.
Print Assumptions C02_partial_P09.
(* P12: a directive that is not at file level (glob = isinstance(scope, GlobalScope), from the trace) *)
Theorem C02_partial_P12_given_trace : forall toks glob pindent h E, peek toks (skip_ws toks 0) = Some h ->
  check_preproc_indent toks glob pindent = Ok E -> glob = false -> In (at_tok ppi_c_global h) E.
Proof. exact ppi_global_reported. Qed.
Print Assumptions C02_partial_P12_given_trace.
(* P10 / P11: the directive name t3 is further from / nearer to the `#` than the expected indentation (pindent = context.preproc.indent,
   from the trace) *)
Theorem C02_partial_P10_given_trace : forall toks glob pindent h E, peek toks (skip_ws toks 0) = Some h ->
  check_preproc_indent toks glob pindent = Ok E -> empty_directive toks = false ->
  forall t3, peek toks (name_pos toks) = Some t3 -> forall ind, expected_indent toks (name_pos toks) t3 pindent ind ->
  t_col t3 - t_col h - 1 > ind -> In (at_tok ppi_c_many h) E.
Proof. exact ppi_many_reported. Qed.
Print Assumptions C02_partial_P10_given_trace.
Theorem C02_partial_P11_given_trace : forall toks glob pindent h E, peek toks (skip_ws toks 0) = Some h ->
  check_preproc_indent toks glob pindent = Ok E -> empty_directive toks = false ->
  forall t3, peek toks (name_pos toks) = Some t3 -> forall ind, expected_indent toks (name_pos toks) t3 pindent ind ->
  t_col t3 - t_col h - 1 < ind -> In (at_tok ppi_c_bad h) E.
Proof. exact ppi_bad_reported. Qed.
Print Assumptions C02_partial_P11_given_trace.
(* P06 / P05 / P04: after the name of an argumented directive whose argument is on the line: no blank, a tab after the spaces, more
   than one blank *)
Theorem C02_partial_P06 : forall toks glob pindent h E, peek toks (skip_ws toks 0) = Some h ->
  check_preproc_indent toks glob pindent = Ok E -> empty_directive toks = false ->
  forall t3, peek toks (name_pos toks) = Some t3 -> has_args toks (name_pos toks) t3 = true -> args_reached toks (name_pos toks + 1) = true ->
  forall t, peek toks (name_pos toks + 1) = Some t -> str_in (t_type t) [ppi_sp2; ppi_tab2] = false -> In (at_tok ppi_c_nospace t) E.
Proof. exact ppi_nospace_reported. Qed.
Print Assumptions C02_partial_P06.
Theorem C02_partial_P05 : forall toks glob pindent h E, peek toks (skip_ws toks 0) = Some h ->
  check_preproc_indent toks glob pindent = Ok E -> empty_directive toks = false ->
  forall t3, peek toks (name_pos toks) = Some t3 -> has_args toks (name_pos toks) t3 = true -> args_reached toks (name_pos toks + 1) = true ->
  forall t, peek toks (sp_end toks (name_pos toks + 1)) = Some t -> str_eqb (t_type t) ppi_tab3 = true -> In (at_tok ppi_c_tab2 t) E.
Proof. exact ppi_tab_reported. Qed.
Print Assumptions C02_partial_P05.
Theorem C02_partial_P04 : forall toks glob pindent h E, peek toks (skip_ws toks 0) = Some h ->
  check_preproc_indent toks glob pindent = Ok E -> empty_directive toks = false ->
  forall t3, peek toks (name_pos toks) = Some t3 -> has_args toks (name_pos toks) t3 = true -> args_reached toks (name_pos toks + 1) = true ->
  forall t, peek toks (name_pos toks + 1) = Some t -> skip_ws toks (name_pos toks + 1) - (name_pos toks + 1) > 1 -> In (at_tok ppi_c_consec t) E.
Proof. exact ppi_consec_reported. Qed.
Print Assumptions C02_partial_P04.

(* ---- CheckPreprocessorInclude (Gen/PreprocChecks2.v), whenever the check ends normally *)
(* the EXACT list of its diagnostics: nothing unless the line is an include directive, else the start-of-file part and the file part *)
Theorem C02_partial_preproc_include_exact : forall toks hist allowed E, check_preproc_include toks hist allowed = Ok E ->
  E = if is_include toks then inc_start_part toks hist allowed ++ file_part toks (inc_name_pos toks) else [].
Proof. exact ppn_exact. Qed.
Print Assumptions C02_partial_preproc_include_exact.
(* P08: an include when includes are no longer allowed or after a statement that is not a comment, an empty line or a directive
   (hist = context.history, allowed = scope.include_allowed: from the trace) *)
Theorem C02_partial_P08_given_trace : forall toks hist allowed E h, check_preproc_include toks hist allowed = Ok E ->
  is_include toks = true -> peek toks (skip_ws toks 0) = Some h -> ppn_in_start hist allowed = false -> In (at_tok ppn_c_start h) E.
Proof. exact ppn_start_reported. Qed.
Print Assumptions C02_partial_P08_given_trace.
Theorem C02_partial_P08_history : forall hist allowed r, In r hist -> str_in r [ppn_hd1; ppn_hd2; ppn_hd3] = false -> ppn_in_start hist allowed = false.
Proof. exact ppn_in_start_false. Qed.
Print Assumptions C02_partial_P08_history.
(* P07: "file" whose extension (os.path.splitext) is not .h; <file> whose last tokens are not `.` `h` *)
Theorem C02_partial_P07_string : forall toks hist allowed E ts, check_preproc_include toks hist allowed = Ok E ->
  is_include toks = true -> peek toks (file_pos toks (inc_name_pos toks)) = Some ts -> str_eqb (t_type ts) ppn_string = true ->
  string_bad ts = true -> In (at_tok ppn_c_header ts) E.
Proof. exact ppn_header_string_reported. Qed.
Print Assumptions C02_partial_P07_string.
Theorem C02_partial_P07_angle : forall toks hist allowed E less i3, check_preproc_include toks hist allowed = Ok E ->
  is_include toks = true -> peek toks (file_pos toks (inc_name_pos toks)) = Some less -> str_eqb (t_type less) ppn_string = false ->
  more_pos toks (inc_name_pos toks) = Some i3 -> angle_bad toks i3 = true -> In (at_tok ppn_c_header2 less) E.
Proof. exact ppn_header_angle_reported. Qed.
Print Assumptions C02_partial_P07_angle.

(* ---- CheckPreprocessorDefine (Gen/PreprocChecks2.v), whenever the check ends normally; skip = context.preproc.skip_define *)
Theorem C02_partial_preproc_define_exact : forall toks skip E, check_preproc_define toks skip = Ok E ->
  if is_define toks
  then exists tn, peek toks (def_name_pos toks) = Some tn /\
         E = name_part tn ++ func_part toks (def_name_pos toks + 1) ++
             (if skip then [] else value_part toks (value_pos toks (def_name_pos toks + 1)))
  else E = [].
Proof. exact ppd_exact. Qed.
Print Assumptions C02_partial_preproc_define_exact.
(* P01: a macro name that is not upper-case (str.isupper) *)
Theorem C02_partial_P01 : forall toks skip E tn, check_preproc_define toks skip = Ok E -> is_define toks = true ->
  peek toks (def_name_pos toks) = Some tn -> forall w, t_val tn = Some w -> py_isupper_ascii w = false -> In (at_tok ppd_c_name tn) E.
Proof. exact ppd_name_reported. Qed.
Print Assumptions C02_partial_P01.
(* P02: a macro with parameters *)
Theorem C02_partial_P02 : forall toks skip E tn, check_preproc_define toks skip = Ok E -> is_define toks = true ->
  peek toks (def_name_pos toks) = Some tn ->
  forall t, peek toks (def_name_pos toks + 1) = Some t -> str_eqb (t_type t) ppd_lpar = true -> In (at_tok ppd_c_func t) E.
Proof. exact ppd_func_reported. Qed.
Print Assumptions C02_partial_P02.
(* P03: a value that is more than one constant: everything value_part lists is reported, in particular a further token after the
   constant, and a value that does not begin with a constant, a name or a sign *)
Theorem C02_partial_P03 : forall toks skip E tn, check_preproc_define toks skip = Ok E -> is_define toks = true ->
  peek toks (def_name_pos toks) = Some tn -> skip = false ->
  forall e, In e (value_part toks (value_pos toks (def_name_pos toks + 1))) -> In e E.
Proof. exact ppd_value_reported. Qed.
Print Assumptions C02_partial_P03.
Theorem C02_partial_P03_extra_token : forall toks i5 t, truthy (checkl toks i5 [ppd_minus; ppd_plus; ppd_bnot]) = false ->
  truthy (checkl toks i5 [ppd_const2; ppd_ident2; ppd_string; ppd_charc]) = true ->
  peek toks (skip_ws_c toks (i5 + 1)) = Some t -> str_eqb (t_type t) ppd_nl = false -> In (at_tok ppd_c_const2 t) (value_part toks i5).
Proof. exact value_part_extra_token. Qed.
Print Assumptions C02_partial_P03_extra_token.
Theorem C02_partial_P03_not_constant : forall toks i5 t, truthy (checkl toks i5 [ppd_minus; ppd_plus; ppd_bnot]) = false ->
  truthy (checkl toks i5 [ppd_const2; ppd_ident2; ppd_string; ppd_charc]) = false ->
  peek toks (skip_ws_c toks i5) = Some t -> str_eqb (t_type t) ppd_nl = false -> In (at_tok ppd_c_const2 t) (value_part toks i5).
Proof. exact value_part_not_constant. Qed.
Print Assumptions C02_partial_P03_not_constant.

(* ---- known findings, as far as the modelled checks show them *)
(* W05 on a line holding a single token (`    {`): the model of CheckSpacing prints SPACE_EMPTY_LINE and no SPACE_REPLACE_TAB
   (it tests the token AFTER the one that follows the spaces for NEWLINE) *)
Theorem C02_refuted_W05_single_token_line : exists toks scope v E,
  check_spacing toks scope v = Ok (E, v) /\ In (s "SPACE_EMPTY_LINE", 4, 5) E /\
  forall l c, ~ In (s "SPACE_REPLACE_TAB", l, c) E.
Proof. exact ex_single_token_line. Qed.
Print Assumptions C02_refuted_W05_single_token_line.

(* W01/W02 on a preprocessor line: CheckSpacing returns at once (and on empty lines) *)
Theorem C02_refuted_W01_preproc_checkspacing_silent : forall toks scope v h1 rest,
  v_history v = h1 :: rest -> str_in h1 spacing_skipped = true -> check_spacing toks scope v = Ok ([], v).
Proof. exact check_spacing_skips. Qed.
Print Assumptions C02_refuted_W01_preproc_checkspacing_silent.

(* ---- the codes a modelled check can emit *)
Theorem C02_emits_only_ternary : forall toks scope v E v',
  check_ternary toks scope v = Ok (E, v') -> v' = v /\ forall e, In e E -> em_code e = c_ternary.
Proof. exact check_ternary_emits_only. Qed.
Print Assumptions C02_emits_only_ternary.

Theorem C02_emits_only_line_len : forall toks scope v E v',
  check_line_len toks scope v = Ok (E, v') -> v' = v /\ forall e, In e E -> em_code e = c_linelen.
Proof. exact check_line_len_emits_only. Qed.
Print Assumptions C02_emits_only_line_len.

Theorem C02_emits_only_label : forall toks scope v E v',
  check_label toks scope v = Ok (E, v') -> v' = v /\ forall e, In e E -> em_code e = c_goto \/ em_code e = c_label.
Proof. exact check_label_emits_only. Qed.
Print Assumptions C02_emits_only_label.

Theorem C02_emits_only_empty_line : forall toks scope v E v',
  check_empty_line toks scope v = Ok (E, v') -> forall e, In e E -> str_in (em_code e) check_empty_line_codes = true.
Proof. exact check_empty_line_emits_only. Qed.
Print Assumptions C02_emits_only_empty_line.

(* the spacing loop only appends diagnostics and leaves the view alone *)
Theorem C02_spacing_loop_appends : forall toks scope fuel i a b E v i' a' b' E' v',
  check_spacing_loop1 fuel toks scope i a b E v = Ok (i', a', b', E', v') -> v' = v /\ exists X, E' = E ++ X.
Proof. exact spacing_loop_mono. Qed.
Print Assumptions C02_spacing_loop_appends.

(* every token of a run that ends normally lies in a matched statement, at an index below the statement length *)
Theorem C02_file_token_in_statement : forall oracle (ftoks : list token) segs k t,
  good oracle -> run_file oracle 0 (List.length ftoks) = Ok segs -> nth_error ftoks k = Some t ->
  exists name before after, In (SMatch name before after) segs /\ (after < before <= List.length ftoks)%nat /\
    let rem := skipn (List.length ftoks - before) ftoks in
    let i := Z.of_nat (k - (List.length ftoks - before)) in
    0 <= i < Z.of_nat (before - after) /\ peek rem i = Some t.
Proof. exact file_token_in_statement. Qed.
Print Assumptions C02_file_token_in_statement.

Theorem C02_rule_checks_run_on_every_statement : forall p c,
  In c [s "CheckTernary"; s "CheckLineLen"; s "CheckLabel"; s "CheckEmptyLine"; s "CheckLineIndent"; s "CheckSpacing"] ->
  In c (checks_run_on p).
Proof. exact rule_checks_run_always. Qed.
Print Assumptions C02_rule_checks_run_on_every_statement.
