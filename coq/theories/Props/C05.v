(* C05 - Every input gets an answer: no hang, no internal error.
   (a) tokenizer: termination for every string (the model's fuel is never exhausted); that no
       exception other than the documented iteration cap escapes is established by the exhaustive
       differential run, not proved (partial).
   (b) pipeline: for ANY rule set whose matching primaries consume >= 1 token, the registry loop
       terminates and ends Ok / Fatal / with the exception a rule raised; the hypothesis
       `jump >= 1` is observed on every explored run (probe on run_rules), not proved per rule. *)
From NV Require Import Model.Base Model.Diag Model.Lexer Model.Engine Proofs.LexMain Proofs.EngineProofs.

Theorem C05_lexer_terminates : forall (uw ud : N -> bool) (src : str), lex uw ud src <> Hang.
Proof. exact lex_no_hang. Qed.
Print Assumptions C05_lexer_terminates.

Theorem C05_lexer_consumes_all : forall (uw ud : N -> bool) (src : str) items xf,
  lex uw ud src = Ok (items, xf) -> rest xf = [] /\ off xf = List.length src.
Proof.
  intros uw ud src items xf H. destruct (lex_positions_and_tiling uw ud src items xf H) as [_ [_ [H1 [H2 _]]]]. now split.
Qed.
Print Assumptions C05_lexer_consumes_all.

Theorem C05_loop_terminates : forall oracle debug n, good oracle -> run_file oracle debug n <> Hang.
Proof. exact run_terminates. Qed.
Print Assumptions C05_loop_terminates.

(* the only ways out of the loop: a normal end, the controlled fatal error, or an exception that a
   rule itself raised (TCrash of the oracle) *)
Theorem C05_loop_outcomes : forall oracle debug n, good oracle ->
  (exists segs, run_file oracle debug n = Ok segs) \/ (exists m, run_file oracle debug n = Fatal m) \/
  (exists e i, run_file oracle debug n = Crash e /\ oracle i = TCrash e).
Proof. exact loop_outcomes. Qed.
Print Assumptions C05_loop_outcomes.

Example C05_example :
  run_file (fun i => match i with 0%nat => Matched (s "IsComment") 2 | 1%nat => NoMatch | _ => Matched (s "IsEmptyLine") 1 end) 0 4
  = Fatal unrec_msg.
Proof. reflexivity. Qed.
(* ---- the translated checks and the scope operations: which inputs make them raise, nothing else does, no fuel runs out.
   (Gen/RuleChecks.v, Gen/Counters.v, Gen/ScopeOps.v are regenerated from the source on every run; Proofs/CrashFree.v) *)
From NV Require Import Model.RuleChecks Gen.RuleChecks Model.CounterBase Gen.Counters Model.ScopeBase Gen.ScopeOps Model.ScopeTrace
  Proofs.RuleChecksProofs Proofs.RuleChecksProofs2 Proofs.SpacingTotal Proofs.CrashFree.
Local Open Scope Z_scope.

Theorem C05_check_ternary_total : forall toks scope v, exists r, check_ternary toks scope v = Ok r.
Proof. exact check_ternary_total. Qed.
Print Assumptions C05_check_ternary_total.
Theorem C05_check_line_len_total : forall toks scope v, exists r, check_line_len toks scope v = Ok r.
Proof. exact check_line_len_total. Qed.
Print Assumptions C05_check_line_len_total.
Theorem C05_check_label_total : forall toks scope v, exists r, check_label toks scope v = Ok r.
Proof. exact check_label_total. Qed.
Print Assumptions C05_check_label_total.

(* AttributeError exactly without a token; the registry only runs checks while context.tokens is not empty *)
Theorem C05_check_many_instructions_crash_iff : forall toks scope v,
  (toks = [] -> check_many_instructions toks scope v = Crash AttributeError) /\
  (toks <> [] -> exists r, check_many_instructions toks scope v = Ok r).
Proof. exact check_many_instructions_crash_iff. Qed.
Print Assumptions C05_check_many_instructions_crash_iff.

(* IndexError on an empty history; in the registry the matched primary has been appended before any check runs *)
Theorem C05_check_empty_line_crash_no_history : forall toks scope v, v_history v = [] -> check_empty_line toks scope v = Crash IndexError.
Proof. exact check_empty_line_crash_no_history. Qed.
Print Assumptions C05_check_empty_line_crash_no_history.
Theorem C05_check_empty_line_total_in_registry : forall toks scope v, toks <> [] -> v_history v <> [] ->
  exists r, check_empty_line toks scope v = Ok r.
Proof. exact check_empty_line_total_in_registry. Qed.
Print Assumptions C05_check_empty_line_total_in_registry.
Theorem C05_check_line_indent_crash_no_history : forall toks scope v, v_history v = [] -> check_line_indent toks scope v = Crash IndexError.
Proof. exact check_line_indent_crash_no_history. Qed.
Print Assumptions C05_check_line_indent_crash_no_history.
Theorem C05_check_line_indent_total_in_registry : forall toks scope v, toks <> [] -> v_history v <> [] ->
  exists r, check_line_indent toks scope v = Ok r.
Proof. exact check_line_indent_total_in_registry. Qed.
Print Assumptions C05_check_line_indent_total_in_registry.

(* CheckSpacing: total (no AttributeError, no fuel exhaustion) on every statement the registry passes *)
Theorem C05_check_spacing_total_in_registry : forall toks scope, 0 <= scope ->
  forall v, v_history v <> [] -> exists r, check_spacing toks scope v = Ok r.
Proof. exact check_spacing_total. Qed.
Print Assumptions C05_check_spacing_total_in_registry.
Theorem C05_check_spacing_crash_no_history : forall toks scope v, v_history v = [] -> check_spacing toks scope v = Crash IndexError.
Proof. exact check_spacing_crash_no_history. Qed.
Print Assumptions C05_check_spacing_crash_no_history.
(* the invocation that used to raise AttributeError (`int<TAB>a;\<newline><space><EOF>`, recorded from the implementation):
   SPACE_REPLACE_TAB is reported at the last token *)
Theorem C05_check_spacing_reports_at_eof_blank : check_spacing crash_tokens 5 crash_view = Ok ([(s "SPACE_REPLACE_TAB", 2, 1)], crash_view).
Proof. exact check_spacing_reports_at_eof_blank. Qed.
Print Assumptions C05_check_spacing_reports_at_eof_blank.

(* Context.skip_nest and the parameter counter of CheckFuncDeclaration: never out of fuel, only CParsingError or AttributeError *)
Theorem C05_skip_nest_total : forall toks pos, 0 <= pos -> nest_ok (skip_nest toks pos) pos.
Proof. exact skip_nest_total. Qed.
Print Assumptions C05_skip_nest_total.
Theorem C05_check_func_decl_args_outcomes : forall toks scope fname_pos v, -1 <= fname_pos ->
  (exists r, check_func_decl_args toks scope fname_pos v = Ok r) \/
  (exists m, check_func_decl_args toks scope fname_pos v = Fatal m) \/
  check_func_decl_args toks scope fname_pos v = Crash AttributeError.
Proof. exact check_func_decl_args_outcomes. Qed.
Print Assumptions C05_check_func_decl_args_outcomes.

(* the scope bookkeeping of one turn of the registry loop never gets stuck on a chain that ends in a non-ControlStructure scope
   (the GlobalScope): no missing parent is dereferenced, Context.update's recursion is bounded by the depth of the chain *)
Theorem C05_scope_step_total : forall q x, wf_chain (chain q) -> opens_ok x -> exists q', step q x = Some q' /\ wf_chain (chain q').
Proof. exact step_total. Qed.
Print Assumptions C05_scope_step_total.

(* ---- second batch of translated checks (Gen/MoreChecks.v; Proofs/CrashFreeMore.v) *)
From NV Require Import Gen.MoreChecks Proofs.CrashFreeMore.
Theorem C05_check_utype_total_in_registry : forall toks scope ftype v t, peek toks (skip_ws toks 0) = Some t ->
  exists r, check_utype_forbidden toks scope ftype v = Ok r.
Proof. exact check_utype_total_in_registry. Qed.
Print Assumptions C05_check_utype_total_in_registry.
Theorem C05_check_utype_crash_without_token : forall toks scope v, peek toks (skip_ws toks 0) = None ->
  check_utype_forbidden toks scope (s ".c") v = Crash AttributeError.
Proof. exact check_utype_crash_without_token. Qed.
Print Assumptions C05_check_utype_crash_without_token.
(* CheckExpressionStatement: for every input a result or Context.skip_nest's CParsingError - no exception, no fuel exhaustion *)
Theorem C05_check_expression_statement_outcomes : forall toks scope v,
  (exists r, check_expression_statement toks scope v = Ok r) \/ (exists m, check_expression_statement toks scope v = Fatal m).
Proof. exact check_expression_statement_outcomes. Qed.
Print Assumptions C05_check_expression_statement_outcomes.
(* CheckControlStatement: total - no exception, no fuel exhaustion (check_nest stops at the end of the tokens) *)
Theorem C05_check_control_statement_total : forall toks scope v, toks <> [] -> exists r, check_control_statement toks scope v = Ok r.
Proof. exact check_control_statement_total. Qed.
Print Assumptions C05_check_control_statement_total.
(* the recorded invocation (`<TAB>else(` in a function body) on which check_nest used not to return *)
Theorem C05_check_control_statement_returns_on_else_paren :
  check_control_statement else_paren_tokens 2 else_paren_view = Ok ([], else_paren_view).
Proof. exact check_control_statement_returns_on_else_paren. Qed.
Print Assumptions C05_check_control_statement_returns_on_else_paren.

(* ---- third batch (Gen/NameChecks.v): CheckComment is a total function in the model; CheckIdentifierName *)
From NV Require Import Model.NameBase Gen.NameChecks Proofs.NameChecksProofs.
Theorem C05_check_identifier_name_total_in_registry : forall toks last glob udt f fpos vars t0 t,
  peek toks 0 = Some t0 -> peek toks fpos = Some t -> exists E, check_identifier_name toks last glob udt (Some f) fpos vars = Ok E.
Proof. exact ident_total_in_registry. Qed.
Print Assumptions C05_check_identifier_name_total_in_registry.
Theorem C05_check_identifier_name_crash_without_name : forall toks udt fpos vars,
  check_identifier_name toks ident_func_rule true udt None fpos vars = Crash IndexError.
Proof. exact ident_crash_without_name. Qed.
Print Assumptions C05_check_identifier_name_crash_without_name.

(* ---- CheckPreprocessorIndent (Gen/PreprocChecks.v): it ends normally or raises AttributeError (a missing token where `.line_column`,
   `.value.upper` or the highlighted token is read), nothing else; no loop of it can run on *)
From NV Require Import Model.PreprocBase Gen.PreprocChecks Proofs.PreprocProofs.
Theorem C05_check_preproc_indent_ok_or_attribute_error : forall toks glob pindent,
  (exists E, check_preproc_indent toks glob pindent = Ok E) \/ check_preproc_indent toks glob pindent = Crash AttributeError.
Proof. exact ppi_ok_or_attribute_error. Qed.
Print Assumptions C05_check_preproc_indent_ok_or_attribute_error.

(* ---- CheckPreprocessorInclude / CheckPreprocessorDefine (Gen/PreprocChecks2.v): each ends normally or raises AttributeError, or runs
   on - and that only when its unbounded loop `while not check_token(i, T): i += 1` has no exit: no MORE_THAN (no RPARENTHESIS) token
   at any later position (IsPreprocessorStatement rejects such lines before the checks run: tested) *)
From NV Require Import Model.PreprocBase2 Gen.PreprocChecks2 Proofs.PreprocProofs2.
Theorem C05_check_preproc_include_outcome : forall toks hist allowed,
  okp (more_pos toks (inc_name_pos toks) = None) (check_preproc_include toks hist allowed).
Proof. exact ppn_outcome. Qed.
Print Assumptions C05_check_preproc_include_outcome.
Theorem C05_check_preproc_include_hang_means_unclosed : forall toks i1, 0 <= file_pos toks i1 -> more_pos toks i1 = None ->
  forall j, file_pos toks i1 <= j -> truthy (check1 toks j ppn_more) = false.
Proof. exact more_pos_none. Qed.
Print Assumptions C05_check_preproc_include_hang_means_unclosed.
Theorem C05_check_preproc_define_outcome : forall toks skip,
  okp (rpar_pos toks (def_name_pos toks + 1) = None) (check_preproc_define toks skip).
Proof. exact ppd_outcome. Qed.
Print Assumptions C05_check_preproc_define_outcome.
Theorem C05_check_preproc_define_hang_means_unclosed : forall toks i3, 0 <= i3 -> rpar_pos toks i3 = None ->
  forall j, i3 <= j -> truthy (check1 toks j ppd_rpar) = false.
Proof. exact rpar_pos_none. Qed.
Print Assumptions C05_check_preproc_define_hang_means_unclosed.

(* after the repair of the TOO_MANY_ARGS call (f414d35): the parameter slice of CheckFuncDeclaration never raises AttributeError *)
Theorem C05_check_func_decl_args_total : forall toks scope fname_pos v, -1 <= fname_pos ->
  (exists r, check_func_decl_args toks scope fname_pos v = Ok r) \/
  (exists m, check_func_decl_args toks scope fname_pos v = Fatal m).
Proof. exact check_func_decl_args_total. Qed.
Print Assumptions C05_check_func_decl_args_total.
