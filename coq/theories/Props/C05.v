(* C05 - Every input gets an answer: no hang, no internal error.
   (a) tokenizer: termination for every string (the model's fuel is never exhausted); that no
       exception other than the documented iteration cap escapes is established by the exhaustive
       differential run, not proved (partial).
   (b) pipeline: for ANY rule set whose matching primaries consume >= 1 token, the registry loop
       terminates and ends Ok / Fatal / with the exception a rule raised; the hypothesis
       `jump >= 1` is observed on every explored run (probe on run_rules), not proved per rule. *)
From NV Require Import Model.Base Model.Diag Model.Lexer Model.Engine Proofs.LexMain Proofs.EngineProofs.

Theorem C05_lexer_terminates : forall (uw ud : N -> bool) (src : str), lex uw ud src <> Hang.
Proof. exact lex_no_hang. Qed.
Print Assumptions C05_lexer_terminates.

Theorem C05_lexer_consumes_all : forall (uw ud : N -> bool) (src : str) items xf,
  lex uw ud src = Ok (items, xf) -> rest xf = [] /\ off xf = List.length src.
Proof.
  intros uw ud src items xf H. destruct (lex_positions_and_tiling uw ud src items xf H) as [_ [_ [H1 [H2 _]]]]. now split.
Qed.
Print Assumptions C05_lexer_consumes_all.

Theorem C05_loop_terminates : forall oracle debug n, good oracle -> run_file oracle debug n <> Hang.
Proof. exact run_terminates. Qed.
Print Assumptions C05_loop_terminates.

(* the only ways out of the loop: a normal end, the controlled fatal error, or an exception that a
   rule itself raised (TCrash of the oracle) *)
Theorem C05_loop_outcomes : forall oracle debug n, good oracle ->
  (exists segs, run_file oracle debug n = Ok segs) \/ (exists m, run_file oracle debug n = Fatal m) \/
  (exists e i, run_file oracle debug n = Crash e /\ oracle i = TCrash e).
Proof. exact loop_outcomes. Qed.
Print Assumptions C05_loop_outcomes.

Example C05_example :
  run_file (fun i => match i with 0%nat => Matched (s "IsComment") 2 | 1%nat => NoMatch | _ => Matched (s "IsEmptyLine") 1 end) 0 4
  = Fatal unrec_msg.
Proof. reflexivity. Qed.
