(* C11 - C literals are classified as C defines them.
   Model: Model/Lexer.v + Model/NumRe.v (tables and regex parse trees from Gen.LexTables, regenerated from
   lexer.py on every run).  Specification: Spec/CConst.v, written from C11 6.4.4 / 6.4.5, independent of the lexer.

   The property's own quantifier is bounded ("digit strings up to a length bound ..., all bases, all first digits,
   all suffix spellings, exponent signs, empty integer or fraction parts, every escape sequence, every member of the
   malformed families"): the theorems below are stated for exactly such finite families, enumerated in Spec/CConst.v
   (the bound is part of each statement), and proved by evaluating the lexer model on every member inside Coq.
   `lex_one_ok ty w rest` = the first step of the tokenizer on w ++ rest is ONE token of type ty whose value is w,
   spanning exactly w, with no diagnostic at all.  `lex_one_diag name w rest` = the diagnostic `name` is reported with a
   highlight inside (or just after) w.  uw/ud (Unicode \w, \d) are irrelevant here: all members are ASCII.
   Four shapes of valid constants are NOT accepted by the tool (genuine defects, KNOWN_FINDINGS.jsonl): each accept
   theorem is stated under the boolean guard that excludes exactly them, and each has its `_refuted` witness. *)
From NV Require Import Model.Base Model.Diag Model.Lexer Spec.CConst Gen.LexTables Proofs.CConstProofs Proofs.LexTies.

Theorem C11_accept_int_partial : forall w r, In w (int_consts integer_suffixes) -> In r (delims w) ->
  guard_int w r = true -> lex_one_ok (s "CONSTANT") w r = true.
Proof. exact accept_int. Qed.
Print Assumptions C11_accept_int_partial.

Theorem C11_accept_int_all_delimiters_partial : forall w r, In w (cat int_reprs integer_suffixes) -> In r (delims_all w) ->
  guard_int w r = true -> lex_one_ok (s "CONSTANT") w r = true.
Proof. exact accept_int_all_delims. Qed.
Print Assumptions C11_accept_int_all_delimiters_partial.

Theorem C11_accept_float_partial : forall w r, In w (float_consts float_suffixes) -> In r (delims w) ->
  guard_float w = true -> lex_one_ok (s "CONSTANT") w r = true.
Proof. exact accept_float. Qed.
Print Assumptions C11_accept_float_partial.

Theorem C11_accept_float_all_delimiters_partial : forall w r, In w (cat float_reprs float_suffixes) -> In r (delims_all w) ->
  guard_float w = true -> lex_one_ok (s "CONSTANT") w r = true.
Proof. exact accept_float_all_delims. Qed.
Print Assumptions C11_accept_float_all_delimiters_partial.

Theorem C11_accept_char_partial : forall w r, In w char_consts -> In r (delims w) ->
  guard_char w = true -> lex_one_ok (s "CHAR_CONST") w r = true.
Proof. exact accept_char. Qed.
Print Assumptions C11_accept_char_partial.

Theorem C11_accept_string_partial : forall w r, In w string_consts -> In r (delims w) ->
  guard_string w = true -> lex_one_ok (s "STRING") w r = true.
Proof. exact accept_string. Qed.
Print Assumptions C11_accept_string_partial.

(* malformed families M1..M10, M14, M15: the matching diagnostic, located in the constant *)
Theorem C11_reject : forall fam name ws w r, In (fam, name, ws) malformed -> In w ws -> In r m_rests ->
  lex_one_diag name w r = true.
Proof. exact reject_family. Qed.
Print Assumptions C11_reject.

(* M11..M13: literals / comments left open at the end of a line or of the input *)
Theorem C11_reject_open : forall fam name ws w r, In (fam, name, ws) malformed_open -> In (w, r) ws ->
  lex_one_diag name w r = true.
Proof. exact reject_open. Qed.
Print Assumptions C11_reject_open.

(* refuted on the current tree: valid constants that are not accepted (one finding each) *)
Theorem C11_refuted_hex_b_digits : shape_k1 (s "0xb3ba") = true /\ int_body (s "0xb3ba") = Some Hex /\
  lex_one_ok (s "CONSTANT") (s "0xb3ba") (s ";") = false /\ lex_one_diag (s "INVALID_SUFFIX") (s "0xb3ba") (s ";") = true.
Proof. exact refuted_k1. Qed.
Print Assumptions C11_refuted_hex_b_digits.
Theorem C11_refuted_hex_e_suffix_sign :
  lex_one_ok (s "CONSTANT") (s "0x1eu") (s "+1") = false /\ lex_one_ok (s "CONSTANT") (s "0x1eu") (s ";") = true.
Proof. exact refuted_hex_e_suffix. Qed.
Print Assumptions C11_refuted_hex_e_suffix_sign.
Theorem C11_refuted_hexfloat_empty_part :
  lex_one_ok (s "CONSTANT") (s "0x1.p3") (s ";") = false /\ lex_one_ok (s "CONSTANT") (s "0x.8p1") (s ";") = false.
Proof. exact refuted_hexfloat_empty_part. Qed.
Print Assumptions C11_refuted_hexfloat_empty_part.
Theorem C11_refuted_hexfloat_hex_suffix : str_in (s "fi") float_suffixes = true /\
  lex_one_ok (s "CONSTANT") (s "0x1.8p3fi") (s ";") = false /\ lex_one_ok (s "CONSTANT") (s "1.5fi") (s ";") = true.
Proof. exact refuted_hexfloat_hex_suffix. Qed.
Print Assumptions C11_refuted_hexfloat_hex_suffix.
Theorem C11_refuted_universal_character_name :
  lex_one_ok (s "CHAR_CONST") (qt ++ bsl ++ s "u1234" ++ qt) (s ";") = false /\
  lex_one_ok (s "STRING") (dq ++ bsl ++ s "u1234" ++ dq) (s ";") = false.
Proof. exact refuted_ucn. Qed.
Print Assumptions C11_refuted_universal_character_name.
Theorem C11_refuted_long_hex_escape_in_char :
  lex_one_ok (s "CHAR_CONST") (s "L" ++ qt ++ bsl ++ s "x1234" ++ qt) (s ";") = false.
Proof. exact refuted_long_hex_char. Qed.
Print Assumptions C11_refuted_long_hex_escape_in_char.

(* the numeric matchers of the model were written from the patterns the source compiles today *)
Theorem C11_pattern_ties :
  String.eqb INT_LITERAL_PATTERN_tree Model.NumReExpected.expected_INT_LITERAL_PATTERN_tree = true /\
  String.eqb FLOAT_EXPONENT_LITERAL_PATTERN_tree Model.NumReExpected.expected_FLOAT_EXPONENT_LITERAL_PATTERN_tree = true /\
  String.eqb FLOAT_FRACTIONAL_LITERAL_PATTERN_tree Model.NumReExpected.expected_FLOAT_FRACTIONAL_LITERAL_PATTERN_tree = true /\
  String.eqb FLOAT_HEXADECIMAL_LITERAL_PATTERN_tree Model.NumReExpected.expected_FLOAT_HEXADECIMAL_LITERAL_PATTERN_tree = true.
Proof.
  exact (conj (proj1 int_pattern_tie) (conj (proj1 fexp_pattern_tie) (conj (proj1 ffrac_pattern_tie) (proj1 fhex_pattern_tie)))).
Qed.
Print Assumptions C11_pattern_ties.

(* non-vacuity: the families are large and contain the forms the property names *)
Example C11_families_nonempty :
  (10000 <=? Z.of_nat (List.length (int_consts integer_suffixes))) = true /\
  str_in (s "0XBe9ul") (int_consts integer_suffixes) = true /\ str_in (s "12.25e-12L") (float_consts float_suffixes) = true /\
  guard_int (s "0XBe9ul") (s ";") = true /\ guard_float (s "12.25e-12L") = true.
Proof. vm_compute. repeat split. Qed.
