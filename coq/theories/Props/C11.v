(* C11 - C literals are classified as C defines them.
   Model: Model/Lexer.v + Model/NumRe.v (tables and regex parse trees from Gen.LexTables, regenerated from
   lexer.py on every run).  Specification: Spec/CConst.v, written from C11 6.4.4 / 6.4.5, independent of the lexer.

   The property's own quantifier is bounded ("digit strings up to a length bound ..., all bases, all first digits,
   all suffix spellings, exponent signs, empty integer or fraction parts, every escape sequence, every member of the
   malformed families"): the theorems below are stated for exactly such finite families, enumerated in Spec/CConst.v
   (the bound is part of each statement), and proved by evaluating the lexer model on every member inside Coq.
   `lex_one_ok ty w rest` = the first step of the tokenizer on w ++ rest is ONE token of type ty whose value is w,
   spanning exactly w, with no diagnostic at all.  `lex_one_diag name w rest` = the diagnostic `name` is reported with a
   highlight inside (or just after) w.  uw/ud (Unicode \w, \d) are irrelevant here: all members are ASCII.
   Some shapes of valid constants are NOT accepted by the tool (genuine defects, KNOWN_FINDINGS.jsonl): each accept
   theorem is stated under the boolean guard that excludes exactly them, and each has its `_refuted` witness.  The shape
   K1 (hex constant whose leading b/B digits are followed by a decimal digit, 0xb3ba) was one of them; it is repaired in
   the source (Prefix alternative 0[xX](?=[\da-fA-F]) of INT_LITERAL_PATTERN), guard_int no longer excludes it and
   C11_accepted_hex_b_digits states it positively.  Likewise the two hexadecimal-float shapes (empty fraction or integer part;
   suffix starting with a hexadecimal letter and continuing) are repaired: guard_float is trivially true now (kept in the
   statements for stability), C11_accepted_hexfloat_empty_part / _hex_suffix state them positively.  Still recorded: the
   hexadecimal e/E + suffix + sign shape, universal character names, long \x escapes in character constants. *)
From NV Require Import Model.Base Model.Diag Model.Lexer Spec.CConst Gen.LexTables Proofs.CConstProofs Proofs.LexTies.

Theorem C11_accept_int_partial : forall w r, In w (int_consts integer_suffixes) -> In r (delims w) ->
  guard_int w r = true -> lex_one_ok (s "CONSTANT") w r = true.
Proof. exact accept_int. Qed.
Print Assumptions C11_accept_int_partial.

Theorem C11_accept_int_all_delimiters_partial : forall w r, In w (cat int_reprs integer_suffixes) -> In r (delims_all w) ->
  guard_int w r = true -> lex_one_ok (s "CONSTANT") w r = true.
Proof. exact accept_int_all_delims. Qed.
Print Assumptions C11_accept_int_all_delimiters_partial.

Theorem C11_accept_float_partial : forall w r, In w (float_consts float_suffixes) -> In r (delims w) ->
  guard_float w = true -> lex_one_ok (s "CONSTANT") w r = true.
Proof. exact accept_float. Qed.
Print Assumptions C11_accept_float_partial.

Theorem C11_accept_float_all_delimiters_partial : forall w r, In w (cat float_reprs float_suffixes) -> In r (delims_all w) ->
  guard_float w = true -> lex_one_ok (s "CONSTANT") w r = true.
Proof. exact accept_float_all_delims. Qed.
Print Assumptions C11_accept_float_all_delimiters_partial.

Theorem C11_accept_char_partial : forall w r, In w char_consts -> In r (delims w) ->
  guard_char w = true -> lex_one_ok (s "CHAR_CONST") w r = true.
Proof. exact accept_char. Qed.
Print Assumptions C11_accept_char_partial.

Theorem C11_accept_string_partial : forall w r, In w string_consts -> In r (delims w) ->
  guard_string w = true -> lex_one_ok (s "STRING") w r = true.
Proof. exact accept_string. Qed.
Print Assumptions C11_accept_string_partial.

(* malformed families M1..M10, M14, M15: the matching diagnostic, located in the constant *)
Theorem C11_reject : forall fam name ws w r, In (fam, name, ws) malformed -> In w ws -> In r m_rests ->
  lex_one_diag name w r = true.
Proof. exact reject_family. Qed.
Print Assumptions C11_reject.

(* M11..M13: literals / comments left open at the end of a line or of the input *)
Theorem C11_reject_open : forall fam name ws w r, In (fam, name, ws) malformed_open -> In (w, r) ws ->
  lex_one_diag name w r = true.
Proof. exact reject_open. Qed.
Print Assumptions C11_reject_open.

(* refuted on the current tree: valid constants that are not accepted (one finding each) *)
(* the former finding C11-hex-b-digits (K1), repaired in the source: positive now *)
Theorem C11_accepted_hex_b_digits : shape_k1 (s "0xb3ba") = true /\ int_body (s "0xb3ba") = Some Hex /\
  lex_one_ok (s "CONSTANT") (s "0xb3ba") (s ";") = true /\ lex_one_diag (s "INVALID_SUFFIX") (s "0xb3ba") (s ";") = false /\
  shape_k1 (s "0XBB98Bl") = true /\ lex_one_ok (s "CONSTANT") (s "0XBB98Bl") (s ";") = true.
Proof. exact accepted_k1_shape. Qed.
Print Assumptions C11_accepted_hex_b_digits.
Theorem C11_refuted_hex_e_suffix_sign :
  lex_one_ok (s "CONSTANT") (s "0x1eu") (s "+1") = false /\ lex_one_ok (s "CONSTANT") (s "0x1eu") (s ";") = true.
Proof. exact refuted_hex_e_suffix. Qed.
Print Assumptions C11_refuted_hex_e_suffix_sign.
(* the former findings C11-hexfloat-empty-part / C11-hexfloat-hex-suffix, repaired in the source: positive now *)
Theorem C11_accepted_hexfloat_empty_part :
  shape_hexfloat_empty_part (s "0x1.p3") = true /\ shape_hexfloat_empty_part (s "0x.8p1") = true /\
  lex_one_ok (s "CONSTANT") (s "0x1.p3") (s ";") = true /\ lex_one_ok (s "CONSTANT") (s "0x.8p1") (s ";") = true.
Proof. exact accepted_hexfloat_empty_part. Qed.
Print Assumptions C11_accepted_hexfloat_empty_part.
Theorem C11_accepted_hexfloat_hex_suffix : str_in (s "fi") float_suffixes = true /\ shape_hexfloat_hex_suffix (s "0x1.8p3fi") = true /\
  lex_one_ok (s "CONSTANT") (s "0x1.8p3fi") (s ";") = true /\ lex_one_ok (s "CONSTANT") (s "1.5fi") (s ";") = true.
Proof. exact accepted_hexfloat_hex_suffix. Qed.
Print Assumptions C11_accepted_hexfloat_hex_suffix.
Theorem C11_refuted_universal_character_name :
  lex_one_ok (s "CHAR_CONST") (qt ++ bsl ++ s "u1234" ++ qt) (s ";") = false /\
  lex_one_ok (s "STRING") (dq ++ bsl ++ s "u1234" ++ dq) (s ";") = false.
Proof. exact refuted_ucn. Qed.
Print Assumptions C11_refuted_universal_character_name.
Theorem C11_refuted_long_hex_escape_in_char :
  lex_one_ok (s "CHAR_CONST") (s "L" ++ qt ++ bsl ++ s "x1234" ++ qt) (s ";") = false.
Proof. exact refuted_long_hex_char. Qed.
Print Assumptions C11_refuted_long_hex_escape_in_char.

(* the numeric matchers of the model were written from the patterns the source compiles today *)
Theorem C11_pattern_ties :
  String.eqb INT_LITERAL_PATTERN_tree Model.NumReExpected.expected_INT_LITERAL_PATTERN_tree = true /\
  String.eqb FLOAT_EXPONENT_LITERAL_PATTERN_tree Model.NumReExpected.expected_FLOAT_EXPONENT_LITERAL_PATTERN_tree = true /\
  String.eqb FLOAT_FRACTIONAL_LITERAL_PATTERN_tree Model.NumReExpected.expected_FLOAT_FRACTIONAL_LITERAL_PATTERN_tree = true /\
  String.eqb FLOAT_HEXADECIMAL_LITERAL_PATTERN_tree Model.NumReExpected.expected_FLOAT_HEXADECIMAL_LITERAL_PATTERN_tree = true.
Proof.
  exact (conj (proj1 int_pattern_tie) (conj (proj1 fexp_pattern_tie) (conj (proj1 ffrac_pattern_tie) (proj1 fhex_pattern_tie)))).
Qed.
Print Assumptions C11_pattern_ties.

(* non-vacuity: the families are large and contain the forms the property names *)
Example C11_families_nonempty :
  (10000 <=? Z.of_nat (List.length (int_consts integer_suffixes))) = true /\
  str_in (s "0XBe9ul") (int_consts integer_suffixes) = true /\ str_in (s "12.25e-12L") (float_consts float_suffixes) = true /\
  guard_int (s "0XBe9ul") (s ";") = true /\ guard_float (s "12.25e-12L") = true.
Proof. vm_compute. repeat split. Qed.

(* the tool's suffix tables are exactly the suffix grammar of the property text (written independently in Spec/CConst.v):
   every spelling [uU]?(l|L|ll|LL|z|Z|wb|WB|i64|I64)? in either order is in the table and nothing else is; f F l L d D are
   float suffixes.  A table edit that drops or invents a spelling breaks this. *)
Theorem C11_suffix_tables_are_the_grammar :
  forallb (fun x => str_in x integer_suffixes) spec_int_suffixes = true /\
  forallb (fun x => str_in x spec_int_suffixes) integer_suffixes = true /\
  forallb (fun x => str_in x float_suffixes) spec_float_suffixes = true.
Proof. exact integer_suffix_table_is_the_grammar. Qed.
Print Assumptions C11_suffix_tables_are_the_grammar.

(* ---- UNBOUNDED accept theorems for integer constants (Proofs/CConstUnbounded.v): all Unicode class oracles uw ud,
   digit strings of ANY length, every suffix of the source's table, every continuation that starts with a delimiter
   (`delim`: end of input, or an ASCII character that is no letter, digit, underscore or dot).
   `lex_one_ok_u uw ud ty w rest` = exists x, step uw ud (init (w ++ rest)) = StepItem (ITok {ty, line 1, col 1, Some w} 0 |w|) x
   /\ errs x = [] ; for uw = ud = nouni it implies the boolean lex_one_ok of the bounded theorems (C11_unbounded_implies_bounded_form). *)
From NV Require Import Proofs.CConstUnbounded.

Theorem C11_accept_decimal_unbounded : forall (uw ud : N -> bool) d ds sfx rest,
  nonzero_digit d = true -> forallb ascii_digit ds = true -> str_in sfx integer_suffixes = true -> delim rest = true ->
  lex_one_ok_u uw ud (s "CONSTANT") ((d :: ds) ++ sfx) rest.
Proof. exact accept_decimal. Qed.
Print Assumptions C11_accept_decimal_unbounded.

Theorem C11_accept_octal_unbounded : forall (uw ud : N -> bool) os sfx rest,
  forallb is_oct os = true -> str_in sfx integer_suffixes = true -> delim rest = true ->
  lex_one_ok_u uw ud (s "CONSTANT") ((48%N :: os) ++ sfx) rest.
Proof. exact accept_octal. Qed.
Print Assumptions C11_accept_octal_unbounded.

Theorem C11_accept_binary_unbounded : forall (uw ud : N -> bool) b i bits sfx rest,
  is_bB b = true -> forallb is_bin (i :: bits) = true -> str_in sfx integer_suffixes = true -> delim rest = true ->
  lex_one_ok_u uw ud (s "CONSTANT") ((48%N :: b :: i :: bits) ++ sfx) rest.
Proof. exact accept_binary. Qed.
Print Assumptions C11_accept_binary_unbounded.

(* hexadecimal: ALL non-empty hexadecimal digit strings (since the repair of K1 also those whose leading b/B digits are
   followed by a decimal digit: 0xb3ba); partial only for the guard that excludes the known finding C11-hex-e-suffix-sign
   (and the non-constant 0x1e+1): after a last digit e/E the continuation must not start with + or - *)
Theorem C11_accept_hex_unbounded_partial : forall (uw ud : N -> bool) xc hs sfx rest,
  is_xX xc = true -> forallb is_hex hs = true -> hs <> [] -> str_in sfx integer_suffixes = true -> delim rest = true ->
  hex_guard_e hs rest = true ->
  lex_one_ok_u uw ud (s "CONSTANT") ((48%N :: xc :: hs) ++ sfx) rest.
Proof. exact accept_hex_partial. Qed.
Print Assumptions C11_accept_hex_unbounded_partial.

(* hex_guard_k1 (no longer a hypothesis of anything) is the negation of the shape K1 of Spec/CConst.v: the theorem above
   covers both sides of it.  hex_guard_e implies the negation of shape_hex_e_suffix (it also excludes `0x1e+1` without
   suffix: one preprocessing number in C, family M4 here) *)
Theorem C11_hex_guard_k1_is_not_shape_k1 : forall xc hs sfx, is_xX xc = true -> sfx_ok sfx = true ->
  shape_k1 ((48%N :: xc :: hs) ++ sfx) = negb (hex_guard_k1 hs).
Proof. exact hex_guard_k1_is_not_shape_k1. Qed.
Print Assumptions C11_hex_guard_k1_is_not_shape_k1.
Theorem C11_hex_guard_e_excludes_shape : forall xc hs sfx rest, forallb is_hex hs = true -> sfx_ok sfx = true ->
  hex_guard_e hs rest = true -> shape_hex_e_suffix ((48%N :: xc :: hs) ++ sfx) rest = false.
Proof. exact hex_guard_e_not_shape. Qed.
Print Assumptions C11_hex_guard_e_excludes_shape.

(* every suffix of the source's table satisfies sfx_ok (ASCII letters/digits, first letter no hex digit, none of eExXpPbB) *)
Theorem C11_integer_suffixes_ok : forallb sfx_ok integer_suffixes = true.
Proof. exact integer_suffixes_ok. Qed.
Print Assumptions C11_integer_suffixes_ok.

Theorem C11_unbounded_implies_bounded_form : forall ty w rest, lex_one_ok_u nouni nouni ty w rest -> lex_one_ok ty w rest = true.
Proof. exact lex_one_ok_of_u. Qed.
Print Assumptions C11_unbounded_implies_bounded_form.

(* ---- UNBOUNDED accept theorems beyond integers (Proofs/CConstUnbounded2.v): all uw ud, bodies of ANY length, every suffix of
   the source's float table, every continuation that starts with a delimiter (`delim`).  Same statement form as the integer
   theorems: lex_one_ok_u uw ud ty w rest (one token of type ty, value w, spanning exactly w, line 1 col 1, no diagnostic). *)
From NV Require Import Proofs.CConstUnbounded2.

(* digits . digits [exponent] suffix (integer or fraction part may be empty, not both) *)
Theorem C11_accept_float_fractional_unbounded : forall (uw ud : N -> bool) ip fp ex sfx rest,
  forallb ascii_digit ip = true -> forallb ascii_digit fp = true -> (ip <> [] \/ fp <> []) ->
  opt_exp [101; 69]%N ex -> str_in sfx float_suffixes = true -> delim rest = true ->
  lex_one_ok_u uw ud (s "CONSTANT") ((ip ++ 46%N :: fp) ++ ex ++ sfx) rest.
Proof. exact accept_float_fractional. Qed.
Print Assumptions C11_accept_float_fractional_unbounded.

(* digits exponent suffix *)
Theorem C11_accept_float_exponent_unbounded : forall (uw ud : N -> bool) ip e sgn ed sfx rest,
  forallb ascii_digit ip = true -> ip <> [] ->
  in_set [101; 69]%N e = true -> sign_ok sgn = true -> forallb ascii_digit ed = true -> ed <> [] ->
  str_in sfx float_suffixes = true -> delim rest = true ->
  lex_one_ok_u uw ud (s "CONSTANT") (ip ++ (e :: sgn ++ ed) ++ sfx) rest.
Proof. exact accept_float_exponent. Qed.
Print Assumptions C11_accept_float_exponent_unbounded.

(* string literals of any length: prefix in {"", L, u, U, u8}; the body is a list of items (plain character other than the
   quote, backslash, newline, tab; simple escape; octal escape; \x + 1..2 hexadecimal digits), no di/trigraph formed (items_ok) *)
Theorem C11_accept_string_unbounded_partial : forall (uw ud : N -> bool) pre items rest,
  c_prefix pre -> items_ok 34%N items (34%N :: rest) = true ->
  lex_one_ok_u uw ud (s "STRING") (pre ++ 34%N :: sraws items ++ [34%N]) rest.
Proof. exact accept_string. Qed.
Print Assumptions C11_accept_string_unbounded_partial.

(* character constants: exactly one item *)
Theorem C11_accept_char_unbounded_partial : forall (uw ud : N -> bool) pre it rest,
  c_prefix pre -> item_ok 39%N it (39%N :: rest) = true ->
  lex_one_ok_u uw ud (s "CHAR_CONST") (pre ++ 39%N :: sraw it ++ [39%N]) rest.
Proof. exact accept_char. Qed.
Print Assumptions C11_accept_char_unbounded_partial.

(* hexadecimal floats, ALL of them (since the repair of the two hexadecimal-float findings): 0[xX], then H+ [ . H* ] or . H+
   (hexfloat_digits), a binary exponent with decimal digits, any suffix of the table *)
Theorem C11_accept_hexfloat_unbounded : forall (uw ud : N -> bool) xc hi frac p sgn ed sfx rest,
  is_xX xc = true -> hexfloat_digits hi frac ->
  is_pP p = true -> sign_ok sgn = true -> forallb ascii_digit ed = true -> ed <> [] ->
  str_in sfx float_suffixes = true -> delim rest = true ->
  lex_one_ok_u uw ud (s "CONSTANT") ((48%N :: xc :: hi ++ frac) ++ (p :: sgn ++ ed) ++ sfx) rest.
Proof. exact accept_hexfloat. Qed.
Print Assumptions C11_accept_hexfloat_unbounded.

(* every float suffix of the source's table: ASCII letters/digits, first letter not e/E *)
Theorem C11_float_suffixes_ok : forallb fsfx_ok float_suffixes = true.
Proof. exact float_suffixes_ok. Qed.
Print Assumptions C11_float_suffixes_ok.
