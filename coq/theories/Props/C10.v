(* C10 - Tokenization is lossless.
   Proved for every input string: the recorded raw spans of tokens, skipped line splices and
   bad-lexeme characters are consecutive, non-empty and cover the input exactly (nothing is
   dropped, duplicated or reordered); every skipped span is exactly one line splice; every
   character that starts no token has its BAD_LEXEME diagnostic at its true position.
   The text of every token (its value, or the spelling of its type) is its raw span up to the documented
   normalisations, as the independent specification Spec/Normalise.norm_ok decides it - proved for every input and
   every token kind (Proofs/LexText.v): C10_statement_text, the full executable statement, is a theorem. *)
From NV Require Import Model.Base Model.Diag Model.Lexer Spec.TruePos Spec.Normalise Spec.LexProps Proofs.LexMain Proofs.LexTies.

Theorem C10_spans_tile : forall (uw ud : N -> bool) (src : str) items xf,
  lex uw ud src = Ok (items, xf) -> spans_tile items 0 (List.length src) = true.
Proof. intros uw ud src items xf H. exact (proj1 (lex_positions_and_tiling uw ud src items xf H)). Qed.
Print Assumptions C10_spans_tile.

Theorem C10_consumes_everything : forall (uw ud : N -> bool) (src : str) items xf,
  lex uw ud src = Ok (items, xf) -> rest xf = [] /\ off xf = List.length src.
Proof.
  intros uw ud src items xf H. destruct (lex_positions_and_tiling uw ud src items xf H) as [_ [_ [H1 [H2 _]]]]. now split.
Qed.
Print Assumptions C10_consumes_everything.

Theorem C10_bad_lexeme_reported : forall (uw ud : N -> bool) (src : str) items xf lo,
  lex uw ud src = Ok (items, xf) -> In (IBad lo) items -> bad_reported src (errs xf) lo = true.
Proof.
  intros uw ud src items xf lo H Hin.
  destruct (lex_positions_and_tiling uw ud src items xf H) as [_ [_ [_ [_ Hr]]]].
  rewrite forallb_forall in Hr. exact (Hr _ Hin).
Qed.
Print Assumptions C10_bad_lexeme_reported.

Theorem C10_skips_are_splices : forall (uw ud : N -> bool) (src : str) items xf lo hi,
  lex uw ud src = Ok (items, xf) -> In (ISkip lo hi) items -> is_splice (sub src lo hi) = true.
Proof.
  intros uw ud src items xf lo hi H Hin.
  destruct (lex_positions_and_tiling uw ud src items xf H) as [_ [_ [_ [_ Hr]]]].
  rewrite forallb_forall in Hr. exact (Hr _ Hin).
Qed.
Print Assumptions C10_skips_are_splices.

(* the full statement (proved below: C10_statement_text_holds) *)
Definition C10_statement_text : Prop := forall (uw ud : N -> bool) (src : str) items xf,
  lex uw ud src = Ok (items, xf) -> c10_ok src items (errs xf) = true.

Example C10_example :
  let src := s "a" ++ [92; 10]%N ++ s "b@<:??/" ++ [10]%N ++ s "/*" ++ [9]%N ++ s "*/" in
  match lex (fun _ => false) (fun _ => false) src with
  | Ok (items, xf) => c10_ok src items (errs xf) = true /\ List.length items = 7%nat
  | _ => False
  end.
Proof. vm_compute. split; reflexivity. Qed.

(* ---- the token-TEXT clause, proved for every input (Proofs/LexText.v): the text of every token (its value, or the
   spelling of its type) is its raw span up to the documented normalisations, as Spec/Normalise.norm_ok decides it
   (line splices removed - or, after an escaped backslash inside a literal, kept verbatim -, di/trigraphs replaced,
   tabs of block comments expanded at the true column).  All token kinds are covered; with C10_spans_tile,
   C10_skips_are_splices and C10_bad_lexeme_reported this closes the full executable statement c10_ok. *)
From NV Require Import Proofs.LexText.

Theorem C10_token_text : forall (uw ud : N -> bool) (src : str) items xf,
  lex uw ud src = Ok (items, xf) -> forall t lo hi, In (ITok t lo hi) items -> c10_tok_ok src t lo hi = true.
Proof. exact c10_text. Qed.
Print Assumptions C10_token_text.

Theorem C10_full : forall (uw ud : N -> bool) (src : str) items xf,
  lex uw ud src = Ok (items, xf) -> c10_ok src items (errs xf) = true.
Proof. exact c10_full. Qed.
Print Assumptions C10_full.

Theorem C10_statement_text_holds : C10_statement_text.
Proof. exact c10_full. Qed.
Print Assumptions C10_statement_text_holds.

(* the tool's di/trigraph tables are the standard's (the specification has its own copy) *)
Theorem C10_trigraphs_are_standard :
  forallb (fun kv => match fst kv with
                     | [a; b; c] => match std_trigraph a b c with Some t => str_eqb (snd kv) [t] | None => false end
                     | _ => false end) trigraphs = true.
Proof. exact trigraphs_std. Qed.
Print Assumptions C10_trigraphs_are_standard.
Theorem C10_digraphs_are_standard :
  forallb (fun kv => match fst kv with
                     | [a; b] => match std_digraph a b with Some t => str_eqb (snd kv) [t] | None => false end
                     | _ => false end) digraphs = true.
Proof. exact digraphs_std. Qed.
Print Assumptions C10_digraphs_are_standard.

(* non-vacuity on tricky inputs: escaped trigraph in a string, `\\` + newline in a string, a splice inside an identifier,
   a tab in a block comment after a splice; and the specification rejects wrong texts *)
Example C10_tricky_inputs :
  c10_eval ([34; 97; 92; 63; 63; 47; 98; 34]%N ++ s ";") = true /\ c10_eval ([34; 97; 92; 92; 10; 98; 34]%N) = true /\
  c10_eval (s "ab" ++ [92; 10]%N ++ s "cd = 1;") = true /\ c10_eval (s "/*" ++ [92; 10; 9]%N ++ s "*/") = true /\
  norm_ok false 1 (s "a<:b") (s "a<:b") = false /\ norm_ok true 3 [9%N] [9%N] = false.
Proof. vm_compute. repeat split; reflexivity. Qed.
