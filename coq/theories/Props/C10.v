(* C10 - Tokenization is lossless.
   Proved for every input string: the recorded raw spans of tokens, skipped line splices and
   bad-lexeme characters are consecutive, non-empty and cover the input exactly (nothing is
   dropped, duplicated or reordered); every skipped span is exactly one line splice; every
   character that starts no token has its BAD_LEXEME diagnostic at its true position.
   The remaining clause - the text of each token is its raw span up to the documented
   normalisations (Spec/Normalise.norm_ok) - is stated below as C10_statement_text, evaluated by
   the check on the model and on the implementation for every explored string, and NOT proved
   (C10 is therefore `partial`: tiling/reporting proved, token text tested). *)
From NV Require Import Model.Base Model.Diag Model.Lexer Spec.TruePos Spec.Normalise Spec.LexProps Proofs.LexMain Proofs.LexTies.

Theorem C10_spans_tile : forall (uw ud : N -> bool) (src : str) items xf,
  lex uw ud src = Ok (items, xf) -> spans_tile items 0 (List.length src) = true.
Proof. intros uw ud src items xf H. exact (proj1 (lex_positions_and_tiling uw ud src items xf H)). Qed.
Print Assumptions C10_spans_tile.

Theorem C10_consumes_everything : forall (uw ud : N -> bool) (src : str) items xf,
  lex uw ud src = Ok (items, xf) -> rest xf = [] /\ off xf = List.length src.
Proof.
  intros uw ud src items xf H. destruct (lex_positions_and_tiling uw ud src items xf H) as [_ [_ [H1 [H2 _]]]]. now split.
Qed.
Print Assumptions C10_consumes_everything.

Theorem C10_bad_lexeme_reported : forall (uw ud : N -> bool) (src : str) items xf lo,
  lex uw ud src = Ok (items, xf) -> In (IBad lo) items -> bad_reported src (errs xf) lo = true.
Proof.
  intros uw ud src items xf lo H Hin.
  destruct (lex_positions_and_tiling uw ud src items xf H) as [_ [_ [_ [_ Hr]]]].
  rewrite forallb_forall in Hr. exact (Hr _ Hin).
Qed.
Print Assumptions C10_bad_lexeme_reported.

Theorem C10_skips_are_splices : forall (uw ud : N -> bool) (src : str) items xf lo hi,
  lex uw ud src = Ok (items, xf) -> In (ISkip lo hi) items -> is_splice (sub src lo hi) = true.
Proof.
  intros uw ud src items xf lo hi H Hin.
  destruct (lex_positions_and_tiling uw ud src items xf H) as [_ [_ [_ [_ Hr]]]].
  rewrite forallb_forall in Hr. exact (Hr _ Hin).
Qed.
Print Assumptions C10_skips_are_splices.

(* the full statement, kept visible; its last conjunct (token text) is tested, not proved *)
Definition C10_statement_text : Prop := forall (uw ud : N -> bool) (src : str) items xf,
  lex uw ud src = Ok (items, xf) -> c10_ok src items (errs xf) = true.

Example C10_example :
  let src := s "a" ++ [92; 10]%N ++ s "b@<:??/" ++ [10]%N ++ s "/*" ++ [9]%N ++ s "*/" in
  match lex (fun _ => false) (fun _ => false) src with
  | Ok (items, xf) => c10_ok src items (errs xf) = true /\ List.length items = 7%nat
  | _ => False
  end.
Proof. vm_compute. split; reflexivity. Qed.
