(* C08 - Reports are well-formed, ordered and identical in both output formats.
   hl_lt / err_lt / status are generated from /repo's errors.py on every run. *)
From NV Require Import Model.Base Model.Diag Model.Errors Model.CatalogueExpected Proofs.ErrOrderProofs Proofs.LexTies
  Gen.Emitters Proofs.EmittersProofs.
From Coq Require Import Sorting.Sorted Sorting.Permutation.

(* Error.__lt__ is a strict weak order on diagnostics that carry at least one highlight:
   the precondition under which list.sort() returns the sorted permutation *)
Theorem C08_err_lt_swo :
  (forall a, has_hl a -> err_lt a a = false) /\
  (forall a b c, has_hl a -> has_hl b -> has_hl c -> err_lt a b = true -> err_lt b c = true -> err_lt a c = true) /\
  (forall a b c, has_hl a -> has_hl b -> has_hl c -> err_lt a b = false -> err_lt b c = false -> err_lt a c = false).
Proof. exact err_lt_swo. Qed.
Print Assumptions C08_err_lt_swo.

Theorem C08_sort_is_permutation : forall ds, Permutation ds (sort_diags ds).
Proof. exact sort_diags_perm. Qed.
Print Assumptions C08_sort_is_permutation.

(* the listed order is ascending in the (line, column) of the key highlight *)
Theorem C08_sorted_by_key : forall ds, Forall has_hl ds ->
  StronglySorted (fun x y => pos_le (kpos x) (kpos y)) (sort_diags ds).
Proof. exact sort_diags_sorted_key. Qed.
Print Assumptions C08_sorted_by_key.

(* ... and in the (line, column) that is PRINTED, for diagnostics whose first highlight is
   position-minimal (every emission site of the lexer model and every engine diagnostic) *)
Theorem C08_displayed_sorted : forall ds, Forall first_min ds ->
  StronglySorted (fun x y => pos_le (shown x) (shown y)) (sort_diags ds).
Proof. exact displayed_sorted. Qed.
Print Assumptions C08_displayed_sorted.

(* both formats are renderings of the same sorted list and the same status *)
Theorem C08_formats_agree : forall f, json_view f = human_view f.
Proof. intros f. reflexivity. Qed.
Print Assumptions C08_formats_agree.

(* the catalogue regenerated from the source still contains every published entry, text unchanged *)
Theorem C08_catalogue_unchanged :
  forallb (fun kv => match assoc (fst kv) catalogue with Some t => str_eqb t (snd kv) | None => false end)
          expected_catalogue = true.
Proof. exact catalogue_tie. Qed.
Print Assumptions C08_catalogue_unchanged.

(* non-vacuity: two diagnostics on one line, one of them with two highlights *)
Example C08_example :
  let a := mkdiag (s "UNEXPECTED_EOL_CHR") (s "t") (s "Error") [mkhl 1 12 (Some 3) None; mkhl 1 15 (Some 1) (Some (s "hint"))] in
  let b := mkdiag (s "UNKNOWN_ESCAPE") (s "t") (s "Notice") [mkhl 1 14 (Some 1) None] in
  first_min a /\ first_min b /\ map d_name (sort_diags [b; a]) = [s "UNEXPECTED_EOL_CHR"; s "UNKNOWN_ESCAPE"].
Proof.
  cbv zeta. split; [|split].
  - intros x [<-|[]]. right. cbn. split; [reflexivity|discriminate].
  - intros x [].
  - reflexivity.
Qed.

(* "every diagnostic carries a code of the published catalogue": over the table of ALL static emission sites of the
   package (Gen/Emitters.v, regenerated from the source on every run: calls of new_error / new_warning / Error.from_name /
   Error(...)), every literal code is a key of the catalogue, except the listed ones (three literals at sites
   that would raise KeyError in Error.from_name if reached; BAD_LEXEME, once built with a free-form text, is a catalogue key now); no site has
   an opaque (computed) code outside the two known patterns.  Diagnostics created through Error.from_name / new_error take
   their text FROM the catalogue (errors.py), so code-in-catalogue implies catalogue text. *)
Theorem C08_static_codes_in_catalogue_partial :
  forallb (fun x => is_dynamic (site_code x) || existsb (String.eqb (site_code x)) codes_missing_from_catalogue
                    || in_catalogue (site_code x)) emitters = true.
Proof. exact every_static_code_in_catalogue_partial. Qed.
Print Assumptions C08_static_codes_in_catalogue_partial.

Theorem C08_no_opaque_emitter : opaque_free = true.
Proof. exact emitters_opaque_free. Qed.
Print Assumptions C08_no_opaque_emitter.

(* the former finding C08-bad-lexeme-not-in-catalogue, repaired in the source *)
Theorem C08_bad_lexeme_in_catalogue : in_catalogue "BAD_LEXEME" = true.
Proof. exact BAD_LEXEME_in_catalogue. Qed.
Print Assumptions C08_bad_lexeme_in_catalogue.

(* "a position inside the file (1 <= line <= number of lines, column >= 1)": for EVERY source text and EVERY token of the
   lexer model.  Engine diagnostics are located at tokens (Highlight.from_token copies the token's position; or, for
   CheckCommentLineLen, at (a line of the comment, 1)), so their positions are token positions. *)
From NV Require Import Model.Lexer Spec.TruePos Spec.Width Proofs.PosBounds.
Theorem C08_token_position_in_file : forall uw ud src items xf t lo hi,
  lex uw ud src = Ok (items, xf) -> In (ITok t lo hi) items ->
  1 <= t_line t <= 1 + count_nl src /\ 1 <= t_col t.
Proof. exact token_position_in_file. Qed.
Print Assumptions C08_token_position_in_file.
