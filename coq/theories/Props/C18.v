(* C18 - Diagnostics do not depend on how identifiers are spelled.
   Model: Model/Obs.v (observation vocabulary, rename_ok), Model/Lexer.v; tie: Gen/ValueReads.v (every syntactic read of
   a token's spelling in the rules, regenerated from /repo on every run by tools/translate_values.py).
   Proved: (B) every covered observation is invariant under every admissible renaming; the generated table of reads
   is covered; (A) the lexer model turns an identifier lexeme into one token spanning exactly it.
   NOT proved (named _partial): the whole-file simulation tokens(lex(rename s)) = map rename_tok (tokens(lex s)) -
   missing are the look-ahead-locality lemmas of the other nine sub-parsers; the check tests that statement on the
   real lexer for every sampled pair. *)
From NV Require Import Model.Base Model.Diag Model.Lexer Model.Obs Gen.ValueReads Proofs.ObsProofs Proofs.LexRename.

(* (B) for every guard symbol, every renaming sigma accepted by rename_ok (same length, same naming class, injective on
   the names of the file, never to or from a keyword / special name / the guard), every covered form f and all names
   v, w of the file: the observation of the renamed name equals the observation of the name *)
Theorem C18_obs_invariant_rename : forall guard sigma f v w,
  rename_ok guard sigma = true -> In v (List.map fst sigma) -> In w (List.map fst sigma) -> rename_inv f = true ->
  eval_obs guard (rename sigma w) f (rename sigma v) = eval_obs guard w f v.
Proof. exact obs_invariant_rename. Qed.
Print Assumptions C18_obs_invariant_rename.

Theorem C18_rename_injective : forall guard sigma v w, rename_ok guard sigma = true ->
  In v (List.map fst sigma) -> In w (List.map fst sigma) -> rename sigma v = rename sigma w -> v = w.
Proof. exact rename_injective. Qed.
Print Assumptions C18_rename_injective.

(* the tie: every read of a spelling found in the source today is covered (for identifiers: rename_inv, or the site
   provably never sees an IDENTIFIER) *)
Theorem C18_value_reads_covered : forallb covered value_reads = true.
Proof. exact value_reads_covered. Qed.
Print Assumptions C18_value_reads_covered.

(* ... and compares spellings only with names of the reviewed list that rename_ok keeps fixed *)
Theorem C18_special_literals_reviewed : forallb lit_special special_literals = true.
Proof. exact special_literals_reviewed. Qed.
Print Assumptions C18_special_literals_reviewed.

(* ... and the lexer's keyword table holds only the reviewed keywords (a user name that becomes a keyword breaks this) *)
Theorem C18_keywords_reviewed : forallb (fun kv => str_in (fst kv) reviewed_keywords) keywords = true.
Proof. exact keywords_reviewed. Qed.
Print Assumptions C18_keywords_reviewed.

(* (A) an identifier lexeme (maximal run of [A-Za-z0-9_] not starting with a digit) is one token, value = the lexeme
   (type = the keyword type when it is a keyword), at the state's position, column + length *)
Theorem C18_lex_ident : forall x c v r,
  is_ident_start c = true -> forallb is_ident_char v = true -> rest x = (c :: v) ++ r -> boundary r = true ->
  parse_identifier x = PTok (ident_token x (c :: v)) (shift (List.length (c :: v)) x).
Proof. exact lex_ident. Qed.
Print Assumptions C18_lex_ident.

(* two inputs that differ by one same-length non-keyword identifier lexeme: same token type and position, same
   state afterwards.  PARTIAL with respect to the whole-file statement (see the header). *)
Theorem C18_lex_ident_rename_partial : forall x x' c v c' v' r,
  is_ident_start c = true -> forallb is_ident_char v = true -> is_ident_start c' = true -> forallb is_ident_char v' = true ->
  List.length v' = List.length v -> boundary r = true ->
  assoc (c :: v) keywords = None -> assoc (c' :: v') keywords = None ->
  rest x = (c :: v) ++ r -> rest x' = (c' :: v') ++ r ->
  off x' = off x -> line x' = line x -> col x' = col x -> errs x' = errs x ->
  exists t t' y y',
    parse_identifier x = PTok t y /\ parse_identifier x' = PTok t' y' /\
    t_type t = s "IDENTIFIER" /\ t_type t' = t_type t /\ t_line t' = t_line t /\ t_col t' = t_col t /\
    t_val t = Some (c :: v) /\ t_val t' = Some (c' :: v') /\
    y' = y /\ rest y = r /\ off y = (off x + S (List.length v))%nat /\ line y = line x /\ col y = col x + Z.of_nat (S (List.length v)).
Proof. exact lex_ident_rename. Qed.
Print Assumptions C18_lex_ident_rename_partial.

(* ---- composition at FILE level (Proofs/LexCompose.v), unbounded in the file: renaming one identifier lexeme to an admissible
   one of the same length - IF both runs of the tokenizer stand at the lexeme with the same items so far (the prefix
   assumption: tested on the real lexer for every sampled pair, not proved) THEN the complete results agree: the IDENTIFIER
   token keeps type, line, column and raw span, EVERY later item, the final state and its diagnostics are identical, and
   every covered observation of the token value is unchanged.  With C18_value_reads_covered the only other assumption is the
   reviewed reader table.  (A consistent renaming of a whole file is a sequence of such single-site steps.) *)
From NV Require Import Proofs.LexCompose.

Theorem C18_rename_file_obs_partial : forall (uw ud : N -> bool) src src' k x accp c v c' v' r items xf guard f,
  List.length src' = List.length src ->
  run uw ud k (init src) [] (with_rest x ((c :: v) ++ r)) accp ->
  run uw ud k (init src') [] (with_rest x ((c' :: v') ++ r)) accp ->
  ident_site c v r -> ident_site c' v' r -> List.length v' = List.length v ->
  assoc (c :: v) keywords = None -> assoc (c' :: v') keywords = None ->
  pair_ok guard (c :: v, c' :: v') = true -> rename_inv f = true -> no_other f = true ->
  lex uw ud src = Ok (items, xf) ->
  exists later t t',
    items = rev accp ++ ITok t (off x) (off x + S (List.length v)) :: later /\
    lex uw ud src' = Ok (rev accp ++ ITok t' (off x) (off x + S (List.length v)) :: later, xf) /\
    t_type t' = t_type t /\ t_line t' = t_line t /\ t_col t' = t_col t /\
    t_val t = Some (c :: v) /\ t_val t' = Some (c' :: v') /\
    forall o1 o2, eval_obs guard o1 f (c' :: v') = eval_obs guard o2 f (c :: v).
Proof. exact rename_file_obs_partial. Qed.
Print Assumptions C18_rename_file_obs_partial.

(* one turn of the main loop on an identifier lexeme that is maximal and no encoding prefix of a literal (ident_site) *)
Theorem C18_step_identifier : forall (uw ud : N -> bool) x c v r, ident_site c v r -> rest x = (c :: v) ++ r ->
  step uw ud x = StepItem (ITok (ident_token x (c :: v)) (off x) (off x + S (List.length v))) (shift (S (List.length v)) x).
Proof. exact step_identifier. Qed.
Print Assumptions C18_step_identifier.

(* ---- file level WITHOUT the prefix assumption (Proofs/LexPrefix.v).  The file is <prefix lexemes> <identifier> <anything>;
   the prefix is a list of lexemes of the kinds blank / tab / newline, identifier or keyword, one-character operator, bracket,
   decimal constant.  Named boundary conditions (decidable): lexs_ok - each prefix lexeme is followed by a character its
   sub-parser does not join with; ident_site - the identifier lexeme is maximal and not followed by a quote.  Lookahead
   locality is PROVED for these lexeme kinds (run_prefix); prefixes holding other lexemes (comments, literals, multi-character
   operators, floats) are still covered only by the _partial theorem above plus the test on the real lexer. *)
From NV Require Import Proofs.LexPrefix.

Theorem C18_rename_file_obs : forall (uw ud : N -> bool) ls c v c' v' r items xf guard f,
  lexs_ok ls ((c :: v) ++ r) = true -> lexs_ok ls ((c' :: v') ++ r) = true ->
  ident_site c v r -> ident_site c' v' r -> List.length v' = List.length v ->
  assoc (c :: v) keywords = None -> assoc (c' :: v') keywords = None ->
  pair_ok guard (c :: v, c' :: v') = true -> rename_inv f = true -> no_other f = true ->
  lex uw ud (raws ls ++ (c :: v) ++ r) = Ok (items, xf) ->
  let x := lex_nexts pos0 ls in
  exists later t t',
    items = lex_items pos0 ls ++ ITok t (off x) (off x + S (List.length v)) :: later /\
    lex uw ud (raws ls ++ (c' :: v') ++ r) = Ok (lex_items pos0 ls ++ ITok t' (off x) (off x + S (List.length v)) :: later, xf) /\
    t_type t' = t_type t /\ t_line t' = t_line t /\ t_col t' = t_col t /\
    t_val t = Some (c :: v) /\ t_val t' = Some (c' :: v') /\
    forall o1 o2, eval_obs guard o1 f (c' :: v') = eval_obs guard o2 f (c :: v).
Proof. exact rename_file_obs. Qed.
Print Assumptions C18_rename_file_obs.

(* lookahead locality on such a prefix: items and final position depend on the lexemes only, whatever text X follows *)
Theorem C18_run_prefix : forall (uw ud : N -> bool) ls p acc X, lexs_ok ls X = true ->
  run uw ud (List.length ls) (with_rest p (raws ls ++ X)) acc (with_rest (lex_nexts p ls) X) (rev (lex_items p ls) ++ acc).
Proof. exact run_prefix. Qed.
Print Assumptions C18_run_prefix.

(* ---- file level for prefixes that also hold comments and plain strings (Proofs/LexPrefix2.v): the prefix lexemes are the
   simple ones above (PS l), block comments over one or several lines with a body satisfying bodym_ok (PBlock), // comments
   with plain content followed by a newline (PLine) and string literals with plain content (PStr); lexs_ok2 is the decidable
   boundary condition.  In particular the file may start with the 42 header (C18_header_program_meets_conditions: the
   repository's sample header, an empty line and a function in front of the renamed identifier).  Prefixes holding character
   constants, prefixed or escaped strings, multi-character operators, floats or preprocessor lines stay under the _partial
   theorem plus the test on the real lexer. *)
From NV Require Import Proofs.LexPrefix2.

Theorem C18_rename_file_obs2 : forall (uw ud : N -> bool) ls c v c' v' r items xf guard f,
  lexs_ok2 ls ((c :: v) ++ r) = true -> lexs_ok2 ls ((c' :: v') ++ r) = true ->
  ident_site c v r -> ident_site c' v' r -> List.length v' = List.length v ->
  assoc (c :: v) keywords = None -> assoc (c' :: v') keywords = None ->
  pair_ok guard (c :: v, c' :: v') = true -> rename_inv f = true -> no_other f = true ->
  lex uw ud (raws2 ls ++ (c :: v) ++ r) = Ok (items, xf) ->
  let x := lex_nexts2 pos0 ls in
  exists later t t',
    items = lex_items2 pos0 ls ++ ITok t (off x) (off x + S (List.length v)) :: later /\
    lex uw ud (raws2 ls ++ (c' :: v') ++ r) = Ok (lex_items2 pos0 ls ++ ITok t' (off x) (off x + S (List.length v)) :: later, xf) /\
    t_type t' = t_type t /\ t_line t' = t_line t /\ t_col t' = t_col t /\
    t_val t = Some (c :: v) /\ t_val t' = Some (c' :: v') /\
    forall o1 o2, eval_obs guard o1 f (c' :: v') = eval_obs guard o2 f (c :: v).
Proof. exact rename_file_obs2. Qed.
Print Assumptions C18_rename_file_obs2.

(* lookahead locality on such a prefix *)
Theorem C18_run_prefix2 : forall (uw ud : N -> bool) ls p acc X, lexs_ok2 ls X = true ->
  run uw ud (List.length ls) (with_rest p (raws2 ls ++ X)) acc (with_rest (lex_nexts2 p ls) X) (rev (lex_items2 p ls) ++ acc).
Proof. exact run_prefix2. Qed.
Print Assumptions C18_run_prefix2.

(* non-vacuity on a real file: sample 42 header (tools/harness/data/hdr.txt), empty line, int main(void) with a local `count`,
   a // comment and a return statement; both occurrences of `count` are rename sites, the conditions hold by computation and
   the items claimed for the prefix are the ones the tokenizer model produces *)
Theorem C18_header_program_meets_conditions :
  let nouni := fun _ : N => false in
  raws2 hdemo_prefix1 ++ s "count" ++ demo_rest1 = hdemo_file /\
  raws2 hdemo_prefix2 ++ s "// done" ++ [10; 9]%N ++ s "return (count);" ++ [10]%N ++ s "}" ++ [10]%N = hdemo_file /\
  raws2 hdemo_prefix3 ++ s "count" ++ hdemo_rest3 = hdemo_file /\
  lexs_ok2 hdemo_prefix1 (s "count" ++ demo_rest1) = true /\ lexs_ok2 hdemo_prefix1 (s "iff_2" ++ demo_rest1) = true /\
  ident_site 99%N (s "ount") demo_rest1 /\ ident_site 105%N (s "ff_2") demo_rest1 /\
  lexs_ok2 hdemo_prefix3 (s "count" ++ hdemo_rest3) = true /\ lexs_ok2 hdemo_prefix3 (s "iff_2" ++ hdemo_rest3) = true /\
  ident_site 99%N (s "ount") hdemo_rest3 /\ ident_site 105%N (s "ff_2") hdemo_rest3 /\
  lexs_ok2 hdemo_prefix2 (s "// done" ++ [10; 9]%N ++ s "return (count);" ++ [10]%N ++ s "}" ++ [10]%N) = true /\
  plain_content KLine (s " done") = true /\ plain_content KLine (s " };<(") = true /\
  match lex nouni nouni hdemo_file with
  | Ok (items, _) => firstn (List.length hdemo_prefix3) items = lex_items2 pos0 hdemo_prefix3 /\
                     List.length header_prefix = 22%nat /\ line (lex_nexts2 pos0 hdemo_prefix3) = 18 /\ col (lex_nexts2 pos0 hdemo_prefix3) = 13
  | _ => False
  end.
Proof. exact header_program_meets_conditions. Qed.
Print Assumptions C18_header_program_meets_conditions.

(* ... and with a string literal in the prefix: header, a global with a string initialiser, int main *)
Theorem C18_string_program_meets_conditions :
  let nouni := fun _ : N => false in
  raws2 sdemo_prefix ++ s "main" ++ sdemo_rest = sdemo_file /\
  lexs_ok2 sdemo_prefix (s "main" ++ sdemo_rest) = true /\ lexs_ok2 sdemo_prefix (s "nul_" ++ sdemo_rest) = true /\
  ident_site 109%N (s "ain") sdemo_rest /\ ident_site 110%N (s "ul_") sdemo_rest /\
  match lex nouni nouni sdemo_file with
  | Ok (items, _) => firstn (List.length sdemo_prefix) items = lex_items2 pos0 sdemo_prefix /\
                     line (lex_nexts2 pos0 sdemo_prefix) = 15 /\ col (lex_nexts2 pos0 sdemo_prefix) = 5
  | _ => False
  end.
Proof. exact string_program_meets_conditions. Qed.
Print Assumptions C18_string_program_meets_conditions.
