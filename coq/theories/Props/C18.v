(* C18 - Diagnostics do not depend on how identifiers are spelled.
   Model: Model/Obs.v (observation vocabulary, rename_ok), Model/Lexer.v; tie: Gen/ValueReads.v (every syntactic read of
   a token's spelling in the rules, regenerated from /repo on every run by tools/translate_values.py).
   Proved: (B) every covered observation is invariant under every admissible renaming; the generated table of reads
   is covered; (A) the lexer model turns an identifier lexeme into one token spanning exactly it.
   NOT proved (named _partial): the whole-file simulation tokens(lex(rename s)) = map rename_tok (tokens(lex s)) -
   missing are the look-ahead-locality lemmas of the other nine sub-parsers; the check tests that statement on the
   real lexer for every sampled pair. *)
From NV Require Import Model.Base Model.Diag Model.Lexer Model.Obs Gen.ValueReads Proofs.ObsProofs Proofs.LexRename.

(* (B) for every guard symbol, every renaming sigma accepted by rename_ok (same length, same naming class, injective on
   the names of the file, never to or from a keyword / special name / the guard), every covered form f and all names
   v, w of the file: the observation of the renamed name equals the observation of the name *)
Theorem C18_obs_invariant_rename : forall guard sigma f v w,
  rename_ok guard sigma = true -> In v (List.map fst sigma) -> In w (List.map fst sigma) -> rename_inv f = true ->
  eval_obs guard (rename sigma w) f (rename sigma v) = eval_obs guard w f v.
Proof. exact obs_invariant_rename. Qed.
Print Assumptions C18_obs_invariant_rename.

Theorem C18_rename_injective : forall guard sigma v w, rename_ok guard sigma = true ->
  In v (List.map fst sigma) -> In w (List.map fst sigma) -> rename sigma v = rename sigma w -> v = w.
Proof. exact rename_injective. Qed.
Print Assumptions C18_rename_injective.

(* the tie: every read of a spelling found in the source today is covered (for identifiers: rename_inv, or the site
   provably never sees an IDENTIFIER) *)
Theorem C18_value_reads_covered : forallb covered value_reads = true.
Proof. exact value_reads_covered. Qed.
Print Assumptions C18_value_reads_covered.

(* ... and compares spellings only with names of the reviewed list that rename_ok keeps fixed *)
Theorem C18_special_literals_reviewed : forallb lit_special special_literals = true.
Proof. exact special_literals_reviewed. Qed.
Print Assumptions C18_special_literals_reviewed.

(* ... and the lexer's keyword table holds only the reviewed keywords (a user name that becomes a keyword breaks this) *)
Theorem C18_keywords_reviewed : forallb (fun kv => str_in (fst kv) reviewed_keywords) keywords = true.
Proof. exact keywords_reviewed. Qed.
Print Assumptions C18_keywords_reviewed.

(* (A) an identifier lexeme (maximal run of [A-Za-z0-9_] not starting with a digit) is one token, value = the lexeme
   (type = the keyword type when it is a keyword), at the state's position, column + length *)
Theorem C18_lex_ident : forall x c v r,
  is_ident_start c = true -> forallb is_ident_char v = true -> rest x = (c :: v) ++ r -> boundary r = true ->
  parse_identifier x = PTok (ident_token x (c :: v)) (shift (List.length (c :: v)) x).
Proof. exact lex_ident. Qed.
Print Assumptions C18_lex_ident.

(* two inputs that differ by one same-length non-keyword identifier lexeme: same token type and position, same
   state afterwards.  PARTIAL with respect to the whole-file statement (see the header). *)
Theorem C18_lex_ident_rename_partial : forall x x' c v c' v' r,
  is_ident_start c = true -> forallb is_ident_char v = true -> is_ident_start c' = true -> forallb is_ident_char v' = true ->
  List.length v' = List.length v -> boundary r = true ->
  assoc (c :: v) keywords = None -> assoc (c' :: v') keywords = None ->
  rest x = (c :: v) ++ r -> rest x' = (c' :: v') ++ r ->
  off x' = off x -> line x' = line x -> col x' = col x -> errs x' = errs x ->
  exists t t' y y',
    parse_identifier x = PTok t y /\ parse_identifier x' = PTok t' y' /\
    t_type t = s "IDENTIFIER" /\ t_type t' = t_type t /\ t_line t' = t_line t /\ t_col t' = t_col t /\
    t_val t = Some (c :: v) /\ t_val t' = Some (c' :: v') /\
    y' = y /\ rest y = r /\ off y = (off x + S (List.length v))%nat /\ line y = line x /\ col y = col x + Z.of_nat (S (List.length v)).
Proof. exact lex_ident_rename. Qed.
Print Assumptions C18_lex_ident_rename_partial.
