(* C16 - Options change the presentation, never the findings.
   Generic in the rule set (an oracle over an abstract context state); the hypotheses about the oracle are what the
   tables of Gen/Options.v (regenerated from /repo on every run) say about the source: who reads the debug level,
   skip_define and the presentation options, and for what.  argparse and the decoding of files are modelled. *)
From NV Require Import Model.Base Model.Diag Model.Errors Model.Cli Model.Engine Model.Options Gen.Options Proofs.OptionsProofs.
From NV Require Import Model.OptFlow Gen.OptFlow Proofs.OptFlowProofs.
From Coq Require Import Sorting.Permutation.

(* ---- ties: the reviewed reader tables are what the source says now *)
Theorem C16_debug_reads_reviewed : debug_reads = reviewed_debug_reads.
Proof. exact debug_reads_reviewed. Qed.
Print Assumptions C16_debug_reads_reviewed.

Theorem C16_debug_reads_presentation_only : forallb (fun e => presentation_use (snd e)) debug_reads = true.
Proof. exact debug_reads_presentation_only. Qed.
Print Assumptions C16_debug_reads_presentation_only.

Theorem C16_skip_reads_reviewed : skip_reads = reviewed_skip_reads.
Proof. exact skip_reads_reviewed. Qed.
Print Assumptions C16_skip_reads_reviewed.

Theorem C16_define_guard_structure :
  define_codes_before_guard = [s "MACRO_NAME_CAPITAL"; s "MACRO_FUNC_FORBIDDEN"] /\
  define_codes_after_guard = [s "PREPROC_CONSTANT"; s "PREPROC_CONSTANT"] /\
  define_after_guard_calls = reviewed_define_after_guard_calls /\
  define_after_guard_targets = ["i"%string] /\
  silenced_code_mentions = reviewed_silenced_code_mentions /\
  dynamic_emitters = reviewed_dynamic_emitters.
Proof. exact define_guard_structure. Qed.
Print Assumptions C16_define_guard_structure.

Theorem C16_presentation_reads_reviewed :
  main_args_reads = reviewed_main_args_reads /\
  formatter_option_reads = reviewed_formatter_option_reads /\
  presentation_names_in_analysis = [] /\
  argparse_table = reviewed_argparse_table.
Proof. exact presentation_reads_reviewed. Qed.
Print Assumptions C16_presentation_reads_reviewed.

Theorem C16_only_filename_never_read :
  existsb (fun e => String.eqb (fst (fst e)) "only_filename") main_args_reads = false.
Proof. exact only_filename_never_read. Qed.
Print Assumptions C16_only_filename_never_read.

(* ---- the loop of Model/Options.v is Engine.run (whose correspondence C07 checks) with the state threaded through *)
Theorem C16_loop_is_engine_loop : forall (St : Type) (step : Z -> St -> sres St) d st ntokens,
  run_file (oracle_from step d st) d ntokens = outcome_map fst (run_st (S ntokens) step d st ntokens 0 []).
Proof. exact @run_st_is_engine_run. Qed.
Print Assumptions C16_loop_is_engine_loop.

(* ---- -d / -dd: two runs that both reach a verdict list the same diagnostics, for every rule set that reads the
   debug level only to decide whether to raise, every token count and every pair of levels *)
Theorem C16_debug_only_presentation : forall (Core : Type) (step : Z -> Core * list diag -> sres (Core * list diag)),
  debug_insensitive step ->
  forall ntokens d1 d2 st segs1 c1 ds1 segs2 c2 ds2,
    run_st (S ntokens) step d1 st ntokens 0 [] = Ok (segs1, (c1, ds1)) ->
    run_st (S ntokens) step d2 st ntokens 0 [] = Ok (segs2, (c2, ds2)) ->
    ds1 = ds2 /\ status ds1 = status ds2 /\ segs1 = segs2.
Proof. exact debug_only_presentation. Qed.
Print Assumptions C16_debug_only_presentation.

(* ... and a verdict without -d is the verdict at every level (all guards are `debug == 0`) *)
Theorem C16_debug_zero_verdict_everywhere : forall (St : Type) (step : Z -> St -> sres St), raises_only_at_zero step ->
  forall fuel d st n u acc r, run_st fuel step 0 st n u acc = Ok r -> run_st fuel step d st n u acc = Ok r.
Proof. exact @debug_zero_verdict_everywhere. Qed.
Print Assumptions C16_debug_zero_verdict_everywhere.

(* ---- colours, format, -o.  What a reader gets back from either format is the same list of (verdict, diagnostics);
   the humanized text is a function of those views and of use_colors only; removing the colour sequences from the
   coloured text gives the uncoloured text; the exit status follows from the verdicts.  PARTIAL in one respect: that
   the uncoloured text determines the views (the parser) is not proved - the harness parses every report back. *)
Theorem C16_format_colour_independent_partial : forall a1 a2 files,
  views a1 files = views a2 files /\
  (forall bvs, omap named_view files = Some bvs ->
     human_fmt (use_colors_of a1) files = Ok (render_views (use_colors_of a1) bvs) /\
     (forallb fview_plain bvs = true -> strip_esc (render_views true bvs) = render_views false bvs)) /\
  (forall vs, views a1 files = Some vs ->
     exit_code files = if existsb (fun v => str_eqb (v_status v) (s "Error")) vs then 1 else 0).
Proof. exact format_colour_independent. Qed.
Print Assumptions C16_format_colour_independent_partial.

(* ---- -R: only the exact word CheckDefine, as the word of the last -R, sets skip_define *)
Theorem C16_R_unknown_ignored : forall w, w <> check_define_word -> skip_define_of (Some [w]) = false.
Proof. exact R_unknown_ignored. Qed.
Print Assumptions C16_R_unknown_ignored.

Theorem C16_R_unknown_words_ignored : forall l, ~ In check_define_word l -> skip_define_of (Some l) = false.
Proof. exact R_unknown_words_ignored. Qed.
Print Assumptions C16_R_unknown_words_ignored.

Theorem C16_R_last_word_decides : forall fl w rest, forallb (fun f => negb (is_R f)) rest = true ->
  c_skip_define (ctx_of_options (fl ++ FlR w :: rest)) = str_eqb check_define_word w.
Proof. exact R_last_word_decides. Qed.
Print Assumptions C16_R_last_word_decides.

Theorem C16_R_absent : forall fl, forallb (fun f => negb (is_R f)) fl = true -> c_skip_define (ctx_of_options fl) = false.
Proof. exact R_absent. Qed.
Print Assumptions C16_R_absent.

(* ---- -R CheckDefine: a run that reaches a verdict without it reaches the same one with it, minus exactly the
   diagnostics with the code emitted after the guard: PREPROC_CONSTANT, the #define-value diagnostic *)
Theorem C16_R_checkdefine_removes_only : forall (Core : Type) (es : emit_step Core), skip_filters es ->
  forall ntokens d c segs c' ds',
    run_st (S ntokens) (lift_emit es false) d (c, []) ntokens 0 [] = Ok (segs, (c', ds')) ->
    run_st (S ntokens) (lift_emit es true) d (c, []) ntokens 0 [] = Ok (segs, (c', filter_silenced ds')).
Proof. exact R_checkdefine_removes_only. Qed.
Print Assumptions C16_R_checkdefine_removes_only.

Theorem C16_filter_silenced_spec : forall ds d, In d (filter_silenced ds) <-> In d ds /\ d_name d <> s "PREPROC_CONSTANT".
Proof. exact filter_silenced_spec. Qed.
Print Assumptions C16_filter_silenced_spec.

Theorem C16_silenced_is_define_value : forall c, str_in c silenced_codes = str_in c define_value_codes.
Proof. exact silenced_is_define_value. Qed.
Print Assumptions C16_silenced_is_define_value.

Theorem C16_define_check_skip : forall o,
  define_check true o = filter (fun c => negb (str_in c silenced_codes)) (define_check false o).
Proof. exact define_check_skip. Qed.
Print Assumptions C16_define_check_skip.

(* the property text, "removes only the #define-value diagnostics": on EVERY #define line (any name, with or without
   parameters) *)
Theorem C16_R_checkdefine_value_only : forall o,
  define_check true o = filter (fun c => negb (str_in c define_value_codes)) (define_check false o).
Proof. exact define_check_value_only. Qed.
Print Assumptions C16_R_checkdefine_value_only.

(* `# define foo(x) x` keeps MACRO_NAME_CAPITAL and MACRO_FUNC_FORBIDDEN under -R CheckDefine; in general every
   diagnostic of the define check that is not a #define-value diagnostic stays *)
Theorem C16_R_checkdefine_keeps_name_checks : forall bad,
  define_check true (mkdobs true false true bad) = [s "MACRO_NAME_CAPITAL"; s "MACRO_FUNC_FORBIDDEN"] /\
  (forall o c, In c (define_check false o) -> str_in c define_value_codes = false -> In c (define_check true o)).
Proof. exact define_check_keeps_name_checks. Qed.
Print Assumptions C16_R_checkdefine_keeps_name_checks.

(* ---- --cfile/--hfile + --filename: the statements of main()'s inline branch are the reviewed ones (with the newline
   translation), the two str.replace passes compute open()'s universal-newline translation, and so the analysis gets
   the same File (path, basename, source) and the same context options as for a file of that name holding those bytes,
   for ALL non-empty contents (CR / CRLF included).  Modelled, not verified: open() itself (universal newlines; UTF-8
   decoding as the identity on code points) - validated by the harness on real files.  The content must be non-empty:
   main() tests its truthiness, an empty --cfile is ignored (C16_example_inline). *)
Theorem C16_inline_branch_reviewed : inline_branch = reviewed_inline_branch.
Proof. exact inline_branch_reviewed. Qed.
Print Assumptions C16_inline_branch_reviewed.

Theorem C16_translate_inline_universal : forall x, translate_inline x = universal_newlines x.
Proof. exact translate_inline_universal. Qed.
Print Assumptions C16_translate_inline_universal.

Theorem C16_inline_same_as_file_raw : forall raw a a' path content,
  content <> [] -> path <> [] -> raw path = Some content ->
  (a_cfile a = Some content /\ a_filename a = Some path \/
   truthy (a_cfile a) = false /\ a_hfile a = Some content /\ a_filename a = Some path) ->
  truthy (a_cfile a') = false -> truthy (a_hfile a') = false -> a_file a' = [path] ->
  a_debug a = a_debug a' -> a_R a = a_R a' ->
  map (input_of (disk_of_raw raw)) (files_of_args a) = map (input_of (disk_of_raw raw)) (files_of_args a')
  /\ ctx_of_args a = ctx_of_args a'.
Proof. exact inline_same_as_file_raw. Qed.
Print Assumptions C16_inline_same_as_file_raw.

(* ---- the option plumbing of main(), translated statement by statement (Gen/OptFlow.v: label, uses, defs over local
   names, args.<dest>, HEAP = all objects incl. every File's diagnostics and stdout, EXIT) *)
(* noninterference for ANY def/use program under ANY statement semantics (each statement an arbitrary function of the
   values of its uses) *)
Theorem C16_flow_noninterference : forall (V : Type) (sem : fstmt -> list V -> list V) p T (e1 e2 : env),
  agree_off T e1 e2 -> agree_off (taint_all T p) (run_flow sem p e1) (run_flow sem p e2).
Proof. exact @noninterference. Qed.
Print Assumptions C16_flow_noninterference.

(* colours / format / -o reach ONLY: the choice of the formatter class, the formatter call after the analysis loop, the
   print of its result and the final sys.exit *)
Theorem C16_presentation_reaches_only :
  reached presentation_sources main_flow =
  ["format = next(filter(lambda it: it.name == args.format, formatters))";
   "errors = format(files, use_colors=not args.no_colors)";
   "print(errors, end='')";
   "sys.exit(1 if any((it.errors.status == 'Error' for it in files)) else 0)"]%string
  /\ (analysis_loop_index < format_call_index)%nat
  /\ option_map fs_label (nth_error main_flow analysis_loop_index) = Some "for file in files"%string
  /\ option_map fs_label (nth_error main_flow format_call_index) = Some "errors = format(files, use_colors=not args.no_colors)"%string.
Proof. exact presentation_reaches_only. Qed.
Print Assumptions C16_presentation_reaches_only.

(* hence, whatever Lexer / Context / Registry.run do: two runs of main() that differ only in colours / format / -o have
   the same heap (every File object with its diagnostics), the same file list and the same exit state at the end of the
   analysis loop - the diagnostics of each File are a function of (selected content and names, debug, R) *)
Theorem C16_analysis_independent_of_presentation : forall (V : Type) (sem : fstmt -> list V -> list V) (e1 e2 : env),
  agree_off presentation_sources e1 e2 ->
  run_flow sem analysis_part e1 "HEAP"%string = run_flow sem analysis_part e2 "HEAP"%string /\
  run_flow sem analysis_part e1 "files"%string = run_flow sem analysis_part e2 "files"%string /\
  run_flow sem analysis_part e1 "EXIT"%string = run_flow sem analysis_part e2 "EXIT"%string.
Proof. exact heap_after_analysis. Qed.
Print Assumptions C16_analysis_independent_of_presentation.

(* Context(file, tokens, debug, args.R): `debug` is args.debug, the 3rd / 4th parameters of Context.__init__ are the
   ones its two translated assignments read, and the model's ctx_of_args IS that translation *)
Theorem C16_context_plumbing :
  nth_error context_call_args 2 = Some "debug"%string /\ nth_error context_init_params 2 = Some context_debug_param /\
  nth_error context_call_args 3 = Some "args.R"%string /\ nth_error context_init_params 3 = Some context_skip_param /\
  existsb (fun st => String.eqb (fs_label st) "debug = args.debug" && smem "args.debug" (fs_uses st)
                     && smem "debug" (fs_defs st)) main_flow = true /\
  List.length (filter (fun st => smem "debug" (fs_defs st)) main_flow) = 1%nat.
Proof. exact context_plumbing. Qed.
Print Assumptions C16_context_plumbing.

Theorem C16_ctx_of_args_from_source : forall a, ctx_of_args a = mkctxopts (gen_ctx_debug (a_debug a)) (gen_ctx_skip (a_R a)).
Proof. exact ctx_of_args_from_source. Qed.
Print Assumptions C16_ctx_of_args_from_source.

(* ---- -f, from C08's theorems (C08_formats_agree, C08_sort_is_permutation) instead of the reader table: both formats
   show the same (verdict, diagnostics) per file, and that is the file's own list - a permutation, nothing dropped *)
Theorem C16_format_views_from_C08 : forall a1 a2 files, views a1 files = views a2 files.
Proof. exact format_views_from_C08. Qed.
Print Assumptions C16_format_views_from_C08.

Theorem C16_shown_is_the_files_diagnostics : forall a f v, file_view (is_json a) f = Some v ->
  v_status v = status (f_errors f) /\
  exists ds, Permutation (f_errors f) ds /\ omap dview_of ds = Some (v_diags v).
Proof. exact shown_is_the_files_diagnostics. Qed.
Print Assumptions C16_shown_is_the_files_diagnostics.

(* ================================================================== non-vacuity *)
(* a rule set that raises at level 0 only: the third statement is a `goto 3;` *)
Definition ex_step : Z -> nat * list diag -> sres (nat * list diag) :=
  fun d st => if Nat.eqb (fst st) 2 && (d =? 0) then SFatal (s "Error: Goto statement should be followed by a label")
              else SMatched (s "IsExpressionStatement") 1 (S (fst st), snd st ++ [toy_diag (s "GOTO_FBIDDEN")]).

Example C16_example_debug :
  debug_insensitive ex_step /\ raises_only_at_zero ex_step /\
  (exists m, run_st 5 ex_step 0 (0%nat, []) 4 0 [] = Fatal m) /\
  (exists r, run_st 5 ex_step 1 (0%nat, []) 4 0 [] = Ok r /\ run_st 5 ex_step 2 (0%nat, []) 4 0 [] = Ok r
             /\ List.length (snd (snd r)) = 4%nat) /\
  (exists r, run_st 3 ex_step 0 (0%nat, []) 2 0 [] = Ok r /\ run_st 3 ex_step 2 (0%nat, []) 2 0 [] = Ok r).
Proof.
  split; [|split; [|split; [|split]]].
  - intros d1 d2 [n ds]. unfold ex_step. cbn [fst snd].
    destruct (Nat.eqb n 2); cbn [andb]; [|reflexivity].
    destruct (d1 =? 0); [discriminate|]. destruct (d2 =? 0); [discriminate|]. reflexivity.
  - intros d [n ds]. unfold ex_step. cbn [fst snd].
    destruct (Nat.eqb n 2); cbn [andb]; [|reflexivity]. change (0 =? 0) with true. cbn iota. discriminate.
  - eexists. vm_compute. reflexivity.
  - eexists. split; [vm_compute; reflexivity|]. split; vm_compute; reflexivity.
  - eexists. split; vm_compute; reflexivity.
Qed.

(* a file of three #define statements: `# define foo(x) 1 + 2`, `# define BAR 1 + 2`, `# define OK 3` *)
Example C16_example_R :
  skip_filters toy_step /\
  let core := [mkdobs true false true true; mkdobs true true false true; mkdobs true true false false] in
  (exists segs c ds, run_st 4 (lift_emit toy_step false) 0 (core, []) 3 0 [] = Ok (segs, (c, ds)) /\
      map d_name ds = [s "PREPROC_BAD_INDENT"; s "MACRO_NAME_CAPITAL"; s "MACRO_FUNC_FORBIDDEN"; s "PREPROC_CONSTANT";
                       s "PREPROC_BAD_INDENT"; s "PREPROC_CONSTANT"; s "PREPROC_BAD_INDENT"] /\
      run_st 4 (lift_emit toy_step true) 0 (core, []) 3 0 [] = Ok (segs, (c, filter_silenced ds)) /\
      map d_name (filter_silenced ds) = [s "PREPROC_BAD_INDENT"; s "MACRO_NAME_CAPITAL"; s "MACRO_FUNC_FORBIDDEN";
                                         s "PREPROC_BAD_INDENT"; s "PREPROC_BAD_INDENT"]).
Proof.
  split; [exact toy_step_skip_filters|]. cbv zeta. eexists. eexists. eexists.
  split; [vm_compute; reflexivity|]. split; [vm_compute; reflexivity|]. split; vm_compute; reflexivity.
Qed.

Example C16_example_options :
  ctx_of_options [FlDebug 2; FlR (s "Foo"); FlNoColors] = mkctxopts 2 false /\
  ctx_of_options [FlR (s "Foo"); FlDebug 1; FlR (s "CheckDefine"); FlDebug 1] = mkctxopts 2 true /\
  ctx_of_options [FlR (s "CheckDefine"); FlR (s "Foo")] = mkctxopts 0 false /\
  ctx_of_options [FlR (s "checkdefine")] = mkctxopts 0 false /\
  ctx_of_options [FlR (s "CheckDefine ")] = mkctxopts 0 false /\
  ctx_of_options [FlR []] = mkctxopts 0 false.
Proof. repeat split. Qed.

(* one file, two diagnostics (one coloured code, one Notice): same views in both formats, text factors, colours strip *)
Example C16_example_formats :
  let f := mkfile (s "a.c") [mkdiag (s "SPACE_BEFORE_FUNC") (s "Found space when expecting tab before function name") (s "Error") [mkhl 13 4 (Some 1) None];
                             mkdiag (s "GLOBAL_VAR_DETECTED") (s "Global variable present in file. Make sure it is a reasonable choice.") (s "Notice") [mkhl 12 1 (Some 3) None]] in
  let a1 := args_of [] in let a2 := args_of [FlNoColors; FlFormat FJson; FlOnlyFilename] in
  (exists vs, views a1 [f] = Some vs /\ views a2 [f] = Some vs /\ map (fun v => List.length (v_diags v)) vs = [2%nat]) /\
  (exists bvs, omap named_view [f] = Some bvs /\ forallb fview_plain bvs = true /\
     render_views true bvs <> render_views false bvs /\ strip_esc (render_views true bvs) = render_views false bvs).
Proof.
  cbv zeta. split.
  - eexists. split; [vm_compute; reflexivity|]. split; vm_compute; reflexivity.
  - eexists. split; [vm_compute; reflexivity|]. split; [vm_compute; reflexivity|].
    split; [vm_compute; discriminate|vm_compute; reflexivity].
Qed.

Example C16_example_inline :
  let disk := fun p => if str_eqb p (s "dir/x.h") then Some (s "int a;") else None in
  map (input_of disk) (files_of_args (args_of [FlHfile (s "int a;"); FlFilename (s "dir/x.h"); FlDebug 1]))
  = map (input_of disk) (files_of_args (args_of [FlDebug 1; FlPath (s "dir/x.h")])) /\
  map fi_in_base (map (input_of disk) (files_of_args (args_of [FlPath (s "dir/x.h")]))) = [s "x.h"] /\
  (* CRLF / lone CR content: inline and file-based give the same source *)
  (let raw := fun _ : str => Some (s "int a;" ++ [13; 10; 13]%N) in
   map (input_of (disk_of_raw raw)) (files_of_args (args_of [FlCfile (s "int a;" ++ [13; 10; 13]%N); FlFilename (s "a.c")]))
   = map (input_of (disk_of_raw raw)) (files_of_args (args_of [FlPath (s "a.c")])) /\
   map fi_in_source (map (input_of (disk_of_raw raw)) (files_of_args (args_of [FlPath (s "a.c")]))) = [Some (s "int a;" ++ [10; 10]%N)]) /\
  (* empty inline content is falsy: main() falls back to the path selection *)
  files_of_args (args_of [FlCfile []; FlFilename (s "x.c")]) = [].
Proof. repeat split. Qed.

(* the flow analysis is not vacuous: under a semantics where every statement sums its inputs, --no-colors changes the
   formatter's result and nothing the analysis loop leaves behind *)
Example C16_example_flow :
  let sem := fun (st : fstmt) (vals : list nat) => repeat (fold_left Nat.add vals 0%nat) (List.length (fs_defs st)) in
  let e1 : env := fun _ => 0%nat in
  let e2 : env := fun x => if String.eqb x "args.no_colors" then 1%nat else 0%nat in
  agree_off presentation_sources e1 e2 /\
  run_flow sem main_flow e1 "errors"%string <> run_flow sem main_flow e2 "errors"%string /\
  run_flow sem analysis_part e1 "HEAP"%string = run_flow sem analysis_part e2 "HEAP"%string.
Proof.
  cbv zeta. split; [|split].
  - intros x Hx. destruct (String.eqb x "args.no_colors") eqn:E; [|reflexivity].
    apply String.eqb_eq in E. subst x. vm_compute in Hx. discriminate.
  - vm_compute. discriminate.
  - vm_compute. reflexivity.
Qed.
