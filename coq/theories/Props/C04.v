(* C04 - Exit status and per-file verdict agree with the diagnostics.
   Only statements here; proofs are in Proofs/.  exit_code and status are generated from
   /repo's __main__.py and errors.py on every run (Gen.MainExit, Gen.ErrOrder). *)
From NV Require Import Model.Base Model.Diag Model.Errors Model.Cli Proofs.ErrOrderProofs Proofs.CliProofs.

Theorem C04_status_ok_iff : forall ds,
  status ds = s "OK" <-> forall d, In d ds -> d_level d = s "Notice".
Proof. exact status_ok_iff. Qed.
Print Assumptions C04_status_ok_iff.

Theorem C04_exit_iff : forall files,
  exit_code files = 0 <-> forall f, In f files -> status (f_errors f) = s "OK".
Proof. exact exit_iff. Qed.
Print Assumptions C04_exit_iff.

Theorem C04_exit_zero_iff : forall fs j c r e, all_diags fs -> run_all j c fs = Ok (r, e) ->
  (e = 0 <-> forall f ds, In f fs -> fi_res f = RDiags ds -> forall d, In d ds -> d_level d = s "Notice").
Proof. exact exit_zero_iff. Qed.
Print Assumptions C04_exit_zero_iff.

Theorem C04_one_verdict_per_file : forall fs c out e, all_diags fs ->
  run_all false c fs = Ok (RepHuman out, e) ->
  human_fmt c (map file_of fs) = Ok out /\ e = exit_code (map file_of fs).
Proof. exact one_verdict_per_file. Qed.
Print Assumptions C04_one_verdict_per_file.

Theorem C04_verdict_block : forall f c blk, human_file c f = Ok blk ->
  exists rest, blk = f_base f ++ s ": " ++ status (f_errors f) ++ s "!" ++ rest.
Proof. exact human_block. Qed.
Print Assumptions C04_verdict_block.

Theorem C04_json_one_entry_per_file : forall fs c files e, all_diags fs ->
  run_all true c fs = Ok (RepJson files, e) ->
  files = combine (map fi_path fs) (map json_of (map file_of fs)) /\ e = exit_code (map file_of fs).
Proof. exact json_one_entry_per_file. Qed.
Print Assumptions C04_json_one_entry_per_file.

Theorem C04_fatal_reported : forall pre f post m j c, all_diags pre -> fi_res f = RFatal m ->
  run_all j c (pre ++ f :: post) =
    Ok (RepFatal (fi_path f ++ s ": Error!" ++ [10; 9]%N ++ red m ++ [10%N]), 1).
Proof. exact fatal_reported. Qed.
Print Assumptions C04_fatal_reported.

Theorem C04_empty_clean : forall c,
  run_all false c [] = Ok (RepHuman [], 0) /\ run_all true c [] = Ok (RepJson [], 0).
Proof. exact empty_clean. Qed.
Print Assumptions C04_empty_clean.

(* known finding C04-verdicts-before-fatal *)
Theorem C04_verdicts_before_fatal_refuted :
  exists fs out e, run_all false false fs = Ok (RepFatal out, e) /\ In clean_fin fs /\
    starts_with (s "b.c: Error!") out = true.
Proof. exact verdicts_before_fatal_refuted. Qed.
Print Assumptions C04_verdicts_before_fatal_refuted.

(* non-vacuity: a run with one Notice-only and one erroneous file *)
Example C04_example :
  let n := mkdiag (s "GLOBAL_VAR_DETECTED") (s "t") (s "Notice") [mkhl 1 1 None None] in
  let e := mkdiag (s "TOO_MANY_LINES") (s "t") (s "Error") [mkhl 2 1 None None] in
  exit_code [mkfile (s "a.c") [n]] = 0 /\ exit_code [mkfile (s "a.c") [n]; mkfile (s "b.c") [e]] = 1.
Proof. split; reflexivity. Qed.
