(* C07 - Every statement is examined exactly once; nothing is skipped silently.
   Generic in the rule set (the oracle): proved for every rule set whose matching primaries
   consume at least one token.  The alignment/count/depth clauses about conforming programs are
   evaluated on the recorded segmentation of real runs (they depend on the matching primaries,
   which are not modelled): partial. *)
From NV Require Import Model.Base Model.Engine Gen.Registry Proofs.EngineProofs.

(* consecutive, non-overlapping statements, each >= 1 token, covering the whole token stream *)
Theorem C07_run_tiles : forall oracle debug n segs, good oracle ->
  run_file oracle debug n = Ok segs -> chain segs n = true.
Proof. exact run_tiles. Qed.
Print Assumptions C07_run_tiles.

(* without -d: a run that ends normally set no token aside - unrecognised text is always fatal,
   wherever it sits, including at the very end of the file *)
Theorem C07_unrecognised_is_fatal : forall oracle n segs, good oracle ->
  run_file oracle 0 n = Ok segs -> forallb (fun x => negb (is_unrec x)) segs = true.
Proof. exact unrecognised_is_fatal. Qed.
Print Assumptions C07_unrecognised_is_fatal.

Theorem C07_loop_terminates : forall oracle debug n, good oracle -> run_file oracle debug n <> Hang.
Proof. exact run_terminates. Qed.
Print Assumptions C07_loop_terminates.

(* the loop model leaves out the `_start` / `_end` check lists: they are empty in the source *)
Theorem C07_no_start_end_checks : forallb (fun c => negb (c_start c) && negb (c_end c)) checks = true.
Proof. exact no_start_end_checks. Qed.
Print Assumptions C07_no_start_end_checks.

Example C07_example :
  let o := fun i => match i with 0%nat => Matched (s "IsComment") 2 | 1%nat => Matched (s "IsEmptyLine") 1
                              | _ => NoMatch end in
  good o /\ run_file o 0 4 = Fatal unrec_msg /\
  run_file o 1 4 = Ok [SMatch (s "IsComment") 4 2; SMatch (s "IsEmptyLine") 2 1; SUnrec 1].
Proof.
  cbv zeta. split; [|split; reflexivity].
  intros i name j. destruct i as [|[|i]]; intros H; inversion H; subst; discriminate || (cbv; discriminate).
Qed.
