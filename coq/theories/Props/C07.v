(* C07 - Every statement is examined exactly once; nothing is skipped silently.
   Generic in the rule set (the oracle): proved for every rule set whose matching primaries
   consume at least one token.  The alignment/count/depth clauses about conforming programs are
   evaluated on the recorded segmentation of real runs (they depend on the matching primaries,
   which are not modelled): partial. *)
From NV Require Import Model.Base Model.Engine Gen.Registry Proofs.EngineProofs.

(* consecutive, non-overlapping statements, each >= 1 token, covering the whole token stream *)
Theorem C07_run_tiles : forall oracle debug n segs, good oracle ->
  run_file oracle debug n = Ok segs -> chain segs n = true.
Proof. exact run_tiles. Qed.
Print Assumptions C07_run_tiles.

(* without -d: a run that ends normally set no token aside - unrecognised text is always fatal,
   wherever it sits, including at the very end of the file *)
Theorem C07_unrecognised_is_fatal : forall oracle n segs, good oracle ->
  run_file oracle 0 n = Ok segs -> forallb (fun x => negb (is_unrec x)) segs = true.
Proof. exact unrecognised_is_fatal. Qed.
Print Assumptions C07_unrecognised_is_fatal.

Theorem C07_loop_terminates : forall oracle debug n, good oracle -> run_file oracle debug n <> Hang.
Proof. exact run_terminates. Qed.
Print Assumptions C07_loop_terminates.

(* the loop model leaves out the `_start` / `_end` check lists: they are empty in the source *)
Theorem C07_no_start_end_checks : forallb (fun c => negb (c_start c) && negb (c_end c)) checks = true.
Proof. exact no_start_end_checks. Qed.
Print Assumptions C07_no_start_end_checks.

Example C07_example :
  let o := fun i => match i with 0%nat => Matched (s "IsComment") 2 | 1%nat => Matched (s "IsEmptyLine") 1
                              | _ => NoMatch end in
  good o /\ run_file o 0 4 = Fatal unrec_msg /\
  run_file o 1 4 = Ok [SMatch (s "IsComment") 4 2; SMatch (s "IsEmptyLine") 2 1; SUnrec 1].
Proof.
  cbv zeta. split; [|split; reflexivity].
  intros i name j. destruct i as [|[|i]]; intros H; inversion H; subst; discriminate || (cbv; discriminate).
Qed.
(* ---- nesting depth back at file level: scope-trace model (Model/ScopeTrace.v over Gen/ScopeOps.v) *)
From NV Require Import Model.ScopeBase Gen.ScopeOps Model.ScopeTrace Model.ScopeBody Proofs.ScopeTraceProofs.
Local Open Scope Z_scope.

(* after the closing brace of a function or user-defined type with a well-nested body the scope chain is [GlobalScope] again *)
Theorem C07_depth_back_at_file_level : forall g hs E o cls gap nlo b nlc,
  isglobal g -> opener_ok o cls -> last_ok hs -> gap_ok gap -> body b ->
  exists q g', run (mkstate [g] hs E) (block_of o gap nlo b nlc) = Some q /\ chain q = [g'] /\ isglobal g' /\ last_ok (hist q).
Proof. exact depth_back_at_file_level. Qed.
Print Assumptions C07_depth_back_at_file_level.

(* a whole file of skipped lines, plain statements, functions and user-defined types ends in the global scope *)
Theorem C07_file_ends_at_global : forall f, file f -> forall g hs E, isglobal g -> last_ok hs ->
  exists q g', run (mkstate [g] hs E) f = Some q /\ chain q = [g'] /\ isglobal g' /\ last_ok (hist q).
Proof. exact file_ends_at_global. Qed.
Print Assumptions C07_file_ends_at_global.

(* inside a function: every unit of a well-nested body leaves the chain below it untouched and the tower of brace-less
   structures above the stable scope empty *)
Theorem C07_units_and_bodies : (forall u, unit1 u -> P u) /\ (forall b, body b -> Q b).
Proof. exact units_and_bodies. Qed.
Print Assumptions C07_units_and_bodies.

(* ---- every token is examined: it lies in exactly one matched statement of a run that ends normally (at an index
   below the statement's length), and the checks without dependencies run on EVERY matched statement, whatever primary
   matched it (run order computed from Gen.Registry, the table regenerated from the rule classes on every run) *)
From NV Require Import Model.RuleChecks Model.RegistryOrder Proofs.RuleChecksLift.

Theorem C07_every_token_in_a_statement : forall oracle (ftoks : list token) segs k t,
  good oracle -> run_file oracle 0 (List.length ftoks) = Ok segs -> nth_error ftoks k = Some t ->
  exists name before after, In (SMatch name before after) segs /\ (after < before <= List.length ftoks)%nat /\
    let rem := skipn (List.length ftoks - before) ftoks in
    let i := Z.of_nat (k - (List.length ftoks - before)) in
    0 <= i < Z.of_nat (before - after) /\ peek rem i = Some t.
Proof. exact file_token_in_statement. Qed.
Print Assumptions C07_every_token_in_a_statement.

Theorem C07_rule_checks_run_on_every_statement : forall p c,
  In c [s "CheckTernary"; s "CheckLineLen"; s "CheckLabel"; s "CheckEmptyLine"; s "CheckLineIndent"; s "CheckSpacing"] ->
  In c (checks_run_on p).
Proof. exact rule_checks_run_always. Qed.
Print Assumptions C07_rule_checks_run_on_every_statement.
