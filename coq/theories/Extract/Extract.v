(* Extraction of the executable models (no proofs are imported here, so the extracted program
   exists even when a proof breaks).  Directives: ExtrOcamlBasic only (bool, list, option,
   prod, unit, sumbool -> OCaml's); nat, N, Z, positive stay the extracted inductive types;
   no Extract Constant. *)
From Coq Require Extraction ExtrOcamlBasic.
From NV Require Model.Base Model.Diag Model.Errors Model.Cli Model.NumRe Model.Lexer Spec.TruePos Spec.Normalise Spec.LexProps Model.Engine Spec.CConst Spec.Width.
Extraction Language OCaml.
Set Extraction KeepSingleton.
Extraction "../build/ml/nvmodel.ml"
  Model.Base.dec_of_Z Model.Errors.sort_diags Model.Errors.human_fmt Model.Cli.run_all
  Gen.ErrOrder.hl_lt Gen.ErrOrder.err_lt Gen.ErrOrder.status Gen.MainExit.exit_code
  Model.Errors.human_view Model.Errors.json_view
  Model.Lexer.lex Model.Lexer.tokens_of Model.NumRe.int_match Model.NumRe.fexp_match Model.NumRe.ffrac_match
  Model.NumRe.fhex_match Model.NumRe.exp_ok Model.Lexer.peek1 Model.Lexer.peek2
  Spec.TruePos.all_positions Spec.TruePos.true_pos Spec.Normalise.normalise Spec.Normalise.is_splice
  Spec.LexProps.c09_ok Spec.LexProps.c10_ok Spec.LexProps.items_of_spans Spec.LexProps.c09_item_ok Spec.LexProps.c10_item_ok
  Spec.LexProps.spans_tile
  Model.Engine.run_file Model.Engine.chain Model.Engine.is_unrec
  Spec.CConst.int_consts Spec.CConst.float_consts Spec.CConst.char_consts Spec.CConst.string_consts Spec.CConst.cat
  Spec.CConst.int_reprs Spec.CConst.float_reprs Spec.CConst.delims Spec.CConst.delims_all Spec.CConst.m_rests
  Spec.CConst.guard_int Spec.CConst.guard_float Spec.CConst.guard_char Spec.CConst.guard_string
  Spec.CConst.lex_one_ok Spec.CConst.lex_one_diag Spec.CConst.malformed Spec.CConst.malformed_open
  Spec.CConst.shape_k1 Spec.CConst.shape_hex_e_suffix Spec.CConst.shape_hexfloat_empty_part
  Spec.CConst.shape_hexfloat_hex_suffix Spec.CConst.shape_ucn Spec.CConst.shape_long_hex
  Gen.LexTables.integer_suffixes Gen.LexTables.float_suffixes
  Spec.Width.line_width Spec.Width.line_len_check Spec.Width.block_comment_check Spec.Width.line_comment_check.
