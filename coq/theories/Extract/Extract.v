(* Extraction of the executable models (no proofs are imported here, so the extracted program
   exists even when a proof breaks).  Directives: ExtrOcamlBasic only (bool, list, option,
   prod, unit, sumbool -> OCaml's); nat, N, Z, positive stay the extracted inductive types;
   no Extract Constant. *)
From Coq Require Extraction ExtrOcamlBasic.
From NV Require Model.Base Model.Diag Model.Errors Model.Cli.
Extraction Language OCaml.
Set Extraction KeepSingleton.
Extraction "../build/ml/nvmodel.ml"
  Model.Base.dec_of_Z Model.Errors.sort_diags Model.Errors.human_fmt Model.Cli.run_all
  Gen.ErrOrder.hl_lt Gen.ErrOrder.err_lt Gen.ErrOrder.status Gen.MainExit.exit_code
  Model.Errors.human_view Model.Errors.json_view.
