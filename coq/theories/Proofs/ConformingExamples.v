(* C01: non-vacuity of the statement-shape hypotheses of the silence theorems, on the tokens of
       <TAB>if (a == b)<NL><TAB><TAB>return (a);<NL>                                                         *)
From NV Require Import Model.Base Model.Lexer Model.RuleChecks Model.CounterBase Gen.RuleChecks Gen.MoreChecks
  Proofs.RuleChecksProofs Proofs.ConformingChecks Proofs.ConformingSpacing Proofs.ConformingControl.
Local Open Scope Z_scope.

Definition tk (ty : string) (l c : Z) : token := mk_tok (s ty) l c.
Definition ex_if : list token :=
  [tk "TAB" 1 1; tk "IF" 1 5; tk "SPACE" 1 7; tk "LPARENTHESIS" 1 8; tk "IDENTIFIER" 1 9; tk "SPACE" 1 10; tk "EQUALS" 1 11;
   tk "SPACE" 1 13; tk "IDENTIFIER" 1 14; tk "RPARENTHESIS" 1 15; tk "NEWLINE" 1 16;
   tk "TAB" 2 1; tk "TAB" 2 5; tk "RETURN" 2 9; tk "SPACE" 2 15; tk "LPARENTHESIS" 2 16; tk "IDENTIFIER" 2 17; tk "RPARENTHESIS" 2 18;
   tk "SEMI_COLON" 2 19; tk "NEWLINE" 2 20].
Definition ex_ret : list token := skipn 11 ex_if.
Definition ex_v : view := mkview [s "IsControlStatement"; s "IsBlockStart"; s "IsFuncDeclaration"] (s "Function") false 1 false false.
Definition ex_v2 : view := mkview [s "IsExpressionStatement"; s "IsControlStatement"; s "IsBlockStart"] (s "ControlStructure") false 2 false false.

Example shapes_hold :
  forallb (cs_pos_ok ex_if 10) (zrange 0 10) = true /\ is_false (check1 ex_if 10 (s "NEWLINE")) = false /\
  forallb (sp_ok ex_if) (zrange 0 (slice_len ex_if 11)) = true /\
  forallb (expr_pos_ok ex_if) (zrange 0 10) = true /\
  forallb (sp_ok ex_ret) (zrange 0 (slice_len ex_ret 9)) = true /\
  forallb (expr_pos_ok ex_ret) (zrange 0 7) = true /\ return_ok ex_ret 2 = true /\
  is_false (checkl ex_ret 7 [s "SEMI_COLON"; s "NEWLINE"]) = false.
Proof. vm_compute. repeat split. Qed.

Example checks_agree :
  check_control_statement ex_if 11 ex_v = Ok ([], ex_v) /\ check_spacing ex_if 11 ex_v = Ok ([], ex_v) /\
  check_expression_statement ex_if 11 ex_v = Ok ([], ex_v) /\ check_spacing ex_ret 9 ex_v2 = Ok ([], ex_v2) /\
  check_expression_statement ex_ret 9 ex_v2 = Ok ([], ex_v2) /\
  (exists v', check_line_indent ex_if 11 ex_v = Ok ([], v')) /\ (exists v', check_line_indent ex_ret 9 ex_v2 = Ok ([], v')).
Proof. vm_compute. repeat split; eexists; reflexivity. Qed.
