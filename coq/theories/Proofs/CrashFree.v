(* C05 for the translated code: the generated models keep Python's exceptions explicit (Crash AttributeError when new_error or
   `.pos` gets a missing token, Crash IndexError for context.history[-k] on a short history, Hang when the fuel of a loop runs
   out, Fatal for CParsingError).  Here: which inputs make them raise, that nothing else does, and that no fuel runs out. *)
From NV Require Import Model.Base Model.RuleChecks Gen.RuleChecks Model.CounterBase Gen.Counters Proofs.StrOrder Proofs.RuleChecksProofs
  Proofs.RuleChecksProofs2 Proofs.RuleChecksSpacing Proofs.SpacingTotal Model.ScopeBase Gen.ScopeOps Model.ScopeTrace.
From Coq Require Import Lia.
Local Open Scope Z_scope.

(* ------------------------------------------------------------------ CheckTernary, CheckLineLen: total *)
Theorem check_ternary_total : forall toks scope v, exists r, check_ternary toks scope v = Ok r.
Proof. intros. eexists. apply check_ternary_value. Qed.
Theorem check_line_len_total : forall toks scope v, exists r, check_line_len toks scope v = Ok r.
Proof. intros. destruct (check_line_len_spec toks scope v) as [E [H _]]. eexists. exact H. Qed.

(* ------------------------------------------------------------------ CheckLabel: total (it only reports when it has seen a token) *)
Theorem check_label_total : forall toks scope v, exists r, check_label toks scope v = Ok r.
Proof.
  intros toks scope v. unfold check_label. cbv zeta.
  assert (P0 : forall j c, 0 <= j -> truthy (check1 toks j c) = true -> exists t, peek toks 0 = Some t).
  { intros j c Hj H. apply peek_lt_some. pose proof (check1_true_lt toks j c Hj H). lia. }
  destruct (negb _); [eexists; reflexivity|].
  pose proof (skip_ws_ge toks 0) as G0.
  destruct (truthy (check1 toks (skip_ws toks 0) (s "GOTO"))) eqn:Q1.
  { destruct (P0 _ _ G0 Q1) as [t E]. rewrite E. eexists. reflexivity. }
  destruct (is_false _); [eexists; reflexivity|].
  pose proof (skip_ws_ge toks (skip_ws toks 0 + 1)) as G1.
  destruct (truthy (check1 toks (skip_ws toks (skip_ws toks 0 + 1)) (s "COLON"))) eqn:Q2; [|eexists; reflexivity].
  assert (G2 : 0 <= skip_ws toks (skip_ws toks 0 + 1)) by lia.
  destruct (P0 _ _ G2 Q2) as [t E]. rewrite E. eexists. reflexivity.
Qed.

(* ------------------------------------------------------------------ CheckManyInstructions: AttributeError exactly on no token *)
Theorem check_many_instructions_crash_iff : forall toks scope v,
  (toks = [] -> check_many_instructions toks scope v = Crash AttributeError) /\
  (toks <> [] -> exists r, check_many_instructions toks scope v = Ok r).
Proof.
  intros toks scope v. split.
  - intros ->. reflexivity.
  - intros H. destruct (nonempty_peek0 toks H) as [t E]. rewrite (check_many_instructions_value _ _ _ t E). eexists. reflexivity.
Qed.

(* ------------------------------------------------------------------ CheckEmptyLine, CheckLineIndent: IndexError on an empty history,
   AttributeError only without a token; total on what the registry passes (a matched statement: the primary was appended to the
   history, the tokens are not exhausted) *)
Ltac total_split :=
  repeat first [ progress cbn [need_hist need_tok emit bind negb andb orb app]
               | match goal with |- context [if ?c then _ else _] => destruct c end ];
  eexists; reflexivity.

Theorem check_empty_line_crash_no_history : forall toks scope v, v_history v = [] -> check_empty_line toks scope v = Crash IndexError.
Proof.
  intros toks scope v Hh. unfold check_empty_line. cbv zeta. unfold hist_len, hist_back, hist_back_d, zlen. rewrite Hh.
  cbn [Datatypes.length Z.of_nat nth_error nth Nat.sub need_hist Z.eqb Z.gtb Z.compare andb].
  destruct (negb (str_eqb (v_scope_name v) (s "GlobalScope"))); reflexivity.
Qed.

Theorem check_empty_line_total_in_registry : forall toks scope v, toks <> [] -> v_history v <> [] ->
  exists r, check_empty_line toks scope v = Ok r.
Proof.
  intros toks scope v Ht Hh. destruct (nonempty_peek0 toks Ht) as [t0 E0].
  destruct (v_history v) as [|h1 rest] eqn:Hv; [congruence|]. clear Hh.
  unfold check_empty_line. cbv zeta. unfold hist_len, hist_back, hist_back_d, set_vdecl_allowed, zlen. cbn [v_history]. rewrite Hv, E0.
  destruct rest as [|h2 rest'].
  - replace (Z.of_nat (Datatypes.length [h1]) =? 1) with true by reflexivity.
    replace (Z.of_nat (Datatypes.length [h1]) >? 1) with false by reflexivity.
    cbn [nth_error nth Nat.sub need_hist andb].
    destruct (str_eqb h1 (s "IsEmptyLine")); cbn [andb negb]; total_split.
  - cbn [nth_error nth Nat.sub need_hist].
    replace (Z.of_nat (Datatypes.length (h1 :: h2 :: rest')) =? 1) with false by (symmetry; apply Z.eqb_neq; cbn [Datatypes.length]; lia).
    total_split.
Qed.

Theorem check_line_indent_crash_no_history : forall toks scope v, v_history v = [] -> check_line_indent toks scope v = Crash IndexError.
Proof. intros toks scope v Hh. unfold check_line_indent. cbv zeta. unfold hist_back. rewrite Hh. reflexivity. Qed.

Lemma for_each_total {A St} (body : A -> St -> outcome (bool * St)) :
  (forall x st, exists r, body x st = Ok r) -> forall l st, exists r, for_each l body st = Ok r.
Proof.
  intros Hb. induction l as [|x l IH]; intros st; cbn [for_each]; [eexists; reflexivity|].
  destruct (Hb x st) as [[[|] st'] R]; rewrite R; [eexists; reflexivity|apply IH].
Qed.

Theorem check_line_indent_total_in_registry : forall toks scope v, toks <> [] -> v_history v <> [] ->
  exists r, check_line_indent toks scope v = Ok r.
Proof.
  intros toks scope v Ht Hh. destruct (nonempty_peek0 toks Ht) as [t0 E0].
  destruct (v_history v) as [|h1 rest] eqn:Hv; [congruence|]. clear Hh.
  unfold check_line_indent. cbv zeta. unfold hist_back. rewrite Hv, E0. cbn [Nat.sub nth_error need_hist].
  destruct (str_in h1 _); [eexists; reflexivity|].
  assert (Tail : forall (e g : Z) (E1 : list em) (v1 : view), exists r : list em * view,
     (if e >? g then bind (emit (s "TOO_FEW_TAB") (Some t0) E1) (fun E => Ok (E, v1))
      else if g >? e then bind (emit (s "TOO_MANY_TAB") (Some t0) E1) (fun E => Ok (E, v1)) else Ok (E1, v1)) = Ok r).
  { intros e g E1 v1. destruct (e >? g); [eexists; reflexivity|]. destruct (g >? e); eexists; reflexivity. }
  destruct (negb (str_eqb h1 (s "IsPreprocessorStatement")) && v_scope_global v && v_include_allowed v);
    (destruct (truthy (checkl toks _ _) && (v_scope_indent _ >? 0)); [|apply Tail]);
    (destruct (is_true _); [apply Tail|]);
    match goal with |- context [for_each ?ll ?f ?st] =>
      let R := fresh "R" in let Hb := fresh "Hb" in
      assert (Hb : forall x st0, exists r, f x st0 = Ok r)
        by (intros x [[[e g] E] v1]; destruct (_ || _ || _); [eexists; reflexivity|]; destruct (negb _); eexists; reflexivity);
      destruct (for_each_total f Hb ll st) as [[[[e g] E] v1] R]; rewrite R
    end; cbn [bind]; apply Tail.
Qed.

(* ================================================================== skip_nest and the parameter counter *)
Lemma peek_some_lt0 toks i t : 0 <= i -> peek toks i = Some t -> i < zlen toks.
Proof. apply peek_some_lt. Qed.

(* Context.skip_nest never runs out of fuel, never raises anything but CParsingError, and never moves backwards *)
Definition nest_ok (r : outcome Z) (pos : Z) : Prop := (exists j, r = Ok j /\ pos <= j) \/ (exists m, r = Fatal m).

Lemma skip_nest_fuel toks : forall fuel,
  (forall pos, 0 <= pos -> 2 * (zlen toks - pos) <= Z.of_nat fuel -> 1 <= Z.of_nat fuel -> nest_ok (skip_nest_f fuel toks pos) pos) /\
  (forall c i, 0 <= i -> 2 * (zlen toks - i) + 1 <= Z.of_nat fuel -> 1 <= Z.of_nat fuel -> nest_ok (nest_scan_f fuel toks c i) i).
Proof.
  induction fuel as [|f [IHs IHn]]; [split; intros; lia|]. split.
  - intros pos Hp Hf _. cbn [skip_nest_f]. destruct (peek toks pos) as [t|] eqn:E; [|right; eexists; reflexivity].
    pose proof (peek_some_lt0 toks pos t Hp E). destruct (closer_of (t_type t)) as [c|]; [|left; eexists; split; [reflexivity|lia]].
    destruct (IHn c (pos + 1)) as [[j [R Hj]]|[m R]]; try lia; rewrite R; [left; eexists; split; [reflexivity|lia]|right; eexists; reflexivity].
  - intros c i Hi Hf _. cbn [nest_scan_f]. destruct (peek toks i) as [t|] eqn:E; [|right; eexists; reflexivity].
    pose proof (peek_some_lt0 toks i t Hi E).
    destruct (str_in (t_type t) nest_openers).
    + destruct (IHs i) as [[j [R Hj]]|[m R]]; try lia; rewrite R; [|right; eexists; reflexivity].
      destruct (IHn c (j + 1)) as [[j2 [R2 Hj2]]|[m R2]]; try lia; rewrite R2; [left; eexists; split; [reflexivity|lia]|right; eexists; reflexivity].
    + destruct (str_in (t_type t) nest_closers && str_eqb c (t_type t)); [left; eexists; split; [reflexivity|lia]|].
      destruct (IHn c (i + 1)) as [[j [R Hj]]|[m R]]; try lia; rewrite R; [left; eexists; split; [reflexivity|lia]|right; eexists; reflexivity].
Qed.

Theorem skip_nest_total : forall toks pos, 0 <= pos -> nest_ok (skip_nest toks pos) pos.
Proof.
  intros toks pos Hp. unfold skip_nest. apply (proj1 (skip_nest_fuel toks (loop_fuel toks))); [exact Hp| |];
    unfold loop_fuel, zlen; lia.
Qed.

(* the parameter loop of CheckFuncDeclaration: never out of fuel; it ends normally or with skip_nest's CParsingError *)
Lemma args_loop_total toks scope : forall fuel arg i deep E v, 0 <= i -> Z.max 0 (zlen toks - i) < Z.of_nat fuel ->
  (exists r, check_func_decl_args_loop1 fuel toks scope arg i deep E v = Ok r) \/
  (exists m, check_func_decl_args_loop1 fuel toks scope arg i deep E v = Fatal m).
Proof.
  induction fuel as [|f IH]; intros arg i deep E v Hi Hf; [lia|].
  cbn [check_func_decl_args_loop1]. cbv zeta.
  destruct ((deep >? 0) && negb (is_none (peek toks i))) eqn:C; [|left; eexists; reflexivity].
  apply andb_true_iff in C as [_ C]. destruct (peek toks i) as [t|] eqn:P; [|discriminate].
  pose proof (peek_some_lt0 toks i t Hi P).
  destruct (truthy (check1 toks i (s "LPARENTHESIS"))).
  - destruct (skip_nest_total toks i Hi) as [[j [R Hj]]|[m R]]; rewrite R; cbn [bind]; [apply IH; lia|right; eexists; reflexivity].
  - destruct (truthy (check1 toks i (s "RPARENTHESIS"))); [apply IH; lia|].
    destruct (truthy (check1 toks i (s "COMMA"))); apply IH; lia.
Qed.

(* the whole counting slice: a result, CParsingError (parenthesis never closed), or AttributeError - the latter only from
   new_error on a missing token.  The proof script does not depend on which token expression the TOO_MANY_ARGS call passes
   (`peek_token(i)` before the repair, `peek_token(i) or peek_token(i - 1)` after it). *)
Definition outcome3 {A} (r : outcome A) : Prop :=
  (exists a, r = Ok a) \/ (exists m, r = Fatal m) \/ r = Crash AttributeError.
Lemma outcome3_bind {A B} (x : outcome A) (f : A -> outcome B) :
  (exists a, x = Ok a) \/ (exists m, x = Fatal m) -> (forall a, outcome3 (f a)) -> outcome3 (bind x f).
Proof. intros [[a ->]|[m ->]] H; cbn [bind]; [apply H | right; left; eexists; reflexivity]. Qed.

Theorem check_func_decl_args_outcomes : forall toks scope fname_pos v, -1 <= fname_pos ->
  (exists r, check_func_decl_args toks scope fname_pos v = Ok r) \/
  (exists m, check_func_decl_args toks scope fname_pos v = Fatal m) \/
  check_func_decl_args toks scope fname_pos v = Crash AttributeError.
Proof.
  intros toks scope fname_pos v Hp. change (outcome3 (check_func_decl_args toks scope fname_pos v)).
  unfold check_func_decl_args. cbv zeta.
  set (i0 := skip_while toks (fun x_i => is_true (checkl toks x_i [s "RPARENTHESIS"])) (fname_pos + 1)).
  assert (H0 : fname_pos + 1 <= i0) by apply skip_while_f_ge.
  pose proof (skip_while_f_ge (loop_fuel toks) (fun i => truthy (checkl toks i ws_no_nl)) i0) as H1.
  fold (skip_while toks (fun i => truthy (checkl toks i ws_no_nl)) i0) in H1. fold (skip_ws toks i0) in H1.
  assert (Loop : forall E, (exists r, check_func_decl_args_loop1 (loop_fuel toks) toks scope 1 (skip_ws toks i0 + 1) 1 E v = Ok r) \/
                           (exists m, check_func_decl_args_loop1 (loop_fuel toks) toks scope 1 (skip_ws toks i0 + 1) 1 E v = Fatal m)).
  { intros E. apply args_loop_total; [lia | unfold loop_fuel, zlen; lia]. }
  assert (Tail : forall (f : Z * Z * Z * list em * view -> outcome (Z * Z * list em)) E,
            (forall st, outcome3 (f st)) ->
            outcome3 (bind (check_func_decl_args_loop1 (loop_fuel toks) toks scope 1 (skip_ws toks i0 + 1) 1 E v) f)).
  { intros f E Hf. apply outcome3_bind; [apply Loop | exact Hf]. }
  assert (Last : forall st : Z * Z * Z * list em * view, outcome3 (let '(x_arg, x_i, x_deep, E, v) := st in
            if x_arg >? 4 then bind (emit (s "TOO_MANY_ARGS") (peek toks x_i) E) (fun E => Ok (x_arg, x_i, E)) else Ok (x_arg, x_i, E)) /\
          outcome3 (let '(x_arg, x_i, x_deep, E, v) := st in
            if x_arg >? 4 then bind (emit (s "TOO_MANY_ARGS") (or_tok (peek toks x_i) (peek toks (x_i - 1))) E) (fun E => Ok (x_arg, x_i, E)) else Ok (x_arg, x_i, E))).
  { intros [[[[a i1] d] E1] v1]. split; (destruct (a >? 4); [|left; eexists; reflexivity]).
    - destruct (peek toks i1); cbn [emit bind]; [left; eexists; reflexivity | right; right; reflexivity].
    - destruct (or_tok (peek toks i1) (peek toks (i1 - 1))); cbn [emit bind]; [left; eexists; reflexivity | right; right; reflexivity]. }
  destruct (is_false (check1 toks i0 (s "LPARENTHESIS"))).
  - destruct (peek toks i0); cbn [emit bind]; [|right; right; reflexivity].
    apply Tail. intros st. first [exact (proj1 (Last st)) | exact (proj2 (Last st))].
  - apply Tail. intros st. first [exact (proj1 (Last st)) | exact (proj2 (Last st))].
Qed.

(* ---- after the repair of the TOO_MANY_ARGS call (`peek_token(i) or peek_token(i - 1)`): no AttributeError is left.
   skip_nest returns a position inside the tokens; the parameter loop either does not move at all or ends at most one past the
   last token; more than one counted parameter means that it moved, so the token before its end exists; and EXP_PARENTHESIS
   is only emitted on an existing token (check_token(...) is False needs one). *)
Definition nest_ok2 (toks : list token) (r : outcome Z) (pos : Z) : Prop :=
  (exists j, r = Ok j /\ pos <= j < zlen toks) \/ (exists m, r = Fatal m).
Lemma skip_nest_fuel2 toks : forall fuel,
  (forall pos, 0 <= pos -> 2 * (zlen toks - pos) <= Z.of_nat fuel -> 1 <= Z.of_nat fuel -> nest_ok2 toks (skip_nest_f fuel toks pos) pos) /\
  (forall c i, 0 <= i -> 2 * (zlen toks - i) + 1 <= Z.of_nat fuel -> 1 <= Z.of_nat fuel -> nest_ok2 toks (nest_scan_f fuel toks c i) i).
Proof.
  induction fuel as [|f [IHs IHn]]; [split; intros; lia|]. split.
  - intros pos Hp Hf _. cbn [skip_nest_f]. destruct (peek toks pos) as [t|] eqn:E; [|right; eexists; reflexivity].
    pose proof (peek_some_lt0 toks pos t Hp E). destruct (closer_of (t_type t)) as [c|]; [|left; eexists; split; [reflexivity|lia]].
    destruct (IHn c (pos + 1)) as [[j [R Hj]]|[m R]]; try lia; rewrite R; [left; eexists; split; [reflexivity|lia]|right; eexists; reflexivity].
  - intros c i Hi Hf _. cbn [nest_scan_f]. destruct (peek toks i) as [t|] eqn:E; [|right; eexists; reflexivity].
    pose proof (peek_some_lt0 toks i t Hi E).
    destruct (str_in (t_type t) nest_openers).
    + destruct (IHs i) as [[j [R Hj]]|[m R]]; try lia; rewrite R; [|right; eexists; reflexivity].
      destruct (IHn c (j + 1)) as [[j2 [R2 Hj2]]|[m R2]]; try lia; rewrite R2; [left; eexists; split; [reflexivity|lia]|right; eexists; reflexivity].
    + destruct (str_in (t_type t) nest_closers && str_eqb c (t_type t)); [left; eexists; split; [reflexivity|lia]|].
      destruct (IHn c (i + 1)) as [[j [R Hj]]|[m R]]; try lia; rewrite R; [left; eexists; split; [reflexivity|lia]|right; eexists; reflexivity].
Qed.
Lemma skip_nest_total2 : forall toks pos, 0 <= pos -> nest_ok2 toks (skip_nest toks pos) pos.
Proof.
  intros toks pos Hp. unfold skip_nest. apply (proj1 (skip_nest_fuel2 toks (loop_fuel toks))); [exact Hp| |];
    unfold loop_fuel, zlen; lia.
Qed.

Lemma args_loop_total2 toks scope : forall fuel arg i deep E v, 0 <= i -> Z.max 0 (zlen toks - i) < Z.of_nat fuel ->
  (exists a i1 d E1 v1, check_func_decl_args_loop1 fuel toks scope arg i deep E v = Ok (a, i1, d, E1, v1) /\
        ((a = arg /\ i1 = i) \/ 1 <= i1 <= zlen toks)) \/
  (exists m, check_func_decl_args_loop1 fuel toks scope arg i deep E v = Fatal m).
Proof.
  induction fuel as [|f IH]; intros arg i deep E v Hi Hf; [lia|].
  cbn [check_func_decl_args_loop1]. cbv zeta.
  destruct ((deep >? 0) && negb (is_none (peek toks i))) eqn:C;
    [|left; do 5 eexists; split; [reflexivity|left; split; reflexivity]].
  apply andb_true_iff in C as [_ C]. destruct (peek toks i) as [t|] eqn:P; [|discriminate].
  pose proof (peek_some_lt0 toks i t Hi P).
  assert (Step : forall arg' i' deep', i <= i' < zlen toks ->
     (exists a i1 d E1 v1, check_func_decl_args_loop1 f toks scope arg' (i' + 1) deep' E v = Ok (a, i1, d, E1, v1) /\
        ((a = arg /\ i1 = i) \/ 1 <= i1 <= zlen toks)) \/
     (exists m, check_func_decl_args_loop1 f toks scope arg' (i' + 1) deep' E v = Fatal m)).
  { intros arg' i' deep' Hi'. destruct (IH arg' (i' + 1) deep' E v) as [[a [i1 [d [E1 [v1 [R Q]]]]]]|[m R]]; try lia.
    - left. exists a, i1, d, E1, v1. split; [exact R|]. right. destruct Q as [[_ ->]|Q]; lia.
    - right. exists m. exact R. }
  destruct (truthy (check1 toks i (s "LPARENTHESIS"))).
  - destruct (skip_nest_total2 toks i Hi) as [[j [R Hj]]|[m R]]; rewrite R; cbn [bind]; [apply Step; lia|right; eexists; reflexivity].
  - destruct (truthy (check1 toks i (s "RPARENTHESIS"))); [apply Step; lia|].
    destruct (truthy (check1 toks i (s "COMMA"))); apply Step; lia.
Qed.

Lemma peek_in_range toks k : 0 <= k < zlen toks -> exists t, peek toks k = Some t.
Proof.
  intros H. unfold peek, py_nth. cbv zeta.
  assert (A : (0 <=? k) && (k <? zlen toks) = true) by (apply andb_true_iff; split; [apply Z.leb_le | apply Z.ltb_lt]; lia).
  rewrite A. destruct (nth_error toks (Z.to_nat k)) as [t|] eqn:N; [exists t; reflexivity|].
  apply nth_error_None in N. unfold zlen in H. lia.
Qed.

(* with the repaired call: a result or CParsingError, nothing else *)
Theorem check_func_decl_args_total : forall toks scope fname_pos v, -1 <= fname_pos ->
  (exists r, check_func_decl_args toks scope fname_pos v = Ok r) \/
  (exists m, check_func_decl_args toks scope fname_pos v = Fatal m).
Proof.
  intros toks scope fname_pos v Hp. unfold check_func_decl_args. cbv zeta.
  set (i0 := skip_while toks (fun x_i => is_true (checkl toks x_i [s "RPARENTHESIS"])) (fname_pos + 1)).
  assert (H0 : fname_pos + 1 <= i0) by apply skip_while_f_ge.
  pose proof (skip_while_f_ge (loop_fuel toks) (fun i => truthy (checkl toks i ws_no_nl)) i0) as H1.
  fold (skip_while toks (fun i => truthy (checkl toks i ws_no_nl)) i0) in H1. fold (skip_ws toks i0) in H1.
  assert (Tail : forall E,
     (exists r, bind (check_func_decl_args_loop1 (loop_fuel toks) toks scope 1 (skip_ws toks i0 + 1) 1 E v)
        (fun st => let '(x_arg, x_i, x_deep, E, v) := st in
           if x_arg >? 4 then bind (emit (s "TOO_MANY_ARGS") (or_tok (peek toks x_i) (peek toks (x_i - 1))) E) (fun E => Ok (x_arg, x_i, E))
           else Ok (x_arg, x_i, E)) = Ok r) \/
     (exists m, bind (check_func_decl_args_loop1 (loop_fuel toks) toks scope 1 (skip_ws toks i0 + 1) 1 E v)
        (fun st => let '(x_arg, x_i, x_deep, E, v) := st in
           if x_arg >? 4 then bind (emit (s "TOO_MANY_ARGS") (or_tok (peek toks x_i) (peek toks (x_i - 1))) E) (fun E => Ok (x_arg, x_i, E))
           else Ok (x_arg, x_i, E)) = Fatal m)).
  { intros E. destruct (args_loop_total2 toks scope (loop_fuel toks) 1 (skip_ws toks i0 + 1) 1 E v) as [[a [i1 [d [E1 [v1 [R Q]]]]]]|[m R]];
      [lia | unfold loop_fuel, zlen; lia | |].
    - rewrite R. cbn [bind]. destruct (a >? 4) eqn:A; [|left; eexists; reflexivity].
      destruct Q as [[-> _]|Q]; [discriminate|].
      destruct (peek_in_range toks (i1 - 1)) as [t P]; [lia|]. rewrite P.
      destruct (peek toks i1); cbn [or_tok emit bind]; left; eexists; reflexivity.
    - rewrite R. right. eexists. reflexivity. }
  destruct (is_false (check1 toks i0 (s "LPARENTHESIS"))) eqn:F; [|apply Tail].
  unfold check1 in F. destruct (peek toks i0); [|discriminate]. cbn [emit bind]. apply Tail.
Qed.

(* ================================================================== the scope operations *)
(* the scope operations never get stuck: the chain always ends in a scope that is no ControlStructure (the GlobalScope), so
   Context.update never pops the last scope, and its recursion depth is at most the length of the chain *)
Definition not_control (g : sc) : Prop := is_class "ControlStructure" g = false.
Definition wf_chain (c : list sc) : Prop := exists r g, c = r ++ [g] /\ not_control g.

Lemma wf_cons h c : wf_chain c -> wf_chain (h :: c).
Proof. intros [r [g [-> H]]]. exists (h :: r), g. split; [reflexivity|exact H]. Qed.
Lemma wf_nonempty c : wf_chain c -> c <> [].
Proof. intros [r [g [-> _]]]. destruct r; discriminate. Qed.
Lemma wf_single h : wf_chain [h] -> not_control h.
Proof. intros [r [g [E H]]]. destruct r as [|x r]; [inversion E; subst; exact H|]. destruct r; discriminate. Qed.
Lemma wf_tail h p r : wf_chain (h :: p :: r) -> wf_chain (p :: r).
Proof.
  intros [l [g [E H]]]. destruct l as [|x l]; [discriminate|]. inversion E; subst. exists l, g. split; [assumption|exact H].
Qed.
(* replacing a scope by one of the same class *)
Lemma wf_replace_head h h' c : s_kind h' = s_kind h -> wf_chain (h :: c) -> wf_chain (h' :: c).
Proof.
  intros K [l [g [E H]]]. destruct l as [|x l].
  - inversion E; subst. exists [], h'. split; [reflexivity|]. unfold not_control, is_class in *. now rewrite K.
  - inversion E; subst. exists (h' :: l), g. split; [reflexivity|exact H].
Qed.
Lemma wf_replace_second h p p' c : s_kind p' = s_kind p -> wf_chain (h :: p :: c) -> wf_chain (h :: p' :: c).
Proof. intros K H. apply wf_cons. apply (wf_replace_head p p' c K). eapply wf_tail. exact H. Qed.

Lemma update_total : forall fuel hist chain, wf_chain chain -> (List.length chain <= fuel)%nat ->
  exists c', ctx_update fuel hist chain None = Some (c', None) /\ wf_chain c'.
Proof.
  induction fuel as [|f IH]; intros hist chain Hw Hf.
  - destruct chain; [exfalso; eapply wf_nonempty; eauto|cbn in Hf; lia].
  - cbn [ctx_update]. destruct (match hist with h :: _ => str_in h update_skipped | [] => false end); [eexists; split; [reflexivity|exact Hw]|].
    destruct chain as [|h [|p r]].
    + exfalso. eapply wf_nonempty; eauto.
    + pose proof (wf_single h Hw) as Hn. unfold not_control in Hn. rewrite Hn. cbn [andb]. eexists. split; [reflexivity|exact Hw].
    + destruct (is_class "ControlStructure" h && negb (s_multi h) && (s_instr h >? 0)); [|eexists; split; [reflexivity|exact Hw]].
      apply IH.
      * apply (wf_replace_head p (scope_outer h p) r); [reflexivity|]. eapply wf_tail. exact Hw.
      * cbn [Datatypes.length] in *. lia.
Qed.

Definition after_sub (chain : list sc) (sub : option subref) : list sc :=
  match sub with Some r => apply_sub chain r | None => chain end.

Lemma update_any : forall n hist chain sub, wf_chain chain -> wf_chain (after_sub chain sub) ->
  (List.length (after_sub chain sub) <= S n)%nat ->
  exists c' s', ctx_update (S n) hist chain sub = Some (c', s') /\ wf_chain c'.
Proof.
  intros n hist chain sub Hw Hw2 Hf. cbn [ctx_update].
  destruct (match hist with h :: _ => str_in h update_skipped | [] => false end); [do 2 eexists; split; [reflexivity|exact Hw]|].
  assert (E : (let '(chain0, sub0) := match sub with Some r => (apply_sub chain r, None) | None => (chain, sub) end in
               match chain0 with
               | [] => None
               | [h] => if is_class "ControlStructure" h && negb (s_multi h) && (s_instr h >? 0) then None else Some (chain0, sub0)
               | h :: (p :: r) as l =>
                   if is_class "ControlStructure" h && negb (s_multi h) && (s_instr h >? 0)
                   then ctx_update n hist (scope_outer h p :: r) None else Some (chain0, sub0)
               end)
              = match after_sub chain sub with
                | [] => None
                | [h] => if is_class "ControlStructure" h && negb (s_multi h) && (s_instr h >? 0) then None else Some ([h], None)
                | h :: p :: r => if is_class "ControlStructure" h && negb (s_multi h) && (s_instr h >? 0)
                                 then ctx_update n hist (scope_outer h p :: r) None else Some (h :: p :: r, None)
                end).
  { unfold after_sub. destruct sub as [r|]; [destruct (apply_sub chain r) as [|h [|p r0]]|destruct chain as [|h [|p r0]]]; reflexivity. }
  match goal with |- exists c' s', ?X = _ /\ _ => replace X with (match after_sub chain sub with
                | [] => None
                | [h] => if is_class "ControlStructure" h && negb (s_multi h) && (s_instr h >? 0) then None else Some ([h], None)
                | h :: p :: r => if is_class "ControlStructure" h && negb (s_multi h) && (s_instr h >? 0)
                                 then ctx_update n hist (scope_outer h p :: r) None else Some (h :: p :: r, None)
                end) end.
  destruct (after_sub chain sub) as [|h [|p r]] eqn:A.
  - exfalso. eapply wf_nonempty; eauto.
  - pose proof (wf_single h Hw2) as Hn. unfold not_control in Hn. rewrite Hn. cbn [andb]. do 2 eexists. split; [reflexivity|exact Hw2].
  - destruct (is_class "ControlStructure" h && negb (s_multi h) && (s_instr h >? 0)); [|do 2 eexists; split; [reflexivity|exact Hw2]].
    destruct (update_total n hist (scope_outer h p :: r)) as [c' [R W]].
    + apply (wf_replace_head p (scope_outer h p) r); [reflexivity|]. eapply wf_tail. exact Hw2.
    + cbn [Datatypes.length] in *. lia.
    + exists c', None. split; [exact R|exact W].
Qed.

(* the trace is consistent with the source: an opening primary hands inner() a class it really has a site for *)
Definition opens_ok (x : stmt) : Prop :=
  forall cls, st_opens x = Some cls -> inner_multi (st_rule x) cls <> None.

(* one turn of the registry loop on a MATCH never gets stuck in the scope bookkeeping: no missing parent is dereferenced, the
   recursion of Context.update is bounded by the depth of the chain *)
Theorem step_total : forall q x, wf_chain (chain q) -> opens_ok x -> exists q', step q x = Some q' /\ wf_chain (chain q').
Proof.
  intros q x Hw Ho. unfold step, primary_effect.
  destruct (chain q) as [|h rest] eqn:Hc; [exfalso; eapply wf_nonempty; eauto|].
  (* what the primary leaves: a chain of the same scopes (same classes) and a sub *)
  assert (Fin : forall h2 rest2 sub, wf_chain (h2 :: rest2) -> wf_chain (after_sub (add_instr h2 1 :: rest2) sub) ->
            (forall l, wf_chain (after_sub (mksc (s_kind h2) l (s_instr h2 + 1) (s_multi h2) :: rest2) sub)) ->
            (List.length (after_sub (h2 :: rest2) sub) <= S (S (List.length rest2)))%nat ->
            exists q', (let h0 := add_instr h2 1 in
                        let hist' := st_rule x :: hist q in
                        let e1 := if is_brace_rule (st_rule x) then brace_line_test (s_kind h0) (s_lines h0) else [] in
                        let '(l, e2) := line_count_run (str_eqb (s_kind h0) k_global) (parent_rule hist') (s_lines h0) (st_nl x) in
                        let h1 := mksc (s_kind h0) l (s_instr h0) (s_multi h0) in
                        match ctx_update (S (S (List.length rest2))) hist' (h1 :: rest2) sub with
                        | Some (c, _) => Some (mkstate c hist' (e2 ++ e1 ++ ems q))
                        | None => None
                        end) = Some q' /\ wf_chain (chain q')).
  { intros h2 rest2 sub W1 W2 W3 L. cbv zeta. destruct (line_count_run _ _ _ _) as [l e2].
    destruct (update_any (S (List.length rest2)) (st_rule x :: hist q) (mksc (s_kind (add_instr h2 1)) l (s_instr (add_instr h2 1)) (s_multi (add_instr h2 1)) :: rest2) sub)
      as [c' [s' [R W]]].
    - apply (wf_replace_head h2); [reflexivity|exact W1].
    - apply W3.
    - destruct sub as [[c|]|]; cbn [after_sub apply_sub tl Datatypes.length] in *; lia.
    - rewrite R. eexists. split; [reflexivity|exact W]. }
  assert (Same : forall h2, s_kind h2 = s_kind h -> wf_chain (h2 :: rest)) by (intros h2 K; apply (wf_replace_head h h2 rest K); exact Hw).
  destruct (str_eqb (st_rule x) r_block_start).
  - destruct (block_start_scan (hist q) (s_lines h)) as [|cls|].
    + cbv beta iota; apply (Fin h rest None); [apply Same; reflexivity|apply Same; reflexivity|intros l; apply Same; reflexivity|cbn; lia].
    + cbv beta iota; apply (Fin h rest (Some (SubChild (new_scope cls true)))); [apply Same; reflexivity|apply wf_cons, Same; reflexivity|intros l; apply wf_cons, Same; reflexivity|cbn; lia].
    + cbv beta iota; apply (Fin (set_multi h true) rest None); [apply Same; reflexivity|apply Same; reflexivity|intros l; apply Same; reflexivity|cbn; lia].
  - destruct (str_eqb (st_rule x) r_block_end).
    + destruct (block_end_effect (str_eqb (s_kind h) k_control)) as [leave|] eqn:Be.
      * destruct rest as [|p r].
        -- cbv beta iota; apply (Fin h [] None); [apply Same; reflexivity|apply Same; reflexivity|intros l; apply Same; reflexivity|cbn; lia].
        -- (* the parent object handed over by outer()/get_outer() is the parent, possibly credited *)
           assert (Kl : s_kind (leave h p) = s_kind p).
           { unfold block_end_effect in Be. destruct (negb _); [|discriminate]. inversion Be; subst. reflexivity. }
           assert (Wp : wf_chain (leave h p :: r)).
           { apply (wf_replace_head p (leave h p) r Kl). apply (wf_tail h). exact Hw. }
           cbv beta iota; apply (Fin h (leave h p :: r) (Some SubParent)); [apply wf_cons; exact Wp|exact Wp|intros l; exact Wp|cbn; lia].
      * cbv beta iota; apply (Fin (set_multi h false) rest None); [apply Same; reflexivity|apply Same; reflexivity|intros l; apply Same; reflexivity|cbn; lia].
    + destruct (st_opens x) as [cls|] eqn:So.
      * destruct (inner_multi (st_rule x) cls) as [m|] eqn:Im; [|exfalso; apply (Ho cls So); exact Im].
        cbv beta iota; apply (Fin h rest (Some (SubChild (new_scope cls m)))); [apply Same; reflexivity|apply wf_cons, Same; reflexivity|intros l; apply wf_cons, Same; reflexivity|cbn; lia].
      * cbv beta iota; apply (Fin h rest None); [apply Same; reflexivity|apply Same; reflexivity|intros l; apply Same; reflexivity|cbn; lia].
Qed.
