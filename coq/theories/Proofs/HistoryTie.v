(* C19: the REVIEWED list of every use of the statement history (context.history / get_parent_rule) in the
   analysed path, pinned to the table regenerated from the source on every run (Gen/HistoryReads.v).
   A new look-back, a changed distance or a changed filter breaks `history_reads_tie`: it must be reviewed for
   what C19 searches - that statements put in front of / between top-level definitions are only seen through
   these expressions.
   Review (pinned tree):
   * relative look-backs `history[-1]`, `history[-2]`, `history[-i]` with filters that skip IsComment / IsEmptyLine /
     IsPreprocessorStatement: the adjacency rules (CheckEmptyLine, CheckFuncDeclaration, CheckVariableDeclaration,
     CheckLineIndent, CheckSpacing ...) - a comment line inserted between two ADJACENT lines changes what they see:
     finding C19-adjacent-lines;
   * absolute positions in the file: `len(context.history) == 1` in CheckEmptyLine (EMPTY_LINE_FILE_START: finding
     C19-empty-first-line), `len(context.history) > 2` in CheckBlockStart (guards a scan, no diagnostic of its own),
     `len(self.history) == 0/1` in get_parent_rule (used by CheckLineCount only with names that no rule has);
   * whole-history scans: CheckBlockStart, CheckComment.is_inside_a_function, IsBlockStart (nearest enclosing
     construct), CheckPreprocessorInclude / CheckPreprocessorProtection (everything before must be comments, empty
     lines or preprocessor lines: comments are in their `headers` filter);
   * CheckHeader: modelled and proved (Proofs/HeaderProofs.v). *)
From NV Require Import Model.Base Gen.HistoryReads.

Definition reviewed_history_reads : list (string * string * string) :=
  [("norminette/context.py"%string, "Context.__init__"%string, "self.history = []"%string);
   ("norminette/context.py"%string, "Context.get_parent_rule"%string, "len(self.history) == 0"%string);
   ("norminette/context.py"%string, "Context.get_parent_rule"%string, "len(self.history) == 1"%string);
   ("norminette/context.py"%string, "Context.get_parent_rule"%string, "self.history[-1 if len(self.history) == 1 else -2]"%string);
   ("norminette/context.py"%string, "Context.is_operator"%string, "self.history[-1] == 'IsFuncDeclaration'"%string);
   ("norminette/context.py"%string, "Context.is_operator"%string, "self.history[-1] == 'IsFuncPrototype'"%string);
   ("norminette/context.py"%string, "Context.is_operator"%string, "self.history[-1] == 'IsVarDeclaration'"%string);
   ("norminette/context.py"%string, "Context.update"%string, "len(self.history) > 0"%string);
   ("norminette/context.py"%string, "Context.update"%string, "self.history[-1] == 'IsComment'"%string);
   ("norminette/context.py"%string, "Context.update"%string, "self.history[-1] == 'IsEmptyLine'"%string);
   ("norminette/context.py"%string, "Context.update"%string, "self.history[-1] == 'IsPreprocessorStatement'"%string);
   ("norminette/registry.py"%string, "Registry.run_rules"%string, "context.history.append(rule)"%string);
   ("norminette/rules/check_assignation_indent.py"%string, "CheckAssignationIndent.run"%string, "context.history[-1] == 'IsFuncPrototype'"%string);
   ("norminette/rules/check_assignation_indent.py"%string, "CheckAssignationIndent.run"%string, "context.history[-1] in ['IsAssignation', 'IsVarDeclaration']"%string);
   ("norminette/rules/check_assignation_indent.py"%string, "CheckAssignationIndent.run"%string, "context.history[-1] in ['IsAssignation', 'IsVarDeclaration']"%string);
   ("norminette/rules/check_assignation_indent.py"%string, "CheckAssignationIndent.run"%string, "context.history[-1] in ['IsAssignation', 'IsVarDeclaration']"%string);
   ("norminette/rules/check_block_start.py"%string, "CheckBlockStart.run"%string, "for ... in context.history[:]"%string);
   ("norminette/rules/check_block_start.py"%string, "CheckBlockStart.run"%string, "len(context.history) > 2"%string);
   ("norminette/rules/check_comment.py"%string, "CheckComment.is_inside_a_function"%string, "context.history[-2:] == ['IsFuncDeclaration', 'IsBlockStart']"%string);
   ("norminette/rules/check_comment.py"%string, "CheckComment.is_inside_a_function"%string, "for ... in enumerate(reversed(context.history))"%string);
   ("norminette/rules/check_comment.py"%string, "CheckComment.is_inside_a_function"%string, "record = context.history[-index]"%string);
   ("norminette/rules/check_empty_line.py"%string, "CheckEmptyLine.run"%string, "context.history[-1] != 'IsComment'"%string);
   ("norminette/rules/check_empty_line.py"%string, "CheckEmptyLine.run"%string, "context.history[-1] != 'IsEmptyLine'"%string);
   ("norminette/rules/check_empty_line.py"%string, "CheckEmptyLine.run"%string, "context.history[-1] != 'IsEmptyLine'"%string);
   ("norminette/rules/check_empty_line.py"%string, "CheckEmptyLine.run"%string, "context.history[-1] != 'IsPreprocessorStatement'"%string);
   ("norminette/rules/check_empty_line.py"%string, "CheckEmptyLine.run"%string, "context.history[-1] != 'IsVarDeclaration'"%string);
   ("norminette/rules/check_empty_line.py"%string, "CheckEmptyLine.run"%string, "context.history[-1] == 'IsBlockEnd'"%string);
   ("norminette/rules/check_empty_line.py"%string, "CheckEmptyLine.run"%string, "context.history[-1] == 'IsEmptyLine'"%string);
   ("norminette/rules/check_empty_line.py"%string, "CheckEmptyLine.run"%string, "context.history[-1] not in ['IsEmptyLine', 'IsComment']"%string);
   ("norminette/rules/check_empty_line.py"%string, "CheckEmptyLine.run"%string, "context.history[-2] != 'IsVarDeclaration'"%string);
   ("norminette/rules/check_empty_line.py"%string, "CheckEmptyLine.run"%string, "context.history[-2] == 'IsEmptyLine'"%string);
   ("norminette/rules/check_empty_line.py"%string, "CheckEmptyLine.run"%string, "context.history[-2] == 'IsPreprocessorStatement'"%string);
   ("norminette/rules/check_empty_line.py"%string, "CheckEmptyLine.run"%string, "len(context.history) == 1"%string);
   ("norminette/rules/check_empty_line.py"%string, "CheckEmptyLine.run"%string, "len(context.history) > 1"%string);
   ("norminette/rules/check_func_declaration.py"%string, "CheckFuncDeclaration.run"%string, "context.history[-1] == 'IsFuncDeclaration'"%string);
   ("norminette/rules/check_func_declaration.py"%string, "CheckFuncDeclaration.run"%string, "context.history[-1] == 'IsUserDefinedType'"%string);
   ("norminette/rules/check_func_declaration.py"%string, "CheckFuncDeclaration.run"%string, "context.history[-i] != 'IsEmptyLine'"%string);
   ("norminette/rules/check_func_declaration.py"%string, "CheckFuncDeclaration.run"%string, "context.history[-i] == 'IsComment'"%string);
   ("norminette/rules/check_func_declaration.py"%string, "CheckFuncDeclaration.run"%string, "context.history[-i] == 'IsFuncDeclaration'"%string);
   ("norminette/rules/check_func_declaration.py"%string, "CheckFuncDeclaration.run"%string, "context.history[-i] == 'IsPreprocessorStatement'"%string);
   ("norminette/rules/check_func_declaration.py"%string, "CheckFuncDeclaration.run"%string, "length = len(context.history)"%string);
   ("norminette/rules/check_header.py"%string, "CheckHeader.run"%string, "context.history[-1] != 'IsComment'"%string);
   ("norminette/rules/check_header.py"%string, "CheckHeader.run"%string, "context.history[-1] != 'IsComment'"%string);
   ("norminette/rules/check_header.py"%string, "CheckHeader.run"%string, "context.history[-1] == 'IsComment'"%string);
   ("norminette/rules/check_identifier_name.py"%string, "CheckIdentifierName.run"%string, "context.history[-1] == 'IsFuncDeclaration'"%string);
   ("norminette/rules/check_in_header.py"%string, "CheckInHeader.run"%string, "context.history[-1] not in allowed_in_header"%string);
   ("norminette/rules/check_line_count.py"%string, "CheckLineCount.run"%string, "context.get_parent_rule() == 'CheckBrace'"%string);
   ("norminette/rules/check_line_count.py"%string, "CheckLineCount.run"%string, "context.get_parent_rule() == 'CheckFuncDeclarations'"%string);
   ("norminette/rules/check_line_indent.py"%string, "CheckLineIndent.run"%string, "context.history[-1] != 'IsPreprocessorStatement'"%string);
   ("norminette/rules/check_line_indent.py"%string, "CheckLineIndent.run"%string, "context.history[-1] in ['IsEmptyLine', 'IsComment', 'IsPreprocessorStatement', 'IsVariableDeclaration']"%string);
   ("norminette/rules/check_line_indent.py"%string, "CheckLineIndent.run"%string, "hist = context.history[:len(context.history) - 1]"%string);
   ("norminette/rules/check_line_indent.py"%string, "CheckLineIndent.run"%string, "hist = context.history[:len(context.history) - 1]"%string);
   ("norminette/rules/check_nest_line_indent.py"%string, "CheckNestLineIndent.run"%string, "context.history[-1] == 'IsEmptyLine'"%string);
   ("norminette/rules/check_operators_spacing.py"%string, "CheckOperatorsSpacing.check_lnest"%string, "context.history[-1] == 'IsFuncDeclaration'"%string);
   ("norminette/rules/check_operators_spacing.py"%string, "CheckOperatorsSpacing.check_lnest"%string, "context.history[-1] == 'IsFuncPrototype'"%string);
   ("norminette/rules/check_operators_spacing.py"%string, "CheckOperatorsSpacing.check_rnest"%string, "context.history[-1] == 'IsFuncDeclaration'"%string);
   ("norminette/rules/check_operators_spacing.py"%string, "CheckOperatorsSpacing.check_rnest"%string, "context.history[-1] == 'IsFuncPrototype'"%string);
   ("norminette/rules/check_preprocessor_include.py"%string, "CheckPreprocessorInclude.is_in_start_of_file"%string, "history = itertools.filterfalse(lambda item: item in headers, context.history)"%string);
   ("norminette/rules/check_preprocessor_protection.py"%string, "CheckPreprocessorProtection.run"%string, "history = context.history[:-1]"%string);
   ("norminette/rules/check_spacing.py"%string, "CheckSpacing.run"%string, "context.history[-1] in ('IsEmptyLine', 'IsPreprocessorStatement')"%string);
   ("norminette/rules/check_variable_declaration.py"%string, "CheckVariableDeclaration.run"%string, "context.history[-2] != 'IsBlockStart'"%string);
   ("norminette/rules/check_variable_declaration.py"%string, "CheckVariableDeclaration.run"%string, "context.history[-2] != 'IsVarDeclaration'"%string);
   ("norminette/rules/is_block_start.py"%string, "IsBlockStart.run"%string, "for ... in reversed(context.history)"%string)].

Lemma history_reads_tie : history_reads = reviewed_history_reads.
Proof. reflexivity. Qed.
