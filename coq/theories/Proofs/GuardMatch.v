(* C14, file level: the oracle hypotheses O1 / O2 (and the one for the closing line) discharged.
   Gen/IsPreproc.ispreproc_run is IsPreprocessorStatement.run translated for the directives ifndef / define / endif.
   On the token lines `#ifndef X`, `# define X`, `#endif` it returns (True, 5) / (True, 6) / (True, 3) whatever follows;
   IsPreprocessorStatement is the first primary Registry.run tries and it applies at global scope, so the turn is decided
   (turn_g) before any other primary is asked: NOTHING is assumed about the untranslated primaries on these lines.
   turn_g refines Model/EngineTok.turn, so an oracle induced by turn_g is induced in the sense of C13. *)
From NV Require Import Model.Base Model.GuardBase Gen.Guard Model.Guard Model.GuardTok Proofs.GuardProofs Proofs.GuardTok.
From NV Require Import Model.Diag Model.Lexer Model.RuleChecks Model.EngineTok0 Model.Engine Model.RegistryOrder
  Gen.Registry Gen.IsComment Model.EngineTok Gen.IsPreproc Model.GuardTurn
  Model.HeaderRe Model.HeaderState Gen.HeaderRe Gen.HeaderSM Model.Header
  Proofs.LineShift Proofs.LineShiftCor Proofs.CommentLines Proofs.HeaderLex Proofs.HeaderTurns Proofs.GuardLex Proofs.GuardFile.
From Coq Require Import Lia.

Local Open Scope Z_scope.

Lemma corresponding_endif_pinned : corresponding_endif_fingerprint = "5269749532a226d76a85"%string
  /\ ispreproc_dispatched = [s "ifndef"; s "define"; s "endif"].
Proof. split; reflexivity. Qed.

(* ------------------------------------------------------------------ turn_g refines turn *)
Lemma prefix_agrees : forall toks r, ispreproc_prefix toks = Some r -> ispreproc_run toks = Some r.
Proof.
  intros toks r. unfold ispreproc_prefix, ispreproc_run. cbv zeta.
  destruct (negb (truthy (check1 toks (skip_ws toks 0) (s "HASH")))); [auto|discriminate].
Qed.

Lemma prim_run_refines : forall name toks r, prim_run name toks = Some r -> prim_run_g name toks = Some r.
Proof.
  intros name toks r. unfold prim_run_g, prim_run. fold PRE. destruct (str_eqb name PRE); [apply prefix_agrees|auto].
Qed.

Theorem turn_refines : forall order toks r, turn order toks = Some r -> turn_g order toks = Some r.
Proof.
  induction order as [|name order IH]; intros toks r H; [exact H|]. cbn [turn turn_g] in *.
  destruct (negb (applies_global name)); [apply IH; exact H|].
  destruct (prim_run name toks) as [[b j]|] eqn:E; [|discriminate].
  rewrite (prim_run_refines _ _ _ E). destruct b; [exact H|apply IH; exact H].
Qed.

Theorem induced_g_induced : forall oracle toks, induced_g oracle toks -> induced oracle toks.
Proof. intros oracle toks H k r Hne Ht. apply H; [exact Hne|apply turn_refines; exact Ht]. Qed.

(* IsPreprocessorStatement is asked first *)
Lemma turn_g_pre : forall toks j, ispreproc_run toks = Some (true, j) -> turn_g primaries_order toks = Some (Matched PRE j).
Proof.
  intros toks j H. destruct order_head as (r & ->). destruct applies_first_two as [A1 _].
  cbn [turn_g]. fold PRE in A1. fold PRE. rewrite A1. cbn [negb]. unfold prim_run_g. change (str_eqb PRE PRE) with true. cbv iota.
  rewrite H. reflexivity.
Qed.

(* ------------------------------------------------------------------ the matcher on the three lines *)
Lemma check1_at : forall ts rest k t ty, 0 <= k -> nth_error ts (Z.to_nat k) = Some t ->
  truthy (check1 (ts ++ rest) k ty) = str_eqb (t_type t) ty.
Proof. intros. unfold check1. rewrite (peek_pre ts rest k t) by assumption. destruct (str_eqb _ _); reflexivity. Qed.

Lemma checkl_at : forall ts rest k t tys, 0 <= k -> nth_error ts (Z.to_nat k) = Some t ->
  truthy (checkl (ts ++ rest) k tys) = str_in (t_type t) tys.
Proof. intros. unfold checkl. rewrite (peek_pre ts rest k t) by assumption. destruct (str_in _ _); reflexivity. Qed.

Ltac at_ ts rest k := first [rewrite (check1_at ts rest k _ _ ltac:(lia) eq_refl) | rewrite (checkl_at ts rest k _ _ ltac:(lia) eq_refl)].

Lemma skip_ws_stop_at : forall ts rest k t, 0 <= k -> nth_error ts (Z.to_nat k) = Some t -> str_in (t_type t) ws_no_nl = false ->
  skip_ws (ts ++ rest) k = k.
Proof. intros. unfold skip_ws. apply skip_stop. rewrite (checkl_at ts rest k t) by assumption. assumption. Qed.

Lemma skip_ws_one_at : forall ts rest k t t', 0 <= k -> nth_error ts (Z.to_nat k) = Some t -> nth_error ts (Z.to_nat (k + 1)) = Some t' ->
  str_in (t_type t) ws_no_nl = true -> str_in (t_type t') ws_no_nl = false -> skip_ws (ts ++ rest) k = k + 1.
Proof.
  intros. unfold skip_ws. apply skip_one; [rewrite (checkl_at ts rest k t) by assumption; assumption|].
  rewrite (checkl_at ts rest (k + 1) t') by (try assumption; lia). assumption.
Qed.

Lemma skip_ws_c_stop_at : forall ts rest k t, 0 <= k -> nth_error ts (Z.to_nat k) = Some t -> str_in (t_type t) ws_comment_types = false ->
  skip_ws_c (ts ++ rest) k = k.
Proof. intros. unfold skip_ws_c. apply skip_stop. rewrite (checkl_at ts rest k t) by assumption. assumption. Qed.

Theorem match_ifndef : forall l1 x rest, map tv l1 = ifndef_line x -> ispreproc_run (l1 ++ rest) = Some (true, 5).
Proof.
  intros l1 x rest H. unfold ifndef_line in H. line_tokens H.
  match goal with |- ispreproc_run (?L ++ rest) = _ => set (ts := L) end.
  unfold ispreproc_run. cbv zeta.
  rewrite (skip_ws_stop_at ts rest 0 _ ltac:(lia) eq_refl eq_refl). at_ ts rest 0. change (negb (str_eqb _ _)) with false. cbv iota.
  change (0 + 1) with 1.
  rewrite (skip_ws_stop_at ts rest 1 _ ltac:(lia) eq_refl eq_refl). at_ ts rest 1. change (str_eqb _ _) with false at 1. cbv iota.
  at_ ts rest 1. change (negb (str_in _ _)) with false. cbv iota.
  rewrite (peek_pre ts rest 1 _ ltac:(lia) eq_refl). cbn [otype ovalue t_type t_val].
  change (str_eqb (s "IDENTIFIER") (s "IDENTIFIER")) with true. cbv iota.
  change (py_lower (s "ifndef")) with (s "ifndef"). change (str_eqb (s "ifndef") (s "ifndef")) with true. cbv iota.
  change (1 + 1) with 2.
  rewrite (skip_ws_one_at ts rest 2 _ _ ltac:(lia) eq_refl eq_refl eq_refl eq_refl). change (2 + 1) with 3.
  unfold ips_check_ifndef, ips_just_identifier. at_ ts rest 3. change (negb (str_eqb _ _)) with false. cbv iota. cbv zeta.
  change (3 + 1) with 4. unfold ips_just_eol. cbv zeta.
  rewrite (skip_ws_c_stop_at ts rest 4 _ ltac:(lia) eq_refl eq_refl).
  rewrite (peek_pre ts rest 4 _ ltac:(lia) eq_refl). cbn [is_none]. at_ ts rest 4. reflexivity.
Qed.

Theorem match_define : forall l2 x rest, map tv l2 = define_line x -> ispreproc_run (l2 ++ rest) = Some (true, 6).
Proof.
  intros l2 x rest H. unfold define_line in H. line_tokens H.
  match goal with |- ispreproc_run (?L ++ rest) = _ => set (ts := L) end.
  unfold ispreproc_run. cbv zeta.
  rewrite (skip_ws_stop_at ts rest 0 _ ltac:(lia) eq_refl eq_refl). at_ ts rest 0. change (negb (str_eqb _ _)) with false. cbv iota.
  change (0 + 1) with 1.
  rewrite (skip_ws_one_at ts rest 1 _ _ ltac:(lia) eq_refl eq_refl eq_refl eq_refl). change (1 + 1) with 2.
  at_ ts rest 2. change (str_eqb _ _) with false at 1. cbv iota.
  at_ ts rest 2. change (negb (str_in _ _)) with false. cbv iota.
  rewrite (peek_pre ts rest 2 _ ltac:(lia) eq_refl). cbn [otype ovalue t_type t_val].
  change (str_eqb (s "IDENTIFIER") (s "IDENTIFIER")) with true. cbv iota.
  change (py_lower (s "define")) with (s "define"). change (str_eqb (s "define") (s "ifndef")) with false.
  change (str_eqb (s "define") (s "define")) with true. cbv iota.
  change (2 + 1) with 3.
  rewrite (skip_ws_one_at ts rest 3 _ _ ltac:(lia) eq_refl eq_refl eq_refl eq_refl). change (3 + 1) with 4.
  unfold ips_check_define. at_ ts rest 4. change (negb (str_eqb _ _)) with false. cbv iota. cbv zeta.
  change (4 + 1) with 5. at_ ts rest 5. change (str_eqb (s "NEWLINE") (s "LPARENTHESIS")) with false. cbv iota.
  rewrite (skip_ws_stop_at ts rest 5 _ ltac:(lia) eq_refl eq_refl).
  unfold ips_just_token_string. cbv zeta.
  rewrite (skip_ws_c_stop_at ts rest 5 _ ltac:(lia) eq_refl eq_refl). at_ ts rest 5. reflexivity.
Qed.

Theorem match_endif : forall l3 rest, map tv l3 = endif_line -> ispreproc_run (l3 ++ rest) = Some (true, 3).
Proof.
  intros l3 rest H. unfold endif_line in H. line_tokens H.
  match goal with |- ispreproc_run (?L ++ rest) = _ => set (ts := L) end.
  unfold ispreproc_run. cbv zeta.
  rewrite (skip_ws_stop_at ts rest 0 _ ltac:(lia) eq_refl eq_refl). at_ ts rest 0. change (negb (str_eqb _ _)) with false. cbv iota.
  change (0 + 1) with 1.
  rewrite (skip_ws_stop_at ts rest 1 _ ltac:(lia) eq_refl eq_refl). at_ ts rest 1. change (str_eqb _ _) with false at 1. cbv iota.
  at_ ts rest 1. change (negb (str_in _ _)) with false. cbv iota.
  rewrite (peek_pre ts rest 1 _ ltac:(lia) eq_refl). cbn [otype ovalue t_type t_val].
  change (str_eqb (s "IDENTIFIER") (s "IDENTIFIER")) with true. cbv iota.
  change (py_lower (s "endif")) with (s "endif"). change (str_eqb (s "endif") (s "ifndef")) with false.
  change (str_eqb (s "endif") (s "define")) with false. change (str_eqb (s "endif") (s "endif")) with true. cbv iota.
  change (1 + 1) with 2.
  rewrite (skip_ws_stop_at ts rest 2 _ ltac:(lia) eq_refl eq_refl).
  unfold ips_check_endif, ips_just_eol. cbv zeta.
  rewrite (skip_ws_c_stop_at ts rest 2 _ ltac:(lia) eq_refl eq_refl).
  rewrite (peek_pre ts rest 2 _ ltac:(lia) eq_refl). cbn [is_none]. at_ ts rest 2. reflexivity.
Qed.

(* what an induced_g oracle answers on a turn whose remaining tokens start with such a line *)
Lemma induced_g_line : forall oracle toks k l rest j, induced_g oracle toks ->
  remaining oracle toks k = l ++ rest -> l <> [] -> ispreproc_run (l ++ rest) = Some (true, j) -> oracle k = Matched PRE j.
Proof.
  intros oracle toks k l rest j Hind Hr Hl Hm. apply Hind.
  - rewrite Hr. destruct l; [contradiction|discriminate].
  - rewrite Hr. apply turn_g_pre. exact Hm.
Qed.

Lemma line_nonempty : forall l line, map tv l = line -> line <> [] -> l <> [].
Proof. intros l line <- H ->. apply H. reflexivity. Qed.

(* the rest of the shape without any oracle hypothesis on the closing line *)
Record rest_shape_g (oracle : nat -> tryres) (toks : list token) (start : nat) (body : list stmt) (after : list token) : Prop := {
  rg_body : forall tl, existsb (fun s0 => negb (is_trivia s0)) tl = true -> simulates oracle toks start body tl;
  rg_endif : exists l3, remaining oracle toks (start + List.length body) = l3 ++ after /\ map tv l3 = endif_line;
  rg_after : after = [] \/ exists t more, after = t :: more /\ is_trivia_ty (t_type t) = false
}.

Lemma rest_shape_of_g : forall oracle toks start body after, induced_g oracle toks ->
  rest_shape_g oracle toks start body after -> rest_shape oracle toks start body after.
Proof.
  intros oracle toks start body after Hind [Hb (l3 & R3 & T3) Ha]. constructor; [exact Hb| |exact Ha].
  exists l3, 3. repeat split; [exact R3|exact T3|].
  apply (induced_g_line oracle toks _ l3 after 3 Hind R3); [|apply match_endif; exact T3].
  apply (line_nonempty _ _ T3). discriminate.
Qed.

Section FileG.
Variables uw ud : N -> bool.

(* text -> tokens -> turns, O1 / O2 and the closing turn derived from induced_g *)
Theorem file_shape_header_g : forall f x y R itemsR xR items' xf' oracle body after,
  fields_lex_ok f = true -> ident_ok x -> ident_ok y ->
  lex uw ud R = Ok (itemsR, xR) ->
  lex uw ud (lines_text (template f) ++ ifndef_text x ++ define_text y ++ R) = Ok (items', xf') ->
  induced_g oracle (tokens_of items') ->
  rest_shape_g oracle (tokens_of items') 13 body after ->
  guarded_shape oracle (tokens_of items') comments11 body x y after.
Proof.
  intros f x y R itemsR xR items' xf' oracle body after Hf Hx Hy HR Hfile Hind Hrest.
  pose proof (induced_g_induced _ _ Hind) as Hind0.
  pose proof (rest_shape_of_g _ _ _ _ _ Hind Hrest) as Hrest0.
  assert (O : oracle 11%nat = Matched PRE 5 /\ oracle 12%nat = Matched PRE 6).
  { destruct (lex_header_guard_open uw ud f x y R itemsR xR Hf Hx Hy HR) as (its1 & its2 & itsR & xf & E & T1 & T2 & _).
    rewrite E in Hfile.
    apply (f_equal (fun r : outcome (list item * st) => match r with Ok (i, _) => i | _ => [] end)) in Hfile.
    cbv beta iota in Hfile. subst items'. clear E xf'.
    set (CI := comment_items 0 1 (template_mids f)) in *.
    rewrite !tokens_of_app' in *.
    set (l1 := tokens_of its1) in *. set (l2 := tokens_of its2) in *. set (TR := tokens_of itsR) in *.
    subst CI.
    destruct (header_turns f (l1 ++ l2 ++ TR) oracle Hind0) as (_ & Hr & _).
    set (toks := tokens_of (comment_items 0 1 (template_mids f)) ++ l1 ++ l2 ++ TR) in *.
    assert (O1 : oracle 11%nat = Matched PRE 5).
    { apply (induced_g_line oracle toks 11 l1 (l2 ++ TR) 5 Hind Hr); [|exact (match_ifndef l1 x (l2 ++ TR) T1)].
      apply (line_nonempty _ _ T1). discriminate. }
    split; [exact O1|].
    assert (L1 : List.length l1 = 5%nat) by (rewrite (tv_length _ _ T1); reflexivity).
    assert (R1 : remaining oracle toks 12 = l2 ++ TR).
    { rewrite (remaining_S oracle toks 11), O1, Hr. change 5 with (Z.of_nat 5). rewrite <- L1. apply pop_prefix. }
    apply (induced_g_line oracle toks 12 l2 TR 6 Hind R1); [|exact (match_define l2 y TR T2)].
    apply (line_nonempty _ _ T2). discriminate. }
  destruct O as [O1 O2].
  exact (file_shape_header uw ud f x y R itemsR xR items' xf' oracle body after Hf Hx Hy HR Hfile Hind0 O1 O2 Hrest0).
Qed.

Section VerdictsG.
Variable base : str.
Hypothesis Hh : file_type base = s ".h".
Variable f : fields.
Hypothesis Hf : fields_lex_ok f = true.
Variables (R : str) (itemsR : list item) (xR : st).
Hypothesis HR : lex uw ud R = Ok (itemsR, xR).
Variable oracle : nat -> tryres.
Variable body : list stmt.
Let n := turns comments11 body.

Theorem file_accept_induced_partial : forall items' xf', ident_ok (guard_of base) ->
  lex uw ud (lines_text (template f) ++ ifndef_text (guard_of base) ++ define_text (guard_of base) ++ R) = Ok (items', xf') ->
  induced_g oracle (tokens_of items') ->
  rest_shape_g oracle (tokens_of items') 13 body [] -> balanced body ->
  tok_emitted base oracle (tokens_of items') n = [].
Proof.
  intros items' xf' Hg Hfile Hind Hrest Hb. apply (tok_accept base Hh); [exact Hb|].
  exact (file_shape_header_g f _ _ R itemsR xR items' xf' oracle body [] Hf Hg Hg HR Hfile Hind Hrest).
Qed.

Theorem file_G1_induced_partial : forall x y items' xf', ident_ok x -> ident_ok y ->
  x <> guard_of base -> py_upper x <> guard_of base ->
  lex uw ud (lines_text (template f) ++ ifndef_text x ++ define_text y ++ R) = Ok (items', xf') ->
  induced_g oracle (tokens_of items') -> rest_shape_g oracle (tokens_of items') 13 body [] ->
  In (s "HEADER_PROT_NAME") (tok_emitted base oracle (tokens_of items') n).
Proof.
  intros x y items' xf' Hx Hy Hne Hu Hfile Hind Hrest. apply (tok_G1 base Hh oracle _ comments11 body x y Hne Hu).
  exact (file_shape_header_g f x y R itemsR xR items' xf' oracle body [] Hf Hx Hy HR Hfile Hind Hrest).
Qed.

Theorem file_G2_induced_partial : forall x y items' xf', ident_ok x -> ident_ok y ->
  x <> guard_of base -> py_upper x = guard_of base ->
  lex uw ud (lines_text (template f) ++ ifndef_text x ++ define_text y ++ R) = Ok (items', xf') ->
  induced_g oracle (tokens_of items') -> rest_shape_g oracle (tokens_of items') 13 body [] ->
  In (s "HEADER_PROT_UPPER") (tok_emitted base oracle (tokens_of items') n).
Proof.
  intros x y items' xf' Hx Hy Hne Hu Hfile Hind Hrest. apply (tok_G2 base Hh oracle _ comments11 body x y Hne Hu).
  exact (file_shape_header_g f x y R itemsR xR items' xf' oracle body [] Hf Hx Hy HR Hfile Hind Hrest).
Qed.

Theorem file_G3_induced_partial : forall x y items' xf', ident_ok x -> ident_ok y ->
  y <> guard_of base -> balanced body -> defines (guard_of base) body = false ->
  lex uw ud (lines_text (template f) ++ ifndef_text x ++ define_text y ++ R) = Ok (items', xf') ->
  induced_g oracle (tokens_of items') -> rest_shape_g oracle (tokens_of items') 13 body [] ->
  In (s "HEADER_PROT_NODEF") (tok_emitted base oracle (tokens_of items') n).
Proof.
  intros x y items' xf' Hx Hy Hne Hb Hd Hfile Hind Hrest. apply (tok_G3 base Hh oracle _ comments11 body x y Hne Hb Hd).
  exact (file_shape_header_g f x y R itemsR xR items' xf' oracle body [] Hf Hx Hy HR Hfile Hind Hrest).
Qed.

Theorem file_G6_induced_partial : forall x y t more items' xf', ident_ok x -> ident_ok y ->
  is_trivia_ty (t_type t) = false -> balanced body ->
  lex uw ud (lines_text (template f) ++ ifndef_text x ++ define_text y ++ R) = Ok (items', xf') ->
  induced_g oracle (tokens_of items') -> rest_shape_g oracle (tokens_of items') 13 body (t :: more) ->
  In (s "HEADER_PROT_ALL_AF") (tok_emitted base oracle (tokens_of items') n).
Proof.
  intros x y t more items' xf' Hx Hy Ht Hb Hfile Hind Hrest. apply (tok_G6 base Hh oracle _ comments11 body x y t more Ht Hb).
  exact (file_shape_header_g f x y R itemsR xR items' xf' oracle body (t :: more) Hf Hx Hy HR Hfile Hind Hrest).
Qed.

End VerdictsG.
End FileG.

(* non-vacuity: on the three-line header of Proofs/GuardFile the oracle that the translated primaries induce exists and is the
   obvious one: every turn is decided by turn_g *)
Example ex_turns_decided :
  match lex nouni_ nouni_ ex_text with
  | Ok (items, _) =>
      map (fun k => turn_g primaries_order (remaining ex_oracle (tokens_of items) k)) [0%nat; 1%nat; 2%nat]
      = [Some (Matched PRE 5); Some (Matched PRE 6); Some (Matched PRE 3)]
      /\ remaining ex_oracle (tokens_of items) 3 = []
  | _ => False
  end.
Proof. vm_compute. split; reflexivity. Qed.
