(* CheckSpacing: the loop reaches every SPACE that does not follow another SPACE (landing lemma). *)
From NV Require Import Model.Base Model.RuleChecks Gen.RuleChecks Proofs.StrOrder Proofs.RuleChecksProofs Proofs.RuleChecksProofs2.
From Coq Require Import Lia.
Local Open Scope Z_scope.

(* a `while p(x): x += 1` loop cannot run past a position where p is false *)
Lemma skip_while_f_le fuel p : forall j i, j <= i -> p i = false -> skip_while_f fuel p j <= i.
Proof.
  induction fuel as [|f IH]; intros j i Hj Hp; cbn [skip_while_f]; [lia|].
  destruct (p j) eqn:E; [|lia]. destruct (Z.eq_dec j i) as [->|Hn]; [congruence|]. apply IH; [lia|exact Hp].
Qed.
Lemma skip_while_le toks p j i : j <= i -> p i = false -> skip_while toks p j <= i.
Proof. apply skip_while_f_le. Qed.
Lemma skip_while_ge toks p j : j <= skip_while toks p j.
Proof. apply skip_while_f_ge. Qed.

Definition sp_pred (toks : list token) (scope : Z) := fun x_i : Z => (x_i <? scope) && truthy (check1 toks x_i ty_space).
Definition tab_pred (toks : list token) := fun x_i : Z => truthy (check1 toks x_i (s "TAB")).

Section Landing.
  Variables (toks : list token) (scope : Z) (i : Z) (ts : token).
  Hypothesis Hi : 0 <= i < slice_len toks scope.
  Hypothesis Hts : peek toks i = Some ts.
  Hypothesis Hty : t_type ts = ty_space.
  (* the token before i is not a SPACE (or i is the first token) *)
  Hypothesis Hprev : 0 < i -> truthy (check1 toks (i - 1) ty_space) = false.

  Lemma sp_pred_prev : 0 < i -> sp_pred toks scope (i - 1) = false.
  Proof. intros H. unfold sp_pred. rewrite (Hprev H). apply andb_false_r. Qed.
  Lemma tab_pred_i : tab_pred toks i = false.
  Proof. unfold tab_pred. rewrite (check1_some _ _ _ _ Hts), Hty. reflexivity. Qed.

  Ltac sp_step' H :=
    match type of H with
    | (if ?c then _ else _) = _ => let Q := fresh "Q" in destruct c eqn:Q
    | need_tok ?o _ = _ => let Q := fresh "Q" in destruct o eqn:Q; cbn [need_tok] in H |- *
    | bind (emit _ ?o _) _ = _ => let Q := fresh "Q" in destruct o eqn:Q; cbn [emit bind] in H |- *
    end.

  Lemma spacing_lands : forall fuel j a b E v r, 0 <= j <= i ->
    check_spacing_loop1 fuel toks scope j a b E v = Ok r ->
    exists fuel' a' b' E' X, check_spacing_loop1 fuel toks scope j a b E v = check_spacing_loop1 (S fuel') toks scope i a' b' E' v
                             /\ E' = E ++ X.
  Proof.
    induction fuel as [|f IH]; intros j a b E v r Hj H; [discriminate|].
    destruct (Z.eq_dec j i) as [->|Hne].
    { exists f, a, b, E, []. split; [reflexivity|now rewrite app_nil_r]. }
    assert (Hlt : j < i) by lia.
    assert (Hr : in_range0 j (zlen (py_slice_to toks scope)) = true).
    { unfold in_range0. fold (slice_len toks scope). apply andb_true_iff. split; [apply Z.leb_le|apply Z.ltb_lt]; lia. }
    pose proof (skip_while_ge toks (sp_pred toks scope) j) as F1.
    assert (F1' : skip_while toks (sp_pred toks scope) j <= i - 1) by (apply skip_while_le; [lia|apply sp_pred_prev; lia]).
    pose proof (skip_while_ge toks (sp_pred toks scope) (j + 1)) as F2.
    assert (F2' : truthy (check1 toks j ty_space) = true -> skip_while toks (sp_pred toks scope) (j + 1) <= i - 1).
    { intros Q. assert (j <> i - 1) by (intros ->; rewrite Hprev in Q by lia; discriminate).
      apply skip_while_le; [lia|apply sp_pred_prev; lia]. }
    pose proof (skip_while_ge toks (tab_pred toks) j) as F3.
    assert (F3' : skip_while toks (tab_pred toks) j <= i) by (apply skip_while_le; [lia|apply tab_pred_i]).
    cbn [check_spacing_loop1] in H |- *. cbv zeta in H |- *.
    fold ty_space in H |- *. fold (sp_pred toks scope) in H |- *. fold (tab_pred toks) in H |- *.
    rewrite Hr in H |- *.
    repeat sp_step' H; try discriminate;
    try (specialize (F2' eq_refl));
    (eapply IH in H; [|lia]);
    destruct H as [fuel' [a' [b' [E' [X [H1 H2]]]]]];
    exists fuel', a', b', E'; eexists; (split; [exact H1|]); rewrite H2, <- ?app_assoc; reflexivity.
  Qed.

End Landing.
