(* Generic facts about the regular-expression fragment of Model/HeaderRe.v (any pattern, any text):
   the backtracking matcher and the tabulated matcher decide the denotation, search = `.*p.*`,
   literal words forced by a pattern occur in every matched text. *)
From NV Require Import Model.Base Model.HeaderRe.
From Coq Require Import Lia.

Local Open Scope nat_scope.

(* ------------------------------------------------------------------ small list facts *)
Lemma all_in_app : forall cs u v, all_in cs (u ++ v) = all_in cs u && all_in cs v.
Proof. intros. unfold all_in. apply forallb_app. Qed.

Lemma app_eq_prefix : forall (u1 x u v : str), u1 ++ x = u ++ v -> List.length u1 <= List.length u ->
  exists w, u = u1 ++ w /\ x = w ++ v.
Proof.
  induction u1 as [|a u1 IH]; intros x u v H L; simpl in *.
  - exists u. auto.
  - destruct u as [|b u]; simpl in *; [lia|]. inversion H; subst.
    destruct (IH x u v H2) as (w & -> & ->); [lia|]. exists w. auto.
Qed.

Lemma app_eq_split : forall (x y x' y' : str), x ++ y = x' ++ y' ->
  exists d, (x' = x ++ d /\ y = d ++ y') \/ (x = x' ++ d /\ y' = d ++ y).
Proof.
  induction x as [|a x IH]; intros y x' y' H; simpl in *.
  - exists x'. left. auto.
  - destruct x' as [|b x']; simpl in *.
    + exists (a :: x). right. auto.
    + inversion H; subst. destruct (IH y x' y' H2) as (d & [(-> & ->)|(-> & ->)]); exists d; auto.
Qed.

Lemma if_id : forall b : bool, (if b then true else false) = b.
Proof. destruct b; reflexivity. Qed.

(* ------------------------------------------------------------------ the backtracking matcher *)
Lemma take_in_spec : forall cs n t t1,
  take_in cs n t = Some t1 <-> exists u, t = u ++ t1 /\ List.length u = n /\ all_in cs u = true.
Proof.
  induction n as [|n IH]; intros t t1; simpl.
  - split.
    + intros H. inversion H; subst. exists []. auto.
    + intros (u & -> & Hl & _). destruct u; [reflexivity|discriminate].
  - destruct t as [|c t'].
    + split; [discriminate|]. intros (u & Hu & Hl & _). destruct u; simpl in *; discriminate.
    + destruct (cs_in cs c) eqn:E.
      * rewrite IH. split.
        -- intros (u & -> & Hl & Ha). exists (c :: u). simpl. rewrite E, Ha. auto.
        -- intros (u & Hu & Hl & Ha). destruct u as [|d u]; [discriminate|]. simpl in Hu. inversion Hu; subst.
           simpl in Ha. rewrite E in Ha. simpl in Ha, Hl. exists u. auto.
      * split; [discriminate|]. intros (u & Hu & Hl & Ha). destruct u as [|d u]; [discriminate|].
        simpl in Hu. inversion Hu; subst. simpl in Ha. rewrite E in Ha. discriminate.
Qed.

Lemma rep_go_spec : forall cs k t b,
  rep_go cs k t b = true <->
  exists u v, t = u ++ v /\ all_in cs u = true /\ le_opt (List.length u) b /\ k v = true.
Proof.
  induction t as [|c t' IH]; intros b.
  - simpl. destruct (k []) eqn:E.
    + split; auto. intros _. exists [], []. simpl. repeat split; auto. destruct b; simpl; lia.
    + split; [discriminate|]. intros (u & v & Huv & _ & _ & Hk).
      destruct u; destruct v; try discriminate. congruence.
  - simpl. destruct (k (c :: t')) eqn:E.
    + split; auto. intros _. exists [], (c :: t'). simpl. repeat split; auto. destruct b; simpl; lia.
    + destruct (cs_in cs c) eqn:Ec.
      * destruct b as [[|n]|].
        -- split; [discriminate|]. intros (u & v & Huv & Ha & Hle & Hk). destruct u as [|d u].
           ++ simpl in Huv. subst v. congruence.
           ++ simpl in Hle. lia.
        -- rewrite IH. split.
           ++ intros (u & v & -> & Ha & Hle & Hk). exists (c :: u), v. unfold le_opt in *. simpl in *. rewrite Ec, Ha.
              repeat split; auto. lia.
           ++ intros (u & v & Huv & Ha & Hle & Hk). destruct u as [|d u].
              ** simpl in Huv. subst v. congruence.
              ** simpl in Huv. inversion Huv; subst. simpl in Ha, Hle. rewrite Ec in Ha. simpl in Ha.
                 exists u, v. unfold le_opt. repeat split; auto. lia.
        -- rewrite IH. split.
           ++ intros (u & v & -> & Ha & Hle & Hk). exists (c :: u), v. simpl in *. rewrite Ec, Ha. auto.
           ++ intros (u & v & Huv & Ha & Hle & Hk). destruct u as [|d u].
              ** simpl in Huv. subst v. congruence.
              ** simpl in Huv. inversion Huv; subst. simpl in Ha. rewrite Ec in Ha. simpl in Ha.
                 exists u, v. simpl. auto.
      * split; [discriminate|]. intros (u & v & Huv & Ha & _ & Hk). destruct u as [|d u].
        -- simpl in Huv. subst v. congruence.
        -- simpl in Huv. inversion Huv; subst. simpl in Ha. rewrite Ec in Ha. discriminate.
Qed.

Lemma rep_spec : forall cs lo t k b,
  match take_in cs lo t with Some t1 => rep_go cs k t1 b | None => false end = true <->
  exists u v, t = u ++ v /\ all_in cs u = true /\ lo <= List.length u /\
              le_opt (List.length u - lo) b /\ k v = true.
Proof.
  intros cs lo t k b. destruct (take_in cs lo t) as [t1|] eqn:Et.
  - apply take_in_spec in Et. destruct Et as (u1 & -> & Hl1 & Ha1). rewrite rep_go_spec. split.
    + intros (u2 & v & -> & Ha2 & Hle & Hk). exists (u1 ++ u2), v. rewrite app_assoc, all_in_app, app_length, Ha1, Ha2.
      repeat split; auto; try lia. replace (List.length u1 + List.length u2 - lo) with (List.length u2) by lia. exact Hle.
    + intros (u & v & Huv & Ha & Hlo & Hle & Hk).
      destruct (app_eq_prefix u1 t1 u v Huv) as (w & -> & ->); [lia|].
      rewrite all_in_app in Ha. apply andb_prop in Ha. destruct Ha as [_ Hw]. rewrite app_length in Hle.
      exists w, v. repeat split; auto. replace (List.length u1 + List.length w - lo) with (List.length w) in Hle by lia. exact Hle.
  - split; [discriminate|]. intros (u & v & -> & Ha & Hlo & _ & _).
    assert (H : take_in cs lo ((firstn lo u ++ skipn lo u) ++ v) = Some (skipn lo u ++ v)).
    { apply take_in_spec. exists (firstn lo u). rewrite <- app_assoc. repeat split; auto.
      - rewrite firstn_length. lia.
      - rewrite <- (firstn_skipn lo u) in Ha. rewrite all_in_app in Ha. apply andb_prop in Ha. tauto. }
    rewrite firstn_skipn in H. congruence.
Qed.

Theorem fullb_correct : forall p t, fullb p t = true <-> matches p t.
Proof.
  induction p as [|a p IH]; intros t.
  - simpl. destruct t; split; auto; discriminate.
  - destruct a as [cs|lo hi cs|o k].
    + simpl. destruct t as [|c t'].
      * split; [discriminate|]. intros (c & t' & H & _). discriminate.
      * destruct (cs_in cs c) eqn:E.
        -- rewrite IH. split.
           ++ intros H. exists c, t'. auto.
           ++ intros (c' & t'' & H & _ & Hm). inversion H; subst. exact Hm.
        -- split; [discriminate|]. intros (c' & t'' & H & Hc & _). inversion H; subst. congruence.
    + simpl. unfold budget. destruct hi as [h|].
      * destruct (Nat.ltb h lo) eqn:El.
        -- split; [discriminate|]. intros (u & v & _ & _ & Hlo & Hhi & _). simpl in Hhi.
           apply Nat.ltb_lt in El. lia.
        -- apply Nat.ltb_ge in El. rewrite rep_spec. split.
           ++ intros (u & v & -> & Ha & Hlo & Hle & Hk). exists u, v. simpl in *. apply IH in Hk.
              repeat split; auto. lia.
           ++ intros (u & v & -> & Ha & Hlo & Hle & Hk). exists u, v. simpl in *. apply IH in Hk.
              repeat split; auto. lia.
      * rewrite rep_spec. split.
        -- intros (u & v & -> & Ha & Hlo & Hle & Hk). exists u, v. apply IH in Hk. simpl. auto.
        -- intros (u & v & -> & Ha & Hlo & Hle & Hk). exists u, v. apply IH in Hk. simpl. auto.
    + simpl. apply IH.
Qed.

(* ------------------------------------------------------------------ the tabulated matcher *)
Lemma hd_map_suffixes : forall (k : str -> bool) t, hd false (map k (suffixes t)) = k t.
Proof. intros k t. destruct t; reflexivity. Qed.

Lemma suffixes_cons : forall c t, suffixes (c :: t) = (c :: t) :: suffixes t.
Proof. reflexivity. Qed.

Lemma one_v_spec : forall cs (k : str -> bool) t,
  one_v cs t (map k (suffixes t)) =
  map (fun u => match u with c :: u' => if cs_in cs c then k u' else false | [] => false end) (suffixes t).
Proof.
  induction t as [|c t IH].
  - reflexivity.
  - rewrite suffixes_cons. cbn [map one_v tl]. rewrite hd_map_suffixes, IH. reflexivity.
Qed.

Lemma star_v_spec : forall cs (k : str -> bool) t,
  star_v cs t (map k (suffixes t)) = map (fun u => rep_go cs k u None) (suffixes t).
Proof.
  induction t as [|c t IH].
  - cbn. rewrite if_id. reflexivity.
  - rewrite suffixes_cons. cbn [map star_v tl hd]. rewrite IH, hd_map_suffixes. reflexivity.
Qed.

Lemma opt_v_spec : forall cs (k : str -> bool) n t,
  opt_v cs t (map k (suffixes t)) (map (fun u => rep_go cs k u (Some n)) (suffixes t)) =
  map (fun u => rep_go cs k u (Some (S n))) (suffixes t).
Proof.
  induction t as [|c t IH].
  - cbn. rewrite if_id. reflexivity.
  - rewrite suffixes_cons. cbn [map opt_v tl hd]. rewrite IH, hd_map_suffixes. reflexivity.
Qed.

Lemma rep_go_zero : forall cs k u, rep_go cs k u (Some 0) = k u.
Proof. intros cs k u. destruct u; simpl; destruct (k _); auto. destruct (cs_in cs n); reflexivity. Qed.

Lemma bounded_spec : forall cs (k : str -> bool) t n,
  iter n (opt_v cs t (map k (suffixes t))) (map k (suffixes t)) =
  map (fun u => rep_go cs k u (Some n)) (suffixes t).
Proof.
  induction n as [|n IH].
  - simpl. apply map_ext. intros u. symmetry. apply rep_go_zero.
  - simpl. rewrite IH. apply opt_v_spec.
Qed.

Lemma iter_one_v : forall cs (K : str -> bool) t lo,
  iter lo (one_v cs t) (map K (suffixes t)) =
  map (fun u => match take_in cs lo u with Some u1 => K u1 | None => false end) (suffixes t).
Proof.
  induction lo as [|lo IH].
  - reflexivity.
  - simpl iter. rewrite IH, one_v_spec. apply map_ext. intros u. destruct u as [|c u]; simpl; auto.
    destruct (cs_in cs c); reflexivity.
Qed.

Theorem tab_spec : forall p t, tab p t = map (fullb p) (suffixes t).
Proof.
  induction p as [|a p IH]; intros t.
  - unfold tab, end_v. apply map_ext. intros [|]; reflexivity.
  - destruct a as [cs|lo hi cs|o k].
    + cbn [tab]. rewrite IH, one_v_spec. apply map_ext. intros [|c u]; reflexivity.
    + cbn [tab fullb]. destruct (budget lo hi) as [[k|]|].
      * cbv zeta. rewrite IH, bounded_spec, iter_one_v. reflexivity.
      * rewrite IH, star_v_spec, iter_one_v. reflexivity.
      * reflexivity.
    + cbn [tab fullb]. apply IH.
Qed.

Theorem fullb_fast_correct : forall p t, fullb_fast p t = true <-> matches p t.
Proof.
  intros p t. unfold fullb_fast. rewrite tab_spec, hd_map_suffixes. apply fullb_correct.
Qed.

(* ------------------------------------------------------------------ concatenation, search *)
Lemma matches_app : forall p1 p2 t,
  matches (p1 ++ p2) t <-> exists t1 t2, t = t1 ++ t2 /\ matches p1 t1 /\ matches p2 t2.
Proof.
  induction p1 as [|a p1 IH]; intros p2 t.
  - simpl. split.
    + intros H. exists [], t. auto.
    + intros (t1 & t2 & -> & -> & H). exact H.
  - destruct a as [cs|lo hi cs|o k]; simpl.
    + split.
      * intros (c & t' & -> & Hc & Hm). apply IH in Hm. destruct Hm as (t1 & t2 & -> & H1 & H2).
        exists (c :: t1), t2. repeat split; auto. exists c, t1. auto.
      * intros (t1 & t2 & -> & (c & t' & -> & Hc & H1) & H2). exists c, (t' ++ t2). repeat split; auto.
        apply IH. exists t', t2. auto.
    + split.
      * intros (u & v & -> & Ha & Hlo & Hhi & Hm). apply IH in Hm. destruct Hm as (t1 & t2 & -> & H1 & H2).
        exists (u ++ t1), t2. rewrite app_assoc. repeat split; auto. exists u, t1. auto.
      * intros (t1 & t2 & -> & (u & v & -> & Ha & Hlo & Hhi & H1) & H2). exists u, (v ++ t2).
        rewrite app_assoc. repeat split; auto. apply IH. exists v, t2. auto.
    + apply IH.
Qed.

Lemma all_in_any : forall t, all_in CAny t = true.
Proof. induction t; simpl; auto. Qed.

Lemma matches_any_star : forall t, matches [any_star] t.
Proof.
  intros t. simpl. exists t, []. rewrite app_nil_r. repeat split; auto using all_in_any. lia.
Qed.

Theorem searchb_correct : forall p t, searchb p t = true <-> searches p t.
Proof.
  intros p t. unfold searchb. rewrite fullb_fast_correct.
  change (any_star :: p ++ [any_star]) with ([any_star] ++ p ++ [any_star]). rewrite matches_app. split.
  - intros (a & bc & -> & _ & H). apply matches_app in H. destruct H as (b & c & -> & Hb & _).
    exists a, b, c. auto.
  - intros (a & b & c & -> & Hb). exists a, (b ++ c). repeat split; auto using matches_any_star.
    apply matches_app. exists b, c. auto using matches_any_star.
Qed.

Theorem matchb_correct : forall p t, matchb p t = true <-> matches_prefix p t.
Proof.
  intros p t. unfold matchb. rewrite fullb_fast_correct, matches_app. split.
  - intros (b & c & -> & Hb & _). exists b, c. auto.
  - intros (b & c & -> & Hb). exists b, c. auto using matches_any_star.
Qed.

Lemma searches_app_r : forall p t rest, searches p t -> searches p (t ++ rest).
Proof.
  intros p t rest (a & b & c & -> & H). exists a, b, (c ++ rest). rewrite <- !app_assoc. auto.
Qed.

Lemma matches_searches : forall p t, matches p t -> searches p t.
Proof. intros p t H. exists [], t, []. rewrite app_nil_r. auto. Qed.

(* ------------------------------------------------------------------ building matches *)
Definition lits (w : str) : list atom := map (fun c => One (CLit c)) w.

Lemma matches_lits : forall w p t, matches p t -> matches (lits w ++ p) (w ++ t).
Proof.
  induction w as [|c w IH]; intros p t H; simpl; auto.
  exists c, (w ++ t). repeat split; auto. apply N.eqb_refl.
Qed.

Lemma matches_cat : forall p1 p2 t1 t2, matches p1 t1 -> matches p2 t2 -> matches (p1 ++ p2) (t1 ++ t2).
Proof. intros. apply matches_app. exists t1, t2. auto. Qed.

Lemma matches_star : forall cs u p t, all_in cs u = true -> matches p t -> matches (Rep 0 None cs :: p) (u ++ t).
Proof. intros cs u p t Ha H. simpl. exists u, t. repeat split; auto. lia. Qed.

Lemma matches_rep_exact : forall cs n u p t, all_in cs u = true -> List.length u = n -> matches p t ->
  matches (Rep n (Some n) cs :: p) (u ++ t).
Proof. intros cs n u p t Ha Hl H. simpl. exists u, t. repeat split; auto; lia. Qed.

Lemma matches_one : forall cs c p t, cs_in cs c = true -> matches p t -> matches (One cs :: p) (c :: t).
Proof. intros cs c p t Hc H. simpl. exists c, t. auto. Qed.

(* ------------------------------------------------------------------ prefixes and occurrences *)
Lemma starts_with_app : forall a b c, starts_with (a ++ b) (a ++ c) = starts_with b c.
Proof. induction a; intros; simpl; auto. rewrite N.eqb_refl. simpl. auto. Qed.

Lemma starts_with_app_r : forall w x y, starts_with w x = true -> starts_with w (x ++ y) = true.
Proof.
  induction w as [|a w IH]; intros x y H; simpl in *; auto.
  destruct x as [|b x]; [discriminate|]. simpl. apply andb_prop in H. destruct H as [H1 H2].
  rewrite H1. simpl. auto.
Qed.

Lemma starts_with_trans : forall w l t, starts_with w l = true -> starts_with l t = true -> starts_with w t = true.
Proof.
  induction w as [|a w IH]; intros l t H1 H2; simpl in *; auto.
  destruct l as [|b l]; [discriminate|]. simpl in H2. destruct t as [|c t]; [discriminate|].
  apply andb_prop in H1. destruct H1 as [Hab Hw]. apply andb_prop in H2. destruct H2 as [Hbc Hl].
  apply N.eqb_eq in Hab. apply N.eqb_eq in Hbc. subst. rewrite N.eqb_refl. simpl. eauto.
Qed.

Lemma starts_with_refl : forall w, starts_with w w = true.
Proof. induction w; simpl; auto. rewrite N.eqb_refl. auto. Qed.

Lemma all_lit_repeat : forall c u, all_in (CLit c) u = true -> u = repeat c (List.length u).
Proof.
  induction u as [|d u IH]; simpl; intros H; auto. apply andb_prop in H. destruct H as [H1 H2].
  apply N.eqb_eq in H1. subst. f_equal. auto.
Qed.

Lemma lead_prefix : forall p t, matches p t -> starts_with (lead p) t = true.
Proof.
  induction p as [|a p IH]; intros t H; simpl in *; auto.
  destruct a as [cs|lo hi cs|o k].
  - destruct cs; auto. destruct H as (d & t' & -> & Hc & Hm). simpl in Hc. apply N.eqb_eq in Hc. subst.
    simpl. rewrite N.eqb_refl. simpl. auto.
  - destruct hi as [hi|]; auto. destruct cs; auto. destruct (Nat.eqb lo hi) eqn:E; auto.
    apply Nat.eqb_eq in E. subst. destruct H as (u & v & -> & Ha & Hlo & Hhi & Hm). simpl in Hhi.
    assert (List.length u = hi) by lia. subst. rewrite (all_lit_repeat c u Ha) at 2. rewrite starts_with_app. auto.
  - auto.
Qed.

Lemma occ_app_ge : forall w x v, occ w v <= occ w (x ++ v).
Proof. induction x; intros; simpl; auto. specialize (IHx v). lia. Qed.

Lemma occ_app_le_l : forall w b c, occ w b <= occ w (b ++ c).
Proof.
  induction b as [|a b IH]; intros c; simpl; [lia|].
  specialize (IH c). destruct (starts_with w (a :: b)) eqn:E.
  - change (a :: b ++ c) with ((a :: b) ++ c). rewrite (starts_with_app_r w (a :: b) c E). lia.
  - destruct (starts_with w (a :: b ++ c)); lia.
Qed.

(* every word the pattern forces occurs in the matched text at least as often *)
Theorem occ_pat_le : forall w p t, matches p t -> occ_pat w p <= occ w t.
Proof.
  intros w. induction p as [|a p IH]; intros t H; [simpl; lia|].
  assert (HL : starts_with w (lead (a :: p)) = true -> starts_with w t = true).
  { intros Hw. eapply starts_with_trans; [exact Hw|]. apply lead_prefix. exact H. }
  cbn [occ_pat]. destruct a as [cs|lo hi cs|o k].
  - simpl in H. destruct H as (c & t' & -> & Hc & Hm). apply IH in Hm. cbn [consuming andb occ].
    destruct (starts_with w (lead (One cs :: p))) eqn:E.
    + rewrite (HL eq_refl). lia.
    + destruct (starts_with w (c :: t')); lia.
  - simpl in H. destruct H as (u & v & -> & Ha & Hlo & Hhi & Hm). apply IH in Hm.
    pose proof (occ_app_ge w u v) as Hge.
    destruct lo as [|lo]; cbn [consuming andb].
    + simpl. lia.
    + destruct u as [|c u]; [simpl in Hlo; lia|].
      destruct (starts_with w (lead (Rep (S lo) hi cs :: p))) eqn:E.
      * cbn [app occ]. change (c :: u ++ v) with ((c :: u) ++ v). rewrite (HL eq_refl).
        pose proof (occ_app_ge w u v). lia.
      * cbn [app occ]. pose proof (occ_app_ge w u v). destruct (starts_with w (c :: u ++ v)); lia.
  - simpl in H. cbn [consuming andb]. apply IH in H. simpl. lia.
Qed.

Corollary search_occ : forall w p t, searches p t -> occ_pat w p <= occ w t.
Proof.
  intros w p t (a & b & c & -> & H). apply (occ_pat_le w) in H.
  pose proof (occ_app_le_l w b c). pose proof (occ_app_ge w a (b ++ c)). lia.
Qed.

(* cut the pattern after n atoms: the text splits accordingly *)
Theorem search_anchor : forall w p t n, searches p t ->
  exists x y, t = x ++ y /\ occ_pat w (firstn n p) <= occ w x /\ occ_pat w (skipn n p) <= occ w y /\
              starts_with (lead (skipn n p)) y = true.
Proof.
  intros w p t n (a & b & c & -> & H). rewrite <- (firstn_skipn n p) in H. apply matches_app in H.
  destruct H as (b1 & b2 & -> & H1 & H2). exists (a ++ b1), (b2 ++ c). rewrite <- !app_assoc. split; auto.
  pose proof (occ_pat_le w _ _ H1). pose proof (occ_pat_le w _ _ H2).
  pose proof (occ_app_ge w a b1). pose proof (occ_app_le_l w b2 c). repeat split; try lia.
  apply starts_with_app_r. apply lead_prefix. exact H2.
Qed.
