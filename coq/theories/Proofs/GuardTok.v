(* C14, engine half of file -> trace: on the real token list, a turn of the registry loop that matched one of the three
   guard lines (`#ifndef X`, `# define X`, `#endif`, as the tokenizer model produces them: HASH IDENTIFIER SPACE ... NEWLINE)
   gives CheckPreprocessorProtection exactly the view of the abstract statement SPre DIfndef X / DDefine X / DEndif, and
   a run of turns that is simulated statement by statement by an abstract trace emits what the trace model emits.
   With Proofs/GuardProofs (accept, G1..G6 on traces) this gives the token-level theorems tok_accept, tok_G1 ... *)
From NV Require Import Model.Base Model.Lexer Model.RuleChecks Model.Engine Model.EngineTok Gen.Lists
  Model.GuardBase Gen.Guard Model.Guard Model.GuardTok Proofs.StrOrder Proofs.GuardProofs.
From Coq Require Import Lia.

Local Open Scope Z_scope.

(* ------------------------------------------------------------------ token access *)
Lemma peek_pre : forall (ts rest : list token) k t, 0 <= k -> nth_error ts (Z.to_nat k) = Some t ->
  peek (ts ++ rest) k = Some t.
Proof.
  intros ts rest k t Hk Hn. unfold peek, py_nth, zlen.
  assert (Hlt : (Z.to_nat k < List.length ts)%nat) by (apply nth_error_Some; congruence).
  rewrite app_length, Nat2Z.inj_add.
  replace (0 <=? k) with true by (symmetry; apply Z.leb_le; lia).
  replace (k <? Z.of_nat (List.length ts) + Z.of_nat (List.length rest)) with true by (symmetry; apply Z.ltb_lt; lia).
  cbn [andb]. rewrite nth_error_app1 by exact Hlt. exact Hn.
Qed.

Lemma peek_end : forall (ts : list token) k, Z.of_nat (List.length ts) <= k -> peek ts k = None.
Proof.
  intros ts k Hk. unfold peek, py_nth, zlen.
  replace (k <? Z.of_nat (List.length ts)) with false by (symmetry; apply Z.ltb_ge; lia).
  rewrite andb_false_r. replace (k <? 0) with false by (symmetry; apply Z.ltb_ge; lia). reflexivity.
Qed.

Lemma skip_stop : forall toks p i, p i = false -> skip_while toks p i = i.
Proof. intros toks p i H. unfold skip_while, loop_fuel. cbn [skip_while_f]. rewrite H. reflexivity. Qed.

Lemma skip_one : forall toks p i, p i = true -> p (i + 1) = false -> skip_while toks p i = i + 1.
Proof. intros toks p i H1 H2. unfold skip_while, loop_fuel. cbn [skip_while_f]. rewrite H1, H2. reflexivity. Qed.

Definition is_ws_ty (ty : str) : bool := str_in ty ws_no_nl.
Definition is_trivia_ty (ty : str) : bool := str_in ty trivia_types.

Lemma ws_at : forall ts rest k t, 0 <= k -> nth_error ts (Z.to_nat k) = Some t ->
  truthy (checkl (ts ++ rest) k ws_no_nl) = is_ws_ty (t_type t).
Proof. intros. unfold checkl. rewrite (peek_pre ts rest k t) by assumption. unfold is_ws_ty. destruct (str_in _ _); reflexivity. Qed.

Lemma trivia_at : forall ts rest k t, 0 <= k -> nth_error ts (Z.to_nat k) = Some t ->
  truthy (checkl (ts ++ rest) k trivia_types) = is_trivia_ty (t_type t).
Proof. intros. unfold checkl. rewrite (peek_pre ts rest k t) by assumption. unfold is_trivia_ty. destruct (str_in _ _); reflexivity. Qed.

(* a line given by its (type, value) sequence, as explicit tokens *)
Lemma tv_inv : forall t ty v, tv t = (ty, v) -> exists l c, t = mktok ty l c v.
Proof. intros [ty' l c v'] ty v H. unfold tv in H. cbn in H. inversion H; subst. eauto. Qed.

Ltac line_tokens H :=
  repeat match type of H with
         | map tv ?l = _ :: _ =>
             let ty := fresh "ty" in let ln := fresh "ln" in let co := fresh "co" in let va := fresh "va" in
             let l' := fresh "l" in
             destruct l as [|[ty ln co va] l']; [discriminate H|]; cbn [map tv t_type t_val] in H;
             let E1 := fresh "E" in let E2 := fresh "E" in injection H as E1 E2 H; subst ty; subst va
         | map tv ?l = [] => destruct l; [clear H|discriminate H]
         end.

(* ------------------------------------------------------------------ the views of the three lines *)
Lemma view_ifndef : forall l1 x rest, map tv l1 = ifndef_line x ->
  exists tr, tok_view (l1 ++ rest) = mkview (Some (s "IDENTIFIER", s "ifndef")) (Some (s "IDENTIFIER", x)) tr.
Proof.
  intros l1 x rest H. unfold ifndef_line in H. line_tokens H.
  match goal with |- context [tok_view (?L ++ rest)] => set (ts := L) end.
  unfold tok_view. cbv zeta.
  assert (S0 : skip_ws (ts ++ rest) 0 = 0).
  { unfold skip_ws. apply skip_stop. rewrite (ws_at ts rest 0 _ ltac:(lia) eq_refl). vm_compute. reflexivity. }
  rewrite S0. change (0 + 1) with 1.
  assert (S1 : skip_ws (ts ++ rest) 1 = 1).
  { unfold skip_ws. apply skip_stop. rewrite (ws_at ts rest 1 _ ltac:(lia) eq_refl). vm_compute. reflexivity. }
  rewrite S1. change (1 + 1) with 2.
  assert (S2 : skip_ws (ts ++ rest) 2 = 3).
  { unfold skip_ws. change 3 with (2 + 1). apply skip_one.
    - rewrite (ws_at ts rest 2 _ ltac:(lia) eq_refl). vm_compute. reflexivity.
    - change (2 + 1) with 3. rewrite (ws_at ts rest 3 _ ltac:(lia) eq_refl). vm_compute. reflexivity. }
  rewrite S2.
  rewrite (peek_pre ts rest 1 _ ltac:(lia) eq_refl), (peek_pre ts rest 3 _ ltac:(lia) eq_refl).
  eexists. reflexivity.
Qed.

Lemma view_define : forall l2 x rest, map tv l2 = define_line x ->
  exists tr, tok_view (l2 ++ rest) = mkview (Some (s "IDENTIFIER", s "define")) (Some (s "IDENTIFIER", x)) tr.
Proof.
  intros l2 x rest H. unfold define_line in H. line_tokens H.
  match goal with |- context [tok_view (?L ++ rest)] => set (ts := L) end.
  unfold tok_view. cbv zeta.
  assert (S0 : skip_ws (ts ++ rest) 0 = 0).
  { unfold skip_ws. apply skip_stop. rewrite (ws_at ts rest 0 _ ltac:(lia) eq_refl). vm_compute. reflexivity. }
  rewrite S0. change (0 + 1) with 1.
  assert (S1 : skip_ws (ts ++ rest) 1 = 2).
  { unfold skip_ws. change 2 with (1 + 1). apply skip_one.
    - rewrite (ws_at ts rest 1 _ ltac:(lia) eq_refl). vm_compute. reflexivity.
    - change (1 + 1) with 2. rewrite (ws_at ts rest 2 _ ltac:(lia) eq_refl). vm_compute. reflexivity. }
  rewrite S1. change (2 + 1) with 3.
  assert (S2 : skip_ws (ts ++ rest) 3 = 4).
  { unfold skip_ws. change 4 with (3 + 1). apply skip_one.
    - rewrite (ws_at ts rest 3 _ ltac:(lia) eq_refl). vm_compute. reflexivity.
    - change (3 + 1) with 4. rewrite (ws_at ts rest 4 _ ltac:(lia) eq_refl). vm_compute. reflexivity. }
  rewrite S2.
  rewrite (peek_pre ts rest 2 _ ltac:(lia) eq_refl), (peek_pre ts rest 4 _ ltac:(lia) eq_refl).
  eexists. reflexivity.
Qed.

(* `#endif NEWLINE`, then nothing or a token that is neither white space, newline nor comment *)
Lemma view_endif : forall l3 rest, map tv l3 = endif_line ->
  (rest = [] \/ exists t more, rest = t :: more /\ is_trivia_ty (t_type t) = false) ->
  tok_view (l3 ++ rest) =
  mkview (Some (s "IDENTIFIER", s "endif")) (Some (s "NEWLINE", [])) (gtok_of (hd_error rest)).
Proof.
  intros l3 rest H Hrest. unfold endif_line in H. line_tokens H.
  match goal with |- context [tok_view (?L ++ rest)] => set (ts := L) end.
  unfold tok_view. cbv zeta.
  assert (S0 : skip_ws (ts ++ rest) 0 = 0).
  { unfold skip_ws. apply skip_stop. rewrite (ws_at ts rest 0 _ ltac:(lia) eq_refl). vm_compute. reflexivity. }
  rewrite S0. change (0 + 1) with 1.
  assert (S1 : skip_ws (ts ++ rest) 1 = 1).
  { unfold skip_ws. apply skip_stop. rewrite (ws_at ts rest 1 _ ltac:(lia) eq_refl). vm_compute. reflexivity. }
  rewrite S1. change (1 + 1) with 2.
  assert (S2 : skip_ws (ts ++ rest) 2 = 2).
  { unfold skip_ws. apply skip_stop. rewrite (ws_at ts rest 2 _ ltac:(lia) eq_refl). vm_compute. reflexivity. }
  rewrite S2.
  rewrite (peek_pre ts rest 1 _ ltac:(lia) eq_refl), (peek_pre ts rest 2 _ ltac:(lia) eq_refl).
  assert (S3 : skip_ws_nc (ts ++ rest) 2 = 3 /\ peek (ts ++ rest) 3 = hd_error rest).
  { unfold skip_ws_nc. split.
    - change 3 with (2 + 1). apply skip_one.
      + rewrite (trivia_at ts rest 2 _ ltac:(lia) eq_refl). vm_compute. reflexivity.
      + change (2 + 1) with 3. destruct Hrest as [->|(t & more & -> & Ht)].
        * unfold checkl. rewrite peek_end; [reflexivity|]. rewrite app_nil_r. cbn. lia.
        * change (ts ++ t :: more) with ((ts ++ [t]) ++ more) at 1.
          replace (ts ++ t :: more) with ((ts ++ [t]) ++ more) by (rewrite <- app_assoc; reflexivity).
          rewrite (trivia_at (ts ++ [t]) more 3 t ltac:(lia) eq_refl). exact Ht.
    - destruct Hrest as [->|(t & more & -> & Ht)].
      + rewrite peek_end; [reflexivity|]. rewrite app_nil_r. cbn. lia.
      + replace (ts ++ t :: more) with ((ts ++ [t]) ++ more) by (rewrite <- app_assoc; reflexivity).
        rewrite (peek_pre (ts ++ [t]) more 3 t ltac:(lia) eq_refl). reflexivity. }
  destruct S3 as [S3 P3]. rewrite S3, P3. reflexivity.
Qed.

(* ------------------------------------------------------------------ the generated check on such views *)
(* only whether a token follows is read of the TRAIL position *)
Lemma prot_run_trail : forall d a t t' c, tok_is_none t = tok_is_none t' ->
  prot_run (mkview d a t) c = prot_run (mkview d a t') c.
Proof. intros d a t t' c H. unfold prot_run. cbn [v_dir v_arg v_trail]. rewrite H. reflexivity. Qed.

Definition rest_for (t : option gtok) : list stmt := if tok_is_none t then [] else [SDecl].

Lemma prot_run_view : forall k a t c,
  prot_run (mkview (dir_token k)
                   (match k with DIfndef | DIfdef | DDefine => Some (s "IDENTIFIER", a) | _ => Some (s "NEWLINE", []) end) t) c
  = prot_spec (SPre k a) (rest_for t) c.
Proof.
  intros k a t c. rewrite <- prot_run_spec. unfold view_of, rest_for.
  apply prot_run_trail. destruct t; reflexivity.
Qed.

(* the statement model reads the statements after the current one only through "are they all blank / comment" *)
Lemma step_rest : forall c x r r', forallb is_trivia r = forallb is_trivia r' -> step c x r = step c x r'.
Proof. intros c x r r' H. unfold step, view_of, trail_of. rewrite H. reflexivity. Qed.

Lemma step_rest_any : forall c k a r r', k <> DEndif -> step c (SPre k a) r = step c (SPre k a) r'.
Proof. intros c k a r r' Hk. rewrite !step_eq. unfold prot_spec. destruct k; try reflexivity. contradiction. Qed.

(* ------------------------------------------------------------------ one turn on a guard line = one abstract step *)
Lemma norm_pre : norm_name PRE = PRE.
Proof. reflexivity. Qed.

Lemma tok_step_ifndef : forall c l1 x rest r, map tv l1 = ifndef_line x ->
  tok_step c PRE (l1 ++ rest) = step c (SPre DIfndef x) r.
Proof.
  intros c l1 x rest r H. destruct (view_ifndef l1 x rest H) as (tr & Hv).
  unfold tok_step. rewrite Hv. cbv zeta. change (str_eqb PRE PRE) with true. cbv iota.
  assert (A : tok_apply_primary c PRE (mkview (Some (s "IDENTIFIER", s "ifndef")) (Some (s "IDENTIFIER", x)) tr)
              = apply_primary c (SPre DIfndef x)).
  { rewrite apply_primary_pre. reflexivity. }
  rewrite A. rewrite (prot_run_view DIfndef x tr). rewrite step_eq. reflexivity.
Qed.

Lemma tok_step_define : forall c l2 x rest r, map tv l2 = define_line x ->
  tok_step c PRE (l2 ++ rest) = step c (SPre DDefine x) r.
Proof.
  intros c l2 x rest r H. destruct (view_define l2 x rest H) as (tr & Hv).
  unfold tok_step. rewrite Hv. cbv zeta. change (str_eqb PRE PRE) with true. cbv iota.
  assert (A : tok_apply_primary c PRE (mkview (Some (s "IDENTIFIER", s "define")) (Some (s "IDENTIFIER", x)) tr)
              = apply_primary c (SPre DDefine x)).
  { rewrite apply_primary_pre. reflexivity. }
  rewrite A. rewrite (prot_run_view DDefine x tr). rewrite step_eq. reflexivity.
Qed.

Lemma tok_step_endif : forall c l3 rest r, map tv l3 = endif_line ->
  (rest = [] \/ exists t more, rest = t :: more /\ is_trivia_ty (t_type t) = false) ->
  forallb is_trivia r = match rest with [] => true | _ => false end ->
  tok_step c PRE (l3 ++ rest) = step c (SPre DEndif []) r.
Proof.
  intros c l3 rest r H Hrest Hr. rewrite (step_rest c _ r (rest_for (gtok_of (hd_error rest)))).
  - unfold tok_step. rewrite (view_endif l3 rest H Hrest). cbv zeta. change (str_eqb PRE PRE) with true. cbv iota.
    assert (A : tok_apply_primary c PRE (mkview (Some (s "IDENTIFIER", s "endif")) (Some (s "NEWLINE", [])) (gtok_of (hd_error rest)))
                = apply_primary c (SPre DEndif [])).
    { rewrite apply_primary_pre. reflexivity. }
    rewrite A. rewrite (prot_run_view DEndif [] _). rewrite step_eq. reflexivity.
  - rewrite Hr. destruct rest; reflexivity.
Qed.

(* a turn of any other primary: only the history grows *)
Lemma tok_step_other : forall c nm toks x r, str_eqb nm PRE = false -> (forall k a, x <> SPre k a) ->
  norm_name nm = rule_name x -> tok_step c nm toks = step c x r.
Proof.
  intros c nm toks x r Hn Hx Hnm. unfold tok_step, tok_apply_primary. rewrite Hn. cbv zeta.
  rewrite Hnm. destruct x as [k a| | |]; try reflexivity. exfalso. eapply Hx. reflexivity.
Qed.

(* ------------------------------------------------------------------ simulation of a range of turns by an abstract trace *)
(* turn start+i matched some primary, and what the guard state undergoes in it is the abstract step of statement xs[i]
   (looking ahead at the abstract statements after it) *)
Definition simulates (oracle : nat -> tryres) (toks : list token) (start : nat) (xs tl : list stmt) : Prop :=
  forall i x, nth_error xs i = Some x ->
    exists nm j, oracle (start + i)%nat = Matched nm j /\
      forall c, tok_step c nm (remaining oracle toks (start + i)) = step c x (skipn (S i) xs ++ tl).

Fixpoint run_tl (c : gctx) (xs tl : list stmt) : gctx * list str :=
  match xs with
  | [] => (c, [])
  | x :: r => let '(c1, e1) := step c x (r ++ tl) in
              let '(c2, e2) := run_tl c1 r tl in (c2, e1 ++ e2)
  end.

Lemma run_tl_nil : forall xs c, run_tl c xs [] = run_from c xs.
Proof.
  induction xs as [|x xs IH]; intros c; [reflexivity|]. cbn [run_tl run_from]. rewrite app_nil_r.
  destruct (step c x xs) as [c1 e1]. rewrite IH. reflexivity.
Qed.

Lemma simulates_tail : forall oracle toks start x xs tl, simulates oracle toks start (x :: xs) tl ->
  simulates oracle toks (S start) xs tl.
Proof.
  intros oracle toks start x xs tl H i y Hy. destruct (H (S i) y Hy) as (nm & j & Ho & Hs).
  exists nm, j. replace (S start + i)%nat with (start + S i)%nat by lia. split; [exact Ho|exact Hs].
Qed.

Theorem tok_run_sim : forall xs oracle toks start tl c, simulates oracle toks start xs tl ->
  tok_run oracle toks start (List.length xs) c = run_tl c xs tl.
Proof.
  induction xs as [|x xs IH]; intros oracle toks start tl c H; [reflexivity|].
  cbn [List.length tok_run run_tl].
  destruct (H 0%nat x eq_refl) as (nm & j & Ho & Hs). rewrite Nat.add_0_r in Ho, Hs. rewrite Ho, Hs.
  cbn [skipn]. destruct (step c x (xs ++ tl)) as [c1 e1].
  rewrite (IH oracle toks (S start) tl c1 (simulates_tail _ _ _ _ _ _ H)). reflexivity.
Qed.

Corollary tok_emitted_sim : forall base xs oracle toks, simulates oracle toks 0 xs [] ->
  tok_emitted base oracle toks (List.length xs) = emitted base xs.
Proof. intros. unfold tok_emitted, emitted. rewrite (tok_run_sim xs oracle toks 0%nat [] _ H), run_tl_nil. reflexivity. Qed.

(* ------------------------------------------------------------------ building the simulation of a guarded file *)
Lemma simulates_app : forall oracle toks start xs ys tl,
  simulates oracle toks start xs (ys ++ tl) -> simulates oracle toks (start + List.length xs) ys tl ->
  simulates oracle toks start (xs ++ ys) tl.
Proof.
  intros oracle toks start xs ys tl H1 H2 i x Hx.
  destruct (Nat.lt_ge_cases i (List.length xs)) as [Hi|Hi].
  - rewrite nth_error_app1 in Hx by exact Hi. destruct (H1 i x Hx) as (nm & j & Ho & Hs). exists nm, j. split; [exact Ho|].
    intros c. rewrite Hs. f_equal. rewrite skipn_app. rewrite <- app_assoc. f_equal.
    replace (S i - List.length xs)%nat with 0%nat by lia. reflexivity.
  - rewrite nth_error_app2 in Hx by exact Hi. destruct (H2 (i - List.length xs)%nat x Hx) as (nm & j & Ho & Hs).
    exists nm, j. replace (start + List.length xs + (i - List.length xs))%nat with (start + i)%nat in * by lia.
    split; [exact Ho|]. intros c. rewrite Hs. f_equal. rewrite skipn_app.
    rewrite (skipn_all2 xs) by lia. replace (S i - List.length xs)%nat with (S (i - List.length xs)) by lia. reflexivity.
Qed.

Lemma simulates_one : forall oracle toks start x tl nm j, oracle start = Matched nm j ->
  (forall c, tok_step c nm (remaining oracle toks start) = step c x tl) -> simulates oracle toks start [x] tl.
Proof.
  intros oracle toks start x tl nm j Ho Hs i y Hy. destruct i as [|i]; [|destruct i; discriminate Hy].
  injection Hy as <-. exists nm, j. rewrite Nat.add_0_r. split; [exact Ho|exact Hs].
Qed.

(* the comment / blank-line turns in front of the guard: names only *)
Definition trivia_turn (oracle : nat -> tryres) (k : nat) (x : stmt) : Prop :=
  exists j, (x = SComment /\ oracle k = Matched (s "IsComment") j) \/ (x = SBlank /\ oracle k = Matched (s "IsEmptyLine") j).

Lemma simulates_trivia : forall oracle toks start pre tl,
  (forall i x, nth_error pre i = Some x -> trivia_turn oracle (start + i) x) -> simulates oracle toks start pre tl.
Proof.
  intros oracle toks start pre tl H i x Hx. destruct (H i x Hx) as (j & [[-> Ho]|[-> Ho]]).
  - exists (s "IsComment"), j. split; [exact Ho|]. intros c. apply tok_step_other; [reflexivity|discriminate|reflexivity].
  - exists (s "IsEmptyLine"), j. split; [exact Ho|]. intros c. apply tok_step_other; [reflexivity|discriminate|reflexivity].
Qed.

(* the shape of a guarded file at token level.  h turns of comments / blank lines (pre), then the turn of `#ifndef x`,
   the turn of `# define y`, n body turns simulated by the abstract statements body, the turn of `#endif`, and after it
   either nothing or tokens whose first is neither white space nor comment. *)
Record guarded_shape (oracle : nat -> tryres) (toks : list token) (pre body : list stmt) (x y : str)
       (after : list token) : Prop := mkshape {
  gs_pre : forall i s0, nth_error pre i = Some s0 -> trivia_turn oracle i s0;
  gs_ifndef : exists l1 r j, remaining oracle toks (List.length pre) = l1 ++ r /\ map tv l1 = ifndef_line x /\
                             oracle (List.length pre) = Matched PRE j;
  gs_define : exists l2 r j, remaining oracle toks (S (List.length pre)) = l2 ++ r /\ map tv l2 = define_line y /\
                             oracle (S (List.length pre)) = Matched PRE j;
  gs_body : forall tl, existsb (fun s0 => negb (is_trivia s0)) tl = true ->
            simulates oracle toks (S (S (List.length pre))) body tl;
  gs_endif : exists l3 j, remaining oracle toks (S (S (List.length pre)) + List.length body) = l3 ++ after /\
                          map tv l3 = endif_line /\
                          oracle (S (S (List.length pre)) + List.length body)%nat = Matched PRE j;
  gs_after : after = [] \/ exists t more, after = t :: more /\ is_trivia_ty (t_type t) = false
}.

Lemma nontrivia_forallb : forall l, existsb (fun s0 => negb (is_trivia s0)) l = true -> forallb is_trivia l = false.
Proof.
  induction l as [|a l IH]; [discriminate|]. cbn [existsb forallb]. destruct (is_trivia a); cbn [negb orb andb]; auto.
Qed.

(* the abstract statement standing for what follows the `#endif` (only "is there a token" is read of it) *)
Definition after_stmts (after : list token) : list stmt := match after with [] => [] | _ => [SDecl] end.

Theorem guarded_simulates : forall oracle toks pre body x y after,
  guarded_shape oracle toks pre body x y after ->
  simulates oracle toks 0
    (pre ++ SPre DIfndef x :: SPre DDefine y :: body ++ [SPre DEndif []]) (after_stmts after).
Proof.
  intros oracle toks pre body x y after [Hpre (l1 & r1 & j1 & R1 & T1 & O1) (l2 & r2 & j2 & R2 & T2 & O2) Hbody
                                           (l3 & j3 & R3 & T3 & O3) Hafter].
  apply simulates_app; [apply simulates_trivia; exact Hpre|]. cbn [Nat.add].
  change (SPre DIfndef x :: SPre DDefine y :: body ++ [SPre DEndif []])
    with ([SPre DIfndef x] ++ [SPre DDefine y] ++ body ++ [SPre DEndif []]).
  apply simulates_app.
  - apply (simulates_one _ _ _ _ _ PRE j1 O1). intros c. rewrite R1. apply tok_step_ifndef. exact T1.
  - apply simulates_app.
    + cbn [List.length]. replace (List.length pre + 1)%nat with (S (List.length pre)) by lia.
      apply (simulates_one _ _ _ _ _ PRE j2 O2). intros c. rewrite R2. apply tok_step_define. exact T2.
    + cbn [List.length]. replace (List.length pre + 1 + 1)%nat with (S (S (List.length pre))) by lia.
      apply simulates_app.
      * apply Hbody. cbn [app existsb is_trivia negb orb]. reflexivity.
      * apply (simulates_one _ _ _ _ _ PRE j3 O3). intros c. rewrite R3. apply tok_step_endif; [exact T3|exact Hafter|].
        unfold after_stmts. destruct after; reflexivity.
Qed.

Definition turns (pre body : list stmt) : nat := (List.length pre + 3 + List.length body)%nat.

Lemma turns_length : forall pre body x y,
  List.length (pre ++ SPre DIfndef x :: SPre DDefine y :: body ++ [SPre DEndif []]) = turns pre body.
Proof. intros. unfold turns. rewrite app_length. cbn [List.length]. rewrite app_length. cbn [List.length]. lia. Qed.

Lemma run_from_tl_split : forall xs tl c,
  run_from c (xs ++ tl) = (fst (run_from (fst (run_tl c xs tl)) tl), snd (run_tl c xs tl) ++ snd (run_from (fst (run_tl c xs tl)) tl)).
Proof.
  induction xs as [|a xs IH]; intros tl c.
  - cbn [app run_tl fst snd]. destruct (run_from c tl). reflexivity.
  - cbn [app run_from run_tl]. destruct (step c a (xs ++ tl)) as [c1 e1]. rewrite IH.
    destruct (run_tl c1 xs tl) as [c2 e2]. cbn [fst snd]. rewrite app_assoc. reflexivity.
Qed.

Lemma after_silent : forall c after, snd (run_from c (after_stmts after)) = [].
Proof. intros c [|t more]; reflexivity. Qed.

(* what the turns up to and including the `#endif` emit = what the trace model emits on the abstract statements
   (followed by one abstract declaration when tokens remain after the `#endif`) *)
Theorem guarded_emits : forall base oracle toks pre body x y after,
  guarded_shape oracle toks pre body x y after ->
  tok_emitted base oracle toks (turns pre body)
  = emitted base ((pre ++ SPre DIfndef x :: SPre DDefine y :: body ++ [SPre DEndif []]) ++ after_stmts after).
Proof.
  intros base oracle toks pre body x y after H. pose proof (guarded_simulates _ _ _ _ _ _ _ H) as S.
  unfold tok_emitted, emitted. rewrite <- (turns_length pre body x y).
  rewrite (tok_run_sim _ oracle toks 0%nat (after_stmts after) _ S).
  rewrite run_from_tl_split. cbn [snd]. rewrite after_silent, app_nil_r. reflexivity.
Qed.

Theorem guarded_emits_exact : forall base oracle toks pre body x y,
  guarded_shape oracle toks pre body x y [] ->
  tok_emitted base oracle toks (turns pre body)
  = emitted base (pre ++ SPre DIfndef x :: SPre DDefine y :: body ++ [SPre DEndif []]).
Proof.
  intros base oracle toks pre body x y H. rewrite (guarded_emits base _ _ _ _ _ _ _ H). cbn [after_stmts].
  rewrite app_nil_r. reflexivity.
Qed.

Lemma trivia_pre_Forall : forall oracle pre, (forall i s0, nth_error pre i = Some s0 -> trivia_turn oracle i s0) ->
  Forall (fun s0 => is_trivia s0 = true) pre.
Proof.
  intros oracle pre H. apply Forall_forall. intros s0 Hin. apply In_nth_error in Hin. destruct Hin as (i & Hi).
  destruct (H i s0 Hi) as (j & [[-> _]|[-> _]]); reflexivity.
Qed.

(* ------------------------------------------------------------------ token-level theorems *)
Section TokenLevel.
Variable base : str.
Hypothesis Hh : file_type base = s ".h".
Variable oracle : nat -> tryres.
Variable toks : list token.
Variables pre body : list stmt.

(* accept: guard = guard_of base on both lines, body balanced, nothing after the #endif *)
Theorem tok_accept : balanced body ->
  guarded_shape oracle toks pre body (guard_of base) (guard_of base) [] ->
  tok_emitted base oracle toks (turns pre body) = [].
Proof.
  intros Hb H. rewrite (guarded_emits_exact base _ _ _ _ _ _ H).
  pose proof (accept base Hh pre body [] [] (trivia_pre_Forall _ _ (gs_pre _ _ _ _ _ _ _ H)) Hb (Forall_nil _)) as A.
  exact A.
Qed.

(* G1 / G2: another symbol on the #ifndef line (whatever the define line says, whatever follows the #endif) *)
Theorem tok_G1 : forall x y, x <> guard_of base -> py_upper x <> guard_of base ->
  guarded_shape oracle toks pre body x y [] ->
  In (s "HEADER_PROT_NAME") (tok_emitted base oracle toks (turns pre body)).
Proof.
  intros x y Hx Hu H. rewrite (guarded_emits_exact base _ _ _ _ _ _ H).
  apply (G1 base Hh); [|exact Hx|exact Hu]. apply trivia_nocond. exact (trivia_pre_Forall _ _ (gs_pre _ _ _ _ _ _ _ H)).
Qed.

Theorem tok_G2 : forall x y, x <> guard_of base -> py_upper x = guard_of base ->
  guarded_shape oracle toks pre body x y [] ->
  In (s "HEADER_PROT_UPPER") (tok_emitted base oracle toks (turns pre body)).
Proof.
  intros x y Hx Hu H. rewrite (guarded_emits_exact base _ _ _ _ _ _ H).
  apply (G2 base Hh); [|exact Hx|exact Hu]. apply trivia_nocond. exact (trivia_pre_Forall _ _ (gs_pre _ _ _ _ _ _ _ H)).
Qed.

(* G3: the define line names another symbol and the body does not define the expected one *)
Theorem tok_G3 : forall x y, y <> guard_of base -> balanced body -> defines (guard_of base) body = false ->
  guarded_shape oracle toks pre body x y [] ->
  In (s "HEADER_PROT_NODEF") (tok_emitted base oracle toks (turns pre body)).
Proof.
  intros x y Hy Hb Hd H. rewrite (guarded_emits_exact base _ _ _ _ _ _ H).
  pose proof (trivia_pre_Forall _ _ (gs_pre _ _ _ _ _ _ _ H)) as Hp.
  change (SPre DIfndef x :: SPre DDefine y :: body ++ [SPre DEndif []])
    with (SPre DIfndef x :: (SPre DDefine y :: body) ++ SPre DEndif [] :: []).
  apply (G3 base Hh pre x (SPre DDefine y :: body) [] []); [apply trivia_nocond; exact Hp|exact Hb|].
  unfold defines. rewrite existsb_app. cbn [existsb]. apply str_eqb_neq in Hy. rewrite Hy. cbn [orb].
  fold (defines (guard_of base) body). rewrite Hd, orb_false_r.
  clear - Hp. induction Hp as [|s0 l Hs _ IH]; [reflexivity|]. cbn [existsb]. rewrite IH.
  destruct s0; try discriminate; reflexivity.
Qed.

(* G6: tokens after the #endif line whose first is neither white space, newline nor comment *)
Theorem tok_G6 : forall x y t more, is_trivia_ty (t_type t) = false -> balanced body ->
  guarded_shape oracle toks pre body x y (t :: more) ->
  In (s "HEADER_PROT_ALL_AF") (tok_emitted base oracle toks (turns pre body)).
Proof.
  intros x y t more Ht Hb H. rewrite (guarded_emits base _ _ _ _ _ _ _ H). cbn [after_stmts].
  pose proof (trivia_pre_Forall _ _ (gs_pre _ _ _ _ _ _ _ H)) as Hp.
  rewrite <- app_assoc. cbn [app]. rewrite <- app_assoc. cbn [app].
  change (SPre DIfndef x :: SPre DDefine y :: body ++ SPre DEndif [] :: [SDecl])
    with (SPre DIfndef x :: (SPre DDefine y :: body) ++ SPre DEndif [] :: [SDecl]).
  apply (G6 base Hh pre x (SPre DDefine y :: body) [] [SDecl]); [apply trivia_nocond; exact Hp|exact Hb|reflexivity].
Qed.

End TokenLevel.
