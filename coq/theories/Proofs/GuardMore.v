(* C14, file level, the two remaining mutation classes:
   G4 - a second guard after the first: the turn after the closing `#endif` is again an `#ifndef` line (recognised by the
        translated matcher) -> HEADER_PROT_MULT;
   G5 - a declaration before the guard: a turn of an untranslated primary (abstract IsOther turn) between the 42 header
        and the `#ifndef` line -> HEADER_PROT_ALL. *)
From NV Require Import Model.Base Model.GuardBase Gen.Guard Model.Guard Model.GuardTok Proofs.GuardProofs Proofs.GuardTok.
From NV Require Import Model.Diag Model.Lexer Model.RuleChecks Model.EngineTok0 Model.Engine Model.RegistryOrder
  Gen.Registry Gen.IsComment Model.EngineTok Gen.IsPreproc Model.GuardTurn
  Model.HeaderRe Model.HeaderState Gen.HeaderRe Gen.HeaderSM Model.Header
  Proofs.LineShift Proofs.LineShiftCor Proofs.CommentLines Proofs.HeaderLex Proofs.HeaderTurns Proofs.GuardLex Proofs.GuardFile
  Proofs.GuardMatch.
From Coq Require Import Lia.

Local Open Scope Z_scope.

(* the statements after the simulated range are only read through "are they all blank / comment" *)
Lemma simulates_tl_change : forall oracle toks start xs tl tl',
  (forall l, forallb is_trivia (l ++ tl) = forallb is_trivia (l ++ tl')) ->
  simulates oracle toks start xs tl -> simulates oracle toks start xs tl'.
Proof.
  intros oracle toks start xs tl tl' H Sim i x Hx. destruct (Sim i x Hx) as (nm & j & Ho & Hs).
  exists nm, j. split; [exact Ho|]. intros c. rewrite Hs. apply step_rest. apply H.
Qed.

Lemma ifndef_line_cons : forall l x, map tv l = ifndef_line x -> exists t more, l = t :: more /\ is_trivia_ty (t_type t) = false.
Proof.
  intros l x H. destruct l as [|[ty ln co va] more]; [discriminate H|]. exists (mktok ty ln co va), more. split; [reflexivity|].
  cbn [map tv t_type t_val] in H. unfold ifndef_line in H. injection H as E _ _. subst ty. reflexivity.
Qed.

(* what may follow the closing line in a G4 file satisfies the side condition of the shape *)
Lemma after_ifndef_ok : forall l4 rest4 x2, map tv l4 = ifndef_line x2 ->
  l4 ++ rest4 = [] \/ exists t more, l4 ++ rest4 = t :: more /\ is_trivia_ty (t_type t) = false.
Proof.
  intros l4 rest4 x2 H. right. destruct (ifndef_line_cons l4 x2 H) as (t & more & -> & Ht).
  exists t, (more ++ rest4). split; [reflexivity|exact Ht].
Qed.

(* ------------------------------------------------------------------ G4 at token level *)
Theorem tok_G4 : forall base, file_type base = s ".h" -> forall oracle toks pre body x y l4 rest4 x2 j4,
  balanced body -> map tv l4 = ifndef_line x2 ->
  guarded_shape oracle toks pre body x y (l4 ++ rest4) ->
  remaining oracle toks (turns pre body) = l4 ++ rest4 -> oracle (turns pre body) = Matched PRE j4 ->
  In (s "HEADER_PROT_MULT") (tok_emitted base oracle toks (S (turns pre body))).
Proof.
  intros base Hh oracle toks pre body x y l4 rest4 x2 j4 Hb T4 H Hrem Ho.
  set (xs := pre ++ SPre DIfndef x :: SPre DDefine y :: body ++ [SPre DEndif []]).
  pose proof (guarded_simulates _ _ _ _ _ _ _ H) as Sim. fold xs in Sim.
  assert (Ea : after_stmts (l4 ++ rest4) = [SDecl]).
  { destruct (ifndef_line_cons l4 x2 T4) as (t & more & -> & _). reflexivity. }
  rewrite Ea in Sim.
  assert (S1 : simulates oracle toks 0 xs ([SPre DIfndef x2] ++ [])).
  { apply (simulates_tl_change _ _ _ _ [SDecl]); [|exact Sim]. intros l. rewrite !forallb_app. reflexivity. }
  assert (S2 : simulates oracle toks 0 (xs ++ [SPre DIfndef x2]) []).
  { apply simulates_app; [exact S1|]. cbn [Nat.add]. unfold xs. rewrite turns_length.
    apply (simulates_one _ _ _ _ _ PRE j4 Ho). intros c. rewrite Hrem. apply tok_step_ifndef. exact T4. }
  replace (S (turns pre body)) with (List.length (xs ++ [SPre DIfndef x2]))
    by (rewrite app_length; unfold xs; rewrite turns_length; cbn [List.length]; lia).
  rewrite (tok_emitted_sim base _ oracle toks S2).
  pose proof (trivia_pre_Forall _ _ (gs_pre _ _ _ _ _ _ _ H)) as Hp.
  unfold xs. rewrite <- app_assoc. cbn [app]. rewrite <- app_assoc. cbn [app].
  change (SPre DIfndef x :: SPre DDefine y :: body ++ SPre DEndif [] :: [SPre DIfndef x2])
    with (SPre DIfndef x :: (SPre DDefine y :: body) ++ SPre DEndif [] :: [] ++ SPre DIfndef x2 :: []).
  apply (G4 base Hh pre x (SPre DDefine y :: body) [] [] x2 []); [apply trivia_nocond; exact Hp|exact Hb|constructor].
Qed.

(* ------------------------------------------------------------------ G5 at token level *)
(* a turn in front of the guard: comment, blank line, or any primary other than the three the check tells apart *)
Definition front_turn (oracle : nat -> tryres) (k : nat) (x : stmt) : Prop :=
  trivia_turn oracle k x \/
  (x = SDecl /\ exists nm j, oracle k = Matched nm j /\ str_eqb nm PRE = false /\ norm_name nm = s "IsOther").

Lemma simulates_front : forall oracle toks start pre tl,
  (forall i x, nth_error pre i = Some x -> front_turn oracle (start + i) x) -> simulates oracle toks start pre tl.
Proof.
  intros oracle toks start pre tl H i x Hx. destruct (H i x Hx) as [(j & [[-> Ho]|[-> Ho]])|(-> & nm & j & Ho & Hn & Hm)].
  - exists (s "IsComment"), j. split; [exact Ho|]. intros c. apply tok_step_other; [reflexivity|discriminate|reflexivity].
  - exists (s "IsEmptyLine"), j. split; [exact Ho|]. intros c. apply tok_step_other; [reflexivity|discriminate|reflexivity].
  - exists nm, j. split; [exact Ho|]. intros c. apply tok_step_other; [exact Hn|discriminate|exact Hm].
Qed.

Lemma front_nocond : forall oracle pre, (forall i x, nth_error pre i = Some x -> front_turn oracle i x) -> Forall nocond pre.
Proof.
  intros oracle pre H. apply Forall_forall. intros x Hin. apply In_nth_error in Hin. destruct Hin as (i & Hi).
  destruct (H i x Hi) as [(j & [[-> _]|[-> _]])|(-> & _)]; reflexivity.
Qed.

Theorem tok_G5 : forall base, file_type base = s ".h" -> forall oracle toks pre x l1 rest1 j,
  (forall i s0, nth_error pre i = Some s0 -> front_turn oracle i s0) ->
  existsb (fun s0 => negb (is_trivia s0)) pre = true ->
  remaining oracle toks (List.length pre) = l1 ++ rest1 -> map tv l1 = ifndef_line x ->
  oracle (List.length pre) = Matched PRE j ->
  In (s "HEADER_PROT_ALL") (tok_emitted base oracle toks (S (List.length pre))).
Proof.
  intros base Hh oracle toks pre x l1 rest1 j Hpre Hex Hrem T1 Ho.
  assert (Sim : simulates oracle toks 0 (pre ++ [SPre DIfndef x]) []).
  { apply simulates_app; [apply simulates_front; exact Hpre|]. cbn [Nat.add].
    apply (simulates_one _ _ _ _ _ PRE j Ho). intros c. rewrite Hrem. apply tok_step_ifndef. exact T1. }
  replace (S (List.length pre)) with (List.length (pre ++ [SPre DIfndef x])) by (rewrite app_length; cbn [List.length]; lia).
  rewrite (tok_emitted_sim base _ oracle toks Sim).
  apply (G5 base Hh pre x []); [exact (front_nocond _ _ Hpre)|exact Hex].
Qed.

(* ------------------------------------------------------------------ file level *)
Section FileMore.
Variables uw ud : N -> bool.
Variable base : str.
Hypothesis Hh : file_type base = s ".h".
Variable f : fields.
Hypothesis Hf : fields_lex_ok f = true.
Variables (R : str) (itemsR : list item) (xR : st).
Hypothesis HR : lex uw ud R = Ok (itemsR, xR).
Variable oracle : nat -> tryres.

(* G4: header, `#ifndef x`, `# define y`, R; the turns over R are simulated by a balanced body, then comes the `#endif` line,
   and what follows it starts with the tokens of another `#ifndef x2` line *)
Theorem file_G4_induced_partial : forall body x y x2 l4 rest4 items' xf', ident_ok x -> ident_ok y ->
  balanced body -> map tv l4 = ifndef_line x2 ->
  lex uw ud (lines_text (template f) ++ ifndef_text x ++ define_text y ++ R) = Ok (items', xf') ->
  induced_g oracle (tokens_of items') -> rest_shape_g oracle (tokens_of items') 13 body (l4 ++ rest4) ->
  In (s "HEADER_PROT_MULT") (tok_emitted base oracle (tokens_of items') (S (turns comments11 body))).
Proof.
  intros body x y x2 l4 rest4 items' xf' Hx Hy Hb T4 Hfile Hind Hrest.
  pose proof (file_shape_header_g uw ud f x y R itemsR xR items' xf' oracle body (l4 ++ rest4) Hf Hx Hy HR Hfile Hind Hrest) as Sh.
  destruct Hrest as [_ (l3 & R3 & T3) _].
  assert (O3 : oracle (13 + List.length body)%nat = Matched PRE 3).
  { apply (induced_g_line oracle _ _ l3 (l4 ++ rest4) 3 Hind R3); [|exact (match_endif l3 _ T3)].
    apply (line_nonempty _ _ T3). discriminate. }
  assert (Et : turns comments11 body = S (13 + List.length body)) by (unfold turns; cbn [List.length comments11 repeat]; lia).
  assert (Hrem : remaining oracle (tokens_of items') (turns comments11 body) = l4 ++ rest4).
  { rewrite Et, remaining_S, O3, R3. change 3 with (Z.of_nat 3).
    replace 3%nat with (List.length l3) by (rewrite (tv_length _ _ T3); reflexivity). apply pop_prefix. }
  assert (O4 : oracle (turns comments11 body) = Matched PRE 5).
  { apply (induced_g_line oracle _ _ l4 rest4 5 Hind Hrem); [|exact (match_ifndef l4 x2 rest4 T4)].
    apply (line_nonempty _ _ T4). discriminate. }
  exact (tok_G4 base Hh oracle _ comments11 body x y l4 rest4 x2 5 Hb T4 Sh Hrem O4).
Qed.

(* G5: header, then a statement recognised by some other primary (turn 11), then the `#ifndef x` line *)
Theorem file_G5_induced_partial : forall S0 itemsS xS items' xf' nm j x l1 rest1,
  lex uw ud S0 = Ok (itemsS, xS) ->
  lex uw ud (lines_text (template f) ++ S0) = Ok (items', xf') ->
  induced_g oracle (tokens_of items') ->
  oracle 11%nat = Matched nm j -> str_eqb nm PRE = false -> norm_name nm = s "IsOther" ->
  remaining oracle (tokens_of items') 12 = l1 ++ rest1 -> map tv l1 = ifndef_line x ->
  In (s "HEADER_PROT_ALL") (tok_emitted base oracle (tokens_of items') 13).
Proof.
  intros S0 itemsS xS items' xf' nm j x l1 rest1 HS Hfile Hind O11 Hn Hm Hrem T1.
  pose proof (induced_g_induced _ _ Hind) as Hind0.
  assert (Ho : forall k, (k < 11)%nat -> oracle k = Matched (s "IsComment") 2).
  { rewrite (header_then_text_lexed uw ud f S0 itemsS xS Hf HS) in Hfile.
    apply (f_equal (fun r : outcome (list item * st) => match r with Ok (i, _) => i | _ => [] end)) in Hfile.
    cbv beta iota in Hfile. subst items'.
    set (CI := comment_items 0 1 (template_mids f)) in *. rewrite tokens_of_app' in *. subst CI.
    destruct (header_turns f _ oracle Hind0) as (Hok & _ & _). exact Hok. }
  assert (O12 : oracle 12%nat = Matched PRE 5).
  { apply (induced_g_line oracle _ 12%nat l1 rest1 5 Hind Hrem); [|exact (match_ifndef l1 x rest1 T1)].
    apply (line_nonempty _ _ T1). discriminate. }
  change 13%nat with (S (List.length (comments11 ++ [SDecl]))).
  apply (tok_G5 base Hh oracle _ (comments11 ++ [SDecl]) x l1 rest1 5); [| reflexivity | exact Hrem | exact T1 | exact O12].
  intros i s0 Hi. destruct (Nat.lt_ge_cases i 11) as [Hlt|Hge].
  - left. rewrite nth_error_app1 in Hi by exact Hlt.
    assert (s0 = SComment) by (unfold comments11 in Hi; apply nth_error_In in Hi; apply repeat_spec in Hi; exact Hi).
    subst s0. exists 2. left. split; [reflexivity|apply Ho; exact Hlt].
  - rewrite nth_error_app2 in Hi by exact Hge. change (List.length comments11) with 11%nat in Hi.
    destruct (i - 11)%nat as [|d] eqn:Ed; [|destruct d; discriminate Hi].
    injection Hi as <-. assert (i = 11%nat) by lia. subst i. right. split; [reflexivity|]. exists nm, j. auto.
Qed.

End FileMore.

(* ------------------------------------------------------------------ examples: concrete texts, tokenizer model run *)
Definition ex_text_G4 : str :=
  ifndef_text (s "A_H") ++ define_text (s "A_H") ++ endif_text ++ ifndef_text (s "A_H") ++ define_text (s "A_H") ++ endif_text.
Definition ex_oracle_G4 (k : nat) : tryres :=
  match k with 0%nat | 3%nat => Matched PRE 5 | 1%nat | 4%nat => Matched PRE 6 | 2%nat | 5%nat => Matched PRE 3 | _ => NoMatch end.

Example ex_file_G4 :
  match lex nouni_ nouni_ ex_text_G4 with
  | Ok (items, _) =>
      tok_emitted (s "a.h") ex_oracle_G4 (tokens_of items) 4 = [s "HEADER_PROT_ALL_AF"; s "HEADER_PROT_MULT"]
      /\ map (fun k => turn_g primaries_order (remaining ex_oracle_G4 (tokens_of items) k)) [0%nat; 1%nat; 2%nat; 3%nat]
         = [Some (Matched PRE 5); Some (Matched PRE 6); Some (Matched PRE 3); Some (Matched PRE 5)]
  | _ => False
  end.
Proof. vm_compute. split; reflexivity. Qed.

(* `int <TAB> f(void);` before the guard; the declaration is matched by an untranslated primary (8 tokens) *)
Definition ex_text_G5 : str :=
  s "int" ++ [9%N] ++ s "f(void);" ++ [10%N] ++ ifndef_text (s "A_H") ++ define_text (s "A_H") ++ endif_text.
Definition ex_oracle_G5 (k : nat) : tryres :=
  match k with 0%nat => Matched (s "IsFuncPrototype") 8 | 1%nat => Matched PRE 5 | 2%nat => Matched PRE 6 | 3%nat => Matched PRE 3
  | _ => NoMatch end.

Example ex_file_G5 :
  match lex nouni_ nouni_ ex_text_G5 with
  | Ok (items, _) =>
      tok_emitted (s "a.h") ex_oracle_G5 (tokens_of items) 2 = [s "HEADER_PROT_ALL"]
      /\ List.length (tokens_of items) = 22%nat
      /\ map tv (firstn 5 (remaining ex_oracle_G5 (tokens_of items) 1)) = ifndef_line (s "A_H")
      /\ turn_g primaries_order (remaining ex_oracle_G5 (tokens_of items) 1) = Some (Matched PRE 5)
      /\ norm_name (s "IsFuncPrototype") = s "IsOther"
  | _ => False
  end.
Proof. vm_compute. repeat split; reflexivity. Qed.
