(* C14, file level, with the EMPTY LINE that real headers have between the 42 header and `#ifndef`:
   text = 42 header ++ "\n" ++ `#ifndef X \n # define Y \n` ++ R.  turn_ge (Model/GuardTurnE.v) decides the comment turns, the
   blank-line turn (c13's IsEmptyLine translation; the four primaries tried before IsEmptyLine decline a NEWLINE-first
   statement: `declines_newline um`, the one assumption about untranslated primaries) and the guard-line turns. *)
From NV Require Import Model.Base Model.GuardBase Gen.Guard Model.Guard Model.GuardTok Proofs.StrOrder Proofs.GuardProofs Proofs.GuardTok.
From NV Require Import Model.Diag Model.Lexer Model.RuleChecks Model.EngineTok0 Model.Engine Model.RegistryOrder
  Gen.Registry Gen.IsComment Gen.IsEmptyLine Model.EngineTok Model.EngineTokE Gen.IsPreproc Model.GuardTurn Model.GuardTurnE
  Model.HeaderRe Model.HeaderState Gen.HeaderRe Gen.HeaderSM Model.Header
  Proofs.LineShift Proofs.LineShiftCor Proofs.CommentLines Proofs.HeaderLex Proofs.HeaderTurns Proofs.EmptyLineTurn
  Proofs.GuardLex Proofs.GuardFile Proofs.GuardMatch Proofs.GuardMore.
From Coq Require Import Lia.

Local Open Scope Z_scope.

(* ------------------------------------------------------------------ refinements *)
Lemma prim_run_g_ge : forall um name toks r, prim_run_g name toks = Some r -> prim_run_e (um_g um) name toks = Some r.
Proof.
  intros um name toks r. unfold prim_run_g, prim_run_e, um_g. destruct (str_eqb name PRE) eqn:E.
  - apply str_eqb_eq in E. subst name. intros H.
    change (prim_run PRE toks) with (ispreproc_prefix toks).
    destruct (ispreproc_prefix toks) as [r'|] eqn:P.
    + apply prefix_agrees in P. congruence.
    + change (str_eqb PRE (s "IsEmptyLine")) with false. cbv iota. exact H.
  - intros H. rewrite H. reflexivity.
Qed.

Theorem turn_g_refines : forall um order toks r, turn_g order toks = Some r -> turn_ge um order toks = Some r.
Proof.
  intros um. unfold turn_ge. induction order as [|name order IH]; intros toks r H; [exact H|]. cbn [turn_g turn_e] in *.
  destruct (negb (applies_global name)); [apply IH; exact H|].
  destruct (prim_run_g name toks) as [[b j]|] eqn:E; [|discriminate].
  rewrite (prim_run_g_ge um _ _ _ E). destruct b; [exact H|apply IH; exact H].
Qed.

(* um speaks about the untranslated primaries only *)
Definition silent_on_pre (um : str -> list token -> option (bool * Z)) : Prop := forall toks, um PRE toks = None.

Theorem turn_e_refines : forall um order toks r, silent_on_pre um -> turn_e um order toks = Some r -> turn_ge um order toks = Some r.
Proof.
  intros um order toks r Hs. unfold turn_ge. revert toks r. induction order as [|name order IH]; intros toks r H; [exact H|].
  cbn [turn_e] in *. destruct (negb (applies_global name)); [apply IH; exact H|].
  assert (P : forall x, prim_run_e um name toks = Some x -> prim_run_e (um_g um) name toks = Some x).
  { intros x. unfold prim_run_e, um_g. destruct (prim_run name toks); [auto|].
    destruct (str_eqb name (s "IsEmptyLine")); [auto|]. destruct (str_eqb name PRE) eqn:E; [|auto].
    apply str_eqb_eq in E. subst name. rewrite Hs. discriminate. }
  destruct (prim_run_e um name toks) as [[b j]|] eqn:E; [|discriminate].
  rewrite (P _ eq_refl). destruct b; [exact H|apply IH; exact H].
Qed.

Theorem induced_ge_induced_g : forall um oracle toks, induced_ge um oracle toks -> induced_g oracle toks.
Proof. intros um oracle toks H k r Hne Ht. apply (H k r Hne). apply turn_g_refines. exact Ht. Qed.

Theorem induced_ge_induced_e : forall um oracle toks, silent_on_pre um -> induced_ge um oracle toks -> induced_e um oracle toks.
Proof. intros um oracle toks Hs H k r Hne Ht. apply (H k r Hne). apply turn_e_refines; assumption. Qed.

Theorem induced_ge_induced : forall um oracle toks, induced_ge um oracle toks -> induced oracle toks.
Proof. intros um oracle toks H. exact (induced_e_induced _ _ _ H). Qed.

Lemma declines_newline_g : forall um, declines_newline um -> declines_newline (um_g um).
Proof.
  intros um H name t rest Hin Ht. unfold um_g.
  assert (N : str_eqb name PRE = false).
  { cbn [between_comment_and_emptyline In] in Hin. destruct Hin as [<-|[<-|[<-|[<-|[]]]]]; reflexivity. }
  rewrite N. apply H; assumption.
Qed.

(* the blank-line turn *)
Theorem turn_ge_empty_line : forall um (t : token) rest, declines_newline um -> t_type t = NEWLINE ->
  turn_ge um primaries_order (t :: rest) = Some (Matched (s "IsEmptyLine") 1).
Proof. intros um t rest H Ht. unfold turn_ge. apply turn_on_empty_line; [apply declines_newline_g; exact H|exact Ht]. Qed.

(* ------------------------------------------------------------------ lexing: one newline in front of any text *)
Section Blank.
Variables uw ud : N -> bool.

Lemma lex_newline_then : forall S0 itemsS xS, lex uw ud S0 = Ok (itemsS, xS) ->
  lex uw ud (10%N :: S0) = Ok (ITok (mktok NEWLINE 1 1 None) 0 1 :: map (sh_item 1 1) itemsS, shl 1 1 xS).
Proof.
  intros S0 itemsS xS H. unfold lex at 1. unfold init. cbn [List.length].
  rewrite (loop_step uw ud _ _ _ _ _ (step_newline uw ud S0 0%nat 1 1 [])).
  change (0 + 1)%nat with 1%nat. change (1 + 1) with (1 + 1)%Z.
  rewrite (continue_after_prefix uw ud S0 1 1%nat _ itemsS xS _ H (le_n _)). reflexivity.
Qed.

(* text -> tokens -> turns: header, blank line, the two opening lines; 14 = first body turn *)
Theorem file_shape_blank_g : forall um f x y R itemsR xR items' xf' oracle body after,
  declines_newline um -> fields_lex_ok f = true -> ident_ok x -> ident_ok y ->
  lex uw ud R = Ok (itemsR, xR) ->
  lex uw ud (lines_text (template f) ++ 10%N :: ifndef_text x ++ define_text y ++ R) = Ok (items', xf') ->
  induced_ge um oracle (tokens_of items') ->
  rest_shape_g oracle (tokens_of items') 14 body after ->
  guarded_shape oracle (tokens_of items') (comments11 ++ [SBlank]) body x y after.
Proof.
  intros um f x y R itemsR xR items' xf' oracle body after Hum Hf Hx Hy HR Hfile Hind Hrest.
  pose proof (induced_ge_induced _ _ _ Hind) as Hind0.
  pose proof (induced_ge_induced_g _ _ _ Hind) as Hindg.
  destruct (rest_shape_of_g _ _ _ _ _ Hindg Hrest) as [Hb He Ha].
  destruct (lex_guard_open uw ud x y R itemsR xR Hx Hy HR) as (its1 & its2 & m & E & T1 & T2).
  pose proof (lex_newline_then _ _ _ E) as EN.
  rewrite (header_then_text_lexed uw ud f _ _ _ Hf EN) in Hfile.
  apply (f_equal (fun r : outcome (list item * st) => match r with Ok (i, _) => i | _ => [] end)) in Hfile.
  cbv beta iota in Hfile. subst items'. clear EN E xf'.
  set (D := List.length (lines_text (template f))) in *.
  set (CI := comment_items 0 1 (template_mids f)) in *.
  cbn [map] in *. rewrite !map_app in *. rewrite tokens_of_app' in *.
  change (tokens_of (sh_item 11 D (ITok (mktok NEWLINE 1 1 None) 0 1) :: ?r)) with (sh_tok 11 (mktok NEWLINE 1 1 None) :: tokens_of r) in *.
  rewrite !tokens_of_app' in *.
  set (tN := sh_tok 11 (mktok NEWLINE 1 1 None)) in *.
  set (l1 := tokens_of (map (sh_item 11 D) (map (sh_item 1 1) its1))) in *.
  set (l2 := tokens_of (map (sh_item 11 D) (map (sh_item 1 1) its2))) in *.
  set (TR := tokens_of (map (sh_item 11 D) (map (sh_item 1 1) (map (sh_item 2 m) itemsR)))) in *.
  assert (K : forall k d its, map tv (tokens_of (map (sh_item k d) its)) = map tv (tokens_of its)).
  { intros k d its. rewrite tokens_of_sh, map_map. apply map_ext. intros t. reflexivity. }
  assert (T1' : map tv l1 = ifndef_line x) by (unfold l1; rewrite !K; exact T1).
  assert (T2' : map tv l2 = define_line y) by (unfold l2; rewrite !K; exact T2).
  subst CI.
  destruct (header_turns f (tN :: l1 ++ l2 ++ TR) oracle Hind0) as (Ho & Hr & _).
  set (toks := tokens_of (comment_items 0 1 (template_mids f)) ++ tN :: l1 ++ l2 ++ TR) in *.
  assert (O11 : oracle 11%nat = Matched (s "IsEmptyLine") 1).
  { apply Hind; rewrite Hr; [discriminate|]. apply turn_ge_empty_line; [exact Hum|reflexivity]. }
  assert (R12 : remaining oracle toks 12 = l1 ++ l2 ++ TR).
  { rewrite (remaining_S oracle toks 11), O11, Hr. exact (pop_prefix [tN] (l1 ++ l2 ++ TR)). }
  assert (O12 : oracle 12%nat = Matched PRE 5).
  { apply (induced_g_line oracle toks 12 l1 (l2 ++ TR) 5 Hindg R12); [|exact (match_ifndef l1 x _ T1')].
    apply (line_nonempty _ _ T1'). discriminate. }
  assert (L1 : List.length l1 = 5%nat) by (rewrite (tv_length _ _ T1'); reflexivity).
  assert (R13 : remaining oracle toks 13 = l2 ++ TR).
  { rewrite (remaining_S oracle toks 12), O12, R12. change 5 with (Z.of_nat 5). rewrite <- L1. apply pop_prefix. }
  assert (O13 : oracle 13%nat = Matched PRE 6).
  { apply (induced_g_line oracle toks 13 l2 TR 6 Hindg R13); [|exact (match_define l2 y _ T2')].
    apply (line_nonempty _ _ T2'). discriminate. }
  constructor.
  - intros i s0 Hi. destruct (Nat.lt_ge_cases i 11) as [Hlt|Hge].
    + rewrite nth_error_app1 in Hi by exact Hlt.
      assert (s0 = SComment) by (unfold comments11 in Hi; apply nth_error_In in Hi; apply repeat_spec in Hi; exact Hi).
      subst s0. exists 2. left. split; [reflexivity|apply Ho; exact Hlt].
    + rewrite nth_error_app2 in Hi by exact Hge. change (List.length comments11) with 11%nat in Hi.
      destruct (i - 11)%nat as [|d] eqn:Ed; [|destruct d; discriminate Hi].
      injection Hi as <-. assert (i = 11%nat) by lia. subst i. exists 1. right. split; [reflexivity|exact O11].
  - exists l1, (l2 ++ TR), 5. change (List.length (comments11 ++ [SBlank])) with 12%nat. rewrite R12. repeat split; [exact T1'|exact O12].
  - exists l2, TR, 6. change (S (List.length (comments11 ++ [SBlank]))) with 13%nat. rewrite R13. repeat split; [exact T2'|exact O13].
  - change (S (S (List.length (comments11 ++ [SBlank])))) with 14%nat. exact Hb.
  - change (S (S (List.length (comments11 ++ [SBlank])))) with 14%nat. exact He.
  - exact Ha.
Qed.

Section VerdictsBlank.
Variable um : str -> list token -> option (bool * Z).
Hypothesis Hum : declines_newline um.
Variable base : str.
Hypothesis Hh : file_type base = s ".h".
Variable f : fields.
Hypothesis Hf : fields_lex_ok f = true.
Variables (R : str) (itemsR : list item) (xR : st).
Hypothesis HR : lex uw ud R = Ok (itemsR, xR).
Variable oracle : nat -> tryres.
Variable body : list stmt.
Let pre := comments11 ++ [SBlank].
Let n := turns pre body.
Let text (x y : str) := lines_text (template f) ++ 10%N :: ifndef_text x ++ define_text y ++ R.

Theorem file_accept_blank_partial : forall items' xf', ident_ok (guard_of base) ->
  lex uw ud (text (guard_of base) (guard_of base)) = Ok (items', xf') ->
  induced_ge um oracle (tokens_of items') ->
  rest_shape_g oracle (tokens_of items') 14 body [] -> balanced body ->
  tok_emitted base oracle (tokens_of items') n = [].
Proof.
  intros items' xf' Hg Hfile Hind Hrest Hb. apply (tok_accept base Hh); [exact Hb|].
  exact (file_shape_blank_g um f _ _ R itemsR xR items' xf' oracle body [] Hum Hf Hg Hg HR Hfile Hind Hrest).
Qed.

Theorem file_G1_blank_partial : forall x y items' xf', ident_ok x -> ident_ok y ->
  x <> guard_of base -> py_upper x <> guard_of base ->
  lex uw ud (text x y) = Ok (items', xf') ->
  induced_ge um oracle (tokens_of items') -> rest_shape_g oracle (tokens_of items') 14 body [] ->
  In (s "HEADER_PROT_NAME") (tok_emitted base oracle (tokens_of items') n).
Proof.
  intros x y items' xf' Hx Hy Hne Hu Hfile Hind Hrest. apply (tok_G1 base Hh oracle _ pre body x y Hne Hu).
  exact (file_shape_blank_g um f x y R itemsR xR items' xf' oracle body [] Hum Hf Hx Hy HR Hfile Hind Hrest).
Qed.

Theorem file_G2_blank_partial : forall x y items' xf', ident_ok x -> ident_ok y ->
  x <> guard_of base -> py_upper x = guard_of base ->
  lex uw ud (text x y) = Ok (items', xf') ->
  induced_ge um oracle (tokens_of items') -> rest_shape_g oracle (tokens_of items') 14 body [] ->
  In (s "HEADER_PROT_UPPER") (tok_emitted base oracle (tokens_of items') n).
Proof.
  intros x y items' xf' Hx Hy Hne Hu Hfile Hind Hrest. apply (tok_G2 base Hh oracle _ pre body x y Hne Hu).
  exact (file_shape_blank_g um f x y R itemsR xR items' xf' oracle body [] Hum Hf Hx Hy HR Hfile Hind Hrest).
Qed.

Theorem file_G3_blank_partial : forall x y items' xf', ident_ok x -> ident_ok y ->
  y <> guard_of base -> balanced body -> defines (guard_of base) body = false ->
  lex uw ud (text x y) = Ok (items', xf') ->
  induced_ge um oracle (tokens_of items') -> rest_shape_g oracle (tokens_of items') 14 body [] ->
  In (s "HEADER_PROT_NODEF") (tok_emitted base oracle (tokens_of items') n).
Proof.
  intros x y items' xf' Hx Hy Hne Hb Hd Hfile Hind Hrest. apply (tok_G3 base Hh oracle _ pre body x y Hne Hb Hd).
  exact (file_shape_blank_g um f x y R itemsR xR items' xf' oracle body [] Hum Hf Hx Hy HR Hfile Hind Hrest).
Qed.

Theorem file_G6_blank_partial : forall x y t more items' xf', ident_ok x -> ident_ok y ->
  is_trivia_ty (t_type t) = false -> balanced body ->
  lex uw ud (text x y) = Ok (items', xf') ->
  induced_ge um oracle (tokens_of items') -> rest_shape_g oracle (tokens_of items') 14 body (t :: more) ->
  In (s "HEADER_PROT_ALL_AF") (tok_emitted base oracle (tokens_of items') n).
Proof.
  intros x y t more items' xf' Hx Hy Ht Hb Hfile Hind Hrest. apply (tok_G6 base Hh oracle _ pre body x y t more Ht Hb).
  exact (file_shape_blank_g um f x y R itemsR xR items' xf' oracle body (t :: more) Hum Hf Hx Hy HR Hfile Hind Hrest).
Qed.

Theorem file_G4_blank_partial : forall x y x2 l4 rest4 items' xf', ident_ok x -> ident_ok y ->
  balanced body -> map tv l4 = ifndef_line x2 ->
  lex uw ud (text x y) = Ok (items', xf') ->
  induced_ge um oracle (tokens_of items') -> rest_shape_g oracle (tokens_of items') 14 body (l4 ++ rest4) ->
  In (s "HEADER_PROT_MULT") (tok_emitted base oracle (tokens_of items') (S n)).
Proof.
  intros x y x2 l4 rest4 items' xf' Hx Hy Hb T4 Hfile Hind Hrest.
  pose proof (file_shape_blank_g um f x y R itemsR xR items' xf' oracle body (l4 ++ rest4) Hum Hf Hx Hy HR Hfile Hind Hrest) as Sh.
  pose proof (induced_ge_induced_g _ _ _ Hind) as Hindg.
  destruct Hrest as [_ (l3 & R3 & T3) _].
  assert (O3 : oracle (14 + List.length body)%nat = Matched PRE 3).
  { apply (induced_g_line oracle _ _ l3 (l4 ++ rest4) 3 Hindg R3); [|exact (match_endif l3 _ T3)].
    apply (line_nonempty _ _ T3). discriminate. }
  assert (Et : n = S (14 + List.length body)).
  { unfold n, pre, turns. rewrite app_length. cbn [List.length comments11 repeat]. lia. }
  assert (Hrem : remaining oracle (tokens_of items') n = l4 ++ rest4).
  { rewrite Et, remaining_S, O3, R3. change 3 with (Z.of_nat 3).
    replace 3%nat with (List.length l3) by (rewrite (tv_length _ _ T3); reflexivity). apply pop_prefix. }
  assert (O4 : oracle n = Matched PRE 5).
  { apply (induced_g_line oracle _ _ l4 rest4 5 Hindg Hrem); [|exact (match_ifndef l4 x2 rest4 T4)].
    apply (line_nonempty _ _ T4). discriminate. }
  exact (tok_G4 base Hh oracle _ pre body x y l4 rest4 x2 5 Hb T4 Sh Hrem O4).
Qed.

End VerdictsBlank.
End Blank.

(* a blank line anywhere (e.g. the usual one before `#endif`): the turn is decided and is the abstract SBlank step, so this
   part of the body simulation needs no hypothesis *)
Theorem blank_turn : forall um oracle toks k (t : token) rest, declines_newline um -> induced_ge um oracle toks ->
  remaining oracle toks k = t :: rest -> t_type t = NEWLINE ->
  oracle k = Matched (s "IsEmptyLine") 1 /\ forall c r, tok_step c (s "IsEmptyLine") (t :: rest) = Guard.step c SBlank r.
Proof.
  intros um oracle toks k t rest Hum Hind Hr Ht. split.
  - apply Hind; rewrite Hr; [discriminate|]. apply turn_ge_empty_line; assumption.
  - intros c r. apply tok_step_other; [reflexivity|discriminate|reflexivity].
Qed.

(* ------------------------------------------------------------------ a complete realistic header, tokenizer model run *)
(* 42 header / blank / #ifndef FOO_H / # define FOO_H / blank / int<TAB>f(void); / blank / #endif *)
Definition ex_real_text : str :=
  lines_text (template hud_fields) ++ [10%N] ++ ifndef_text (s "FOO_H") ++ define_text (s "FOO_H") ++ [10%N]
  ++ s "int" ++ [9%N] ++ s "f(void);" ++ [10%N] ++ [10%N] ++ endif_text.

Definition ex_real_oracle (k : nat) : tryres :=
  if Nat.ltb k 11 then Matched (s "IsComment") 2
  else match (k - 11)%nat with
       | 0%nat | 3%nat | 5%nat => Matched (s "IsEmptyLine") 1
       | 1%nat => Matched PRE 5
       | 2%nat => Matched PRE 6
       | 4%nat => Matched (s "IsFuncPrototype") 8
       | 6%nat => Matched PRE 3
       | _ => NoMatch
       end.

(* the untranslated primaries: known to decline a statement that starts with NEWLINE, unknown otherwise *)
Definition um_newline (name : str) (toks : list token) : option (bool * Z) :=
  match toks with
  | t :: _ => if str_eqb (t_type t) (s "NEWLINE") then Some (false, 0) else None
  | [] => None
  end.

Example um_newline_declines : declines_newline um_newline /\ silent_on_pre um_newline = silent_on_pre um_newline.
Proof. split; [|reflexivity]. intros name t rest _ Ht. exists 0. unfold um_newline. rewrite Ht. reflexivity. Qed.

Example ex_real_header :
  match lex nouni_ nouni_ ex_real_text with
  | Ok (items, _) =>
      tok_emitted (s "foo.h") ex_real_oracle (tokens_of items) 18 = []
      /\ remaining ex_real_oracle (tokens_of items) 18 = []
      /\ (* every comment, blank-line and guard-line turn is decided by the combined turn function, as the oracle says *)
         forallb (fun k => match turn_ge um_newline primaries_order (remaining ex_real_oracle (tokens_of items) k) with
                           | Some (Matched nm j) => match ex_real_oracle k with Matched nm' j' => str_eqb nm nm' && Z.eqb j j' | _ => false end
                           | _ => false
                           end)
                 [0; 1; 2; 3; 4; 5; 6; 7; 8; 9; 10; 11; 12; 13; 14; 16; 17]%nat = true
      /\ (* the prototype turn is the only one left to an untranslated primary *)
         turn_ge um_newline primaries_order (remaining ex_real_oracle (tokens_of items) 15) = None
  | _ => False
  end.
Proof. vm_compute. repeat split; reflexivity. Qed.
