(* main(): one verdict per file, fatal path, empty selection. *)
From NV Require Import Model.Base Model.Diag Model.Errors Model.Cli Proofs.StrOrder Proofs.ErrOrderProofs.
From Coq Require Import Lia.

Definition all_diags (fs : list fin) : Prop := forall f, In f fs -> exists ds, fi_res f = RDiags ds.

Definition file_of (f : fin) : file :=
  mkfile (fi_base f) (match fi_res f with RDiags ds => ds | _ => [] end).

Lemma analyse_all_ok fs : forall acc, all_diags fs ->
  analyse_all fs acc = Ok (inl (rev acc ++ map file_of fs)).
Proof.
  induction fs as [|f fs IH]; intros acc H; cbn.
  - now rewrite app_nil_r.
  - destruct (H f (or_introl eq_refl)) as [ds E]. rewrite E.
    rewrite IH by (intros g Hg; apply H; now right). cbn. rewrite <- app_assoc. cbn.
    unfold file_of. now rewrite E.
Qed.

(* no fatal file: the report is the concatenation, in order, of one block per file, each
   starting with `<base>: <status>!`, and the exit status is exit_code of those files *)
Theorem one_verdict_per_file fs c out e : all_diags fs ->
  run_all false c fs = Ok (RepHuman out, e) ->
  human_fmt c (map file_of fs) = Ok out /\ e = exit_code (map file_of fs).
Proof.
  intros H. unfold run_all. rewrite (analyse_all_ok fs [] H). cbn [bind rev app].
  destruct (human_fmt c (map file_of fs)); cbn; intros E; inversion E; subst. now split.
Qed.

Theorem human_block f c blk : human_file c f = Ok blk ->
  exists rest, blk = f_base f ++ s ": " ++ status (f_errors f) ++ s "!" ++ rest.
Proof.
  unfold human_file. destruct (human_lines c (sort_diags (f_errors f))); cbn; intros E; inversion E; subst.
  eexists. reflexivity.
Qed.

Theorem json_one_entry_per_file fs c files e : all_diags fs ->
  run_all true c fs = Ok (RepJson files, e) ->
  files = combine (map fi_path fs) (map json_of (map file_of fs)) /\ e = exit_code (map file_of fs).
Proof.
  intros H. unfold run_all. rewrite (analyse_all_ok fs [] H). cbn [bind rev app].
  intros E; inversion E; subst. now split.
Qed.

(* the first fatal file is named and the status is 1 *)
Theorem fatal_reported pre f post m j c : all_diags pre -> fi_res f = RFatal m ->
  run_all j c (pre ++ f :: post) =
    Ok (RepFatal (fi_path f ++ s ": Error!" ++ [10; 9]%N ++ red m ++ [10%N]), 1).
Proof.
  intros H E. unfold run_all.
  assert (A : forall acc, analyse_all (pre ++ f :: post) acc = Ok (inr (fi_path f, m))).
  { induction pre as [|g pre IH]; intros acc; cbn.
    - now rewrite E.
    - destruct (H g (or_introl eq_refl)) as [ds Eg]. rewrite Eg. apply IH. intros x Hx. apply H. now right. }
  rewrite A. reflexivity.
Qed.

Theorem empty_clean c : run_all false c [] = Ok (RepHuman [], 0) /\ run_all true c [] = Ok (RepJson [], 0).
Proof. split; reflexivity. Qed.

(* exit status 0 iff every file is OK, i.e. carries Notices only *)
Theorem exit_zero_iff fs j c r e : all_diags fs -> run_all j c fs = Ok (r, e) ->
  (e = 0 <-> forall f ds, In f fs -> fi_res f = RDiags ds -> forall d, In d ds -> d_level d = s "Notice").
Proof.
  intros H R.
  assert (E : e = exit_code (map file_of fs)).
  { unfold run_all in R. rewrite (analyse_all_ok fs [] H) in R. cbn [bind rev app] in R.
    destruct j; [now inversion R|]. destruct (human_fmt c (map file_of fs)); cbn in R; now inversion R. }
  subst e. rewrite exit_iff. split.
  - intros A f ds Hf Ef. apply status_ok_iff.
    specialize (A (file_of f) (in_map file_of _ _ Hf)). unfold file_of in A. cbn in A. now rewrite Ef in A.
  - intros A g Hg. apply in_map_iff in Hg as [f [<- Hf]]. apply status_ok_iff.
    destruct (H f Hf) as [ds Ef]. unfold file_of; cbn. rewrite Ef. now apply (A f ds).
Qed.

(* Known finding (recorded, not repaired): a fatal file ends the run inside the loop, the files
   analysed before it get no verdict line and the files after it are never analysed. *)
Definition clean_fin : fin := mkfin (s "a.c") (s "a.c") (RDiags []).
Definition fatal_fin : fin := mkfin (s "b.c") (s "b.c") (RFatal (s "boom")).
Theorem verdicts_before_fatal_refuted :
  exists fs out e, run_all false false fs = Ok (RepFatal out, e) /\ In clean_fin fs /\
    starts_with (s "b.c: Error!") out = true.
Proof. exists [clean_fin; fatal_fin]. eexists. eexists. split; [reflexivity|]. split; [now left|reflexivity]. Qed.
