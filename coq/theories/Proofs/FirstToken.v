(* The type of the token a sub-parser returns: only parse_multi_line_comment makes a MULT_COMMENT token, and it only
   fires on a text that begins with the two characters `/*`. *)
From NV Require Import Model.Base Model.Diag Model.Lexer Proofs.StrOrder Proofs.LexInv Proofs.CommentLines.
From Coq Require Import Lia.

Definition not_mult (ty : str) : bool := negb (str_eqb ty (s "MULT_COMMENT")).

Lemma table_not_mult (tbl : list (str * str)) k v :
  forallb (fun kv => not_mult (snd kv)) tbl = true -> assoc k tbl = Some v -> not_mult v = true.
Proof. intros T H. apply assoc_in in H. rewrite forallb_forall in T. exact (T _ H). Qed.

Lemma keywords_not_mult : forallb (fun kv => not_mult (snd kv)) keywords = true.
Proof. vm_compute. reflexivity. Qed.
Lemma operators_not_mult : forallb (fun kv => not_mult (snd kv)) operators = true.
Proof. vm_compute. reflexivity. Qed.
Lemma brackets_not_mult : forallb (fun kv => not_mult (snd kv)) brackets = true.
Proof. vm_compute. reflexivity. Qed.

Ltac ty_go :=
  repeat match goal with
         | |- PNone = PTok _ _ -> _ => discriminate
         | |- PExn _ = PTok _ _ -> _ => discriminate
         | |- PTok _ _ = PTok _ _ -> _ => let H := fresh in intros H; inversion H; subst; clear H
         | |- context [match ?a with _ => _ end] =>
             lazymatch a with context [match _ with _ => _ end] => fail | _ => destruct a eqn:? end
         end.

Lemma char_type x t x' : parse_char_literal x = PTok t x' -> not_mult (t_type t) = true.
Proof. unfold parse_char_literal. ty_go; reflexivity. Qed.
Lemma string_type x t x' : parse_string_literal x = PTok t x' -> not_mult (t_type t) = true.
Proof. unfold parse_string_literal. ty_go; reflexivity. Qed.
Lemma ident_type x t x' : parse_identifier x = PTok t x' -> not_mult (t_type t) = true.
Proof.
  unfold parse_identifier, of_popres. ty_go; cbn [t_type]; try reflexivity.
  eapply table_not_mult; [exact keywords_not_mult|eassumption].
Qed.
Lemma ws_type x t x' : parse_whitespace x = PTok t x' -> not_mult (t_type t) = true.
Proof. unfold parse_whitespace, of_popres. ty_go; reflexivity. Qed.
Lemma lc_type x t x' : parse_line_comment x = PTok t x' -> not_mult (t_type t) = true.
Proof. unfold parse_line_comment, of_popres. ty_go; reflexivity. Qed.
Lemma brackets_type x t x' : parse_brackets x = PTok t x' -> not_mult (t_type t) = true.
Proof.
  unfold parse_brackets, of_popres. ty_go; cbn [t_type]. eapply table_not_mult; [exact brackets_not_mult|eassumption].
Qed.
Lemma op_token_type x0 r t x' : op_token x0 r = PTok t x' -> not_mult (t_type t) = true.
Proof.
  unfold op_token, of_popres. ty_go; cbn [t_type]. eapply table_not_mult; [exact operators_not_mult|eassumption].
Qed.
Lemma operator_type x t x' : parse_operator x = PTok t x' -> not_mult (t_type t) = true.
Proof.
  unfold parse_operator.
  repeat match goal with
         | |- PNone = PTok _ _ -> _ => discriminate
         | |- PExn _ = PTok _ _ -> _ => discriminate
         | |- op_token _ _ = PTok _ _ -> _ => apply op_token_type
         | |- context [match ?a with _ => _ end] =>
             lazymatch a with context [match _ with _ => _ end] => fail | _ => destruct a eqn:? end
         end.
Qed.

Lemma int_type uw ud x t x' : parse_integer_literal uw ud x = PTok t x' -> not_mult (t_type t) = true.
Proof. unfold parse_integer_literal, of_popres. ty_go; reflexivity. Qed.
Lemma float_type uw ud x t x' : parse_float_literal uw ud x = PTok t x' -> not_mult (t_type t) = true.
Proof. unfold parse_float_literal, of_popres. ty_go; reflexivity. Qed.

Lemma mlc_needs_opening x : raw_peek 2 (rest x) <> Some (s "/*") -> parse_multi_line_comment x = PNone.
Proof.
  intros H. unfold parse_multi_line_comment. destruct (raw_peek 2 (rest x)) as [r|]; [|reflexivity].
  destruct (str_eqb r (s "/*")) eqn:E; [|reflexivity]. apply str_eqb_eq in E. subst. congruence.
Qed.

Lemma run_parser_last_two uw ud x :
  run_parser uw ud (s "parse_operator") x = parse_operator x /\ run_parser uw ud (s "parse_brackets") x = parse_brackets x.
Proof. split; reflexivity. Qed.

(* the dispatcher: unless the text begins with `/*`, the token it returns is not a block comment *)
Theorem try_parsers_not_mult uw ud x t x' : raw_peek 2 (rest x) <> Some (s "/*") ->
  try_parsers uw ud parsers x = PTok t x' -> not_mult (t_type t) = true.
Proof.
  intros Hn. destruct (run_parser_names uw ud x) as (E1 & E2 & E3 & E4 & E5 & E6 & E7 & E8).
  destruct (run_parser_last_two uw ud x) as [E9 E10].
  unfold parsers. cbn [try_parsers]. rewrite E1, E2, E3, E4, E5, E6, E7, E8, E9, E10, (mlc_needs_opening x Hn).
  destruct (parse_float_literal uw ud x) eqn:F1; [|intros H; inversion H; subst; eapply float_type; eassumption|discriminate].
  destruct (parse_integer_literal uw ud x) eqn:F2; [|intros H; inversion H; subst; eapply int_type; eassumption|discriminate].
  destruct (parse_char_literal x) eqn:F3; [|intros H; inversion H; subst; eapply char_type; eassumption|discriminate].
  destruct (parse_string_literal x) eqn:F4; [|intros H; inversion H; subst; eapply string_type; eassumption|discriminate].
  destruct (parse_identifier x) eqn:F5; [|intros H; inversion H; subst; eapply ident_type; eassumption|discriminate].
  destruct (parse_whitespace x) eqn:F6; [|intros H; inversion H; subst; eapply ws_type; eassumption|discriminate].
  destruct (parse_line_comment x) eqn:F7; [|intros H; inversion H; subst; eapply lc_type; eassumption|discriminate].
  destruct (parse_operator x) eqn:F9; [|intros H; inversion H; subst; eapply operator_type; eassumption|discriminate].
  destruct (parse_brackets x) eqn:F10; [discriminate|intros H; inversion H; subst; eapply brackets_type; eassumption|discriminate].
Qed.

(* hence: when the first item of a lexed text is a token and the text does not begin with `/*`, that token is not a
   block comment *)
Theorem first_item_not_mult uw ud src items xf t lo hi its :
  lex uw ud src = Ok (items, xf) -> items = ITok t lo hi :: its -> raw_peek 2 src <> Some (s "/*") ->
  not_mult (t_type t) = true.
Proof.
  intros H -> Hn. unfold lex in H. cbn [lex_loop] in H.
  destruct (step uw ud (init src)) as [|i x1|e] eqn:Es; [inversion H|rewrite Proofs.LineShiftCor.lex_loop_acc in H|discriminate].
  destruct (lex_loop uw ud _ x1 []) as [[its1 xf1]| | |]; cbn [Proofs.LineShiftCor.pre_items rev app] in H; try discriminate.
  inversion H; subst. clear H.
  unfold step in Es. cbn [init rest] in Es. destruct src as [|c r].
  - destruct (try_parsers uw ud parsers (init [])) as [|t0 x0|e0] eqn:Et; try discriminate;
      try (inversion Es; subst; exact (try_parsers_not_mult uw ud (init []) _ _ Hn Et)).
  - destruct (at_splice (c :: r)).
    + destruct (peek1 (c :: r)) as [[? ?]|]; discriminate.
    + destruct (try_parsers uw ud parsers (init (c :: r))) as [|t0 x0|e0] eqn:Et; try discriminate.
      inversion Es; subst. exact (try_parsers_not_mult uw ud (init (c :: r)) _ _ Hn Et).
Qed.
