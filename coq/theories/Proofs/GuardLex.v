(* C14, lexer half of file -> trace: the text `#ifndef X \n # define Y \n` in front of ANY text R that the tokenizer
   model accepts is lexed into HASH IDENTIFIER(ifndef) SPACE IDENTIFIER(X) NEWLINE HASH SPACE IDENTIFIER(define) SPACE
   IDENTIFIER(Y) NEWLINE followed by the tokens of R two lines lower - for every identifier X, Y that is no keyword - and
   the same behind the 42 header (Proofs/HeaderLex).  `#endif \n` alone is lexed into HASH IDENTIFIER(endif) NEWLINE. *)
From NV Require Import Model.Base Model.GuardBase Gen.Guard Model.Guard Model.GuardTok Proofs.GuardProofs.
From NV Require Import Model.Diag Model.Lexer Gen.Dict
  Model.HeaderRe Model.HeaderState Gen.HeaderRe Gen.HeaderSM Model.Header
  Proofs.LexRename Proofs.LexCompose Proofs.LineShift Proofs.LineShiftCor Proofs.CommentLines Proofs.HeaderLex.
From Coq Require Import Lia.

Local Open Scope Z_scope.

(* a C identifier that is not a keyword of the tokenizer *)
Definition ident_ok (x : str) : Prop :=
  match x with
  | c :: v => is_ident_start c = true /\ forallb is_ident_char v = true /\ assoc x keywords = None
  | [] => False
  end.

Definition all_tok (its : list item) : Prop := Forall (fun i => match i with ITok _ _ _ => True | _ => False end) its.

Section GuardLex.
Variables uw ud : N -> bool.

Lemma step_hash_i r o l c e :
  step uw ud (mkst (35 :: 105 :: r)%N o l c e) =
  StepItem (ITok (mktok (s "HASH") l c None) o (o + 1)%nat) (mkst (105 :: r)%N (o + 1)%nat l (c + 1) e).
Proof. vm_compute. reflexivity. Qed.

Lemma step_hash_e r o l c e :
  step uw ud (mkst (35 :: 101 :: r)%N o l c e) =
  StepItem (ITok (mktok (s "HASH") l c None) o (o + 1)%nat) (mkst (101 :: r)%N (o + 1)%nat l (c + 1) e).
Proof. vm_compute. reflexivity. Qed.

Lemma step_hash_sp r o l c e :
  step uw ud (mkst (35 :: 32 :: r)%N o l c e) =
  StepItem (ITok (mktok (s "HASH") l c None) o (o + 1)%nat) (mkst (32 :: r)%N (o + 1)%nat l (c + 1) e).
Proof. vm_compute. reflexivity. Qed.

Lemma step_space r o l c e :
  step uw ud (mkst (32 :: r)%N o l c e) =
  StepItem (ITok (mktok (s "SPACE") l c None) o (o + 1)%nat) (mkst r (o + 1)%nat l (c + 1) e).
Proof. vm_compute. reflexivity. Qed.

(* an identifier that is no keyword, followed by a blank or a newline *)
Lemma step_ident_at x d r o l c e : ident_ok x -> (d = 32%N \/ d = 10%N) ->
  step uw ud (mkst (x ++ d :: r) o l c e) =
  StepItem (ITok (mktok (s "IDENTIFIER") l c (Some x)) o (o + List.length x)%nat)
           (mkst (d :: r) (o + List.length x)%nat l (c + Z.of_nat (List.length x)) e).
Proof.
  intros Hx Hd. destruct x as [|a v]; [destruct Hx|]. destruct Hx as (Ha & Hv & Hk).
  assert (Hs : ident_site a v (d :: r)).
  { repeat split; try assumption; destruct Hd as [-> | ->]; reflexivity. }
  rewrite (step_identifier uw ud (mkst ((a :: v) ++ d :: r) o l c e) a v (d :: r) Hs eq_refl).
  unfold ident_token. rewrite Hk. unfold shift. cbn [rest off line col errs List.length].
  replace (skipn (S (List.length v)) ((a :: v) ++ d :: r)) with (d :: r).
  - reflexivity.
  - change (S (List.length v)) with (List.length (a :: v)). rewrite skipn_app, skipn_all, Nat.sub_diag. reflexivity.
Qed.

Lemma loop_step f x acc i x' : step uw ud x = StepItem i x' ->
  lex_loop uw ud (S f) x acc = lex_loop uw ud f x' (i :: acc).
Proof. intros H. cbn [lex_loop]. rewrite H. reflexivity. Qed.

Lemma kw_ifndef : ident_ok (s "ifndef") /\ ident_ok (s "define") /\ ident_ok (s "endif").
Proof. repeat split; vm_compute; reflexivity. Qed.

(* `#ifndef X \n` at the start of a line: five turns of the tokenizer loop *)
Lemma lex_ifndef_line x T o l e f acc : ident_ok x ->
  exists its m, lex_loop uw ud (5 + f) (mkst (ifndef_text x ++ T) o l 1 e) acc = lex_loop uw ud f (mkst T m (l + 1) 1 e) (rev its ++ acc)
                /\ map tv (tokens_of its) = ifndef_line x /\ all_tok its /\ m = (o + List.length (ifndef_text x))%nat.
Proof.
  intros Hx. destruct kw_ifndef as (K1 & _ & _).
  assert (A : exists i1 i2 i3 i4 i5 m,
    lex_loop uw ud (5 + f) (mkst (ifndef_text x ++ T) o l 1 e) acc = lex_loop uw ud f (mkst T m (l + 1) 1 e) (i5 :: i4 :: i3 :: i2 :: i1 :: acc)
    /\ map tv (tokens_of [i1; i2; i3; i4; i5]) = ifndef_line x /\ all_tok [i1; i2; i3; i4; i5] /\ m = (o + List.length (ifndef_text x))%nat).
  { do 6 eexists. split; [|split; [|split]].
    - assert (Et : ifndef_text x ++ T = (35 :: 105 :: 102 :: 110 :: 100 :: 101 :: 102 :: 32 :: x ++ 10 :: T)%N)
        by (unfold ifndef_text; rewrite <- !app_assoc; reflexivity).
      rewrite Et. cbn [Nat.add].
      rewrite (loop_step _ _ _ _ _ (step_hash_i _ o l 1 e)).
      change (105 :: 102 :: 110 :: 100 :: 101 :: 102 :: 32 :: x ++ 10 :: T)%N with (s "ifndef" ++ 32%N :: (x ++ 10%N :: T)).
      rewrite (loop_step _ _ _ _ _ (step_ident_at (s "ifndef") 32 _ _ l _ e K1 (or_introl eq_refl))).
      rewrite (loop_step _ _ _ _ _ (step_space _ _ l _ e)).
      rewrite (loop_step _ _ _ _ _ (step_ident_at x 10 T _ l _ e Hx (or_intror eq_refl))).
      rewrite (loop_step _ _ _ _ _ (step_newline uw ud T _ l _ e)). reflexivity.
    - reflexivity.
    - repeat constructor.
    - unfold ifndef_text. rewrite !app_length. change (List.length (s "ifndef")) with 6%nat.
      change (List.length (s "#ifndef ")) with 8%nat. cbn [List.length]. lia. }
  destruct A as (i1 & i2 & i3 & i4 & i5 & m & E & R). exists [i1; i2; i3; i4; i5], m. split; [exact E|exact R].
Qed.

(* `# define Y \n` *)
Lemma lex_define_line y T o l e f acc : ident_ok y ->
  exists its m, lex_loop uw ud (6 + f) (mkst (define_text y ++ T) o l 1 e) acc = lex_loop uw ud f (mkst T m (l + 1) 1 e) (rev its ++ acc)
                /\ map tv (tokens_of its) = define_line y /\ all_tok its /\ m = (o + List.length (define_text y))%nat.
Proof.
  intros Hy. destruct kw_ifndef as (_ & K2 & _).
  assert (A : exists i1 i2 i3 i4 i5 i6 m,
    lex_loop uw ud (6 + f) (mkst (define_text y ++ T) o l 1 e) acc = lex_loop uw ud f (mkst T m (l + 1) 1 e) (i6 :: i5 :: i4 :: i3 :: i2 :: i1 :: acc)
    /\ map tv (tokens_of [i1; i2; i3; i4; i5; i6]) = define_line y /\ all_tok [i1; i2; i3; i4; i5; i6] /\ m = (o + List.length (define_text y))%nat).
  { do 7 eexists. split; [|split; [|split]].
    - assert (Et : define_text y ++ T = (35 :: 32 :: 100 :: 101 :: 102 :: 105 :: 110 :: 101 :: 32 :: y ++ 10 :: T)%N)
        by (unfold define_text; rewrite <- !app_assoc; reflexivity).
      rewrite Et. cbn [Nat.add].
      rewrite (loop_step _ _ _ _ _ (step_hash_sp _ o l 1 e)).
      rewrite (loop_step _ _ _ _ _ (step_space _ _ l _ e)).
      change (100 :: 101 :: 102 :: 105 :: 110 :: 101 :: 32 :: y ++ 10 :: T)%N with (s "define" ++ 32%N :: (y ++ 10%N :: T)).
      rewrite (loop_step _ _ _ _ _ (step_ident_at (s "define") 32 _ _ l _ e K2 (or_introl eq_refl))).
      rewrite (loop_step _ _ _ _ _ (step_space _ _ l _ e)).
      rewrite (loop_step _ _ _ _ _ (step_ident_at y 10 T _ l _ e Hy (or_intror eq_refl))).
      rewrite (loop_step _ _ _ _ _ (step_newline uw ud T _ l _ e)). reflexivity.
    - reflexivity.
    - repeat constructor.
    - unfold define_text. rewrite !app_length. change (List.length (s "define")) with 6%nat.
      change (List.length (s "# define ")) with 9%nat. cbn [List.length]. lia. }
  destruct A as (i1 & i2 & i3 & i4 & i5 & i6 & m & E & R). exists [i1; i2; i3; i4; i5; i6], m. split; [exact E|exact R].
Qed.

(* `#endif \n` *)
Lemma lex_endif_line T o l e f acc :
  exists its m, lex_loop uw ud (3 + f) (mkst (endif_text ++ T) o l 1 e) acc = lex_loop uw ud f (mkst T m (l + 1) 1 e) (rev its ++ acc)
                /\ map tv (tokens_of its) = endif_line /\ all_tok its /\ m = (o + List.length endif_text)%nat.
Proof.
  destruct kw_ifndef as (_ & _ & K3).
  assert (A : exists i1 i2 i3 m,
    lex_loop uw ud (3 + f) (mkst (endif_text ++ T) o l 1 e) acc = lex_loop uw ud f (mkst T m (l + 1) 1 e) (i3 :: i2 :: i1 :: acc)
    /\ map tv (tokens_of [i1; i2; i3]) = endif_line /\ all_tok [i1; i2; i3] /\ m = (o + List.length endif_text)%nat).
  { do 4 eexists. split; [|split; [|split]].
    - assert (Et : endif_text ++ T = (35 :: 101 :: 110 :: 100 :: 105 :: 102 :: 10 :: T)%N) by reflexivity.
      rewrite Et. cbn [Nat.add].
      rewrite (loop_step _ _ _ _ _ (step_hash_e _ o l 1 e)).
      change (101 :: 110 :: 100 :: 105 :: 102 :: 10 :: T)%N with (s "endif" ++ 10%N :: T).
      rewrite (loop_step _ _ _ _ _ (step_ident_at (s "endif") 10 T _ l _ e K3 (or_intror eq_refl))).
      rewrite (loop_step _ _ _ _ _ (step_newline uw ud T _ l _ e)). reflexivity.
    - reflexivity.
    - repeat constructor.
    - change (List.length (s "endif")) with 5%nat. change (List.length endif_text) with 7%nat. lia. }
  destruct A as (i1 & i2 & i3 & m & E & R). exists [i1; i2; i3], m. split; [exact E|exact R].
Qed.

Lemma tokens_of_app' : forall a b, tokens_of (a ++ b) = tokens_of a ++ tokens_of b.
Proof. intros. unfold tokens_of. apply flat_map_app. Qed.

(* ------------------------------------------------------------------ the two opening lines, then any text *)
Theorem lex_guard_open : forall x y R itemsR xR, ident_ok x -> ident_ok y ->
  lex uw ud R = Ok (itemsR, xR) ->
  exists its1 its2 m,
    lex uw ud (ifndef_text x ++ define_text y ++ R) = Ok (its1 ++ its2 ++ map (sh_item 2 m) itemsR, shl 2 m xR) /\
    map tv (tokens_of its1) = ifndef_line x /\ map tv (tokens_of its2) = define_line y.
Proof.
  intros x y R itemsR xR Hx Hy HR. unfold lex at 1. unfold init.
  set (text := ifndef_text x ++ define_text y ++ R).
  assert (Hlen : exists f, S (List.length text) = (5 + (6 + f))%nat /\ (S (List.length R) <= f)%nat).
  { exists (S (List.length text) - 11)%nat. subst text. unfold ifndef_text, define_text.
    repeat rewrite app_length.
    change (List.length (s "#ifndef ")) with 8%nat. change (List.length (s "# define ")) with 9%nat. cbn [List.length]. split; lia. }
  destruct Hlen as (f & -> & Hf). subst text.
  destruct (lex_ifndef_line x (define_text y ++ R) 0%nat 1 [] (6 + f) [] Hx) as (its1 & m1 & E1 & T1 & _ & _).
  rewrite E1.
  destruct (lex_define_line y R m1 (1 + 1) [] f (rev its1 ++ []) Hy) as (its2 & m2 & E2 & T2 & _ & _).
  rewrite E2. change (1 + 1 + 1) with (1 + 2).
  rewrite (continue_after_prefix uw ud R 2 m2 _ itemsR xR f HR Hf).
  exists its1, its2, m2. split; [|split; assumption].
  rewrite app_nil_r, rev_app_distr, !rev_involutive, <- app_assoc. reflexivity.
Qed.

(* behind the 42 header *)
Theorem lex_header_guard_open : forall f x y R itemsR xR, fields_lex_ok f = true -> ident_ok x -> ident_ok y ->
  lex uw ud R = Ok (itemsR, xR) ->
  exists its1 its2 itsR xf,
    lex uw ud (lines_text (template f) ++ ifndef_text x ++ define_text y ++ R) =
      Ok (comment_items 0 1 (template_mids f) ++ its1 ++ its2 ++ itsR, xf) /\
    map tv (tokens_of its1) = ifndef_line x /\ map tv (tokens_of its2) = define_line y /\
    map tv (tokens_of itsR) = map tv (tokens_of itemsR).
Proof.
  intros f x y R itemsR xR Hf Hx Hy HR.
  destruct (lex_guard_open x y R itemsR xR Hx Hy HR) as (its1 & its2 & m & E & T1 & T2).
  pose proof (header_then_text_lexed uw ud f _ _ _ Hf E) as H.
  set (D := List.length (lines_text (template f))) in *.
  exists (map (sh_item 11 D) its1), (map (sh_item 11 D) its2), (map (sh_item 11 D) (map (sh_item 2 m) itemsR)), (shl 11 D (shl 2 m xR)).
  split; [rewrite H, !map_app; reflexivity|].
  assert (K : forall k d its, map tv (tokens_of (map (sh_item k d) its)) = map tv (tokens_of its)).
  { intros k d its. rewrite tokens_of_sh, map_map. apply map_ext. intros t. reflexivity. }
  rewrite !K. auto.
Qed.

(* the closing line alone *)
Theorem lex_endif_alone : exists its xf, lex uw ud endif_text = Ok (its, xf) /\ map tv (tokens_of its) = endif_line.
Proof.
  unfold lex. change (S (List.length endif_text)) with (3 + 5)%nat.
  change (init endif_text) with (mkst (endif_text ++ []) 0 1 1 []).
  destruct (lex_endif_line [] 0%nat 1 [] 5%nat []) as (its & m & E & T & _ & _).
  rewrite E. cbn [lex_loop]. rewrite (step_end uw ud).
  eexists _, _. split; [reflexivity|]. rewrite app_nil_r, rev_involutive. exact T.
Qed.

End GuardLex.

(* ------------------------------------------------------------------ the expected symbol of an admissible header name is such an identifier *)
(* base names over [a-z0-9_.] whose first character is a letter, `_` or `.`: guard_of base starts with a letter or `_`,
   continues with identifier characters and - ending in _H - is no keyword *)
Definition name_start (c : N) : Prop := (97 <= c <= 122)%N \/ c = 95%N \/ c = 46%N.

Lemma macro_char_ident c : macro_char c -> is_ident_char c = true.
Proof. unfold macro_char, is_ident_char, is_ident_start, is_letter. intros H. lia. Qed.

Lemma keywords_without_upper_h : forallb (fun kv => negb (chr_in 72%N (fst kv))) keywords = true.
Proof. vm_compute. reflexivity. Qed.

Lemma assoc_none_by : forall (P : str -> bool) k (tbl : list (str * str)),
  forallb (fun kv => negb (P (fst kv))) tbl = true -> P k = true -> assoc k tbl = None.
Proof.
  intros P k tbl. induction tbl as [|[a b] tbl IH]; intros H Hk; [reflexivity|].
  cbn [forallb fst] in H. apply andb_prop in H. destruct H as [H1 H2]. cbn [assoc].
  destruct (str_eqb k a) eqn:E; [|apply IH; assumption].
  apply Proofs.StrOrder.str_eqb_eq in E. subst a. rewrite Hk in H1. discriminate.
Qed.

Theorem guard_of_ident_ok : forall c stem, name_start c -> Forall name_char stem ->
  ident_ok (guard_of ((c :: stem) ++ s ".h")).
Proof.
  intros c stem Hc Hs.
  assert (Hall : Forall name_char ((c :: stem) ++ s ".h")).
  { apply Forall_app. split; [constructor; [unfold name_start, name_char in *; lia|exact Hs]|].
    change (s ".h") with [46%N; 104%N]. constructor; [unfold name_char; lia|]. constructor; [unfold name_char; lia|constructor]. }
  pose proof (guard_of_alphabet _ Hall) as Hm.
  rewrite guard_of_map in *. cbn [app map] in *.
  split; [|split].
  - unfold guard_char, ascii_upper, is_ident_start, is_letter. unfold name_start in Hc.
    destruct (N.leb_spec 97 c); destruct (N.leb_spec c 122); cbn [andb];
      repeat match goal with |- context [N.eqb ?a ?b] => destruct (N.eqb_spec a b) end; lia.
  - inversion Hm; subst. clear - H2. induction H2 as [|d l Hd _ IH]; [reflexivity|]. cbn [forallb].
    rewrite (macro_char_ident d Hd), IH. reflexivity.
  - apply (assoc_none_by (chr_in 72%N)); [exact keywords_without_upper_h|].
    change (chr_in 72%N ?l) with (existsb (N.eqb 72) l). apply existsb_exists. exists 72%N. split; [|reflexivity].
    right. rewrite map_app. apply in_or_app. right. vm_compute. tauto.
Qed.
