(* Token-local theorems about the generated models of CheckPreprocessorInclude and CheckPreprocessorDefine (Gen/PreprocChecks2.v),
   property C02: operators P07 P08 (include) and P01 P02 P03 (define); outcome theorems for property C05.  Unbounded in the tokens. *)
From Coq Require Import List ZArith Bool Lia.
Import ListNotations.
From NV Require Import Model.Base Model.Lexer Model.RuleChecks Model.PreprocBase Model.PreprocBase2 Gen.PreprocChecks2 Proofs.PreprocProofs.
Open Scope Z_scope.

Definition one_at (c : str) (ot : option token) : list em := match ot with Some t => [at_tok c t] | None => [] end.

Lemma emit_exact : forall c ot E E', emit c ot E = Ok E' -> E' = E ++ one_at c ot.
Proof. intros c ot E E' H. apply emit_ok in H. destruct H as [t [-> ->]]. reflexivity. Qed.

(* ================================================================ CheckPreprocessorInclude *)
Definition angle_bad (toks : list token) (i3 : Z) : bool :=
  match peek toks (i3 - 1) with
  | Some last => negb (str_eqb (t_type last) ppn_id2) || negb (optstr_eqb (t_val last) (Some ppn_h))
                 || match peek toks (i3 - 2) with Some prev => negb (str_eqb (t_type prev) ppn_dot) | None => false end
  | None => false
  end.

Lemma ppn_angle_exact : forall toks less i3 E1 E, ppn_angle toks less i3 E1 = Ok E ->
  E = E1 ++ (if angle_bad toks i3 then one_at ppn_c_header2 less else []).
Proof.
  intros toks less i3 E1 E H. unfold ppn_angle, need_tok in H. unfold angle_bad.
  destruct (peek toks (i3 - 1)) as [last|]; [|discriminate].
  destruct (negb (str_eqb (t_type last) ppn_id2)); [apply emit_exact in H; exact H|].
  destruct (negb (optstr_eqb (t_val last) (Some ppn_h))); [apply emit_exact in H; exact H|].
  destruct (peek toks (i3 - 2)) as [prev|]; [|discriminate].
  cbv beta iota delta [orb]. destruct (negb (str_eqb (t_type prev) ppn_dot)); [apply emit_exact in H; exact H|].
  apply Ok_inj_pp in H. subst E. rewrite app_nil_r. reflexivity.
Qed.

Definition file_pos (toks : list token) (i1 : Z) : Z := skip_ws toks (i1 + 1).
Definition more_pos (toks : list token) (i1 : Z) : option Z := scan_until (S (List.length toks)) toks ppn_more (file_pos toks i1).
Definition string_bad (ts : token) : bool :=
  match t_val ts with Some w => negb (str_eqb (py_splitext_ext (strip_chars ppn_quote (strip_chars py_ascii_ws w))) ppn_dot_h) | None => false end.
Definition file_part (toks : list token) (i1 : Z) : list em :=
  if truthy (check1 toks (file_pos toks i1) ppn_string)
  then match peek toks (file_pos toks i1) with Some ts => if string_bad ts then [at_tok ppn_c_header ts] else [] | None => [] end
  else match more_pos toks i1 with
       | Some i3 => if angle_bad toks i3 then one_at ppn_c_header2 (peek toks (file_pos toks i1)) else []
       | None => []
       end.

Lemma ppn_file_exact : forall toks i1 E1 E, ppn_file toks i1 E1 = Ok E -> E = E1 ++ file_part toks i1.
Proof.
  intros toks i1 E1 E H. unfold ppn_file in H. cbv zeta in H. fold (file_pos toks i1) in H. unfold file_part, more_pos.
  destruct (truthy (check1 toks (file_pos toks i1) ppn_string)).
  - unfold need_tok, need_val in H. destruct (peek toks (file_pos toks i1)) as [ts|] eqn:P; [|discriminate].
    unfold string_bad. destruct (t_val ts) as [w|]; [|discriminate].
    destruct (negb (str_eqb (py_splitext_ext (strip_chars ppn_quote (strip_chars py_ascii_ws w))) ppn_dot_h)).
    + apply emit_exact in H. exact H.
    + apply Ok_inj_pp in H. subst E. rewrite app_nil_r. reflexivity.
  - destruct (scan_until (S (Datatypes.length toks)) toks ppn_more (file_pos toks i1)) as [i3|]; [|discriminate].
    apply ppn_angle_exact in H. exact H.
Qed.

Definition inc_name_pos (toks : list token) : Z := skip_ws toks (skip_ws toks 0 + 1).
Definition is_include (toks : list token) : bool :=
  negb (is_false (check1 toks (inc_name_pos toks) ppn_id1)) &&
  match peek toks (inc_name_pos toks) with Some t1 => optstr_eqb (t_val t1) (Some ppn_include) | None => false end.
Definition inc_start_part (toks : list token) (hist : list str) (allowed : bool) : list em :=
  if negb (ppn_in_start hist allowed) then one_at ppn_c_start (peek toks (skip_ws toks 0)) else [].

(* the EXACT diagnostics of CheckPreprocessorInclude whenever it ends normally *)
Theorem ppn_exact : forall toks hist allowed E, check_preproc_include toks hist allowed = Ok E ->
  E = if is_include toks then inc_start_part toks hist allowed ++ file_part toks (inc_name_pos toks) else [].
Proof.
  intros toks hist allowed E H. unfold check_preproc_include in H. cbv zeta in H. fold (inc_name_pos toks) in H. unfold is_include.
  destruct (is_false (check1 toks (inc_name_pos toks) ppn_id1)); [apply Ok_inj_pp in H; symmetry; exact H|].
  unfold need_tok in H. destruct (peek toks (inc_name_pos toks)) as [t1|]; [|discriminate].
  cbv beta iota delta [negb andb].
  destruct (optstr_eqb (t_val t1) (Some ppn_include)); cbv beta iota delta [negb] in H; [|apply Ok_inj_pp in H; symmetry; exact H].
  unfold inc_start_part. unfold bind in H. destruct (ppn_in_start hist allowed); cbv beta iota delta [negb] in H |- *.
  - apply ppn_file_exact in H. exact H.
  - destruct (emit ppn_c_start (peek toks (skip_ws toks 0)) []) as [E1| | |] eqn:M; try discriminate.
    apply emit_exact in M. apply ppn_file_exact in H. subst. reflexivity.
Qed.

(* P08: an include after anything but comments, empty lines and directives, or where includes are no longer allowed *)
Theorem ppn_start_reported : forall toks hist allowed E h, check_preproc_include toks hist allowed = Ok E ->
  is_include toks = true -> peek toks (skip_ws toks 0) = Some h -> ppn_in_start hist allowed = false -> In (at_tok ppn_c_start h) E.
Proof.
  intros toks hist allowed E h H I P S. rewrite (ppn_exact _ _ _ _ H). rewrite I. unfold inc_start_part. rewrite S, P. simpl. left; reflexivity.
Qed.
Lemma ppn_in_start_false : forall hist allowed r, In r hist -> str_in r [ppn_hd1; ppn_hd2; ppn_hd3] = false -> ppn_in_start hist allowed = false.
Proof.
  intros hist allowed r I S. unfold ppn_in_start. apply andb_false_iff. right.
  destruct (forallb (fun r0 => str_in r0 [ppn_hd1; ppn_hd2; ppn_hd3]) hist) eqn:F; [|reflexivity].
  rewrite forallb_forall in F. rewrite (F r I) in S. discriminate.
Qed.
(* P07, "file" form: the extension of the quoted file is not .h *)
Theorem ppn_header_string_reported : forall toks hist allowed E ts, check_preproc_include toks hist allowed = Ok E ->
  is_include toks = true -> peek toks (file_pos toks (inc_name_pos toks)) = Some ts -> str_eqb (t_type ts) ppn_string = true ->
  string_bad ts = true -> In (at_tok ppn_c_header ts) E.
Proof.
  intros toks hist allowed E ts H I P T B. rewrite (ppn_exact _ _ _ _ H). rewrite I. apply in_or_app; right.
  unfold file_part, check1. rewrite P. cbv beta iota. rewrite T. cbv beta iota delta [truthy]. rewrite B. left; reflexivity.
Qed.
(* P07, <file> form: the token before `>` is not the identifier h, or the one before is not a dot *)
Theorem ppn_header_angle_reported : forall toks hist allowed E less i3, check_preproc_include toks hist allowed = Ok E ->
  is_include toks = true -> peek toks (file_pos toks (inc_name_pos toks)) = Some less -> str_eqb (t_type less) ppn_string = false ->
  more_pos toks (inc_name_pos toks) = Some i3 -> angle_bad toks i3 = true -> In (at_tok ppn_c_header2 less) E.
Proof.
  intros toks hist allowed E less i3 H I P T M B. rewrite (ppn_exact _ _ _ _ H). rewrite I. apply in_or_app; right.
  unfold file_part, check1. rewrite P. cbv beta iota. rewrite T. cbv beta iota delta [truthy]. rewrite M, B. left; reflexivity.
Qed.

(* ================================================================ CheckPreprocessorDefine *)
Definition tail_part (toks : list token) (i : Z) : list em :=
  if is_some (peek toks (skip_ws_c toks i)) && negb (truthy (check1 toks (skip_ws_c toks i) ppd_nl))
  then one_at ppd_c_const2 (peek toks (skip_ws_c toks i)) else [].
Lemma ppd_tail_exact : forall toks i E2 E, ppd_tail toks i E2 = Ok E -> E = E2 ++ tail_part toks i.
Proof.
  intros toks i E2 E H. unfold ppd_tail in H. cbv zeta in H. unfold tail_part.
  destruct (is_some (peek toks (skip_ws_c toks i)) && negb (truthy (check1 toks (skip_ws_c toks i) ppd_nl))).
  - apply emit_exact in H. exact H.
  - apply Ok_inj_pp in H. subst E. rewrite app_nil_r. reflexivity.
Qed.

Definition value_part (toks : list token) (i5 : Z) : list em :=
  if truthy (checkl toks i5 [ppd_minus; ppd_plus; ppd_bnot]) then
    if negb (truthy (checkl toks (skip_ws toks (i5 + 1)) [ppd_const1; ppd_ident1]))
    then one_at ppd_c_const (or_tok (peek toks (skip_ws toks (i5 + 1))) (peek toks (skip_ws toks (i5 + 1) - 1)))
    else tail_part toks (skip_ws toks (i5 + 1) + 1)
  else if truthy (checkl toks i5 [ppd_const2; ppd_ident2; ppd_string; ppd_charc]) then tail_part toks (i5 + 1)
  else tail_part toks i5.
Lemma ppd_value_exact : forall toks i5 E2 E, ppd_value toks i5 E2 = Ok E -> E = E2 ++ value_part toks i5.
Proof.
  intros toks i5 E2 E H. unfold ppd_value in H. cbv zeta in H. unfold value_part.
  destruct (truthy (checkl toks i5 [ppd_minus; ppd_plus; ppd_bnot])).
  - destruct (negb (truthy (checkl toks (skip_ws toks (i5 + 1)) [ppd_const1; ppd_ident1]))).
    + apply emit_exact in H. exact H.
    + apply ppd_tail_exact in H. exact H.
  - destruct (truthy (checkl toks i5 [ppd_const2; ppd_ident2; ppd_string; ppd_charc])); apply ppd_tail_exact in H; exact H.
Qed.

Definition rpar_pos (toks : list token) (i3 : Z) : option Z := scan_until (S (List.length toks)) toks ppd_rpar i3.
Definition func_part (toks : list token) (i3 : Z) : list em :=
  if truthy (check1 toks i3 ppd_lpar) then one_at ppd_c_func (peek toks i3) else [].
Definition value_pos (toks : list token) (i3 : Z) : Z :=
  skip_ws toks (if truthy (check1 toks i3 ppd_lpar) then match rpar_pos toks i3 with Some j => j + 1 | None => i3 end else i3).
Lemma ppd_after_name_exact : forall toks i3 skip E1 E, ppd_after_name toks i3 skip E1 = Ok E ->
  E = E1 ++ func_part toks i3 ++ (if skip then [] else value_part toks (value_pos toks i3)).
Proof.
  intros toks i3 skip E1 E H. unfold ppd_after_name, bind in H. unfold func_part, value_pos, rpar_pos.
  destruct (truthy (check1 toks i3 ppd_lpar)).
  - destruct (emit ppd_c_func (peek toks i3) E1) as [E2| | |] eqn:M; try discriminate.
    apply emit_exact in M.
    destruct (scan_until (S (Datatypes.length toks)) toks ppd_rpar i3) as [j|]; try discriminate.
    cbv beta iota zeta delta [fst snd] in H.
    destruct skip.
    + apply Ok_inj_pp in H. subst. rewrite app_nil_r. reflexivity.
    + apply ppd_value_exact in H. subst. rewrite <- app_assoc. reflexivity.
  - cbv beta iota zeta delta [fst snd] in H. destruct skip.
    + apply Ok_inj_pp in H. subst. rewrite app_nil_r. reflexivity.
    + apply ppd_value_exact in H. subst. reflexivity.
Qed.

Definition def_name_pos (toks : list token) : Z := skip_ws toks (inc_name_pos toks + 1).
Definition is_define (toks : list token) : bool :=
  truthy (check1 toks (inc_name_pos toks) ppd_id1) &&
  match peek toks (inc_name_pos toks) with Some t1 => optstr_eqb (t_val t1) (Some ppd_define) | None => false end.
Definition name_part (tn : token) : list em :=
  match t_val tn with Some w => if negb (py_isupper_ascii w) then [at_tok ppd_c_name tn] else [] | None => [] end.

(* the EXACT diagnostics of CheckPreprocessorDefine whenever it ends normally *)
Theorem ppd_exact : forall toks skip E, check_preproc_define toks skip = Ok E ->
  if is_define toks
  then exists tn, peek toks (def_name_pos toks) = Some tn /\
         E = name_part tn ++ func_part toks (def_name_pos toks + 1) ++
             (if skip then [] else value_part toks (value_pos toks (def_name_pos toks + 1)))
  else E = [].
Proof.
  intros toks skip E H. unfold check_preproc_define in H. cbv zeta in H. fold (inc_name_pos toks) in H. fold (def_name_pos toks) in H.
  unfold is_define.
  destruct (truthy (check1 toks (inc_name_pos toks) ppd_id1)); cbv beta iota delta [negb andb] in *; [|apply Ok_inj_pp in H; symmetry; exact H].
  unfold need_tok in H. destruct (peek toks (inc_name_pos toks)) as [t1|]; [|discriminate].
  destruct (optstr_eqb (t_val t1) (Some ppd_define)); cbv beta iota delta [negb] in H; [|apply Ok_inj_pp in H; symmetry; exact H].
  destruct (peek toks (def_name_pos toks)) as [tn|] eqn:P; [|discriminate].
  exists tn. split; [reflexivity|]. unfold name_part. unfold need_val in H. destruct (t_val tn) as [w|]; [|discriminate].
  unfold negb. destruct (py_isupper_ascii w).
  - unfold bind in H. cbv beta iota in H. apply ppd_after_name_exact in H. exact H.
  - unfold emit, bind in H. cbv beta iota in H. apply ppd_after_name_exact in H. exact H.
Qed.

Section DefineOps.
  Variables (toks : list token) (skip : bool) (E : list em) (tn : token).
  Hypothesis Hrun : check_preproc_define toks skip = Ok E.
  Hypothesis Hdef : is_define toks = true.
  Hypothesis Hn : peek toks (def_name_pos toks) = Some tn.
  Lemma define_exact : E = name_part tn ++ func_part toks (def_name_pos toks + 1) ++
             (if skip then [] else value_part toks (value_pos toks (def_name_pos toks + 1))).
  Proof.
    pose proof (ppd_exact _ _ _ Hrun) as X. rewrite Hdef in X. destruct X as [tn' [P ->]]. rewrite Hn in P. injection P as <-. reflexivity.
  Qed.
  (* P01: the macro name is not upper-case *)
  Theorem ppd_name_reported : forall w, t_val tn = Some w -> py_isupper_ascii w = false -> In (at_tok ppd_c_name tn) E.
  Proof. intros w V U. rewrite define_exact. apply in_or_app; left. unfold name_part. rewrite V, U. left; reflexivity. Qed.
  (* P02: a parenthesis directly after the name *)
  Theorem ppd_func_reported : forall t, peek toks (def_name_pos toks + 1) = Some t -> str_eqb (t_type t) ppd_lpar = true -> In (at_tok ppd_c_func t) E.
  Proof.
    intros t P T. rewrite define_exact. apply in_or_app; right. apply in_or_app; left. unfold func_part, check1. rewrite P.
    cbv beta iota. rewrite T. cbv beta iota delta [truthy]. left; reflexivity.
  Qed.
  (* P03: everything value_part lists is reported (unless -R CheckDefine) ... *)
  Theorem ppd_value_reported : skip = false -> forall e, In e (value_part toks (value_pos toks (def_name_pos toks + 1))) -> In e E.
  Proof. intros S e I. rewrite define_exact. rewrite S. apply in_or_app; right. apply in_or_app; right. exact I. Qed.
End DefineOps.
(* ... in particular a token t that is neither blank nor comment nor NEWLINE after the one literal / name a value may consist of *)
Theorem value_part_extra_token : forall toks i5 t, truthy (checkl toks i5 [ppd_minus; ppd_plus; ppd_bnot]) = false ->
  truthy (checkl toks i5 [ppd_const2; ppd_ident2; ppd_string; ppd_charc]) = true ->
  peek toks (skip_ws_c toks (i5 + 1)) = Some t -> str_eqb (t_type t) ppd_nl = false -> In (at_tok ppd_c_const2 t) (value_part toks i5).
Proof.
  intros toks i5 t S L P N. unfold value_part. rewrite S, L. unfold tail_part, check1. rewrite P. cbv beta iota. rewrite N.
  cbv beta iota delta [is_some truthy negb andb one_at]. left; reflexivity.
Qed.
(* ... and a value that does not start with a literal, a name or a sign at all *)
Theorem value_part_not_constant : forall toks i5 t, truthy (checkl toks i5 [ppd_minus; ppd_plus; ppd_bnot]) = false ->
  truthy (checkl toks i5 [ppd_const2; ppd_ident2; ppd_string; ppd_charc]) = false ->
  peek toks (skip_ws_c toks i5) = Some t -> str_eqb (t_type t) ppd_nl = false -> In (at_tok ppd_c_const2 t) (value_part toks i5).
Proof.
  intros toks i5 t S L P N. unfold value_part. rewrite S, L. unfold tail_part, check1. rewrite P. cbv beta iota. rewrite N.
  cbv beta iota delta [is_some truthy negb andb one_at]. left; reflexivity.
Qed.

(* ================================================================ outcomes (property C05) *)
(* normal end, AttributeError, or - only where P holds - running on *)
Definition okp {A} (P : Prop) (r : outcome A) : Prop :=
  match r with Ok _ => True | Crash AttributeError => True | Hang => P | _ => False end.
Lemma okp_bind : forall A B P (x : outcome A) (f : A -> outcome B), okp P x -> (forall a, okp P (f a)) -> okp P (bind x f).
Proof. intros A B P [a| |e|] f H1 H2; simpl in *; try contradiction; [apply H2 | destruct e; try contradiction; exact I | exact H1]. Qed.
Lemma okp_ok : forall A P (a : A), okp P (Ok a). Proof. intros; exact I. Qed.
Lemma okp_emit : forall P c ot E, okp P (emit c ot E). Proof. intros P c [t|] E; exact I. Qed.
Lemma okp_need_tok : forall A P ot (k : token -> outcome A), (forall t, okp P (k t)) -> okp P (need_tok ot k).
Proof. intros A P [t|] k H; simpl; [apply H | exact I]. Qed.
Lemma okp_need_val : forall A P o (k : str -> outcome A), (forall t, okp P (k t)) -> okp P (need_val o k).
Proof. intros A P [t|] k H; simpl; [apply H | exact I]. Qed.
Ltac okp_tac := repeat first
  [ apply okp_ok | apply okp_emit | apply okp_bind; [|intros] | apply okp_need_tok; intros | apply okp_need_val; intros
  | match goal with |- okp _ (if ?c then _ else _) => destruct c end
  | progress cbv zeta ].

(* CheckPreprocessorInclude: it can only run on when no MORE_THAN token follows the directive name (more_pos = None) *)
Theorem ppn_outcome : forall toks hist allowed,
  okp (more_pos toks (inc_name_pos toks) = None) (check_preproc_include toks hist allowed).
Proof.
  intros. unfold check_preproc_include, ppn_file, ppn_angle. cbv zeta. fold (inc_name_pos toks). fold (file_pos toks (inc_name_pos toks)).
  fold (more_pos toks (inc_name_pos toks)). okp_tac.
  destruct (more_pos toks (inc_name_pos toks)) eqn:M; [|reflexivity]. okp_tac.
Qed.
(* CheckPreprocessorDefine: it can only run on when a `(` follows the macro name and no RPARENTHESIS token follows *)
Theorem ppd_outcome : forall toks skip,
  okp (rpar_pos toks (def_name_pos toks + 1) = None) (check_preproc_define toks skip).
Proof.
  intros. unfold check_preproc_define, ppd_after_name, ppd_value, ppd_tail. cbv zeta. fold (inc_name_pos toks). fold (def_name_pos toks).
  fold (rpar_pos toks (def_name_pos toks + 1)). okp_tac.
  destruct (rpar_pos toks (def_name_pos toks + 1)) eqn:M; [apply okp_ok | reflexivity].
Qed.

(* the fuel of scan_until is enough: None means that no token of the type sits at any position from i on, i.e. the loop of the
   implementation really has no exit *)
Lemma peek_none_later : forall toks i j, 0 <= i -> i <= j -> peek toks i = None -> peek toks j = None.
Proof.
  intros toks i j Hi Hj P. unfold peek, py_nth in *. cbv zeta in *.
  destruct ((0 <=? i) && (i <? zlen toks)) eqn:A.
  - apply andb_prop in A. destruct A as [_ A]. apply Z.ltb_lt in A. apply nth_error_None in P. unfold zlen in A. lia.
  - assert (B : (i <? 0) = false) by (apply Z.ltb_ge; lia).
    assert (C : zlen toks <= i). { destruct (0 <=? i) eqn:Q; [|apply Z.leb_gt in Q; lia]. simpl in A. apply Z.ltb_ge in A. exact A. }
    assert (D : (j <? zlen toks) = false) by (apply Z.ltb_ge; lia).
    assert (F : (j <? 0) = false) by (apply Z.ltb_ge; lia).
    rewrite D, F. rewrite andb_false_r. reflexivity.
Qed.
Lemma peek_some_lt : forall toks i t, 0 <= i -> peek toks i = Some t -> i < zlen toks.
Proof.
  intros toks i t Hi P. unfold peek, py_nth in P. cbv zeta in P. destruct ((0 <=? i) && (i <? zlen toks)) eqn:A.
  - apply andb_prop in A. destruct A as [_ A]. apply Z.ltb_lt in A. exact A.
  - assert (B : (i <? 0) = false) by (apply Z.ltb_ge; lia). rewrite B in P. discriminate.
Qed.
Lemma scan_until_none : forall fuel toks ty i, 0 <= i -> scan_until fuel toks ty i = None -> (Z.to_nat (zlen toks - i) < fuel)%nat ->
  forall j, i <= j -> truthy (check1 toks j ty) = false.
Proof.
  induction fuel as [|f IH]; intros toks ty i Hi H F j Hj; [lia|].
  simpl in H. destruct (truthy (check1 toks i ty)) eqn:T; [discriminate|].
  destruct (peek toks i) as [t|] eqn:P.
  - simpl in H. assert (L := peek_some_lt _ _ _ Hi P).
    destruct (Z.eq_dec i j) as [<-|N]; [exact T|].
    apply (IH toks ty (i + 1)); try lia. exact H.
  - unfold check1. rewrite (peek_none_later toks i j Hi Hj P). reflexivity.
Qed.
Theorem more_pos_none : forall toks i1, 0 <= file_pos toks i1 -> more_pos toks i1 = None ->
  forall j, file_pos toks i1 <= j -> truthy (check1 toks j ppn_more) = false.
Proof.
  intros toks i1 H0 H j Hj. apply (scan_until_none (S (List.length toks)) toks ppn_more (file_pos toks i1)); try assumption.
  unfold zlen. lia.
Qed.
Theorem rpar_pos_none : forall toks i3, 0 <= i3 -> rpar_pos toks i3 = None -> forall j, i3 <= j -> truthy (check1 toks j ppd_rpar) = false.
Proof.
  intros toks i3 H0 H j Hj. apply (scan_until_none (S (List.length toks)) toks ppd_rpar i3); try assumption. unfold zlen. lia.
Qed.
