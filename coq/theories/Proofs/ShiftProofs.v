(* C19: what is PROVED about "unrelated text only shifts diagnostics".
   1. Positions shift rigidly: for a prefix P made of complete lines, the true position (Spec/TruePos.v) of
      the raw offset |P| + off of P ++ src is the position of off in src, count_nl P lines lower, same
      column - hence (Props/C09) so are the (line, column) of corresponding tokens.
   2. The header diagnostic: in front of ANY statement trace whose first statement is not a block comment in
      column 1 (a headerless file: exactly one INVALID_HEADER), a well-formed header leaves none, whatever
      the field values (Proofs/HeaderProofs.v, generated CheckHeader state machine).
   That every OTHER rule is insensitive to the inserted statements is searched by tools/harness/c19.py, with
   the table of history look-backs (Gen/HistoryReads.v) pinned below. *)
From NV Require Import Model.Base Model.Diag Model.Lexer Spec.TruePos Spec.LexProps Proofs.LexMain
  Model.HeaderRe Model.HeaderState Gen.HeaderRe Gen.HeaderSM Model.Header Proofs.HeaderProofs.
From Coq Require Import Lia.

(* ------------------------------------------------------------------ positions *)
Definition count_nl (x : str) : Z := zlen (filter (N.eqb 10) x).

(* P consists of complete lines: empty, or its last character is a newline *)
Definition complete_lines (P : str) : bool :=
  match rev P with [] => true | c :: _ => N.eqb c 10 end.

Definition shift_line (n : Z) (lc : Z * Z) : Z * Z := (fst lc + n, snd lc).

Lemma adv_shift : forall n lc ch, adv (shift_line n lc) ch = shift_line n (adv lc ch).
Proof.
  intros n [l c] ch. unfold shift_line, adv. cbn [fst snd].
  destruct (N.eqb ch 10); [cbn [fst snd]; f_equal; lia|].
  destruct (N.eqb ch 9); reflexivity.
Qed.

Lemma pos_after_shift : forall x n lc, pos_after (shift_line n lc) x = shift_line n (pos_after lc x).
Proof.
  induction x as [|ch x IH]; intros n lc; [reflexivity|].
  unfold pos_after in *. cbn [fold_left]. rewrite adv_shift. apply IH.
Qed.

Lemma count_nl_cons : forall ch x, count_nl (ch :: x) = (if N.eqb 10 ch then 1 else 0) + count_nl x.
Proof.
  intros ch x. unfold count_nl, zlen. cbn [filter]. destruct (N.eqb 10 ch); [|lia].
  cbn [List.length]. lia.
Qed.

Lemma count_nl_app : forall a b, count_nl (a ++ b) = count_nl a + count_nl b.
Proof.
  intros a b. unfold count_nl, zlen. rewrite filter_app, app_length. lia.
Qed.

Lemma pos_after_line : forall x l c, fst (pos_after (l, c) x) = l + count_nl x.
Proof.
  induction x as [|ch x IH]; intros l c.
  - unfold count_nl, zlen. cbn. lia.
  - unfold pos_after in *. cbn [fold_left]. rewrite count_nl_cons.
    destruct (adv (l, c) ch) as [l' c'] eqn:E. rewrite IH.
    assert (l' = l + (if N.eqb 10 ch then 1 else 0)); [|lia].
    unfold adv in E. rewrite (N.eqb_sym 10 ch). destruct (N.eqb ch 10); [inversion E; lia|].
    destruct (N.eqb ch 9); inversion E; lia.
Qed.

Lemma pos_after_complete : forall P l c, complete_lines P = true -> P <> [] ->
  pos_after (l, c) P = (l + count_nl P, 1).
Proof.
  intros P l c Hc Hne. unfold complete_lines in Hc.
  destruct (rev P) as [|ch r] eqn:E.
  - apply (f_equal (@rev N)) in E. rewrite rev_involutive in E. cbn in E. congruence.
  - apply (f_equal (@rev N)) in E. rewrite rev_involutive in E. cbn [rev] in E. subst P.
    apply N.eqb_eq in Hc. subst ch. unfold pos_after. rewrite fold_left_app. cbn [fold_left].
    fold (pos_after (l, c) (rev r)). pose proof (pos_after_line (rev r) l c) as H.
    destruct (pos_after (l, c) (rev r)) as [l' c']. cbn [fst] in H. subst l'.
    unfold adv. cbn [N.eqb Pos.eqb]. rewrite count_nl_app. f_equal.
    assert (K : count_nl [10%N] = 1) by reflexivity. lia.
Qed.

(* the line-shift lemma of C19 *)
Theorem true_pos_shift : forall P src off, complete_lines P = true ->
  true_pos (P ++ src) (List.length P + off) = shift_line (count_nl P) (true_pos src off).
Proof.
  intros P src off Hc. unfold true_pos. rewrite firstn_app_2.
  unfold pos_after at 1. rewrite fold_left_app. fold (pos_after (1, 1) P).
  destruct P as [|p0 P'].
  - cbn [pos_after fold_left]. unfold shift_line, count_nl, zlen. cbn [filter List.length Z.of_nat].
    fold (pos_after (1, 1) (firstn off src)). destruct (pos_after (1, 1) (firstn off src)). cbn [fst snd].
    f_equal. lia.
  - rewrite (pos_after_complete (p0 :: P') 1 1 Hc) by discriminate.
    fold (pos_after (1 + count_nl (p0 :: P'), 1) (firstn off src)).
    change (1 + count_nl (p0 :: P'), 1) with (shift_line (count_nl (p0 :: P')) (1, 1)) at 1.
    apply pos_after_shift.
Qed.

(* hence: a token of P ++ src and a token of src that start at corresponding raw offsets carry the same
   column and lines that differ by the number of lines of P (both position facts are Props/C09) *)
Theorem token_shift : forall (uw ud : N -> bool) P src items xf items' xf' t lo hi t' hi',
  complete_lines P = true ->
  lex uw ud src = Ok (items, xf) -> lex uw ud (P ++ src) = Ok (items', xf') ->
  In (ITok t lo hi) items -> In (ITok t' (List.length P + lo) hi') items' ->
  t_line t' = t_line t + count_nl P /\ t_col t' = t_col t.
Proof.
  intros uw ud P src items xf items' xf' t lo hi t' hi' Hc H H' Hin Hin'.
  assert (A : forall s0 its x0 tk a b, lex uw ud s0 = Ok (its, x0) -> In (ITok tk a b) its ->
              true_pos s0 a = (t_line tk, t_col tk)).
  { intros s0 its x0 tk a b Hl Hi.
    pose proof (proj1 (proj2 (lex_positions_and_tiling uw ud s0 its x0 Hl))) as Hk. unfold c09_ok in Hk.
    rewrite forallb_forall in Hk. specialize (Hk _ Hi). cbn in Hk. unfold c09_tok_ok in Hk.
    destruct (true_pos s0 a) as [l c]. apply andb_true_iff in Hk. destruct Hk as [H1 H2].
    apply Z.eqb_eq in H1, H2. now subst. }
  pose proof (A _ _ _ _ _ _ H Hin) as E. pose proof (A _ _ _ _ _ _ H' Hin') as E'.
  rewrite (true_pos_shift P src lo Hc) in E'. rewrite E in E'. unfold shift_line in E'. cbn [fst snd] in E'.
  inversion E'. split; reflexivity.
Qed.

(* ------------------------------------------------------------------ the header diagnostic *)
(* a headerless trace: it does not begin with a block comment in column 1 *)
Definition headerless (T : list hevent) : bool :=
  match T with [] => false | ev :: _ => negb (is_block_ev ev) end.

Theorem prepend_header_count : forall f T, stamps_ok f = true -> headerless T = true ->
  invalid_count T = 1%nat /\ invalid_count (header_events f ++ T) = 0%nat.
Proof.
  intros f T Hf HT. destruct T as [|ev rest]; [discriminate|]. cbn in HT. apply negb_true_iff in HT. split.
  - apply reject_first_not_block. exact HT.
  - apply accept. exact Hf.
Qed.

(* and never more than one, for any trace (so "exactly the missing-header diagnostic" is one diagnostic) *)
Theorem header_diag_at_most_once : forall T, (invalid_count T <= 1)%nat.
Proof. exact at_most_once. Qed.

(* non-vacuity *)
Example shift_example :
  let P := s "/* a */" ++ [10%N] ++ s "/* b */" ++ [10%N] in
  let src := s "int" ++ [9%N] ++ s "x;" ++ [10%N] ++ s "	y" in
  complete_lines P = true /\ count_nl P = 2 /\
  true_pos src 8%nat = (2, 5) /\ true_pos (P ++ src) (List.length P + 8)%nat = (4, 5).
Proof. vm_compute. repeat split; reflexivity. Qed.

Example prepend_example :
  headerless [mkev (s "IsEmptyLine") (s "NEWLINE") [10%N]; mkev (s "IsFuncDeclaration") (s "INT") (s "int")] = true.
Proof. reflexivity. Qed.
