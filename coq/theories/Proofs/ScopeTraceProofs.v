(* Unbounded theorems about the scope-trace model (Model/ScopeTrace.v over the generated Gen/ScopeOps.v):
   lines handed up by brace-less control structures of any depth are never lost, the Function scope's counter at its
   closing brace is the number of line ends of `{` + body, TOO_MANY_LINES at that brace iff it exceeds the limit, and the
   scope chain is back at [GlobalScope] after every function / user-defined type. *)
From NV Require Import Model.Base Model.ScopeBase Gen.ScopeOps Model.ScopeTrace Model.ScopeBody Proofs.StrOrder.
From Coq Require Import Lia.
From NV Require Gen.Limits.
Local Open Scope Z_scope.

(* ------------------------------------------------------------------ ties to the generated tables *)
Lemma skipped_tables_agree : block_start_skipped = update_skipped.
Proof. reflexivity. Qed.
Lemma ctl_opens_braceless : inner_multi r_ctl k_control = Some false.
Proof. reflexivity. Qed.
Lemma func_opens_function : inner_multi r_func k_function = Some false.
Proof. reflexivity. Qed.
(* every site of IsControlStatement opens a ControlStructure with multiline = False; IsFuncDeclaration a Function *)
Lemma inner_sites_shape : forallb (fun x => match x with (r, c, m) =>
    (str_eqb r r_ctl && str_eqb c k_control && match m with Some false => true | _ => false end)
    || (str_eqb r r_func && str_eqb c k_function) || str_eqb r r_utype end) inner_sites = true.
Proof. reflexivity. Qed.
Lemma openers_are_openers : block_start_openers = [r_ctl; r_func; r_utype].
Proof. reflexivity. Qed.
Lemma brace_test_shape : forall name lines,
  brace_line_test name lines = if str_eqb name k_function && (lines >? brace_limit) then [s "TOO_MANY_LINES"] else [].
Proof. reflexivity. Qed.
(* the returns of CheckBrace.run before its line test: not a brace (impossible after IsBlockStart / IsBlockEnd matched), and one
   inside the user-defined-type branch (scope.name is then not "Function") *)
Lemma brace_returns_expected : brace_return_guards =
  [["context.check_token(i, ['RBRACE', 'LBRACE']) is False"%string];
   ["context.check_token(i, 'NEWLINE') is False or context.check_token(i, 'NEWLINE') is None"%string;
    "context.scope.name == 'UserDefinedType' or context.scope.name == 'UserDefinedEnum'"%string;
    "context.check_token(i, 'SEMI_COLON') is True"%string]].
Proof. reflexivity. Qed.

(* every place of the source that writes the scope state or calls outer()/inner()/get_outer(): a new or changed site
   changes this table and breaks the tie.  Besides the statements translated above these are: attributes the model does not
   mention (functions, vars*, *_allowed, *_alignment), CheckBlockStart's tmp_scope branch (tmp_scope is only ever None), and three
   `while type(sc) != GlobalScope: sc = sc.outer()` walks that only run with the global scope current. *)
Lemma scope_write_sites_expected : scope_write_sites =
  ["norminette/rules/check_block_start.py:run: call context.scope.get_outer()"%string;
   "norminette/rules/check_block_start.py:run: context.scope.functions -= 1"%string;
   "norminette/rules/check_block_start.py:run: context.scope = context.tmp_scope"%string;
   "norminette/rules/check_block_start.py:run: context.scope.multiline = True"%string;
   "norminette/rules/check_block_start.py:run: context.tmp_scope = None"%string;
   "norminette/rules/check_empty_line.py:run: context.scope.vdeclarations_allowed = False"%string;
   "norminette/rules/check_identifier_name.py:run: call sc.outer()"%string;
   "norminette/rules/check_in_header.py:run: call sc.get_outer()"%string;
   "norminette/rules/check_line_count.py:run: context.scope.lines += 1"%string;
   "norminette/rules/check_line_indent.py:run: context.scope.include_allowed = False"%string;
   "norminette/rules/check_prototype_indent.py:run: context.scope.func_alignment = current_indent"%string;
   "norminette/rules/check_utype_declaration.py:run: context.scope.vars_alignment = current_indent"%string;
   "norminette/rules/check_variable_declaration.py:run: context.scope.vars += 1"%string;
   "norminette/rules/check_variable_declaration.py:run: context.scope.vdeclarations_allowed = True"%string;
   "norminette/rules/check_variable_indent.py:run: context.scope.vars_alignment = identifier.pos[1]"%string;
   "norminette/rules/is_block_end.py:run: context.sub = context.scope.outer()"%string;
   "norminette/rules/is_block_end.py:run: context.scope.multiline = False"%string;
   "norminette/rules/is_block_start.py:run: context.sub = context.scope.inner(scope)"%string;
   "norminette/rules/is_block_start.py:run: context.sub.multiline = True"%string;
   "norminette/rules/is_block_start.py:run: context.scope.multiline = True"%string;
   "norminette/rules/is_control_statement.py:run: context.sub = context.scope.inner(ControlStructure)"%string;
   "norminette/rules/is_control_statement.py:run: context.sub.multiline = False"%string;
   "norminette/rules/is_control_statement.py:run: context.sub = context.scope.inner(ControlStructure)"%string;
   "norminette/rules/is_control_statement.py:run: context.sub.multiline = False"%string;
   "norminette/rules/is_control_statement.py:run: context.sub = context.scope.inner(ControlStructure)"%string;
   "norminette/rules/is_control_statement.py:run: context.sub.multiline = False"%string;
   "norminette/rules/is_control_statement.py:run: context.sub = context.scope.inner(ControlStructure)"%string;
   "norminette/rules/is_control_statement.py:run: context.sub.multiline = False"%string;
   "norminette/rules/is_control_statement.py:run: context.sub = context.scope.inner(ControlStructure)"%string;
   "norminette/rules/is_control_statement.py:run: context.sub.multiline = False"%string;
   "norminette/rules/is_func_declaration.py:check_func_format: call sc.outer()"%string;
   "norminette/rules/is_func_declaration.py:run: context.scope.functions += 1"%string;
   "norminette/rules/is_func_declaration.py:run: context.sub = context.scope.inner(Function)"%string;
   "norminette/rules/is_func_prototype.py:check_func_format: call sc.outer()"%string;
   "norminette/rules/is_user_defined_type.py:run: context.sub = context.scope.inner(UserDefinedEnum)"%string;
   "norminette/rules/is_user_defined_type.py:run: context.sub = context.scope.inner(UserDefinedType)"%string;
   "norminette/context.py:__init__: self.scope = GlobalScope()"%string;
   "norminette/context.py:__init__: self.sub = None"%string;
   "norminette/context.py:update: self.scope = self.sub"%string;
   "norminette/context.py:update: self.sub = None"%string;
   "norminette/context.py:update: self.scope = self.scope.outer()"%string;
   "norminette/context.py:update: self.sub = None"%string;
   "norminette/registry.py:run_rules: context.scope.instructions += 1"%string;
   "norminette/scope.py:outer: self.parent.lines += self.lines"%string].
Proof. reflexivity. Qed.

(* ------------------------------------------------------------------ small facts *)
Lemma str_in_cons_false r a l : str_in r (a :: l) = false -> str_eqb r a = false /\ str_in r l = false.
Proof. unfold str_in. cbn [existsb]. intros H. now apply orb_false_iff in H. Qed.

Record plain_facts (r : str) : Prop := {
  pf_bs : str_eqb r r_block_start = false; pf_be : str_eqb r r_block_end = false;
  pf_ctl : str_eqb r r_ctl = false; pf_cfd : str_eqb r r_cfd = false; pf_skip : str_in r update_skipped = false }.
Lemma plain_spec r : plain r = true -> plain_facts r.
Proof.
  unfold plain. intros H. apply negb_true_iff in H. unfold special_rules in H. cbn [app] in H.
  apply str_in_cons_false in H as [A H]. apply str_in_cons_false in H as [B H]. apply str_in_cons_false in H as [C H].
  apply str_in_cons_false in H as [D H]. apply str_in_cons_false in H as [E H]. apply str_in_cons_false in H as [F H]. constructor; assumption.
Qed.

Lemma skipped_facts r : skipped r = true ->
  str_eqb r r_block_start = false /\ str_eqb r r_block_end = false.
Proof.
  unfold skipped, str_in, update_skipped. cbn [existsb]. rewrite orb_false_r. intros H.
  repeat (apply orb_true_iff in H as [H|H]); apply str_eqb_eq in H; subst; split; reflexivity.
Qed.

(* brace-less control structure: popped by Context.update as soon as it holds an instruction *)
Definition bl (c : sc) : bool := is_class "ControlStructure" c && negb (s_multi c).
Definition sum_lines (cs : list sc) : Z := fold_right (fun c a => s_lines c + a) 0 cs.
Definition ready (c : sc) : Prop := bl c = true /\ s_instr c > 0.

Lemma bl_add_lines c n : bl (add_lines c n) = bl c.
Proof. reflexivity. Qed.

(* ------------------------------------------------------------------ Context.update pops every ready control structure *)
Lemma update_stable fuel hist h rest sub0 : (match hist with x :: _ => str_in x update_skipped | [] => false end) = false ->
  sub0 = None -> (bl h && (s_instr h >? 0)) = false ->
  ctx_update (S fuel) hist (h :: rest) sub0 = Some (h :: rest, None).
Proof.
  intros Hs -> Hb. cbn [ctx_update]. rewrite Hs. unfold bl in Hb.
  destruct rest as [|p r]; rewrite Hb; reflexivity.
Qed.

Lemma update_pops : forall cs c H rest fuel hist,
  (match hist with x :: _ => str_in x update_skipped | [] => false end) = false ->
  Forall ready (c :: cs) -> bl H = false -> (List.length cs < fuel)%nat ->
  ctx_update (S fuel) hist (c :: cs ++ H :: rest) None = Some (add_lines H (sum_lines (c :: cs)) :: rest, None).
Proof.
  induction cs as [|c' cs IH]; intros c H rest fuel hist Hs Hr HH Hf.
  - inversion Hr as [|? ? [Hb Hi] _]; subst. cbn [app ctx_update]. rewrite Hs. cbn [apply_sub].
    unfold bl in Hb. rewrite Hb. replace (s_instr c >? 0) with true by (symmetry; apply Z.gtb_lt; lia). cbn [andb].
    destruct fuel as [|f]; [inversion Hf|].
    rewrite update_stable; [|exact Hs|reflexivity|].
    + unfold scope_outer, sum_lines. cbn [fold_right]. rewrite Z.add_0_r. reflexivity.
    + unfold scope_outer. rewrite bl_add_lines, HH. reflexivity.
  - inversion Hr as [|? ? [Hb Hi] Hr']; subst. cbn [app ctx_update]. rewrite Hs.
    unfold bl in Hb. rewrite Hb. replace (s_instr c >? 0) with true by (symmetry; apply Z.gtb_lt; lia). cbn [andb].
    destruct fuel as [|f]; [inversion Hf|].
    change (scope_outer c c' :: cs ++ H :: rest) with (add_lines c' (s_lines c) :: cs ++ H :: rest).
    rewrite IH; [| exact Hs | | exact HH | cbn [Datatypes.length] in Hf; lia].
    + replace (sum_lines (add_lines c' (s_lines c) :: cs)) with (sum_lines (c :: c' :: cs)); [reflexivity|].
      unfold sum_lines. cbn [fold_right add_lines s_lines]. lia.
    + inversion Hr' as [|? ? [Hb' Hi'] Hr'']; subst. constructor; [|exact Hr'']. split; [exact Hb'|exact Hi'].
Qed.

Definition bump (h : sc) (nl : Z) : sc := mksc (s_kind h) (s_lines h + nl) (s_instr h + 1) (s_multi h).
Definition nonglobal (h : sc) : Prop := str_eqb (s_kind h) k_global = false.
Definition names (l : list stmt) : list str := rev (map st_rule l).

Lemma run_app : forall a b q, run q (a ++ b) = match run q a with Some q' => run q' b | None => None end.
Proof. induction a as [|x a IH]; intros b q; cbn [app run]; [reflexivity|]. destruct (step q x); [apply IH|reflexivity]. Qed.

Lemma names_app a b : names (a ++ b) = names b ++ names a.
Proof. unfold names. now rewrite map_app, rev_app_distr. Qed.
Lemma names_cons x a : names (x :: a) = names a ++ [st_rule x].
Proof. reflexivity. Qed.
Lemma total_nl_app a b : total_nl (a ++ b) = total_nl a + total_nl b.
Proof. unfold total_nl. induction a as [|x a IH]; cbn [app fold_right]; [lia|]. rewrite IH. lia. Qed.

Lemma bl_nonglobal c : bl c = true -> nonglobal c.
Proof.
  unfold bl, is_class, nonglobal. intros H. apply andb_true_iff in H as [H _]. apply str_eqb_eq in H. rewrite H. reflexivity.
Qed.

(* ---- one statement *)
Lemma step_plainlike q x h rest : chain q = h :: rest ->
  str_eqb (st_rule x) r_block_start = false -> str_eqb (st_rule x) r_block_end = false -> st_opens x = None -> nonglobal h ->
  step q x = match ctx_update (S (S (List.length rest))) (st_rule x :: hist q) (bump h (st_nl x) :: rest) None with
             | Some (c, _) => Some (mkstate c (st_rule x :: hist q) (ems q)) | None => None end.
Proof.
  intros Hc A B C G. unfold step, primary_effect. rewrite Hc, A, B, C. unfold is_brace_rule. rewrite A, B. cbn [orb].
  unfold line_count_run. cbn [add_instr s_kind s_lines s_instr s_multi]. unfold nonglobal in G. rewrite G. cbn [app].
  reflexivity.
Qed.

Lemma step_skip q x h rest : chain q = h :: rest -> is_skip x -> nonglobal h ->
  step q x = Some (mkstate (bump h (st_nl x) :: rest) (st_rule x :: hist q) (ems q)).
Proof.
  intros Hc [Hs Ho] G. destruct (skipped_facts _ Hs) as [A B].
  rewrite (step_plainlike q x h rest Hc A B Ho G). cbn [ctx_update]. unfold skipped in Hs. rewrite Hs. reflexivity.
Qed.

Lemma step_ctl q nl h rest : chain q = h :: rest -> nonglobal h ->
  step q (s_ctl nl) = Some (mkstate (new_scope k_control false :: bump h nl :: rest) (r_ctl :: hist q) (ems q)).
Proof.
  intros Hc G. unfold step, primary_effect. rewrite Hc. cbn [s_ctl st_rule st_opens st_nl].
  replace (str_eqb r_ctl r_block_start) with false by reflexivity. replace (str_eqb r_ctl r_block_end) with false by reflexivity.
  rewrite ctl_opens_braceless. replace (is_brace_rule r_ctl) with false by reflexivity.
  unfold line_count_run. cbn [add_instr s_kind s_lines s_instr s_multi]. unfold nonglobal in G. rewrite G. cbn [app].
  cbn [ctx_update]. replace (str_in r_ctl update_skipped) with false by reflexivity. cbn [apply_sub]. reflexivity.
Qed.

Lemma step_open_mark q nlo h rest : chain q = h :: rest -> nonglobal h ->
  block_start_scan (hist q) (s_lines h) = BsMark ->
  step q (s_open nlo) = Some (mkstate (mksc (s_kind h) (s_lines h + nlo) (s_instr h + 1) true :: rest) (r_block_start :: hist q)
                                       (brace_line_test (s_kind h) (s_lines h) ++ ems q)).
Proof.
  intros Hc G Hs. unfold step, primary_effect. rewrite Hc. cbn [s_open st_rule st_opens st_nl].
  replace (str_eqb r_block_start r_block_start) with true by reflexivity. rewrite Hs.
  replace (is_brace_rule r_block_start) with true by reflexivity.
  unfold line_count_run. cbn [add_instr set_multi s_kind s_lines s_instr s_multi]. unfold nonglobal in G. rewrite G. cbn [app].
  rewrite update_stable; [reflexivity|reflexivity|reflexivity|]. unfold bl. cbn [s_multi negb]. now rewrite andb_false_r.
Qed.

(* `}` of a control structure: its multiline flag is cleared, then update pops it like any one-instruction structure *)
Lemma step_close_ctl q nlc h rest : chain q = h :: rest -> str_eqb (s_kind h) k_control = true ->
  step q (s_close nlc) =
    match ctx_update (S (S (List.length rest))) (r_block_end :: hist q) (mksc (s_kind h) (s_lines h + nlc) (s_instr h + 1) false :: rest) None with
    | Some (c, _) => Some (mkstate c (r_block_end :: hist q) (ems q)) | None => None end.
Proof.
  intros Hc Hk. unfold step, primary_effect. rewrite Hc. cbn [s_close st_rule st_opens st_nl].
  replace (str_eqb r_block_end r_block_start) with false by reflexivity. replace (str_eqb r_block_end r_block_end) with true by reflexivity.
  rewrite Hk. cbn [block_end_effect negb]. replace (is_brace_rule r_block_end) with true by reflexivity.
  unfold line_count_run, brace_line_test. cbn [add_instr set_multi s_kind s_lines s_instr s_multi].
  apply str_eqb_eq in Hk. rewrite Hk. replace (str_eqb k_control k_global) with false by reflexivity.
  replace (str_eqb k_control (s "Function")) with false by reflexivity. cbn [andb app]. reflexivity.
Qed.

(* `}` of any other scope (function, user-defined type): the parent is credited through outer() at once, the `}` line itself
   is counted afterwards in the scope that is being left *)
Lemma step_close_scope q nlc h p r : chain q = h :: p :: r -> str_eqb (s_kind h) k_control = false -> nonglobal h ->
  bl p = false ->
  step q (s_close nlc) = Some (mkstate (add_lines p (s_lines h) :: r) (r_block_end :: hist q)
                                        (brace_line_test (s_kind h) (s_lines h) ++ ems q)).
Proof.
  intros Hc Hk G Hp. unfold step, primary_effect. rewrite Hc. cbn [s_close st_rule st_opens st_nl].
  replace (str_eqb r_block_end r_block_start) with false by reflexivity. replace (str_eqb r_block_end r_block_end) with true by reflexivity.
  rewrite Hk. cbn [block_end_effect negb]. replace (is_brace_rule r_block_end) with true by reflexivity.
  unfold line_count_run. cbn [add_instr s_kind s_lines s_instr s_multi]. unfold nonglobal in G. rewrite G. cbn [app].
  cbn [ctx_update]. replace (str_in r_block_end update_skipped) with false by reflexivity. cbn [apply_sub tl].
  unfold scope_outer. fold (bl (add_lines p (s_lines h))). rewrite bl_add_lines, Hp. cbn [andb].
  destruct r; reflexivity.
Qed.

(* the scan of IsBlockStart over a gap of skipped statements back to the opener *)
Lemma scan_gap : forall gap r hist lines, skips gap -> str_in r update_skipped = false -> str_in r block_start_openers = true ->
  block_start_scan (names gap ++ r :: hist) lines = if lines - zlen gap >=? 1 then
      BsNew (match assoc r block_start_classes with Some c => c | None => block_start_default end) else BsMark.
Proof.
  induction gap as [|x gap IH] using rev_ind; intros r hist lines Hg Hr Ho.
  - cbn [names map rev app block_start_scan]. rewrite skipped_tables_agree, Hr, Ho. cbn [negb orb andb].
    replace (lines - zlen (@nil stmt)) with lines by (unfold zlen; cbn; lia). reflexivity.
  - rewrite names_app. cbn [names map rev app block_start_scan]. apply Forall_app in Hg as [Hg Hx].
    inversion Hx as [|? ? [Hs _] _]; subst. rewrite skipped_tables_agree. unfold skipped in Hs. rewrite Hs.
    fold (names gap). rewrite IH by assumption.
    replace (lines - 1 - zlen gap) with (lines - zlen (gap ++ [x])); [reflexivity|]. unfold zlen. rewrite app_length. cbn [Datatypes.length]. lia.
Qed.

(* skipped statements only count lines (and instructions) in the current scope *)
Lemma run_skips : forall gap h rest hist E, skips gap -> nonglobal h ->
  run (mkstate (h :: rest) hist E) gap =
    Some (mkstate (mksc (s_kind h) (s_lines h + total_nl gap) (s_instr h + zlen gap) (s_multi h) :: rest) (names gap ++ hist) E).
Proof.
  induction gap as [|x gap IH]; intros h rest hist E Hg G.
  - cbn [run total_nl fold_right names map rev app]. unfold zlen. cbn [Datatypes.length Z.of_nat]. rewrite !Z.add_0_r. now destruct h.
  - inversion Hg as [|? ? Hx Hg']; subst. cbn [run]. rewrite (step_skip (mkstate (h :: rest) hist E) x h rest eq_refl Hx G).
    rewrite IH; [|exact Hg'|exact G]. cbn [bump s_kind s_lines s_instr s_multi total_nl fold_right]. fold (total_nl gap).
    rewrite names_cons, <- app_assoc. cbn [app]. f_equal. f_equal. f_equal. f_equal; [lia|]. unfold zlen. cbn [Datatypes.length]. lia.
Qed.

(* ------------------------------------------------------------------ the induction over well-nested bodies *)
(* cs: the brace-less control structures currently open above the stable scope H (innermost first): all but the innermost
   already hold their instruction (the next control statement) *)
Definition tops (cs : list sc) : Prop :=
  Forall (fun c => bl c = true) cs /\ Forall (fun c => s_instr c > 0) (tl cs) /\ (forall c, hd_error cs = Some c -> 0 <= s_instr c).

Definition after_unit (cs : list sc) (H : sc) (u : list stmt) : sc :=
  mksc (s_kind H) (s_lines H + sum_lines cs + total_nl u) (s_instr H + (match cs with [] => 1 | _ => 0 end)) (s_multi H).

Definition P (u : list stmt) : Prop := forall cs H rest hist E, tops cs -> bl H = false -> nonglobal H ->
  run (mkstate (cs ++ H :: rest) hist E) u = Some (mkstate (after_unit cs H u :: rest) (names u ++ hist) E).

Definition Q (b : list stmt) : Prop := forall H rest hist E, bl H = false -> nonglobal H ->
  exists k, 0 <= k /\ run (mkstate (H :: rest) hist E) b =
     Some (mkstate (mksc (s_kind H) (s_lines H + total_nl b) (s_instr H + k) (s_multi H) :: rest) (names b ++ hist) E).

Lemma sc_eq k l1 l2 i1 i2 m : l1 = l2 -> i1 = i2 -> mksc k l1 i1 m = mksc k l2 i2 m.
Proof. now intros -> ->. Qed.

Lemma single_stmt x : str_eqb (st_rule x) r_block_start = false -> str_eqb (st_rule x) r_block_end = false -> st_opens x = None ->
  str_in (st_rule x) update_skipped = false -> P [x].
Proof.
  intros A B C D cs H rest hs E Ht HH G. cbn [run].
  destruct cs as [|c cs'].
  - cbn [app]. rewrite (step_plainlike (mkstate (H :: rest) hs E) x H rest eq_refl A B C G). cbn [hist ems].
    rewrite update_stable; [|exact D|reflexivity|change (bl (bump H (st_nl x))) with (bl H); now rewrite HH].
    unfold after_unit, bump, names. cbn [map rev app total_nl fold_right sum_lines]. do 3 f_equal. apply sc_eq; lia.
  - destruct Ht as [Hb [Hi Hh]]. inversion Hb as [|? ? Hbc Hb']; subst. cbn [app].
    rewrite (step_plainlike (mkstate (c :: cs' ++ H :: rest) hs E) x c (cs' ++ H :: rest) eq_refl A B C (bl_nonglobal _ Hbc)). cbn [hist ems].
    rewrite update_pops; [|exact D| |exact HH|rewrite app_length; cbn [Datatypes.length]; lia].
    + unfold after_unit, bump, names. cbn [map rev app total_nl fold_right sum_lines s_lines add_lines]. do 3 f_equal. apply sc_eq; lia.
    + constructor.
      * split; [exact Hbc|]. cbn [bump s_instr]. specialize (Hh c eq_refl). lia.
      * cbn [tl] in Hi. clear - Hi Hb'. induction cs' as [|y l IH]; [constructor|]. inversion Hi; inversion Hb'; subst. constructor; [split; assumption|auto].
Qed.

Lemma ready_tail cs' : Forall (fun c => s_instr c > 0) cs' -> Forall (fun c => bl c = true) cs' -> Forall ready cs'.
Proof. induction cs' as [|y l IH]; intros Hi Hb; [constructor|]. inversion Hi; inversion Hb; subst. constructor; [split; assumption|auto]. Qed.

(* the control statement of a unit pushes a fresh brace-less structure on the tower *)
Lemma push_ctl cs H rest hs E nl : tops cs -> bl H = false -> nonglobal H ->
  exists cs2 H2, step (mkstate (cs ++ H :: rest) hs E) (s_ctl nl) = Some (mkstate (new_scope k_control false :: cs2 ++ H2 :: rest) (r_ctl :: hs) E)
    /\ Forall (fun c => bl c = true) cs2 /\ Forall (fun c => s_instr c > 0) cs2 /\ bl H2 = false /\ nonglobal H2
    /\ s_kind H2 = s_kind H /\ s_multi H2 = s_multi H /\ s_lines H2 + sum_lines cs2 = s_lines H + sum_lines cs + nl
    /\ s_instr H2 = s_instr H + (match cs with [] => 1 | _ => 0 end).
Proof.
  intros [Hb [Hi Hh]] HH G. destruct cs as [|c cs'].
  - exists [], (bump H nl). cbn [app]. rewrite (step_ctl (mkstate (H :: rest) hs E) nl H rest eq_refl G).
    repeat split; try constructor; try assumption. cbn [bump s_lines sum_lines fold_right]. lia.
  - inversion Hb as [|? ? Hbc Hb']; subst. exists (bump c nl :: cs'), H. cbn [app].
    rewrite (step_ctl (mkstate (c :: cs' ++ H :: rest) hs E) nl c (cs' ++ H :: rest) eq_refl (bl_nonglobal _ Hbc)).
    split; [reflexivity|]. split; [constructor; assumption|]. split.
    + constructor; [cbn [bump s_instr]; specialize (Hh c eq_refl); lia|exact Hi].
    + repeat split; try assumption. cbn [bump s_lines sum_lines fold_right]. lia. lia.
Qed.

Lemma tops_pushed cs2 c : Forall (fun c => bl c = true) cs2 -> Forall (fun c => s_instr c > 0) cs2 -> bl c = true -> 0 <= s_instr c ->
  tops (c :: cs2).
Proof. intros A B C D. split; [constructor; assumption|]. split; [exact B|]. intros x Hx. inversion Hx; subst. exact D. Qed.

Theorem units_and_bodies : (forall u, unit1 u -> P u) /\ (forall b, body b -> Q b).
Proof.
  apply unit1_body_ind.
  - (* plain *) intros r nl Hp. destruct (plain_spec _ Hp). apply single_stmt; first [assumption|reflexivity].
  - (* control statement that opens nothing *) intros nl. apply single_stmt; reflexivity.
  - (* control gap { body } *)
    intros nl gap nlo b nlc [Hg Hgl] _ IHb cs H rest hs E Ht HH G.
    destruct (push_ctl cs H rest hs E nl Ht HH G) as [cs2 [H2 [S1 [B2 [I2 [HH2 [G2 [K2 [M2 [L2 N2]]]]]]]]]].
    change (s_ctl nl :: gap ++ s_open nlo :: b ++ [s_close nlc]) with ([s_ctl nl] ++ gap ++ [s_open nlo] ++ b ++ [s_close nlc]).
    rewrite run_app. cbn [run]. rewrite S1.
    rewrite run_app, run_skips; [|exact Hg|reflexivity].
    rewrite run_app. cbn [run].
    set (C1 := mksc (s_kind (new_scope k_control false)) (s_lines (new_scope k_control false) + total_nl gap)
                    (s_instr (new_scope k_control false) + zlen gap) (s_multi (new_scope k_control false))).
    rewrite (step_open_mark (mkstate (C1 :: cs2 ++ H2 :: rest) (names gap ++ r_ctl :: hs) E) nlo C1 (cs2 ++ H2 :: rest) eq_refl); [|reflexivity|].
    2:{ cbn [hist]. rewrite scan_gap; [|exact Hg|reflexivity|reflexivity]. unfold C1. cbn [s_lines new_scope].
        replace (0 + total_nl gap - zlen gap >=? 1) with false; [reflexivity|]. symmetry. rewrite Z.geb_leb. apply Z.leb_gt. lia. }
    cbn [chain hist ems]. replace (brace_line_test (s_kind C1) (s_lines C1)) with (@nil str) by reflexivity. cbn [app].
    set (C2 := mksc (s_kind C1) (s_lines C1 + nlo) (s_instr C1 + 1) true).
    rewrite run_app.
    destruct (IHb C2 (cs2 ++ H2 :: rest) (r_block_start :: names gap ++ r_ctl :: hs) E) as [k [Hk R]]; [reflexivity|reflexivity|].
    rewrite R. cbn [run].
    set (C3 := mksc (s_kind C2) (s_lines C2 + total_nl b) (s_instr C2 + k) (s_multi C2)).
    rewrite (step_close_ctl (mkstate (C3 :: cs2 ++ H2 :: rest) (names b ++ r_block_start :: names gap ++ r_ctl :: hs) E) nlc C3 (cs2 ++ H2 :: rest) eq_refl); [|reflexivity].
    cbn [hist ems].
    rewrite update_pops; [|reflexivity| |exact HH2|rewrite app_length; cbn [Datatypes.length]; lia].
    2:{ constructor; [|apply ready_tail; assumption]. split; [reflexivity|]. unfold C3, C2, C1. cbn [s_instr new_scope]. unfold zlen. lia. }
    f_equal. f_equal.
    + f_equal. unfold after_unit, add_lines. rewrite K2, M2. apply sc_eq.
      * unfold C3, C2, C1. cbn [sum_lines fold_right s_lines s_kind s_instr s_multi new_scope]. fold (sum_lines cs2).
        change (s_ctl nl :: gap ++ s_open nlo :: b ++ [s_close nlc]) with ([s_ctl nl] ++ gap ++ [s_open nlo] ++ b ++ [s_close nlc]). rewrite !total_nl_app. cbn [total_nl fold_right s_ctl s_open s_close st_nl]. fold (total_nl gap). fold (total_nl b). lia.
      * exact N2.
    + change (s_ctl nl :: gap ++ s_open nlo :: b ++ [s_close nlc]) with ([s_ctl nl] ++ gap ++ [s_open nlo] ++ b ++ [s_close nlc]). rewrite !names_app. cbn [names map rev app s_ctl s_open s_close st_rule]. rewrite <- !app_assoc. reflexivity.
  - (* control skipped* unit1 *)
    intros nl gap u Hg _ IHu cs H rest hs E Ht HH G.
    destruct (push_ctl cs H rest hs E nl Ht HH G) as [cs2 [H2 [S1 [B2 [I2 [HH2 [G2 [K2 [M2 [L2 N2]]]]]]]]]].
    change (s_ctl nl :: gap ++ u) with ([s_ctl nl] ++ gap ++ u).
    rewrite run_app. cbn [run]. rewrite S1.
    rewrite run_app, run_skips; [|exact Hg|reflexivity].
    set (C1 := mksc (s_kind (new_scope k_control false)) (s_lines (new_scope k_control false) + total_nl gap)
                    (s_instr (new_scope k_control false) + zlen gap) (s_multi (new_scope k_control false))).
    change (C1 :: cs2 ++ H2 :: rest) with ((C1 :: cs2) ++ H2 :: rest).
    rewrite IHu; [|apply tops_pushed; try assumption; [reflexivity|unfold C1; cbn [s_instr new_scope]; unfold zlen; lia]|exact HH2|exact G2].
    f_equal. f_equal.
    + f_equal. unfold after_unit. rewrite K2, M2. apply sc_eq.
      * unfold C1. cbn [sum_lines fold_right s_lines new_scope]. fold (sum_lines cs2).
        change (s_ctl nl :: gap ++ u) with ([s_ctl nl] ++ gap ++ u). rewrite !total_nl_app. cbn [total_nl fold_right s_ctl st_nl]. fold (total_nl gap). fold (total_nl u). lia.
      * rewrite N2. lia.
    + change (s_ctl nl :: gap ++ u) with ([s_ctl nl] ++ gap ++ u). rewrite !names_app. cbn [names map rev app s_ctl st_rule]. rewrite <- !app_assoc. reflexivity.
  - (* empty body *) intros H rest hs E HH G. exists 0. split; [lia|]. cbn [run total_nl fold_right names map rev app]. rewrite !Z.add_0_r. now destruct H.
  - (* skipped statement, then a body *)
    intros x b Hx _ IHb H rest hs E HH G. cbn [run]. rewrite (step_skip (mkstate (H :: rest) hs E) x H rest eq_refl Hx G). cbn [hist ems].
    destruct (IHb (bump H (st_nl x)) rest (st_rule x :: hs) E) as [k [Hk R]]; [exact HH|exact G|].
    exists (1 + k). split; [lia|]. rewrite R. cbn [bump s_kind s_lines s_instr s_multi total_nl fold_right]. fold (total_nl b).
    rewrite names_cons, <- app_assoc. cbn [app]. do 3 f_equal. apply sc_eq; lia.
  - (* unit, then a body *)
    intros u b _ IHu _ IHb H rest hs E HH G. rewrite run_app.
    change (H :: rest) with ([] ++ H :: rest).
    rewrite (IHu [] H rest hs E); [|repeat split; try constructor; intros c Hc; discriminate|exact HH|exact G]. cbn [app].
    destruct (IHb (after_unit [] H u) rest (names u ++ hs) E) as [k [Hk R]]; [exact HH|exact G|].
    exists (1 + k). split; [lia|]. rewrite R. unfold after_unit. cbn [s_kind s_lines s_instr s_multi sum_lines fold_right].
    rewrite total_nl_app, names_app, <- app_assoc. do 3 f_equal. apply sc_eq; lia.
Qed.

(* ------------------------------------------------------------------ statements at file level (GlobalScope current) *)
Definition isglobal (g : sc) : Prop := s_kind g = k_global.
Definition last_ok (hs : list str) : Prop := match hs with r :: _ => str_eqb r r_cfd = false | [] => True end.

Lemma global_stable g : isglobal g -> bl g = false.
Proof. unfold isglobal, bl, is_class. intros ->. reflexivity. Qed.

Lemma parent_not_cfd r hs : str_eqb r r_cfd = false -> last_ok hs -> str_eqb (parent_rule (r :: hs)) r_cfd = false.
Proof. intros Hr Hl. destruct hs as [|a hs']; cbn [parent_rule]; [exact Hr|exact Hl]. Qed.

(* a statement without scope effect in the global scope: counted there, nothing emitted (the parent rule is never
   "CheckFuncDeclarations": that is no primary) *)
Lemma step_global_plain g rest hs E x : isglobal g ->
  str_eqb (st_rule x) r_block_start = false -> str_eqb (st_rule x) r_block_end = false -> st_opens x = None ->
  str_eqb (st_rule x) r_cfd = false -> last_ok hs ->
  step (mkstate (g :: rest) hs E) x = Some (mkstate (bump g (st_nl x) :: rest) (st_rule x :: hs) E).
Proof.
  intros Hg A B C D Hl. destruct g as [gk gl gi gm]. unfold isglobal in Hg. cbn [s_kind] in Hg. subst gk. unfold step, primary_effect. cbn [chain hist ems]. rewrite A, B, C. unfold is_brace_rule. rewrite A, B. cbn [orb].
  unfold line_count_run. cbn [add_instr s_kind s_lines s_instr s_multi].
  replace (str_eqb k_global k_global) with true by reflexivity.
  change (s "CheckFuncDeclarations") with r_cfd. rewrite (parent_not_cfd _ _ D Hl). cbn [andb app].
  cbn [ctx_update]. destruct (str_in (st_rule x) update_skipped); [reflexivity|].
  unfold is_class. cbn [s_kind]. replace (str_eqb k_global (s "ControlStructure")) with false by reflexivity. cbn [andb]. destruct rest; reflexivity.
Qed.

(* ------------------------------------------------------------------ header gap { body } *)
Record opener_ok (o : stmt) (cls : str) : Prop := {
  oo_opens : st_opens o = Some cls;
  oo_inner : inner_multi (st_rule o) cls = Some false;
  oo_opener : str_in (st_rule o) block_start_openers = true;
  oo_noskip : str_in (st_rule o) update_skipped = false;
  oo_bs : str_eqb (st_rule o) r_block_start = false; oo_be : str_eqb (st_rule o) r_block_end = false;
  oo_cfd : str_eqb (st_rule o) r_cfd = false;
  oo_ctl : str_eqb cls k_control = false; oo_glob : str_eqb cls k_global = false }.

Lemma func_opener nl : opener_ok (s_func nl) k_function.
Proof. constructor; reflexivity. Qed.
Lemma utype_opener nl cls : inner_multi r_utype cls = Some false -> str_eqb cls k_control = false -> opener_ok (mkstmt r_utype nl (Some cls)) cls.
Proof.
  intros H1 H2. constructor; try reflexivity; try assumption.
  (* the class comes from a site of IsUserDefinedType: it is not GlobalScope *)
  unfold inner_multi in H1. cbn [st_rule] in H1.
  destruct (str_eqb cls k_global) eqn:Q; [|reflexivity]. apply str_eqb_eq in Q. subst cls. vm_compute in H1. discriminate.
Qed.

Lemma step_opener g rest hs E o cls : isglobal g -> opener_ok o cls -> last_ok hs ->
  step (mkstate (g :: rest) hs E) o = Some (mkstate (new_scope cls false :: bump g (st_nl o) :: rest) (st_rule o :: hs) E).
Proof.
  intros Hg [O1 O2 O3 O4 O5 O6 O7 O8 O9] Hl. destruct g as [gk gl gi gm]. unfold isglobal in Hg. cbn [s_kind] in Hg. subst gk. unfold step, primary_effect. cbn [chain hist ems]. rewrite O5, O6, O1, O2.
  unfold is_brace_rule. rewrite O5, O6. cbn [orb].
  unfold line_count_run. cbn [add_instr s_kind s_lines s_instr s_multi].
  replace (str_eqb k_global k_global) with true by reflexivity.
  change (s "CheckFuncDeclarations") with r_cfd. rewrite (parent_not_cfd _ _ O7 Hl). cbn [andb app].
  cbn [ctx_update]. rewrite O4. cbn [apply_sub]. unfold is_class, new_scope. cbn [s_kind s_multi s_instr].
  change (s "ControlStructure") with k_control. rewrite O8. cbn [andb]. reflexivity.
Qed.

(* the scope opened by the header, when its closing brace is reached: the counter of the Function scope *)
Theorem block_before_close g rest hs E o cls gap nlo b : isglobal g -> opener_ok o cls -> last_ok hs -> gap_ok gap -> body b ->
  exists k, 0 <= k /\
  run (mkstate (g :: rest) hs E) (o :: gap ++ s_open nlo :: b) =
    Some (mkstate (mksc cls (total_nl gap + nlo + total_nl b) k true :: bump g (st_nl o) :: rest)
                  (names b ++ r_block_start :: names gap ++ st_rule o :: hs)
                  (brace_line_test cls (total_nl gap) ++ E)).
Proof.
  intros Hg Ho Hl [Hgs Hgl] Hb.
  change (o :: gap ++ s_open nlo :: b) with ([o] ++ gap ++ [s_open nlo] ++ b).
  rewrite run_app. cbn [run]. rewrite (step_opener g rest hs E o cls Hg Ho Hl).
  assert (Gn : nonglobal (new_scope cls false)) by (destruct Ho; assumption).
  rewrite run_app, run_skips; [|exact Hgs|exact Gn].
  rewrite run_app. cbn [run].
  set (F1 := mksc (s_kind (new_scope cls false)) (s_lines (new_scope cls false) + total_nl gap)
                  (s_instr (new_scope cls false) + zlen gap) (s_multi (new_scope cls false))).
  rewrite (step_open_mark (mkstate (F1 :: bump g (st_nl o) :: rest) (names gap ++ st_rule o :: hs) E) nlo F1 _ eq_refl Gn).
  2:{ cbn [hist]. destruct Ho. rewrite scan_gap; [|exact Hgs|assumption|assumption]. unfold F1. cbn [s_lines new_scope].
      replace (0 + total_nl gap - zlen gap >=? 1) with false; [reflexivity|]. symmetry. rewrite Z.geb_leb. apply Z.leb_gt. lia. }
  cbn [chain hist ems].
  set (F2 := mksc (s_kind F1) (s_lines F1 + nlo) (s_instr F1 + 1) true).
  destruct (proj2 units_and_bodies b Hb F2 (bump g (st_nl o) :: rest) (r_block_start :: names gap ++ st_rule o :: hs)
              (brace_line_test (s_kind F1) (s_lines F1) ++ E)) as [k [Hk R]].
  { unfold bl, F2. cbn [s_multi negb]. apply andb_false_r. }
  { exact Gn. }
  rewrite R. exists (s_instr F2 + k). split; [unfold F2, F1; cbn [s_instr new_scope]; unfold zlen; lia|].
  unfold F2, F1. cbn [s_kind s_lines s_instr s_multi new_scope]. do 2 f_equal.
Qed.

(* the whole block: the parent is back on top, credited with the lines of the block (not with the line of the closing brace,
   which is counted after outer() in the scope that is left); the line test of CheckBrace ran at both braces *)
Theorem block_trace g rest hs E o cls gap nlo b nlc : isglobal g -> opener_ok o cls -> last_ok hs -> gap_ok gap -> body b ->
  run (mkstate (g :: rest) hs E) (block_of o gap nlo b nlc) =
    Some (mkstate (add_lines (bump g (st_nl o)) (total_nl gap + nlo + total_nl b) :: rest)
                  (names (block_of o gap nlo b nlc) ++ hs)
                  (brace_line_test cls (total_nl gap + nlo + total_nl b) ++ brace_line_test cls (total_nl gap) ++ E)).
Proof.
  intros Hg Ho Hl Hgap Hb. unfold block_of.
  assert (Es : o :: gap ++ s_open nlo :: b ++ [s_close nlc] = (o :: gap ++ s_open nlo :: b) ++ [s_close nlc]).
  { cbn [app]. f_equal. rewrite <- app_assoc. reflexivity. }
  rewrite Es at 1. rewrite run_app.
  destruct (block_before_close g rest hs E o cls gap nlo b Hg Ho Hl Hgap Hb) as [k [Hk R]]. rewrite R. cbn [run].
  set (F := mksc cls (total_nl gap + nlo + total_nl b) k true).
  rewrite (step_close_scope (mkstate (F :: bump g (st_nl o) :: rest) (names b ++ r_block_start :: names gap ++ st_rule o :: hs) (brace_line_test cls (total_nl gap) ++ E)) nlc F (bump g (st_nl o)) rest eq_refl).
  - cbn [hist ems s_kind s_lines].
    assert (En : names (o :: gap ++ s_open nlo :: b ++ [s_close nlc]) ++ hs
                 = r_block_end :: names b ++ r_block_start :: names gap ++ st_rule o :: hs).
    { change (o :: gap ++ s_open nlo :: b ++ [s_close nlc]) with ([o] ++ gap ++ [s_open nlo] ++ b ++ [s_close nlc]).
      rewrite !names_app. cbn [names map rev app s_open s_close st_rule]. rewrite <- !app_assoc. reflexivity. }
    rewrite En. reflexivity.
  - cbn [s_kind]. destruct Ho; assumption.
  - unfold nonglobal. cbn [s_kind]. destruct Ho; assumption.
  - apply global_stable. exact Hg.
Qed.

(* ------------------------------------------------------------------ the headline statements *)
Definition tml := s "TOO_MANY_LINES".

(* C03: when the closing brace of a function with a well-nested body is processed, the Function scope's `lines` is the number of
   line ends of the gap, the `{` statement and ALL body statements - nothing handed up by brace-less structures is lost *)
Theorem lines_counter : forall g rest hs E nl gap nlo b, isglobal g -> last_ok hs -> gap_ok gap -> body b ->
  exists q F, run (mkstate (g :: rest) hs E) (s_func nl :: gap ++ s_open nlo :: b) = Some q /\
    hd_error (chain q) = Some F /\ s_kind F = k_function /\ s_lines F = total_nl gap + nlo + total_nl b.
Proof.
  intros g rest hs E nl gap nlo b Hg Hl Hgap Hb.
  destruct (block_before_close g rest hs E (s_func nl) k_function gap nlo b Hg (func_opener nl) Hl Hgap Hb) as [k [_ R]].
  eexists. eexists. split; [exact R|]. repeat split.
Qed.

(* the closing brace emits TOO_MANY_LINES iff that counter exceeds the limit of CheckBrace (26 = 25 body lines + the `{` line) *)
Theorem too_many_lines_iff : forall g rest hs E nl nlo b nlc, isglobal g -> last_ok hs -> body b ->
  exists q, run (mkstate (g :: rest) hs E) (block_of (s_func nl) [] nlo b nlc) = Some q /\
    ems q = (if nlo + total_nl b >? brace_limit then [tml] else []) ++ E.
Proof.
  intros g rest hs E nl nlo b nlc Hg Hl Hb.
  assert (Hgap : gap_ok []) by (split; [constructor|unfold total_nl, zlen; cbn; lia]).
  eexists. split; [apply (block_trace g rest hs E (s_func nl) k_function [] nlo b nlc Hg (func_opener nl) Hl Hgap Hb)|].
  cbn [ems]. rewrite !brace_test_shape. replace (str_eqb k_function k_function) with true by reflexivity. cbn [andb].
  change (total_nl []) with 0. replace (0 >? brace_limit) with false by reflexivity. cbn [app]. rewrite Z.add_0_l. reflexivity.
Qed.

(* with `{` alone on its line: one diagnostic iff the body has more than 25 line ends; at 25 none, at 26 always *)
Theorem too_many_lines_25 : forall g rest hs E nl b nlc, isglobal g -> last_ok hs -> body b ->
  exists q, run (mkstate (g :: rest) hs E) (block_of (s_func nl) [] 1 b nlc) = Some q /\
    ((total_nl b > 25 -> ems q = tml :: E) /\ (total_nl b <= 25 -> ems q = E)).
Proof.
  intros g rest hs E nl b nlc Hg Hl Hb. destruct (too_many_lines_iff g rest hs E nl 1 b nlc Hg Hl Hb) as [q [R He]].
  exists q. split; [exact R|]. rewrite He. unfold brace_limit. split; intros H.
  - replace (1 + total_nl b >? 26) with true by (symmetry; apply Z.gtb_lt; lia). reflexivity.
  - replace (1 + total_nl b >? 26) with false by (symmetry; rewrite Z.gtb_ltb; apply Z.ltb_ge; lia). reflexivity.
Qed.

(* the two limits are the ones the limit table of C03 reads from the same files *)
Lemma limits_tie : NV.Gen.Limits.limits_check_brace = [("context.scope.lines"%string, ">"%string, brace_limit)] /\
                   NV.Gen.Limits.limits_check_line_count = [("context.scope.lines"%string, ">"%string, line_count_limit)].
Proof. split; reflexivity. Qed.

(* C07: after the closing brace of a function (or user-defined type) with a well-nested body the chain is what it was *)
Theorem depth_back_at_file_level : forall g hs E o cls gap nlo b nlc, isglobal g -> opener_ok o cls -> last_ok hs -> gap_ok gap -> body b ->
  exists q g', run (mkstate [g] hs E) (block_of o gap nlo b nlc) = Some q /\ chain q = [g'] /\ isglobal g' /\
    last_ok (hist q).
Proof.
  intros g hs E o cls gap nlo b nlc Hg Ho Hl Hgap Hb. eexists. eexists.
  split; [apply (block_trace g [] hs E o cls gap nlo b nlc Hg Ho Hl Hgap Hb)|]. cbn [chain hist]. split; [reflexivity|].
  split; [exact Hg|]. unfold block_of.
  assert (Es : o :: gap ++ s_open nlo :: b ++ [s_close nlc] = (o :: gap ++ s_open nlo :: b) ++ [s_close nlc]).
  { cbn [app]. f_equal. rewrite <- app_assoc. reflexivity. }
  rewrite Es, names_app. reflexivity.
Qed.

(* a whole file: global scope before, global scope after - whatever functions, types, globals, comments it holds *)
Theorem file_ends_at_global : forall f, file f -> forall g hs E, isglobal g -> last_ok hs ->
  exists q g', run (mkstate [g] hs E) f = Some q /\ chain q = [g'] /\ isglobal g' /\ last_ok (hist q).
Proof.
  induction 1 as [|u f Hu Hf IH]; intros g hs E Hg Hl.
  - exists (mkstate [g] hs E), g. repeat split; assumption.
  - rewrite run_app.
    assert (Hstep : exists q1 g1, run (mkstate [g] hs E) u = Some q1 /\ chain q1 = [g1] /\ isglobal g1 /\ last_ok (hist q1)).
    { destruct Hu as [x [Hs Ho]|r nl Hp|nl gap nlo b nlc Hgap Hb|cls nl gap nlo b nlc Hi Hc Hgap Hb].
      - destruct (skipped_facts _ Hs) as [A B]. cbn [run].
        assert (D : str_eqb (st_rule x) r_cfd = false).
        { unfold skipped, str_in, update_skipped in Hs. cbn [existsb] in Hs. rewrite orb_false_r in Hs.
          repeat (apply orb_true_iff in Hs as [Hs|Hs]); apply str_eqb_eq in Hs; rewrite Hs; reflexivity. }
        rewrite (step_global_plain g [] hs E x Hg A B Ho D Hl). eexists. eexists. split; [reflexivity|]. repeat split; assumption.
      - destruct (plain_spec _ Hp). cbn [run].
        rewrite (step_global_plain g [] hs E (mkstmt r nl None) Hg); try assumption; try reflexivity.
        eexists. eexists. split; [reflexivity|]. repeat split; assumption.
      - apply (depth_back_at_file_level g hs E (s_func nl) k_function gap nlo b nlc Hg (func_opener nl) Hl Hgap Hb).
      - apply (depth_back_at_file_level g hs E _ cls gap nlo b nlc Hg (utype_opener nl cls Hi Hc) Hl Hgap Hb). }
    destruct Hstep as [q1 [g1 [R1 [C1 [G1 L1]]]]]. rewrite R1.
    destruct q1 as [c1 h1 e1]. cbn [chain hist] in C1, L1. subst c1. apply IH; assumption.
Qed.

(* ------------------------------------------------------------------ non-vacuity: the nine body shapes of the boundary search
   (tools/harness/c03.py body_lines) at 25 and at 26 lines, evaluated in the model *)
Definition x_instr : stmt := mkstmt (s "IsAssignation") 1 None.
Definition x_decl : stmt := mkstmt (s "IsVarDeclaration") 1 None.
Definition x_blank : stmt := mkstmt (s "IsEmptyLine") 1 None.
Definition x_ctl := s_ctl 1.
Definition x_open := s_open 1.
Definition x_close := s_close 1.
Definition around (n : nat) (core : list stmt) : list stmt :=
  let k := (n - List.length core)%nat in repeat x_instr (Nat.div2 k) ++ core ++ repeat x_instr (k - Nat.div2 k).
Definition shapes : list (nat -> list stmt) :=
  [ (fun n => repeat x_instr n);                                                            (* flat *)
    (fun n => x_decl :: x_blank :: repeat x_instr (n - 2));                                  (* decl *)
    (fun n => x_ctl :: x_open :: repeat x_instr (n - 3) ++ [x_close]);                        (* nested *)
    (fun n => x_ctl :: x_open :: x_ctl :: x_open :: repeat x_instr (n - 8) ++ [x_close; x_ctl; x_instr; x_close]);   (* deep *)
    (fun n => let k := Nat.div2 (n - 1) in List.concat (repeat [x_ctl; x_instr] k) ++ repeat x_instr (n - 2 * k));   (* braceless *)
    (fun n => around n [x_ctl; x_ctl; x_instr]);                                              (* chain2 *)
    (fun n => around n [x_ctl; x_ctl; x_ctl; x_instr]);                                       (* chain3 *)
    (fun n => around n [x_ctl; x_instr; x_ctl; x_ctl; x_instr]);                              (* elseif-chain *)
    (fun n => around n [x_ctl; x_open; x_ctl; x_ctl; x_instr; x_close]) ].                    (* chain-in-block *)
Definition emitted_by (b : list stmt) : option (list str * nat) :=
  match run state0 (block_of (s_func 1) [] 1 b 1) with Some q => Some (ems q, List.length (chain q)) | None => None end.

Example nine_shapes_have_n_lines : map (fun sh => (total_nl (sh 25%nat), total_nl (sh 26%nat))) shapes = repeat (25, 26) 9.
Proof. vm_compute. reflexivity. Qed.
Example nine_shapes_at_the_boundary :
  map (fun sh => (emitted_by (sh 25%nat), emitted_by (sh 26%nat))) shapes = repeat (Some ([], 1%nat), Some ([tml], 1%nat)) 9.
Proof. vm_compute. reflexivity. Qed.

(* the cores of the chain shapes are well-nested bodies: hypotheses of the theorems are inhabited *)
Lemma plain_assign : plain (s "IsAssignation") = true.
Proof. reflexivity. Qed.
Example body_chain3 : body ([x_instr] ++ [x_ctl; x_ctl; x_ctl; x_instr] ++ [x_instr]).
Proof.
  apply (B_unit [x_instr]); [apply U_plain, plain_assign|].
  apply (B_unit [x_ctl; x_ctl; x_ctl; x_instr]).
  - apply (U_one 1 [] [x_ctl; x_ctl; x_instr]); [constructor|]. apply (U_one 1 [] [x_ctl; x_instr]); [constructor|].
    apply (U_one 1 [] [x_instr]); [constructor|]. apply U_plain, plain_assign.
  - apply (B_unit [x_instr] []); [apply U_plain, plain_assign|constructor].
Qed.
Example body_chain_in_block : body ([x_ctl; x_open; x_ctl; x_ctl; x_instr; x_close] ++ [x_blank; x_instr]).
Proof.
  apply (B_unit [x_ctl; x_open; x_ctl; x_ctl; x_instr; x_close]).
  - apply (U_braced 1 [] 1 [x_ctl; x_ctl; x_instr] 1).
    + split; [constructor|unfold total_nl, zlen; cbn; lia].
    + apply (B_unit [x_ctl; x_ctl; x_instr] []); [|constructor].
      apply (U_one 1 [] [x_ctl; x_instr]); [constructor|]. apply (U_one 1 [] [x_instr]); [constructor|]. apply U_plain, plain_assign.
  - apply B_skip; [split; reflexivity|]. apply (B_unit [x_instr] []); [apply U_plain, plain_assign|constructor].
Qed.
Example gap_with_a_comment : gap_ok [mkstmt (s "IsComment") 1 None].
Proof. split; [constructor; [split; reflexivity|constructor]|unfold total_nl, zlen; cbn; lia]. Qed.
