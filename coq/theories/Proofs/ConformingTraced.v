(* C01: the silence theorems with the scope-name / indentation hypotheses DERIVED from the scope-trace model instead of assumed:
   the statement is reached by a run of Model/ScopeTrace.v from the initial state (any statement trace the model accepts),
   `view_of q v` relates the check's view to the model state (scope name = class of the current scope, indentation = depth of
   the chain by Gen/ScopeIndent.v, history = the model's history).  "Not at global scope" is then `1 <= indentation`, "at global
   scope" is `indentation = 0` - and CheckLineIndent's own hypothesis equates the indentation with the number of leading tabs. *)
From NV Require Import Model.Base Model.Lexer Model.RuleChecks Gen.RuleChecks Gen.MoreChecks Proofs.StrOrder Proofs.RuleChecksProofs
  Proofs.RuleChecksProofs2 Proofs.ConformingChecks Proofs.ConformingControl Proofs.ScopeViewProofs.
From NV Require Model.ScopeTrace.
From Coq Require Import Lia.
Local Open Scope Z_scope.

Lemma traced_global_b l q v : ScopeTrace.run ScopeTrace.state0 l = Some q -> view_of q v ->
  str_eqb (v_scope_name v) (s "GlobalScope") = (v_scope_indent v =? 0).
Proof.
  intros Hr Hv. destruct (traced_scope_name l q v Hr Hv) as [H _].
  destruct (str_eqb (v_scope_name v) (s "GlobalScope")) eqn:E.
  - symmetry. apply Z.eqb_eq. now apply H.
  - symmetry. apply Z.eqb_neq. intros Q. apply H in Q. congruence.
Qed.

(* CheckControlStatement: WRONG_SCOPE cannot be reported on an indented line *)
Theorem control_statement_silent_traced l q toks scope v n :
  ScopeTrace.run ScopeTrace.state0 l = Some q -> view_of q v -> 1 <= v_scope_indent v ->
  0 <= n <= zlen toks -> (forall j, 0 <= j < n -> cs_pos_ok toks n j = true) ->
  is_false (check1 toks n (s "NEWLINE")) = false ->
  check_control_statement toks scope v = Ok ([], v).
Proof.
  intros Hr Hv Hi. apply control_statement_silent. rewrite (traced_global_b l q v Hr Hv). apply Z.eqb_neq. lia.
Qed.

(* CheckEmptyLine, with `at global scope` read off the indentation *)
Theorem empty_line_silent_on_statement_traced l q toks scope v h1 rest :
  ScopeTrace.run ScopeTrace.state0 l = Some q -> view_of q v ->
  v_history v = h1 :: rest -> str_eqb h1 r_empty = false ->
  ((v_scope_indent v =? 0) || str_eqb h1 r_vardecl || negb (v_vdecl_allowed v) || str_eqb h1 r_comment
   || (str_eqb h1 r_blockend && str_eqb (v_scope_name v) (s "Function"))) = true ->
  (match rest with h2 :: _ => negb (str_eqb h2 r_preproc) | [] => true end || str_eqb h1 r_preproc || str_eqb h1 r_comment) = true ->
  exists v', check_empty_line toks scope v = Ok ([], v').
Proof.
  intros Hr Hv Hh He Ha Hp. apply (empty_line_silent_on_statement toks scope v h1 rest Hh He); [|exact Hp].
  unfold n_global. rewrite (traced_global_b l q v Hr Hv). exact Ha.
Qed.

Theorem empty_line_silent_on_empty_line_traced l q toks scope v h2 rest t0 t1 :
  ScopeTrace.run ScopeTrace.state0 l = Some q -> view_of q v ->
  v_history v = r_empty :: h2 :: rest -> str_eqb h2 r_empty = false ->
  (str_eqb h2 r_vardecl || (v_scope_indent v =? 0)) = true ->
  peek toks 0 = Some t0 -> t_type t0 = s "NEWLINE" -> peek toks 1 = Some t1 ->
  exists v', check_empty_line toks scope v = Ok ([], v').
Proof.
  intros Hr Hv Hh H2 Hg. apply (empty_line_silent_on_empty_line toks scope v h2 rest t0 t1 Hh H2).
  unfold n_global. rewrite (traced_global_b l q v Hr Hv). exact Hg.
Qed.

(* CheckLineIndent: the number of leading tabs is the depth of the scope chain *)
Theorem line_indent_silent_traced (q : ScopeTrace.state) toks scope v k h1 rest t0 :
  view_of q v -> Z.of_nat k = zlen (ScopeTrace.chain q) - 1 ->
  v_history v = h1 :: rest -> str_in h1 indent_skipped = false -> leading toks [ty_tab] k ->
  (forall t, peek toks (Z.of_nat k) = Some t -> str_in (t_type t) [s "LBRACE"; s "RBRACE"] = false) ->
  peek toks 0 = Some t0 ->
  exists v', check_line_indent toks scope v = Ok ([], v') /\ v_scope_indent v' = v_scope_indent v.
Proof.
  intros Hv Hk Hh Hs Hl Hb H0. apply (line_indent_silent toks scope v k h1 rest t0 Hh Hs Hl Hb H0).
  unfold view_of in Hv. destruct (ScopeTrace.chain q); [destruct Hv|]. destruct Hv as (_ & Hd & _). lia.
Qed.

Definition traced_silent_statement : Prop :=
  (* every reachable chain is non-global scopes above one GlobalScope; at global scope <-> indentation 0 *)
  (forall l q v, ScopeTrace.run ScopeTrace.state0 l = Some q -> view_of q v ->
     (str_eqb (v_scope_name v) (s "GlobalScope") = true <-> v_scope_indent v = 0) /\ 0 <= v_scope_indent v) /\
  (forall l q toks scope v n, ScopeTrace.run ScopeTrace.state0 l = Some q -> view_of q v -> 1 <= v_scope_indent v ->
     0 <= n <= zlen toks -> (forall j, 0 <= j < n -> cs_pos_ok toks n j = true) -> is_false (check1 toks n (s "NEWLINE")) = false ->
     check_control_statement toks scope v = Ok ([], v)) /\
  (forall l q toks scope v h1 rest, ScopeTrace.run ScopeTrace.state0 l = Some q -> view_of q v ->
     v_history v = h1 :: rest -> str_eqb h1 r_empty = false ->
     ((v_scope_indent v =? 0) || str_eqb h1 r_vardecl || negb (v_vdecl_allowed v) || str_eqb h1 r_comment
      || (str_eqb h1 r_blockend && str_eqb (v_scope_name v) (s "Function"))) = true ->
     (match rest with h2 :: _ => negb (str_eqb h2 r_preproc) | [] => true end || str_eqb h1 r_preproc || str_eqb h1 r_comment) = true ->
     exists v', check_empty_line toks scope v = Ok ([], v')) /\
  (forall l q toks scope v h2 rest t0 t1, ScopeTrace.run ScopeTrace.state0 l = Some q -> view_of q v ->
     v_history v = r_empty :: h2 :: rest -> str_eqb h2 r_empty = false -> (str_eqb h2 r_vardecl || (v_scope_indent v =? 0)) = true ->
     peek toks 0 = Some t0 -> t_type t0 = s "NEWLINE" -> peek toks 1 = Some t1 ->
     exists v', check_empty_line toks scope v = Ok ([], v')) /\
  (forall (q : ScopeTrace.state) toks scope v k h1 rest t0, view_of q v -> Z.of_nat k = zlen (ScopeTrace.chain q) - 1 ->
     v_history v = h1 :: rest -> str_in h1 indent_skipped = false -> leading toks [ty_tab] k ->
     (forall t, peek toks (Z.of_nat k) = Some t -> str_in (t_type t) [s "LBRACE"; s "RBRACE"] = false) -> peek toks 0 = Some t0 ->
     exists v', check_line_indent toks scope v = Ok ([], v') /\ v_scope_indent v' = v_scope_indent v).
Lemma traced_silent : traced_silent_statement.
Proof.
  split; [exact traced_scope_name|]. split; [exact control_statement_silent_traced|].
  split; [exact empty_line_silent_on_statement_traced|]. split; [exact empty_line_silent_on_empty_line_traced|].
  exact line_indent_silent_traced.
Qed.
