(* The 42 header (Model/Header.v template) is lexed into its 11 block-comment tokens, each followed by a NEWLINE
   token, and whatever text follows is lexed as if it stood alone, 11 lines lower: the lexer half of C13's
   file -> trace link and an unconditional instance of C19's prefix composition. *)
From NV Require Import Model.Base Model.Diag Model.Lexer Spec.Normalise
  Model.HeaderRe Model.HeaderState Gen.HeaderRe Gen.HeaderSM Model.Header
  Proofs.LineShift Proofs.LineShiftCor Proofs.CommentLines.
From Coq Require Import Lia.

Local Open Scope Z_scope.

(* ------------------------------------------------------------------ chains *)
Lemma std_digraph_snd a b t : std_digraph a b = Some t -> b = 37%N \/ b = 58%N \/ b = 62%N.
Proof.
  unfold std_digraph. destruct a as [|p]; [discriminate|].
  repeat (destruct p as [p|p|]; try discriminate);
    (destruct b as [|q]; [discriminate|]; repeat (destruct q as [q|q|]; try discriminate); intros _; auto).
Qed.

Lemma pair_ok_space p : pair_ok p 32 = true.
Proof.
  unfold pair_ok. destruct (std_digraph p 32) as [t|] eqn:E.
  - apply std_digraph_snd in E. destruct E as [E|[E|E]]; discriminate.
  - cbn [N.eqb Pos.eqb]. rewrite andb_false_r. reflexivity.
Qed.

Lemma chain_sp_then : forall n p Z, chain_ok 32 Z = true -> chain_ok p (sp (S n) ++ Z) = true.
Proof.
  induction n as [|n IH]; intros p Z HZ.
  - cbn [sp repeat app chain_ok]. rewrite pair_ok_space, HZ. reflexivity.
  - change (sp (S (S n)) ++ Z) with (32%N :: (sp (S n) ++ Z)). cbn [chain_ok]. rewrite pair_ok_space, (IH 32%N Z HZ). reflexivity.
Qed.

Lemma chain_sp0 : forall n p Y, chain_ok 32 Y = true -> chain_ok p (sp n ++ 32%N :: Y) = true.
Proof.
  intros n p Y HY. destruct n as [|n].
  - cbn [sp repeat app chain_ok]. rewrite pair_ok_space, HY. reflexivity.
  - apply chain_sp_then. cbn [chain_ok]. rewrite pair_ok_space, HY. reflexivity.
Qed.

Lemma chain_app_any : forall A prev B, chain_ok prev A = true -> (forall p, chain_ok p B = true) -> chain_ok prev (A ++ B) = true.
Proof.
  induction A as [|a A IH]; intros prev B HA HB; [apply HB|].
  cbn [app chain_ok] in *. apply andb_prop in HA. destruct HA as [H1 H2]. rewrite H1. cbn [andb]. apply IH; assumption.
Qed.

Lemma chain_firstn : forall n A prev, chain_ok prev A = true -> chain_ok prev (firstn n A) = true.
Proof.
  induction n as [|n IH]; intros A prev H; [reflexivity|]. destruct A as [|a A]; [reflexivity|].
  cbn [firstn chain_ok] in *. apply andb_prop in H. destruct H as [H1 H2]. rewrite H1. cbn [andb]. apply IH. exact H2.
Qed.

(* a template line with a free left text and an ASCII-art column that starts with a blank *)
Lemma body_ok_mid l r r' : r = 32%N :: r' -> chain_ok 32 l = true -> chain_ok 32 (r' ++ sp 3 ++ [42%N]) = true ->
  body_ok (mid_of l r) = true.
Proof.
  intros Hr Hl Ht. unfold body_ok, mid_of. rewrite <- !app_assoc. apply (chain_sp_then 2).
  apply chain_app_any; [apply chain_firstn; exact Hl|].
  intros p. subst r. cbn [app]. apply chain_sp0. exact Ht.
Qed.

(* ------------------------------------------------------------------ the condition on the fields *)
(* every free text of the header, read after a blank: only characters that are popped as themselves (no backslash,
   `?`, newline, tab), no two neighbours forming a digraph (<% %> <: :> %:) and no `*/` *)
Definition fields_lex_ok (f : fields) : bool :=
  chain_ok 32 (f_file f) && chain_ok 32 (by_text f) && chain_ok 32 (created_text f) && chain_ok 32 (updated_text f).

Lemma template_bodies_ok f : fields_lex_ok f = true -> forallb body_ok (template_mids f) = true.
Proof.
  intros H. unfold fields_lex_ok in H. repeat (apply andb_prop in H; destruct H as [H ?]).
  unfold template_mids. cbn [forallb].
  rewrite (body_ok_mid (f_file f) art4 _ eq_refl H eq_refl).
  rewrite (body_ok_mid (by_text f) art6 _ eq_refl H2 eq_refl).
  rewrite (body_ok_mid (created_text f) art8 _ eq_refl H1 eq_refl).
  rewrite (body_ok_mid (updated_text f) art9 _ eq_refl H0 eq_refl).
  vm_compute. reflexivity.
Qed.

Lemma template_is_comment_lines f : lines_text (template f) = comment_lines (template_mids f).
Proof. reflexivity. Qed.

(* ------------------------------------------------------------------ the header, then any text *)
Theorem header_then_text_lexed : forall uw ud f src items xf, fields_lex_ok f = true ->
  lex uw ud src = Ok (items, xf) ->
  lex uw ud (lines_text (template f) ++ src) =
    Ok (comment_items 0 1 (template_mids f) ++ map (sh_item 11 (List.length (lines_text (template f)))) items,
        shl 11 (List.length (lines_text (template f))) xf).
Proof.
  intros uw ud f src items xf Hf Hs. rewrite template_is_comment_lines.
  exact (lex_comment_lines_then_text uw ud (template_mids f) src items xf (template_bodies_ok f Hf) Hs).
Qed.

Theorem header_steps_local : forall uw ud f src fuel, fields_lex_ok f = true ->
  steps_local uw ud src fuel (init (lines_text (template f))).
Proof.
  intros uw ud f src fuel Hf. rewrite template_is_comment_lines.
  apply (comment_lines_local uw ud (template_mids f) src 0%nat 1 [] fuel (template_bodies_ok f Hf)).
Qed.

(* the tokens of the header part: MULT_COMMENT with the template line as value, NEWLINE, eleven times *)
Lemma comment_items_tokens : forall bs o l,
  map (fun t => (t_type t, t_val t)) (tokens_of (comment_items o l bs)) =
  flat_map (fun b => [(MULT_COMMENT, Some (comment_text b)); (NEWLINE, None)]) bs.
Proof.
  induction bs as [|b bs IH]; intros o l; [reflexivity|].
  cbn [comment_items]. unfold tokens_of in *. cbn [flat_map app map t_type t_val]. rewrite IH. reflexivity.
Qed.

Theorem header_tokens : forall f,
  map (fun t => (t_type t, t_val t)) (tokens_of (comment_items 0 1 (template_mids f))) =
  flat_map (fun line => [(MULT_COMMENT, Some line); (NEWLINE, None)]) (template f).
Proof.
  intros f. rewrite comment_items_tokens. unfold template. generalize (template_mids f).
  induction l as [|m ms IH]; [reflexivity|]. cbn [map flat_map]. rewrite IH. reflexivity.
Qed.

(* ... on lines l, l+1, ..., the comments in column 1 *)
Lemma comment_items_positions : forall bs o l,
  map (fun t => (t_line t, t_col t)) (filter (fun t => str_eqb (t_type t) MULT_COMMENT) (tokens_of (comment_items o l bs))) =
  map (fun i => (l + Z.of_nat i, 1)) (seq 0 (List.length bs)).
Proof.
  induction bs as [|b bs IH]; intros o l; [reflexivity|].
  cbn [comment_items]. unfold tokens_of in *. cbn [flat_map app filter t_type].
  change (str_eqb MULT_COMMENT MULT_COMMENT) with true. change (str_eqb NEWLINE MULT_COMMENT) with false.
  cbn [map t_line t_col List.length seq]. rewrite IH. rewrite <- seq_shift, map_map. f_equal; [f_equal; lia|].
  apply map_ext. intros i. f_equal. lia.
Qed.

(* non-vacuity: the repository's own sample header satisfies the condition *)
Example hud_fields_lex_ok : fields_lex_ok hud_fields = true.
Proof. vm_compute. reflexivity. Qed.

(* ------------------------------------------------------------------ a per-character sufficient condition *)
(* field characters: popped as themselves and unable to take part in a digraph or in `*/`:
   no backslash, `?`, newline, tab, `%`, `<`, `>`, `*`  (`:` and `/` are allowed: times and dates) *)
Definition fch (c : N) : bool := cok c && negb (N.eqb c 37 || N.eqb c 60 || N.eqb c 62 || N.eqb c 42).
Definition fields_simple (f : fields) : bool :=
  forallb fch (f_file f) && forallb fch (f_user f) && forallb fch (f_mail f) && no_char 58 (f_mail f) &&
  forallb fch (f_cdate f) && forallb fch (f_ctime f) && forallb fch (f_cuser f) &&
  forallb fch (f_udate f) && forallb fch (f_utime f) && forallb fch (f_uuser f).

Lemma std_digraph_cases a b t : std_digraph a b = Some t ->
  (a = 60%N /\ b = 37%N) \/ (a = 37%N /\ b = 62%N) \/ (a = 60%N /\ b = 58%N) \/ (a = 58%N /\ b = 62%N) \/ (a = 37%N /\ b = 58%N).
Proof.
  unfold std_digraph. destruct a as [|p]; [discriminate|].
  repeat (destruct p as [p|p|]; try discriminate);
    (destruct b as [|q]; [discriminate|]; repeat (destruct q as [q|q|]; try discriminate); intros _; tauto).
Qed.

Lemma fch_inv c : fch c = true ->
  cok c = true /\ N.eqb c 37 = false /\ N.eqb c 60 = false /\ N.eqb c 62 = false /\ N.eqb c 42 = false.
Proof.
  unfold fch. intros H. apply andb_prop in H. destruct H as [H1 H2]. apply negb_true_iff in H2.
  repeat (apply orb_false_iff in H2; destruct H2 as [H2 ?]). auto.
Qed.

(* the previous character cannot open a digraph or `*/` with a field character *)
Definition calm (p : N) : bool := negb (N.eqb p 60 || N.eqb p 37 || N.eqb p 42).

Lemma calm_inv p : calm p = true -> p <> 60%N /\ p <> 37%N /\ p <> 42%N.
Proof.
  unfold calm. intros H. apply negb_true_iff in H. repeat (apply orb_false_iff in H; destruct H as [H ?]).
  repeat split; intros ->; discriminate.
Qed.

Lemma fch_calm c : fch c = true -> calm c = true.
Proof.
  intros H. destruct (fch_inv c H) as (_ & H37 & H60 & _ & H42). unfold calm. rewrite H60, H37, H42. reflexivity.
Qed.

Lemma pair_ok_calm p c : calm p = true -> fch c = true -> pair_ok p c = true.
Proof.
  intros Hp Hc. destruct (calm_inv p Hp) as (P60 & P37 & P42). destruct (fch_inv c Hc) as (_ & C37 & _ & C62 & _).
  unfold pair_ok. destruct (std_digraph p c) as [t|] eqn:E.
  - apply std_digraph_cases in E. destruct E as [[-> ->]|[[-> ->]|[[-> ->]|[[-> ->]|[-> ->]]]]]; try congruence; discriminate.
  - cbn [andb]. destruct (N.eqb_spec p 42) as [->|]; [congruence|reflexivity].
Qed.

Lemma chain_F_app : forall u p Y, forallb fch u = true -> calm p = true ->
  (forall q, calm q = true -> chain_ok q Y = true) -> chain_ok p (u ++ Y) = true.
Proof.
  induction u as [|c u IH]; intros p Y Hu Hp HY; [apply HY; exact Hp|].
  cbn [forallb] in Hu. apply andb_prop in Hu. destruct Hu as [Hc Hu]. cbn [app chain_ok].
  destruct (fch_inv c Hc) as (Hcok & _). rewrite Hcok, (pair_ok_calm p c Hp Hc). cbn [andb].
  apply IH; [exact Hu|apply fch_calm; exact Hc|exact HY].
Qed.

Lemma chain_F : forall u p, forallb fch u = true -> calm p = true -> chain_ok p u = true.
Proof. intros u p Hu Hp. rewrite <- (app_nil_r u). apply chain_F_app; auto. Qed.

(* `<mail>` : the mail part may not contain `:` (it would form `<:` or `:>` at its ends) *)
Lemma chain_mail : forall m p, forallb fch m = true -> no_char 58 m = true ->
  (p = 60%N \/ (fch p = true /\ N.eqb p 58 = false)) -> chain_ok p (m ++ [62%N]) = true.
Proof.
  induction m as [|c m IH]; intros p Hm H58 Hp.
  - cbn [app chain_ok]. change (cok 62) with true. cbn [andb]. rewrite andb_true_r. unfold pair_ok.
    destruct Hp as [->|[Hf Hn]]; [reflexivity|].
    destruct (fch_inv p Hf) as (_ & P37 & _ & _ & P42).
    destruct (std_digraph p 62) as [t|] eqn:E.
    + apply std_digraph_cases in E. destruct E as [[-> E]|[[-> _]|[[-> E]|[[-> _]|[-> E]]]]]; discriminate.
    + rewrite P42. reflexivity.
  - cbn [forallb] in Hm. apply andb_prop in Hm. destruct Hm as [Hc Hm].
    unfold no_char in H58. cbn [forallb] in H58. apply andb_prop in H58. destruct H58 as [Hc58 H58].
    apply negb_true_iff in Hc58. destruct (fch_inv c Hc) as (Hcok & C37 & _ & _ & _).
    cbn [app chain_ok]. rewrite Hcok. cbn [andb].
    assert (Hpc : pair_ok p c = true).
    { destruct Hp as [->|[Hf _]]; [|apply pair_ok_calm; [apply fch_calm; exact Hf|exact Hc]].
      unfold pair_ok. destruct (std_digraph 60 c) as [t|] eqn:E.
      - apply std_digraph_cases in E. destruct E as [[_ ->]|[[E _]|[[_ ->]|[[E _]|[E _]]]]]; discriminate.
      - reflexivity. }
    rewrite Hpc. cbn [andb]. apply IH; [exact Hm|exact H58|right; split; assumption].
Qed.

Theorem fields_simple_lex_ok : forall f, fields_simple f = true -> fields_lex_ok f = true.
Proof.
  intros f H. unfold fields_simple in H. repeat (apply andb_prop in H; destruct H as [H ?]).
  unfold fields_lex_ok.
  apply andb_true_intro; split; [apply andb_true_intro; split; [apply andb_true_intro; split|]|].
  - apply chain_F; [assumption|reflexivity].
  - unfold by_text. apply (chain_F_app (s "By: ")); [reflexivity|reflexivity|]. intros q Hq.
    apply chain_F_app; [assumption|exact Hq|]. intros q' Hq'.
    change (s " <" ++ f_mail f ++ s ">") with (32%N :: 60%N :: f_mail f ++ [62%N]). cbn [chain_ok].
    change (cok 32) with true. change (cok 60) with true. rewrite pair_ok_space. change (pair_ok 32 60) with true. cbn [andb].
    apply chain_mail; auto.
  - unfold created_text. apply chain_F; [|reflexivity]. rewrite !forallb_app.
    repeat (apply andb_true_intro; split); try assumption; reflexivity.
  - unfold updated_text. apply chain_F; [|reflexivity]. rewrite !forallb_app.
    repeat (apply andb_true_intro; split); try assumption; reflexivity.
Qed.

Example hud_fields_simple : fields_simple hud_fields = true.
Proof. vm_compute. reflexivity. Qed.

(* what the condition excludes really matters: a mail that starts with `:` makes `<:` a digraph, and the value of the
   sixth comment token is no longer the template line (although the fields are `plain` in the sense of C13) *)
Example digraph_changes_the_token :
  let f := mkfields (s "a.c") (s "u") (s ":m") (s "d") (s "t") (s "u") (s "d") (s "t") (s "u") in
  fields_lex_ok f = false /\ fields_plain f = true /\
  match lex (fun _ => false) (fun _ => false) (lines_text (template f)) with
  | Ok (items, _) =>
      match nth_error (tokens_of items) 10 with
      | Some t => match t_val t with Some v => negb (str_eqb v (nth 5 (template f) [])) | None => false end
      | None => false
      end
  | _ => false
  end = true.
Proof. vm_compute. repeat split; reflexivity. Qed.
