(* C17 / C18, composition at FILE level (lexer model): if the tokenizer reaches the edited lexeme with the same tokens so far
   on both texts, then the whole remaining run is the same - the edited token keeps type, position and span and only its
   value changes, and EVERY later token, the final state and the diagnostics are identical.  Unbounded in the file.
   What is still assumed (and tested by the checks on the real lexer for every sampled pair) is the prefix part: that the
   tokens BEFORE the edit site are the same on both texts (the sub-parsers look a few characters ahead). *)
From NV Require Import Model.Base Model.Diag Model.Lexer Model.NumRe Model.Obs Gen.LexTables
  Proofs.StrOrder Proofs.LexRename Proofs.CConstUnbounded Proofs.CConstUnbounded2 Proofs.LexText Proofs.ObsProofs.
From Coq Require Import Lia ZifyBool.

Local Open Scope Z_scope.

Section Compose.
  Variable uw ud : N -> bool.

  (* ------------------------------------------------------------------ k turns of the main loop *)
  Inductive run : nat -> st -> list item -> st -> list item -> Prop :=
  | run_0 x acc : run 0 x acc x acc
  | run_S k x acc i x1 y accy : step uw ud x = StepItem i x1 -> run k x1 (i :: acc) y accy -> run (S k) x acc y accy.

  Lemma lex_loop_run k x acc y accy : run k x acc y accy ->
    forall fuel, lex_loop uw ud (k + fuel) x acc = lex_loop uw ud fuel y accy.
  Proof.
    induction 1 as [x acc|k x acc i x1 y accy Hs _ IH]; intros fuel; [reflexivity|].
    cbn [Nat.add lex_loop]. rewrite Hs. apply IH.
  Qed.

  (* the accumulator is only prepended *)
  Lemma lex_loop_acc : forall fuel x acc items xf, lex_loop uw ud fuel x acc = Ok (items, xf) ->
    exists new, items = rev acc ++ new /\ forall acc2, lex_loop uw ud fuel x acc2 = Ok (rev acc2 ++ new, xf).
  Proof.
    induction fuel as [|fuel IH]; intros x acc items xf H; cbn [lex_loop] in *; [discriminate|].
    destruct (step uw ud x) as [|i x'|e] eqn:Es; [| |discriminate].
    - inversion H; subst. exists []. split; [now rewrite app_nil_r|]. intros acc2. now rewrite app_nil_r.
    - destruct (IH _ _ _ _ H) as [new [E Hall]]. exists (i :: new). cbn [rev] in E. rewrite <- app_assoc in E. split; [exact E|].
      intros acc2. rewrite (Hall (i :: acc2)). cbn [rev]. now rewrite <- app_assoc.
  Qed.

  (* ------------------------------------------------------------------ the parsers tried before decline *)
  Lemma numbers_decline x c t : rest x = c :: t -> isd ud c = false -> (c =? 46)%N = false -> (c =? 48)%N = false ->
    parse_float_literal uw ud x = PNone /\ parse_integer_literal uw ud x = PNone.
  Proof.
    intros Hr Hd H46 H48.
    assert (Hst : stops (isd ud) (c :: t) = true) by (cbn [stops]; now rewrite Hd). split.
    - apply parse_float_none; rewrite Hr.
      + unfold fexp_match. rewrite (span_stop (isd ud) _ Hst). reflexivity.
      + apply (ffrac_none uw ud [] (c :: t) eq_refl Hst). cbn [stops]. now rewrite H46.
      + now apply fhex_none_nonzero.
    - unfold parse_integer_literal. rewrite Hr, (int_match_nonzero uw ud c t H48), (int_const_none ud (c :: t) Hst). reflexivity.
  Qed.

  (* the character after c is not the quote q, and after c8 the next one is not either (the prefixes are l L u U u8) *)
  Definition qfree (q : N) (t : str) : bool :=
    match t with
    | [] => true
    | d :: t' => negb (d =? q)%N && (negb (d =? 56)%N || match t' with [] => true | e :: _ => negb (e =? q)%N end)
    end.

  Lemma quote_prefix_decline q x c t : (q = 34%N \/ q = 39%N) -> rest x = c :: t ->
    chr_in c [108; 76; 117; 85]%N = false \/ qfree q t = true ->
    quote_prefix q quote_prefixes x = Some (PopOk [] x).
  Proof.
    intros Hq0 Hr Hc. change quote_prefixes with [[108%N]; [76%N]; [117%N]; [85%N]; [117%N; 56%N]].
    assert (Hstep : forall p ps, starts_with p (c :: firstn (List.length p) t) && ends_with [q] (c :: firstn (List.length p) t) = false ->
                    quote_prefix q (p :: ps) x = quote_prefix q ps x)
      by (intros p ps H; rewrite quote_prefix_step, Hr; unfold raw_peek; cbn [firstn]; rewrite H; reflexivity).
    assert (Hall : forall p, In p [[108%N]; [76%N]; [117%N]; [85%N]; [117%N; 56%N]] ->
                   starts_with p (c :: firstn (List.length p) t) && ends_with [q] (c :: firstn (List.length p) t) = false).
    { intros p Hp. destruct Hc as [Hc|Hq].
      - cbn [chr_in existsb] in Hc.
        repeat (destruct Hp as [<-|Hp]; [cbn [List.length firstn starts_with]; replace (N.eqb _ c) with false by lia; reflexivity|]). destruct Hp.
      - unfold qfree in Hq. destruct Hq0 as [-> | ->]; destruct t as [|d [|e t2]];
          repeat (destruct Hp as [<-|Hp]; [unfold ends_with; cbn [List.length firstn starts_with Nat.leb Nat.sub skipn str_eqb andb]; lia|]); destruct Hp. }
    rewrite !Hstep; [reflexivity| | | | |]; apply Hall; cbn; tauto.
  Qed.

  Lemma quotes_decline x c t : rest x = c :: t -> (c =? 34)%N = false -> (c =? 39)%N = false ->
    (chr_in c [108; 76; 117; 85]%N = false \/ (qfree 34%N t = true /\ qfree 39%N t = true)) ->
    parse_char_literal x = PNone /\ parse_string_literal x = PNone.
  Proof.
    intros Hr H34 H39 Hq. split.
    - unfold parse_char_literal. rewrite (quote_prefix_decline 39%N x c t (or_intror eq_refl) Hr); [|tauto]. rewrite Hr. cbn [first_is]. now rewrite H39.
    - unfold parse_string_literal. rewrite (quote_prefix_decline 34%N x c t (or_introl eq_refl) Hr); [|tauto]. rewrite Hr. cbn [first_is]. rewrite H34.
      destruct (peek1 (c :: t)); reflexivity.
  Qed.

  (* ------------------------------------------------------------------ C18: one turn of the loop on an identifier lexeme *)
  Lemma qfree_ident q v r : forallb is_ident_char v = true -> boundary r = true -> (q = 34%N \/ q = 39%N) ->
    match r with d :: _ => negb (d =? q)%N | [] => true end = true -> qfree q (v ++ r) = true.
  Proof.
    intros Hv Hb Hq Hr.
    assert (Hic : forall y, is_ident_char y = true -> (y =? q)%N = false).
    { intros y Hy. unfold is_ident_char, is_letter in Hy. destruct Hq as [-> | ->]; lia. }
    unfold qfree. destruct v as [|a [|b v']]; cbn [app forallb] in *.
    - destruct r as [|d r']; [reflexivity|]. rewrite Hr. cbn [boundary] in Hb. unfold is_ident_char in Hb.
      replace (d =? 56)%N with false by lia. reflexivity.
    - rewrite (Hic a) by lia. destruct r as [|d r']; [now rewrite orb_true_r|]. rewrite Hr. now rewrite orb_true_r.
    - rewrite (Hic a), (Hic b) by lia. now rewrite orb_true_r.
  Qed.
End Compose.

Section Sites.
  Variable uw ud : N -> bool.

  (* a state that differs from x only in the text that is left *)
  Definition with_rest (x : st) (r : str) : st := mkst r (off x) (line x) (col x) (errs x).

  Lemma shift_with_rest x a b tail : List.length a = List.length b ->
    shift (List.length a) (with_rest x (a ++ tail)) = shift (List.length b) (with_rest x (b ++ tail)).
  Proof.
    intros E. unfold shift, with_rest. cbn [rest off line col errs].
    assert (Ea : skipn (List.length a) (a ++ tail) = tail) by (rewrite skipn_app, skipn_all, Nat.sub_diag; reflexivity).
    assert (Eb : skipn (List.length b) (b ++ tail) = tail) by (rewrite skipn_app, skipn_all, Nat.sub_diag; reflexivity).
    rewrite Ea, Eb, E. reflexivity.
  Qed.

  Lemma try_parsers_identifier x t y : parse_float_literal uw ud x = PNone -> parse_integer_literal uw ud x = PNone ->
    parse_char_literal x = PNone -> parse_string_literal x = PNone -> parse_identifier x = PTok t y ->
    try_parsers uw ud parsers x = PTok t y.
  Proof.
    intros H1 H2 H3 H4 H5.
    assert (E1 : run_parser uw ud (s "parse_float_literal") x = parse_float_literal uw ud x) by reflexivity.
    assert (E2 : run_parser uw ud (s "parse_integer_literal") x = parse_integer_literal uw ud x) by reflexivity.
    assert (E3 : run_parser uw ud (s "parse_char_literal") x = parse_char_literal x) by reflexivity.
    assert (E4 : run_parser uw ud (s "parse_string_literal") x = parse_string_literal x) by reflexivity.
    assert (E5 : run_parser uw ud (s "parse_identifier") x = parse_identifier x) by reflexivity.
    unfold parsers. cbn [try_parsers]. rewrite E1, H1, E2, H2, E3, H3, E4, H4, E5, H5. reflexivity.
  Qed.

  (* the composition: two runs that stand, after the same number of turns and with the same items so far, at states whose next
     turn yields T resp. T' and THE SAME next state: the complete results agree except for T / T' *)
  Lemma file_compose src src' k X X' accp T T' Y items xf :
    List.length src' = List.length src ->
    run uw ud k (init src) [] X accp -> run uw ud k (init src') [] X' accp ->
    step uw ud X = StepItem T Y -> step uw ud X' = StepItem T' Y ->
    lex uw ud src = Ok (items, xf) ->
    exists later, items = rev accp ++ T :: later /\ lex uw ud src' = Ok (rev accp ++ T' :: later, xf).
  Proof.
    intros Hlen Hrun Hrun' Hst Hst' Hlex.
    assert (Hext : forall kk x0 a0 XX aa TT, run uw ud kk x0 a0 XX aa -> step uw ud XX = StepItem TT Y -> run uw ud (S kk) x0 a0 Y (TT :: aa)).
    { intros kk x0 a0 XX aa TT Hr Hs. induction Hr as [x1 a1|k1 x1 a1 i x2 y ay Hs1 _ IH]; [eapply run_S; [exact Hs|apply run_0]|eapply run_S; [exact Hs1|now apply IH]]. }
    pose proof (Hext _ _ _ _ _ _ Hrun Hst) as R1. pose proof (Hext _ _ _ _ _ _ Hrun' Hst') as R2.
    unfold lex in *. rewrite Hlen.
    destruct (Nat.le_gt_cases (S k) (S (List.length src))) as [Hfu|Hfu].
    - replace (S (List.length src)) with (S k + (S (List.length src) - S k))%nat in * by lia.
      rewrite (lex_loop_run uw ud _ _ _ _ _ R1) in Hlex. rewrite (lex_loop_run uw ud _ _ _ _ _ R2).
      destruct (lex_loop_acc uw ud _ _ _ _ _ Hlex) as [later [E Hall]]. exists later. split.
      + rewrite E. cbn [rev]. now rewrite <- app_assoc.
      + rewrite (Hall (T' :: accp)). cbn [rev]. now rewrite <- app_assoc.
    - exfalso. clear - Hfu Hlex R1.
      assert (Hh : forall n x0 a0 y ay fuel, run uw ud n x0 a0 y ay -> (fuel < n)%nat -> lex_loop uw ud fuel x0 a0 = Hang).
      { induction n as [|n IH]; intros x0 a0 y ay fuel Hr Hf; [lia|]. inversion Hr; subst.
        destruct fuel as [|fuel]; [reflexivity|]. cbn [lex_loop]. rewrite H0. eapply IH; [eassumption|lia]. }
      rewrite (Hh _ _ _ _ _ _ R1) in Hlex; [discriminate|lia].
  Qed.

  (* the hypotheses on an identifier lexeme c :: v followed by r: maximal, and not an encoding prefix of a literal *)
  Definition ident_site (c : N) (v r : str) : Prop :=
    is_ident_start c = true /\ forallb is_ident_char v = true /\ boundary r = true /\
    match r with d :: _ => negb (d =? 34)%N && negb (d =? 39)%N | [] => true end = true.

  Lemma ident_start_facts c : is_ident_start c = true ->
    isd ud c = false /\ (c =? 46)%N = false /\ (c =? 48)%N = false /\ (c =? 34)%N = false /\ (c =? 39)%N = false /\
    (c =? 92)%N = false /\ (c =? 63)%N = false.
  Proof.
    unfold is_ident_start, is_letter, isd, ascii_digit. intros H. replace (c <? 128)%N with true by lia. lia.
  Qed.

  (* one turn of the main loop on an identifier lexeme: the token of lex_ident, the plain state shift *)
  Lemma step_identifier x c v r : ident_site c v r -> rest x = (c :: v) ++ r ->
    step uw ud x = StepItem (ITok (ident_token x (c :: v)) (off x) (off x + S (List.length v))) (shift (S (List.length v)) x).
  Proof.
    intros (Hc & Hv & Hb & Hq) Hr. cbn [app] in Hr.
    destruct (ident_start_facts c Hc) as (Hd & H46 & H48 & H34 & H39 & H92 & H63).
    destruct (numbers_decline uw ud x c (v ++ r) Hr Hd H46 H48) as [Hf Hi].
    assert (Hq2 : qfree 34%N (v ++ r) = true /\ qfree 39%N (v ++ r) = true).
    { split; apply qfree_ident; try assumption; [now left| |now right|]; destruct r as [|d r']; try reflexivity; lia. }
    destruct (quotes_decline uw ud x c (v ++ r) Hr H34 H39 (or_intror Hq2)) as [Hcl Hsl].
    pose proof (lex_ident x c v r Hc Hv Hr Hb) as Hid.
    unfold step. rewrite Hr, (at_splice_plain c (v ++ r) H92 H63).
    rewrite (try_parsers_identifier x _ _ Hf Hi Hcl Hsl Hid). reflexivity.
  Qed.

  Lemma ident_token_with_rest x r v : ident_token (with_rest x r) v = ident_token x v.
  Proof. reflexivity. Qed.

  (* ------------------------------------------------------------------ C18 at file level *)
  (* Both texts are lexed from the start; after the same number k of turns the tokenizer stands at the identifier lexeme
     (c :: v on one side, c' :: v' on the other: same length, neither a keyword), in states that agree on everything but
     the text left, with the SAME items so far.  Then the two complete results agree: the token at the site keeps type
     IDENTIFIER, line, column and raw span and carries the lexeme as its value; every later item, the final state and its
     diagnostics are the same. *)
  Theorem lex_rename_file_partial : forall src src' k x accp c v c' v' r items xf,
    List.length src' = List.length src ->
    run uw ud k (init src) [] (with_rest x ((c :: v) ++ r)) accp ->
    run uw ud k (init src') [] (with_rest x ((c' :: v') ++ r)) accp ->
    ident_site c v r -> ident_site c' v' r -> List.length v' = List.length v ->
    assoc (c :: v) keywords = None -> assoc (c' :: v') keywords = None ->
    lex uw ud src = Ok (items, xf) ->
    exists later,
      items = rev accp ++ ITok (mktok (s "IDENTIFIER") (line x) (col x) (Some (c :: v))) (off x) (off x + S (List.length v)) :: later /\
      lex uw ud src' =
        Ok (rev accp ++ ITok (mktok (s "IDENTIFIER") (line x) (col x) (Some (c' :: v'))) (off x) (off x + S (List.length v)) :: later, xf).
  Proof.
    intros src src' k x accp c v c' v' r items xf Hlen Hrun Hrun' Hs Hs' Hl Hk Hk' Hlex.
    set (X := with_rest x ((c :: v) ++ r)) in *. set (X' := with_rest x ((c' :: v') ++ r)) in *.
    pose proof (step_identifier X c v r Hs eq_refl) as Hst. pose proof (step_identifier X' c' v' r Hs' eq_refl) as Hst'.
    unfold ident_token in Hst, Hst'. rewrite Hk in Hst. rewrite Hk' in Hst'.
    assert (Ey : shift (S (List.length v')) X' = shift (S (List.length v)) X).
    { symmetry. apply (shift_with_rest x (c :: v) (c' :: v') r). cbn [List.length]. now rewrite Hl. }
    rewrite Ey, Hl in Hst'. change (line X') with (line x) in Hst'. change (col X') with (col x) in Hst'. change (off X') with (off x) in Hst'.
    change (line X) with (line x) in Hst. change (col X) with (col x) in Hst. change (off X) with (off x) in Hst.
    exact (file_compose src src' k X X' accp _ _ _ items xf Hlen Hrun Hrun' Hst Hst' Hlex).
  Qed.

  (* ------------------------------------------------------------------ C17 at file level: the text of a // comment *)
  Lemma try_parsers_line_comment x t y : parse_float_literal uw ud x = PNone -> parse_integer_literal uw ud x = PNone ->
    parse_char_literal x = PNone -> parse_string_literal x = PNone -> parse_identifier x = PNone -> parse_whitespace x = PNone ->
    parse_line_comment x = PTok t y -> try_parsers uw ud parsers x = PTok t y.
  Proof.
    intros H1 H2 H3 H4 H5 H6 H7.
    assert (E1 : run_parser uw ud (s "parse_float_literal") x = parse_float_literal uw ud x) by reflexivity.
    assert (E2 : run_parser uw ud (s "parse_integer_literal") x = parse_integer_literal uw ud x) by reflexivity.
    assert (E3 : run_parser uw ud (s "parse_char_literal") x = parse_char_literal x) by reflexivity.
    assert (E4 : run_parser uw ud (s "parse_string_literal") x = parse_string_literal x) by reflexivity.
    assert (E5 : run_parser uw ud (s "parse_identifier") x = parse_identifier x) by reflexivity.
    assert (E6 : run_parser uw ud (s "parse_whitespace") x = parse_whitespace x) by reflexivity.
    assert (E7 : run_parser uw ud (s "parse_line_comment") x = parse_line_comment x) by reflexivity.
    unfold parsers. cbn [try_parsers]. rewrite E1, H1, E2, H2, E3, H3, E4, H4, E5, H5, E6, H6, E7, H7. reflexivity.
  Qed.

  (* the comment ends at a newline or at the end of the input *)
  Definition line_end (tail : str) : Prop := tail = [] \/ exists t, tail = 10%N :: t.

  Lemma step_line_comment x v tail : plain_content KLine v = true -> line_end tail -> rest x = 47%N :: 47%N :: v ++ tail ->
    step uw ud x = StepItem (ITok (mktok (s "COMMENT") (line x) (col x) (Some (47%N :: 47%N :: v))) (off x) (off x + (2 + List.length v)))
                            (shift (2 + List.length v) x).
  Proof.
    intros Hv Ht Hr.
    destruct (numbers_decline uw ud x 47%N (47%N :: v ++ tail) Hr eq_refl eq_refl eq_refl) as [Hf Hi].
    destruct (quotes_decline uw ud x 47%N (47%N :: v ++ tail) Hr eq_refl eq_refl (or_introl eq_refl)) as [Hcl Hsl].
    assert (Hid : parse_identifier x = PNone) by (unfold parse_identifier; rewrite Hr; reflexivity).
    assert (Hws : parse_whitespace x = PNone) by (unfold parse_whitespace; rewrite Hr; reflexivity).
    assert (Hlc : parse_line_comment x = PTok (mktok (s "COMMENT") (line x) (col x) (Some (47%N :: 47%N :: v))) (shift (2 + List.length v) x)).
    { unfold parse_line_comment. rewrite Hr. unfold raw_peek. cbn [firstn]. replace (str_eqb [47%N; 47%N] (s "//")) with true by reflexivity.
      cbn [negb]. change (popn 2 x []) with (popn (List.length [47%N; 47%N]) x []).
      rewrite (popn_plain [47%N; 47%N] x [] (v ++ tail) eq_refl Hr). cbn [of_popres app List.length].
      rewrite (lc_loop_run v _ [47%N; 47%N] (shift 2 x) tail Hv); [|rewrite rest_shift, Hr; reflexivity|exact Ht|rewrite rest_shift, Hr; cbn [skipn]; rewrite app_length; lia].
      rewrite shift_add. reflexivity. }
    unfold step. rewrite Hr, (at_splice_plain 47%N (47%N :: v ++ tail) eq_refl eq_refl).
    rewrite (try_parsers_line_comment x _ _ Hf Hi Hcl Hsl Hid Hws Hlc). reflexivity.
  Qed.

  (* Replacing the text of a // comment by admissible text of the same length (LexRename.plain_content KLine = every character
     allowed by replace_ok): if both runs stand at the comment with the same items so far, the complete results agree - the
     COMMENT token keeps line, column and raw span, its value is the new text, every later item and the final state (with
     its diagnostics) are the same *)
  Theorem lex_comment_replace_file_partial : forall src src' k x accp v v' tail items xf,
    List.length src' = List.length src ->
    run uw ud k (init src) [] (with_rest x (47%N :: 47%N :: v ++ tail)) accp ->
    run uw ud k (init src') [] (with_rest x (47%N :: 47%N :: v' ++ tail)) accp ->
    plain_content KLine v = true -> plain_content KLine v' = true -> List.length v' = List.length v -> line_end tail ->
    lex uw ud src = Ok (items, xf) ->
    exists later,
      items = rev accp ++ ITok (mktok (s "COMMENT") (line x) (col x) (Some (47%N :: 47%N :: v))) (off x) (off x + (2 + List.length v)) :: later /\
      lex uw ud src' =
        Ok (rev accp ++ ITok (mktok (s "COMMENT") (line x) (col x) (Some (47%N :: 47%N :: v'))) (off x) (off x + (2 + List.length v)) :: later, xf).
  Proof.
    intros src src' k x accp v v' tail items xf Hlen Hrun Hrun' Hv Hv' Hl Ht Hlex.
    set (X := with_rest x (47%N :: 47%N :: v ++ tail)) in *. set (X' := with_rest x (47%N :: 47%N :: v' ++ tail)) in *.
    pose proof (step_line_comment X v tail Hv Ht eq_refl) as Hst. pose proof (step_line_comment X' v' tail Hv' Ht eq_refl) as Hst'.
    assert (Ey : shift (2 + List.length v') X' = shift (2 + List.length v) X).
    { symmetry. apply (shift_with_rest x (47%N :: 47%N :: v) (47%N :: 47%N :: v') tail). cbn [List.length]. now rewrite Hl. }
    rewrite Ey, Hl in Hst'.
    exact (file_compose src src' k X X' accp _ _ _ items xf Hlen Hrun Hrun' Hst Hst' Hlex).
  Qed.
End Sites.

(* ================================================================== observation invariance over the file-level results *)
Lemma plain_replace_ok k : forall v v', plain_content k v = true -> plain_content k v' = true ->
  List.length v' = List.length v -> replace_ok k v v' = true.
Proof.
  induction v as [|a v IH]; intros [|b v'] Hv Hv' Hl; try discriminate; [reflexivity|].
  cbn [plain_content forallb] in Hv, Hv'. apply andb_true_iff in Hv as [Ha Hv]. apply andb_true_iff in Hv' as [Hb Hv'].
  cbn [replace_ok]. destruct (content_char_facts k a Ha) as [_ Ha3]. cbn [chr_in existsb] in Ha3.
  replace ((a =? 10)%N || (a =? 9)%N) with false by lia. rewrite Hb. cbn [andb]. apply IH; try assumption. now inversion Hl.
Qed.

Section FileObs.
  Variable uw ud : N -> bool.

  (* C18: lexer composition + observation invariance.  After the prefix assumption (the two runs reach the lexeme with the same
     items), what a covered observation sees of the renamed token is what it saw of the original one, and nothing else in
     the token stream changed.  The remaining assumption of C18 is the reviewed reader table (value_reads_covered). *)
  Theorem rename_file_obs_partial : forall src src' k x accp c v c' v' r items xf guard f,
    List.length src' = List.length src ->
    run uw ud k (init src) [] (with_rest x ((c :: v) ++ r)) accp ->
    run uw ud k (init src') [] (with_rest x ((c' :: v') ++ r)) accp ->
    ident_site c v r -> ident_site c' v' r -> List.length v' = List.length v ->
    assoc (c :: v) keywords = None -> assoc (c' :: v') keywords = None ->
    pair_ok guard (c :: v, c' :: v') = true -> rename_inv f = true -> no_other f = true ->
    lex uw ud src = Ok (items, xf) ->
    exists later t t',
      items = rev accp ++ ITok t (off x) (off x + S (List.length v)) :: later /\
      lex uw ud src' = Ok (rev accp ++ ITok t' (off x) (off x + S (List.length v)) :: later, xf) /\
      t_type t' = t_type t /\ t_line t' = t_line t /\ t_col t' = t_col t /\
      t_val t = Some (c :: v) /\ t_val t' = Some (c' :: v') /\
      forall o1 o2, eval_obs guard o1 f (c' :: v') = eval_obs guard o2 f (c :: v).
  Proof.
    intros src src' k x accp c v c' v' r items xf guard f Hlen Hr1 Hr2 Hs Hs' Hl Hk Hk' Hp Hf Hn Hlex.
    destruct (lex_rename_file_partial uw ud src src' k x accp c v c' v' r items xf Hlen Hr1 Hr2 Hs Hs' Hl Hk Hk' Hlex) as [later [E1 E2]].
    eexists later, _, _. split; [exact E1|]. split; [exact E2|]. cbn [t_type t_line t_col t_val]. repeat split.
    intros o1 o2. now apply obs_pair.
  Qed.

  (* C17, // comments: the same with obs_invariant_replace *)
  Theorem comment_replace_file_obs_partial : forall src src' k x accp v v' tail items xf guard other f,
    List.length src' = List.length src ->
    run uw ud k (init src) [] (with_rest x (47%N :: 47%N :: v ++ tail)) accp ->
    run uw ud k (init src') [] (with_rest x (47%N :: 47%N :: v' ++ tail)) accp ->
    plain_content KLine v = true -> plain_content KLine v' = true -> List.length v' = List.length v -> line_end tail ->
    replace_inv f = true ->
    lex uw ud src = Ok (items, xf) ->
    exists later t t',
      items = rev accp ++ ITok t (off x) (off x + (2 + List.length v)) :: later /\
      lex uw ud src' = Ok (rev accp ++ ITok t' (off x) (off x + (2 + List.length v)) :: later, xf) /\
      t_type t' = t_type t /\ t_line t' = t_line t /\ t_col t' = t_col t /\
      t_val t = Some (47%N :: 47%N :: v) /\ t_val t' = Some (47%N :: 47%N :: v') /\
      eval_obs guard other f (47%N :: 47%N :: v') = eval_obs guard other f (47%N :: 47%N :: v).
  Proof.
    intros src src' k x accp v v' tail items xf guard other f Hlen Hr1 Hr2 Hv Hv' Hl Ht Hf Hlex.
    destruct (lex_comment_replace_file_partial uw ud src src' k x accp v v' tail items xf Hlen Hr1 Hr2 Hv Hv' Hl Ht Hlex) as [later [E1 E2]].
    eexists later, _, _. split; [exact E1|]. split; [exact E2|]. cbn [t_type t_line t_col t_val]. repeat split.
    pose proof (obs_invariant_replace guard other KLine (s "//") [] v v' f (or_introl eq_refl) (plain_replace_ok KLine v v' Hv Hv' Hl) Hf) as H.
    rewrite !app_nil_r in H. exact H.
  Qed.
End FileObs.

(* non-vacuity: a run that reaches the site, on a concrete pair of files *)
Example file_level_example :
  let nf := fun _ : N => false in
  let src := s "int" ++ [9%N] ++ s "count;" ++ [10%N] in let src' := s "int" ++ [9%N] ++ s "iff_2;" ++ [10%N] in
  exists x accp, run nf nf 2 (init src) [] (with_rest x (s "count" ++ s ";" ++ [10%N])) accp /\
                 run nf nf 2 (init src') [] (with_rest x (s "iff_2" ++ s ";" ++ [10%N])) accp /\
                 ident_site 99%N (s "ount") (s ";" ++ [10%N]) /\ ident_site 105%N (s "ff_2") (s ";" ++ [10%N]).
Proof.
  cbv zeta. eexists (mkst [] 4 1 5 []), _. split; [|split; [|split]].
  - eapply run_S; [vm_compute; reflexivity|]. eapply run_S; [vm_compute; reflexivity|]. apply run_0.
  - eapply run_S; [vm_compute; reflexivity|]. eapply run_S; [vm_compute; reflexivity|]. apply run_0.
  - repeat split.
  - repeat split.
Qed.
