(* Generic theorems about the registry loop: for ANY rule set whose matching primaries consume
   at least one token, the run terminates, the statements tile the token stream, and (debug = 0)
   a token that no primary recognises makes the run fatal. *)
From NV Require Import Model.Base Model.Engine Gen.Registry.
From Coq Require Import Lia.
Local Open Scope Z_scope.

Definition good (oracle : nat -> tryres) : Prop := forall i name j, oracle i = Matched name j -> 1 <= j.

Lemma slice_from_lt n j : 1 <= j -> (0 < n)%nat -> (slice_from n j < n)%nat.
Proof.
  intros Hj Hn. unfold slice_from. destruct (Z.ltb_spec j 0); [lia|].
  assert (1 <= Z.to_nat j)%nat by lia. lia.
Qed.

Section Loop.
  Variable oracle : nat -> tryres.
  Hypothesis Hgood : good oracle.
  Variable debug : Z.

  Lemma run_no_hang : forall fuel iter n unrec acc, (n < fuel)%nat -> run fuel oracle iter debug n unrec acc <> Hang.
  Proof.
    induction fuel as [|f IH]; intros iter n unrec acc Hf; [lia|]. cbn [run].
    destruct n as [|n'].
    - destruct (Nat.ltb 0 unrec && (debug =? 0)); discriminate.
    - destruct (oracle iter) as [name j| | |] eqn:E; try discriminate.
      + destruct (Nat.ltb 0 unrec && (debug =? 0)); [discriminate|].
        apply IH. pose proof (slice_from_lt (S n') j (Hgood _ _ _ E)). lia.
      + apply IH. lia.
  Qed.

  Lemma run_chain : forall fuel iter n unrec acc segs,
    run fuel oracle iter debug n unrec acc = Ok segs ->
    exists new, segs = rev acc ++ new /\ chain new n = true /\
                (debug = 0 -> (0 < unrec)%nat -> new = []) /\
                (debug = 0 -> forallb (fun x => negb (is_unrec x)) new = true).
  Proof.
    induction fuel as [|f IH]; intros iter n unrec acc segs; cbn [run]; [discriminate|].
    destruct n as [|n'].
    - destruct (Nat.ltb 0 unrec && (debug =? 0)) eqn:E; [discriminate|].
      intros H; inversion H; subst. exists []. rewrite app_nil_r. repeat split; reflexivity.
    - destruct (oracle iter) as [name j| | |] eqn:E; try discriminate.
      + destruct (Nat.ltb 0 unrec && (debug =? 0)) eqn:Eu; [discriminate|].
        intros H. destruct (IH _ _ _ _ _ H) as [new [H1 [H2 [H3 H4]]]].
        exists (SMatch name (S n') (slice_from (S n') j) :: new).
        cbn [rev] in H1. rewrite <- app_assoc in H1. split; [exact H1|]. split.
        * cbn [chain seg_before seg_after]. rewrite Nat.eqb_refl. cbn [andb].
          replace (Nat.ltb (slice_from (S n') j) (S n')) with true; [exact H2|].
          symmetry. apply Nat.ltb_lt. apply slice_from_lt; [exact (Hgood _ _ _ E)|lia].
        * split.
          -- intros Hd Hu. exfalso. apply andb_false_iff in Eu as [Eu|Eu].
             ++ apply Nat.ltb_ge in Eu. lia.
             ++ apply Z.eqb_neq in Eu. contradiction.
          -- intros Hd. cbn [forallb is_unrec negb]. now apply H4.
      + intros H. destruct (IH _ _ _ _ _ H) as [new [H1 [H2 [H3 H4]]]].
        exists (SUnrec (S n') :: new).
        cbn [rev] in H1. rewrite <- app_assoc in H1. split; [exact H1|]. split.
        * cbn [chain seg_before seg_after]. rewrite Nat.eqb_refl. cbn [andb].
          replace (Nat.ltb (S n' - 1) (S n')) with true by (symmetry; apply Nat.ltb_lt; lia). exact H2.
        * split.
          -- intros Hd Hu. exfalso.
             (* a pending unrecognised token can only end in Fatal when debug = 0 *)
             assert (Hnew : new = []) by (apply H3; [assumption|lia]).
             subst new. cbn in H2. apply Nat.eqb_eq in H2.
             (* n' = 0: the next turn is the end-of-loop test, which raises *)
             clear IH H3 H4. destruct f as [|f']; cbn [run] in H; [discriminate|].
             replace (S n' - 1)%nat with 0%nat in H by lia.
             subst debug. cbn in H. discriminate.
          -- intros Hd. exfalso.
             assert (Hnew : new = []) by (apply H3; [assumption|lia]).
             subst new. cbn in H2. apply Nat.eqb_eq in H2.
             destruct f as [|f']; cbn [run] in H; [discriminate|].
             replace (S n' - 1)%nat with 0%nat in H by lia.
             subst debug. cbn in H. discriminate.
  Qed.
End Loop.

(* the statements of a finished run tile the token stream *)
Theorem run_tiles oracle debug n segs : good oracle -> run_file oracle debug n = Ok segs -> chain segs n = true.
Proof.
  intros Hg H. destruct (run_chain oracle Hg debug _ _ _ _ _ _ H) as [new [H1 [H2 _]]]. cbn in H1. now subst.
Qed.

Theorem run_terminates oracle debug n : good oracle -> run_file oracle debug n <> Hang.
Proof. intros Hg. apply run_no_hang; [exact Hg|lia]. Qed.

(* without -d, a run that finishes normally set no token aside: unrecognised text is fatal *)
Theorem unrecognised_is_fatal oracle n segs : good oracle -> run_file oracle 0 n = Ok segs ->
  forallb (fun x => negb (is_unrec x)) segs = true.
Proof.
  intros Hg H. destruct (run_chain oracle Hg 0 _ _ _ _ _ _ H) as [new [H1 [_ [_ H4]]]]. cbn in H1. subst. now apply H4.
Qed.

Theorem loop_outcomes : forall oracle debug n, good oracle ->
  (exists segs, run_file oracle debug n = Ok segs) \/ (exists m, run_file oracle debug n = Fatal m) \/
  (exists e i, run_file oracle debug n = Crash e /\ oracle i = TCrash e).
Proof.
  intros oracle debug n Hg. unfold run_file.
  assert (G : forall fuel iter k u acc, (k < fuel)%nat ->
            (exists segs, run fuel oracle iter debug k u acc = Ok segs) \/
            (exists m, run fuel oracle iter debug k u acc = Fatal m) \/
            (exists e i, run fuel oracle iter debug k u acc = Crash e /\ oracle i = TCrash e)).
  { induction fuel as [|f IH]; intros iter k u acc Hk; [lia|]. cbn [run].
    destruct k as [|k'].
    - destruct (Nat.ltb 0 u && (debug =? 0)); [right; left; eexists; reflexivity|left; eexists; reflexivity].
    - destruct (oracle iter) as [name j| |m|e] eqn:E.
      + destruct (Nat.ltb 0 u && (debug =? 0)); [right; left; eexists; reflexivity|].
        apply IH. pose proof (slice_from_lt (S k') j (Hg _ _ _ E)). lia.
      + apply IH. lia.
      + right; left. eexists; reflexivity.
      + right; right. exists e, iter. split; [reflexivity|exact E]. }
  apply G. lia.
Qed.

(* the model ignores the `_start` / `_end` dependency lists: they are empty in the source *)
Lemma no_start_end_checks : forallb (fun c => negb (c_start c) && negb (c_end c)) checks = true.
Proof. vm_compute. reflexivity. Qed.
