(* C01 (c): the tokenizer model (Model/Lexer.v) reports NOTHING on a conforming statement line, for lines of any length.
   Method: one "step" lemma per lexeme class - the first turn of get_next_token on  w ++ r  (r = whatever follows, only its
   first character constrained) cuts exactly one token, leaves exactly r and records no diagnostic (`tok_step`, a view of the
   step without positions: positions are C09, proved for every text in Proofs/LexMain) - then induction over the lexeme list.
   * identifiers: for ALL identifiers (Proofs/LexRename.lex_ident + the four sub-parsers tried before parse_identifier
     return None on a letter);
   * spaces, brackets, one-character operators: for all continuations, by evaluation with the continuation left symbolic;
   * constants / keywords / l-u names: the finite list Spec.Conforming.atoms, each by evaluation with a symbolic
     continuation after one concrete delimiter.
   uw / ud (Unicode \w \d above 127) are instantiated with `nouni`: every character of a rendered line is ASCII. *)
From NV Require Import Model.Base Model.Diag Model.Lexer Model.NumRe Spec.CConst Spec.Conforming
  Proofs.LexInv Proofs.LexInv2 Proofs.LexRename.
From Coq Require Import Lia.

Local Open Scope nat_scope.

Ltac solve_step := vm_compute; reflexivity.

(* what one turn of get_next_token did, without the positions (those are C09: Proofs/LexMain.lex_positions_and_tiling proves
   for EVERY text that each token carries the true position of its first character): the token's type and value, the text
   that is left and the diagnostics recorded so far.  The sub-parsers never branch on line / column / offset, so this view can be
   evaluated with the state's position left symbolic. *)
Definition step_view (x : st) : option (str * option str * str * list diag) :=
  match step nouni nouni x with
  | StepItem (ITok t _ _) x' => Some (t_type t, t_val t, rest x', errs x')
  | _ => None
  end.

(* one token of type ty and value v was cut, r is left, nothing was reported *)
Definition tok_step (x : st) (ty : str) (v : option str) (r : str) : Prop := step_view x = Some (ty, v, r, errs x).

Lemma step_view_inv x ty v r e : step_view x = Some (ty, v, r, e) ->
  exists t lo hi x', step nouni nouni x = StepItem (ITok t lo hi) x' /\ rest x' = r /\ errs x' = e.
Proof.
  unfold step_view. destruct (step nouni nouni x) as [|[t lo hi|lo|lo hi] x'|ex]; try discriminate.
  intros H. inversion H; subst. exists t, lo, hi, x'. repeat split.
Qed.

(* ------------------------------------------------------------------ end of the text *)
Lemma step_end x : rest x = [] -> step nouni nouni x = StepEnd.
Proof. destruct x as [rs o l c e]. cbn [rest]. intros ->. vm_compute. reflexivity. Qed.

(* ------------------------------------------------------------------ one space *)
Lemma space_step x r : rest x = 32%N :: r -> tok_step x (s "SPACE") None r.
Proof. destruct x as [rs o l c e]. cbn [rest]. intros ->. unfold tok_step. cbn [errs]. solve_step. Qed.

Lemma tab_step x r : rest x = 9%N :: r -> tok_step x (s "TAB") None r.
Proof. destruct x as [rs o l c e]. cbn [rest]. intros ->. unfold tok_step. cbn [errs]. solve_step. Qed.
Lemma newline_step x r : rest x = 10%N :: r -> tok_step x (s "NEWLINE") None r.
Proof. destruct x as [rs o l c e]. cbn [rest]. intros ->. unfold tok_step. cbn [errs]. solve_step. Qed.

(* ------------------------------------------------------------------ brackets *)
Lemma bracket_step x b r : chr_in b bracket_chars = true -> rest x = b :: r -> tok_step x (type_in brackets b) None r.
Proof.
  intros Hb. apply chr_in_In in Hb. vm_compute in Hb.
  destruct x as [rs o l c e]. cbn [rest]. intros ->. unfold tok_step. cbn [errs].
  repeat (destruct Hb as [<-|Hb]; [solve_step|]). contradiction.
Qed.

(* ------------------------------------------------------------------ operators no character can extend: , ; ~ *)
Lemma op_plain_step x o r : chr_in o ops_plain = true -> rest x = o :: r -> tok_step x (type_in operators o) None r.
Proof.
  intros Hb. apply chr_in_In in Hb. vm_compute in Hb.
  destruct x as [rs o' l c e]. cbn [rest]. intros ->. unfold tok_step. cbn [errs].
  repeat (destruct Hb as [<-|Hb]; [solve_step|]). contradiction.
Qed.

(* ------------------------------------------------------------------ + - * / < > ^ & | ! =  followed by a space or an operand *)
Lemma op_multi_step x o d r : chr_in o ops_multi = true -> chr_in d op_follow = true -> rest x = o :: d :: r ->
  tok_step x (type_in operators o) None (d :: r).
Proof.
  intros Ho Hd. apply chr_in_In in Ho. apply chr_in_In in Hd. vm_compute in Ho. vm_compute in Hd.
  destruct x as [rs o' l c e]. cbn [rest]. intros ->. unfold tok_step. cbn [errs].
  repeat (destruct Ho as [<-|Ho]; [repeat (destruct Hd as [<-|Hd]; [solve_step|]); contradiction|]). contradiction.
Qed.

(* ------------------------------------------------------------------ the listed constants, keywords, long operators and l/u names *)
Lemma atoms_are_guarded : atoms_guarded = true.
Proof. vm_compute. reflexivity. Qed.

Lemma atoms_nonempty w : str_in w atoms = true -> w <> [].
Proof. intros H E. subst w. vm_compute in H. discriminate. Qed.

Lemma str_in_In w l : str_in w l = true -> In w l.
Proof.
  unfold str_in. intros H. apply existsb_exists in H as [y [Hy E]]. apply StrOrder.str_eqb_eq in E. now subst.
Qed.

Lemma atom_step_end x w : str_in w atoms = true -> rest x = w -> tok_step x (fst (atom_tok w)) (snd (atom_tok w)) [].
Proof.
  intros Hw. apply str_in_In in Hw. vm_compute in Hw.
  destruct x as [rs o l c e]. cbn [rest]. intros ->. unfold tok_step. cbn [errs].
  repeat (destruct Hw as [<-|Hw]; [solve_step|]). contradiction.
Qed.

Lemma atom_step x w d r : str_in w atoms = true -> chr_in d atom_follow = true -> rest x = w ++ d :: r ->
  tok_step x (fst (atom_tok w)) (snd (atom_tok w)) (d :: r).
Proof.
  intros Hw Hd. apply str_in_In in Hw. apply chr_in_In in Hd. vm_compute in Hw. vm_compute in Hd.
  destruct x as [rs o l c e]. cbn [rest]. intros ->. unfold tok_step. cbn [errs].
  repeat (destruct Hw as [<-|Hw]; [repeat (destruct Hd as [<-|Hd]; [solve_step|]); contradiction|]). contradiction.
Qed.

(* ------------------------------------------------------------------ identifiers, in general *)
Lemma int_const_false_nondigit c t : isd nouni c = false -> int_const nouni false (c :: t) = None.
Proof.
  intros H. unfold int_const. destruct (span (ishex nouni) (c :: t)) as [h r1]. cbn [andb]. cbn [span]. rewrite H. reflexivity.
Qed.

Lemma int_match_nondigit c t : (c =? 48)%N = false -> isd nouni c = false -> int_match nouni nouni (c :: t) = None.
Proof.
  intros H0 Hd. unfold int_match, hex_start. rewrite H0. cbn [andb]. unfold int_match_old.
  rewrite (int_const_false_nondigit c t Hd). destruct c as [|p]; [reflexivity|].
  repeat (destruct p as [p|p|]; try reflexivity). discriminate.
Qed.

Lemma ident_first_start c : chr_in c ident_first = true -> is_ident_start c = true.
Proof.
  intros Hc. apply chr_in_In in Hc. vm_compute in Hc. repeat (destruct Hc as [<-|Hc]; [reflexivity|]). contradiction.
Qed.

(* the sub-parsers tried before parse_identifier give up on a letter, whatever follows it *)
Lemma ident_pre_none x c t : chr_in c ident_first = true -> rest x = c :: t ->
  at_splice (c :: t) = false /\ parse_float_literal nouni nouni x = PNone /\ parse_integer_literal nouni nouni x = PNone
  /\ parse_char_literal x = PNone /\ parse_string_literal x = PNone.
Proof.
  intros Hc. apply chr_in_In in Hc. vm_compute in Hc. destruct x as [rs o l c0 e]. cbn [rest]. intros ->.
  repeat (destruct Hc as [<-|Hc];
    [split; [vm_compute; reflexivity|]; split; [vm_compute; reflexivity|];
     split; [unfold parse_integer_literal; cbn [rest]; rewrite int_match_nondigit by reflexivity; reflexivity|];
     split; vm_compute; reflexivity|]).
  contradiction.
Qed.

Lemma try_parsers_at_ident x t y :
  parse_float_literal nouni nouni x = PNone -> parse_integer_literal nouni nouni x = PNone ->
  parse_char_literal x = PNone -> parse_string_literal x = PNone -> parse_identifier x = PTok t y ->
  try_parsers nouni nouni parsers x = PTok t y.
Proof.
  intros H1 H2 H3 H4 H5.
  change (try_parsers nouni nouni parsers x) with
    (match parse_float_literal nouni nouni x with
     | PNone => match parse_integer_literal nouni nouni x with
                | PNone => match parse_char_literal x with
                           | PNone => match parse_string_literal x with
                                      | PNone => match parse_identifier x with
                                                 | PNone => try_parsers nouni nouni (skipn 5 parsers) x
                                                 | o => o
                                                 end
                                      | o => o
                                      end
                           | o => o
                           end
                | o => o
                end
     | o => o
     end).
  rewrite H1, H2, H3, H4, H5. reflexivity.
Qed.

Lemma ident_step x c v r : chr_in c ident_first = true -> forallb is_ident_char v = true ->
  rest x = (c :: v) ++ r -> boundary r = true ->
  tok_step x (t_type (ident_token x (c :: v))) (t_val (ident_token x (c :: v))) r.
Proof.
  intros Hc Hv Hr Hb.
  pose proof (lex_ident x c v r (ident_first_start c Hc) Hv Hr Hb) as Hid.
  assert (Hsk : skipn (List.length (c :: v)) (rest x) = r) by (rewrite Hr; now rewrite skipn_app, skipn_all, Nat.sub_diag).
  change ((c :: v) ++ r) with (c :: (v ++ r)) in Hr.
  destruct (ident_pre_none x c (v ++ r) Hc Hr) as (Hs & Hf & Hi & Hch & Hst).
  unfold tok_step, step_view, step. rewrite Hr, Hs.
  rewrite (try_parsers_at_ident x _ _ Hf Hi Hch Hst Hid). cbn [rest errs shift]. rewrite Hsk. reflexivity.
Qed.

(* ------------------------------------------------------------------ every lexeme *)
Lemma ident_token_type x w : t_type (ident_token x w) = match assoc w keywords with Some k => k | None => s "IDENTIFIER" end.
Proof. unfold ident_token. destruct (assoc w keywords); reflexivity. Qed.

Lemma lexeme_step a r x : lexeme_ok a r = true -> rest x = lx_text a ++ r -> exists v, tok_step x (lx_type a) v r.
Proof.
  destruct a as [c v| | | |o|b|w]; cbn [lexeme_ok lx_text lx_type]; intros H Hr.
  - apply andb_true_iff in H as [H Hb]. apply andb_true_iff in H as [Hc Hv].
    eexists. rewrite <- (ident_token_type x). apply (ident_step x c v r Hc Hv Hr). unfold boundary. exact Hb.
  - eexists. apply (space_step x r). exact Hr.
  - eexists. apply (tab_step x r). exact Hr.
  - eexists. apply (newline_step x r). exact Hr.
  - apply orb_true_iff in H as [H|H].
    + eexists. apply (op_plain_step x o r H Hr).
    + apply andb_true_iff in H as [Ho Hd]. destruct r as [|d r]; [discriminate|]. cbn [first_in] in Hd.
      eexists. apply (op_multi_step x o d r Ho Hd Hr).
  - eexists. apply (bracket_step x b r H Hr).
  - apply andb_true_iff in H as [Hw Hd]. destruct r as [|d r].
    + rewrite app_nil_r in Hr. eexists. apply (atom_step_end x w Hw Hr).
    + cbn [orb first_in] in Hd. eexists. apply (atom_step x w d r Hw Hd Hr).
Qed.

Lemma lexeme_nonempty a r : lexeme_ok a r = true -> lx_text a <> [].
Proof.
  destruct a as [c v| | | |o|b|w]; cbn [lexeme_ok lx_text]; try discriminate.
  intros H. apply andb_true_iff in H as [Hw _]. now apply atoms_nonempty.
Qed.

Lemma chain_len ls : chain ls = true -> List.length ls <= List.length (render ls).
Proof.
  induction ls as [|a ls IH]; cbn [chain render List.length]; [lia|]. intros H. apply andb_true_iff in H as [Ha H].
  specialize (IH H). rewrite app_length. pose proof (lexeme_nonempty a _ Ha) as Hn.
  destruct (lx_text a); [congruence|cbn [List.length]; lia].
Qed.

Definition is_tok (i : item) : bool := match i with ITok _ _ _ => true | _ => false end.
Definition item_type (i : item) : str := match i with ITok t _ _ => t_type t | _ => [] end.

Lemma step_view_inv_ty x ty v r e : step_view x = Some (ty, v, r, e) ->
  exists t lo hi x', step nouni nouni x = StepItem (ITok t lo hi) x' /\ rest x' = r /\ errs x' = e /\ t_type t = ty.
Proof.
  unfold step_view. destruct (step nouni nouni x) as [|[t lo hi|lo|lo hi] x'|ex]; try discriminate.
  intros H. inversion H; subst. exists t, lo, hi, x'. repeat split.
Qed.

(* ------------------------------------------------------------------ the induction over the text *)
Lemma lex_loop_silent : forall ls fuel x acc, chain ls = true -> rest x = render ls -> List.length ls < fuel ->
  forallb is_tok acc = true ->
  exists items xf, lex_loop nouni nouni fuel x acc = Ok (items, xf) /\ errs xf = errs x /\ rest xf = [] /\
                   map item_type items = map item_type (rev acc) ++ map lx_type ls /\ forallb is_tok items = true.
Proof.
  induction ls as [|a ls IH]; intros fuel x acc Hc Hr Hf Hacc; (destruct fuel as [|fuel]; [lia|]); cbn [lex_loop].
  - cbn [render] in Hr. rewrite (step_end x Hr). exists (rev acc), x. repeat split; try assumption.
    + cbn [map]. now rewrite app_nil_r.
    + rewrite forallb_forall in *. intros i Hi. apply Hacc. now apply in_rev.
  - cbn [chain] in Hc. apply andb_true_iff in Hc as [Ha Hc]. cbn [render] in Hr.
    destruct (lexeme_step a (render ls) x Ha Hr) as (v & Hv).
    destruct (step_view_inv_ty x _ _ _ _ Hv) as (t & lo & hi & x' & Hst & Hrest & Herr & Hty). rewrite Hst.
    destruct (IH fuel x' (ITok t lo hi :: acc) Hc Hrest) as (items & xf & H1 & H2 & H3 & H4 & H5).
    + cbn [List.length] in Hf. lia.
    + cbn [forallb is_tok]. exact Hacc.
    + exists items, xf. repeat split; try assumption; [congruence|].
      rewrite H4. cbn [rev map]. rewrite map_app. cbn [map item_type]. rewrite Hty, <- app_assoc. reflexivity.
Qed.

Lemma tokens_of_all_tok items : forallb is_tok items = true ->
  map t_type (tokens_of items) = map item_type items /\ List.length (tokens_of items) = List.length items.
Proof.
  induction items as [|[t lo hi|lo|lo hi] items IH]; cbn [forallb is_tok]; try discriminate; [split; reflexivity|].
  intros H. destruct (IH H) as [A B]. unfold tokens_of in *. cbn [flat_map app map item_type List.length]. now rewrite A, B.
Qed.

(* C01 (c), unbounded in the number of lexemes AND of lines: a well-formed text (statement lines with their indentation and
   line ends) is tokenized completely, into exactly one token per lexeme, of the type `lx_type` says, and the tokenizer
   records NO diagnostic (no lexical code can be reported on it) *)
Theorem conforming_text_tokens : forall ls, chain ls = true ->
  exists items xf, lex nouni nouni (render ls) = Ok (items, xf) /\ errs xf = [] /\ rest xf = [] /\
                   forallb is_tok items = true /\ map t_type (tokens_of items) = map lx_type ls.
Proof.
  intros ls Hc. unfold lex.
  destruct (lex_loop_silent ls (S (List.length (render ls))) (init (render ls)) [] Hc eq_refl) as (items & xf & H1 & H2 & H3 & H4 & H5).
  - pose proof (chain_len ls Hc). lia.
  - reflexivity.
  - exists items, xf. repeat split; try assumption. destruct (tokens_of_all_tok items H5) as [A _]. rewrite A, H4. reflexivity.
Qed.

Theorem conforming_line_silent : forall ls, chain ls = true ->
  exists items xf, lex nouni nouni (render ls) = Ok (items, xf) /\ errs xf = [] /\ rest xf = [] /\
                   List.length items = List.length ls /\ forallb is_tok items = true.
Proof.
  intros ls Hc. destruct (conforming_text_tokens ls Hc) as (items & xf & H1 & H2 & H3 & H4 & H5).
  exists items, xf. repeat split; try assumption.
  destruct (tokens_of_all_tok items H4) as [_ B]. rewrite <- B, <- (map_length t_type), H5. apply map_length.
Qed.

(* non-vacuity: `a = -b + fn(c, 0x1F) * 'a';`, a control line, and two indented lines with their line ends *)
Definition ex_line1 : list lexeme :=
  [ident (s "a"); LSpace; LOp 61; LSpace; LOp 45; ident (s "b"); LSpace; LOp 43; LSpace; ident (s "fn"); LBracket 40; ident (s "c");
   LOp 44; LSpace; LAtom (s "0x1F"); LBracket 41; LSpace; LOp 42; LSpace; LAtom (qt ++ s "a" ++ qt); LOp 59].
Definition ex_line2 : list lexeme :=
  [LAtom (s "while"); LSpace; LBracket 40; ident (s "i"); LSpace; LOp 60; LSpace; LAtom (s "len"); LSpace; LAtom (s "&&"); LSpace;
   LOp 33; ident (s "p"); LBracket 91; ident (s "i"); LBracket 93; LBracket 41].
Definition ex_text3 : list lexeme := [LTab] ++ ex_line2 ++ [LNewline; LTab; LTab] ++ ex_line1 ++ [LNewline].
Example ex_lines_ok : chain ex_line1 = true /\ render ex_line1 = s "a = -b + fn(c, 0x1F) * 'a';" /\
  chain ex_line2 = true /\ render ex_line2 = s "while (i < len && !p[i])".
Proof. vm_compute. repeat split. Qed.
Example ex_text_ok : chain ex_text3 = true /\ kinds_ok ex_text3 = true /\
  map lx_type ex_line2 = map s ["WHILE"; "SPACE"; "LPARENTHESIS"; "IDENTIFIER"; "SPACE"; "LESS_THAN"; "SPACE"; "IDENTIFIER"; "SPACE"; "AND";
                               "SPACE"; "NOT"; "IDENTIFIER"; "LBRACKET"; "IDENTIFIER"; "RBRACKET"; "RPARENTHESIS"]%string.
Proof. vm_compute. repeat split. Qed.
