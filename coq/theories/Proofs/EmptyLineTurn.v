(* C13: the statement after the leading comments, when it is an EMPTY LINE, is recognised - no recognition hypothesis.
   IsEmptyLine.run is translated (Gen/IsEmptyLine.v); on tokens that begin with NEWLINE the translated IsPreprocessorStatement
   prefix and IsComment return False, IsEmptyLine returns (True, 1).  Between IsComment and IsEmptyLine Registry.run tries
   four primaries that are NOT translated (IsFuncPrototype, IsFuncDeclaration, IsFunctionCall, IsVarDeclaration): that they
   decline a statement whose first token is NEWLINE is the one remaining assumption (`declines_newline um`). *)
From NV Require Import Model.Base Model.Diag Model.Lexer Model.RuleChecks Model.EngineTok0 Model.Engine Model.RegistryOrder
  Gen.Registry Gen.IsComment Gen.IsEmptyLine Model.EngineTok Model.EngineTokE
  Model.HeaderRe Model.HeaderState Gen.HeaderRe Gen.HeaderSM Model.Header Proofs.HeaderReProofs Proofs.HeaderProofs
  Proofs.LineShift Proofs.LineShiftCor Proofs.CommentLines Proofs.HeaderLex Proofs.HeaderTurns Proofs.HeaderReject
  Proofs.MultiLineComment Proofs.HeaderRejectHm5.
From Coq Require Import Lia.

Local Open Scope Z_scope.

(* ------------------------------------------------------------------ turn_e refines turn *)
Lemma prim_run_e_ext um name toks r : prim_run name toks = Some r -> prim_run_e um name toks = Some r.
Proof. intros H. unfold prim_run_e. rewrite H. reflexivity. Qed.

Theorem turn_refines : forall um order toks r, turn order toks = Some r -> turn_e um order toks = Some r.
Proof.
  intros um. induction order as [|name order IH]; intros toks r H; [exact H|]. cbn [turn turn_e] in *.
  destruct (negb (applies_global name)); [apply IH; exact H|].
  destruct (prim_run name toks) as [[b j]|] eqn:E; [|discriminate].
  rewrite (prim_run_e_ext um name toks _ E). destruct b; [exact H|apply IH; exact H].
Qed.

Theorem induced_e_induced : forall um oracle toks, induced_e um oracle toks -> induced oracle toks.
Proof. intros um oracle toks H k r Hne Ht. apply (H k r Hne). apply turn_refines. exact Ht. Qed.

(* ------------------------------------------------------------------ the order, and the translated primaries on NEWLINE *)
Lemma order_to_emptyline : exists r,
  primaries_order = s "IsPreprocessorStatement" :: s "IsComment" :: s "IsFuncPrototype" :: s "IsFuncDeclaration"
                    :: s "IsFunctionCall" :: s "IsVarDeclaration" :: s "IsEmptyLine" :: r.
Proof. vm_compute. eexists. reflexivity. Qed.

Lemma applies_to_emptyline :
  forallb applies_global [s "IsPreprocessorStatement"; s "IsComment"; s "IsFuncPrototype"; s "IsFuncDeclaration";
                          s "IsFunctionCall"; s "IsVarDeclaration"; s "IsEmptyLine"] = true.
Proof. vm_compute. reflexivity. Qed.

Lemma skip_ws_newline (t : token) l : t_type t = NEWLINE -> skip_ws (t :: l) 0 = 0.
Proof.
  intros H. unfold skip_ws, skip_while, loop_fuel. apply skip_while_f_stop.
  unfold checkl. rewrite peek_0, H. vm_compute. reflexivity.
Qed.

Lemma iscomment_on_newline (t : token) rest : t_type t = NEWLINE -> iscomment_run (t :: rest) = (false, 0).
Proof.
  intros H. unfold iscomment_run. rewrite (skip_ws_newline t _ H). cbv zeta. unfold checkl. rewrite peek_0, H.
  vm_compute. reflexivity.
Qed.

Lemma ispreproc_on_newline (t : token) rest : t_type t = NEWLINE -> ispreproc_prefix (t :: rest) = Some (false, 0).
Proof.
  intros H. unfold ispreproc_prefix. rewrite (skip_ws_newline t _ H). cbv zeta. unfold check1. rewrite peek_0, H.
  vm_compute. reflexivity.
Qed.

Theorem isemptyline_on_newline : forall (t : token) rest, t_type t = NEWLINE -> isemptyline_run (t :: rest) = (true, 1).
Proof.
  intros t rest H. unfold isemptyline_run. cbv zeta.
  assert (S0 : skip_while (t :: rest) (fun i => is_true (checkl (t :: rest) i [s "SPACE"; s "TAB"])) 0 = 0).
  { unfold skip_while, loop_fuel. apply skip_while_f_stop. unfold checkl. rewrite peek_0, H. vm_compute. reflexivity. }
  rewrite S0. unfold check1 at 1. rewrite peek_0, H.
  change (is_true (Some (str_eqb NEWLINE (s "NEWLINE")))) with true. cbn [orb].
  unfold eol, loop_fuel. cbn [eol_f]. unfold checkl, check1. rewrite peek_0, H.
  change (is_true (Some (str_in NEWLINE [s "TAB"; s "SPACE"; s "NEWLINE"]))) with true.
  change (truthy (Some (str_eqb NEWLINE (s "NEWLINE")))) with true. reflexivity.
Qed.

(* one turn on a statement that begins with NEWLINE *)
Theorem turn_on_empty_line : forall um (t : token) rest, declines_newline um -> t_type t = NEWLINE ->
  turn_e um primaries_order (t :: rest) = Some (Matched (s "IsEmptyLine") 1).
Proof.
  intros um t rest Hum H. destruct order_to_emptyline as (r & ->). pose proof applies_to_emptyline as A.
  cbn [forallb] in A. repeat (apply andb_prop in A; destruct A as [?A A]).
  cbn [turn_e]. rewrite A0, A1, A2, A3, A4, A5, A6. cbn [negb].
  assert (P1 : prim_run_e um (s "IsPreprocessorStatement") (t :: rest) = Some (false, 0)).
  { apply prim_run_e_ext. change (prim_run (s "IsPreprocessorStatement") (t :: rest)) with (ispreproc_prefix (t :: rest)).
    apply ispreproc_on_newline. exact H. }
  assert (P2 : prim_run_e um (s "IsComment") (t :: rest) = Some (false, 0)).
  { apply prim_run_e_ext. change (prim_run (s "IsComment") (t :: rest)) with (Some (iscomment_run (t :: rest))).
    rewrite (iscomment_on_newline t rest H). reflexivity. }
  assert (PU : forall name, In name between_comment_and_emptyline -> exists j, prim_run_e um name (t :: rest) = Some (false, j)).
  { intros name Hin. destruct (Hum name t rest Hin H) as (j & E). exists j. unfold prim_run_e.
    assert (N : prim_run name (t :: rest) = None /\ str_eqb name (s "IsEmptyLine") = false).
    { cbn [between_comment_and_emptyline In] in Hin. destruct Hin as [<-|[<-|[<-|[<-|[]]]]]; split; reflexivity. }
    destruct N as [N1 N2]. rewrite N1, N2. exact E. }
  destruct (PU (s "IsFuncPrototype")) as (j1 & U1); [cbn; auto|].
  destruct (PU (s "IsFuncDeclaration")) as (j2 & U2); [cbn; auto|].
  destruct (PU (s "IsFunctionCall")) as (j3 & U3); [cbn; auto|].
  destruct (PU (s "IsVarDeclaration")) as (j4 & U4); [cbn; auto 6|].
  rewrite P1, P2, U1, U2, U3, U4.
  assert (PE : prim_run_e um (s "IsEmptyLine") (t :: rest) = Some (true, 1)).
  { unfold prim_run_e. change (prim_run (s "IsEmptyLine") (t :: rest)) with (@None (bool * Z)).
    change (str_eqb (s "IsEmptyLine") (s "IsEmptyLine")) with true. cbv iota. rewrite (isemptyline_on_newline t rest H). reflexivity. }
  rewrite PE. reflexivity.
Qed.

(* ------------------------------------------------------------------ reject theorems without a recognition hypothesis *)
Lemma newline_not_block (t : token) X : t_type t = NEWLINE -> first_tok_not_block (t :: X) = true.
Proof. intros H. cbn [first_tok_not_block]. rewrite H. reflexivity. Qed.

Theorem tokens_reject_lines_emptyline : forall um oracle bs o l (tN : token) X' m,
  declines_newline um -> induced_e um oracle (tokens_of (comment_items o l bs) ++ tN :: X') ->
  t_type tN = NEWLINE -> bs <> [] -> ~ searches header_re (comment_lines bs) ->
  diag_count (events_upto oracle (tokens_of (comment_items o l bs) ++ tN :: X') (List.length bs + S m)) = 1%nat.
Proof.
  intros um oracle bs o l tN X' m Hum Hie HN Hne Hn.
  pose proof (induced_e_induced um oracle _ Hie) as Hind.
  destruct (comment_turns oracle bs o l (tN :: X') Hind (List.length bs)) as [Hr _]; [lia|].
  assert (E : remaining oracle (tokens_of (comment_items o l bs) ++ tN :: X') (List.length bs) = tN :: X').
  { rewrite Hr, <- (comment_tokens_length bs o l), skipn_app, skipn_all, Nat.sub_diag. reflexivity. }
  assert (Ho : oracle (List.length bs) = Matched (s "IsEmptyLine") 1).
  { apply Hie; rewrite E; [discriminate|]. apply turn_on_empty_line; assumption. }
  exact (tokens_reject_lines oracle bs o l (tN :: X') _ _ m Hind Hne Ho (newline_not_block tN X' HN) Hn).
Qed.

(* file level: k >= 1 one-line comments that are not a header, then an EMPTY LINE, then anything the tokenizer accepts *)
Theorem file_reject_lines_emptyline : forall um uw ud bs rest items xf items' xf' oracle m,
  declines_newline um -> forallb body_ok bs = true -> bs <> [] -> ~ searches header_re (comment_lines bs) ->
  lex uw ud (10%N :: rest) = Ok (items, xf) ->
  lex uw ud (comment_lines bs ++ 10%N :: rest) = Ok (items', xf') ->
  induced_e um oracle (tokens_of items') ->
  diag_count (events_upto oracle (tokens_of items') (List.length bs + S m)) = 1%nat.
Proof.
  intros um uw ud bs rest items xf items' xf' oracle m Hum Hb Hne Hn Hsrc Hfile Hie.
  destruct (lex_newline_first uw ud rest items xf Hsrc) as (its & ->).
  rewrite (lex_comment_lines_then_text uw ud bs _ _ xf Hb Hsrc) in Hfile.
  apply (f_equal (fun r : outcome (list item * st) => match r with Ok (i, _) => i | _ => [] end)) in Hfile.
  cbv beta iota in Hfile. subst items'. rewrite tokens_of_app in *.
  cbn [map sh_item] in *.
  change (tokens_of (ITok ?a ?b ?c :: ?r)) with (a :: tokens_of r) in *.
  apply (tokens_reject_lines_emptyline um oracle bs 0%nat 1 _ _ m Hum Hie); [reflexivity|exact Hne|exact Hn].
Qed.

Theorem file_reject_Hm6_emptyline : forall um uw ud j f rest items xf items' xf' oracle m,
  declines_newline um -> (j < 11)%nat -> fields_lex_ok f = true -> fields_plain f = true ->
  lex uw ud (10%N :: rest) = Ok (items, xf) ->
  lex uw ud (lines_text (hm6_lines j f) ++ 10%N :: rest) = Ok (items', xf') ->
  induced_e um oracle (tokens_of items') ->
  diag_count (events_upto oracle (tokens_of items') (10 + S m)) = 1%nat.
Proof.
  intros um uw ud j f rest items xf items' xf' oracle m Hum Hj Hl Hp Hsrc Hfile Hie.
  rewrite hm6_is_comment_lines in Hfile.
  assert (HL : List.length (remove_nth j (template_mids f)) = 10%nat) by (rewrite length_remove_nth; cbn; lia).
  rewrite <- HL.
  apply (file_reject_lines_emptyline um uw ud _ rest items xf items' xf' oracle m); auto.
  - apply forallb_remove_nth. apply template_bodies_ok. exact Hl.
  - intros E. rewrite E in HL. discriminate.
  - rewrite <- hm6_is_comment_lines. apply hm6_rejected; assumption.
Qed.

Theorem file_reject_Hm7_emptyline : forall um uw ud last n f rest items xf items' xf' oracle m,
  declines_newline um -> n <> 74%nat -> fields_lex_ok f = true -> fields_plain f = true ->
  lex uw ud (10%N :: rest) = Ok (items, xf) ->
  lex uw ud (lines_text (hm7_lines last n f) ++ 10%N :: rest) = Ok (items', xf') ->
  induced_e um oracle (tokens_of items') ->
  diag_count (events_upto oracle (tokens_of items') (11 + S m)) = 1%nat.
Proof.
  intros um uw ud last n f rest items xf items' xf' oracle m Hum Hn Hl Hp Hsrc Hfile Hie.
  rewrite hm7_is_comment_lines in Hfile.
  set (bs := replace_nth (if last then 10 else 0)%nat (frame_mid n) (template_mids f)) in *.
  assert (HL : List.length bs = 11%nat) by (unfold bs; rewrite length_replace_nth; reflexivity).
  rewrite <- HL.
  apply (file_reject_lines_emptyline um uw ud bs rest items xf items' xf' oracle m); auto.
  - apply forallb_replace_nth; [apply body_ok_frame|apply template_bodies_ok; exact Hl].
  - intros E. rewrite E in HL. discriminate.
  - unfold bs. rewrite <- hm7_is_comment_lines. apply hm7_rejected; assumption.
Qed.

Theorem file_reject_Hm8_emptyline : forall um uw ud k x f rest items xf items' xf' oracle m,
  declines_newline um -> (k = 5 \/ k = 7 \/ k = 8)%nat -> fields_lex_ok f = true -> fields_plain f = true ->
  chain_ok 32 x = true -> no_char 42 x = true -> starts_with (keyword_of k) (textline x (art_of k)) = false ->
  lex uw ud (10%N :: rest) = Ok (items, xf) ->
  lex uw ud (lines_text (hm8_lines k x f) ++ 10%N :: rest) = Ok (items', xf') ->
  induced_e um oracle (tokens_of items') ->
  diag_count (events_upto oracle (tokens_of items') (11 + S m)) = 1%nat.
Proof.
  intros um uw ud k x f rest items xf items' xf' oracle m Hum Hk Hl Hp Hx Hxs Hkw Hsrc Hfile Hie.
  rewrite hm8_is_comment_lines in Hfile.
  set (bs := replace_nth k (mid_of x (art_of k)) (template_mids f)) in *.
  assert (HL : List.length bs = 11%nat) by (unfold bs; rewrite length_replace_nth; reflexivity).
  rewrite <- HL.
  apply (file_reject_lines_emptyline um uw ud bs rest items xf items' xf' oracle m); auto.
  - apply forallb_replace_nth; [|apply template_bodies_ok; exact Hl].
    destruct Hk as [ -> | [ -> | -> ] ]; apply (body_ok_mid x _ _ eq_refl Hx); reflexivity.
  - intros E. rewrite E in HL. discriminate.
  - unfold bs. rewrite <- hm8_is_comment_lines. apply hm8_rejected; assumption.
Qed.

(* Hm5: the one-block header, its newline, then an empty line *)
Theorem file_reject_Hm5_emptyline : forall um uw ud f rest items xf items' xf' oracle m,
  declines_newline um -> fields_lex_ok f = true -> fields_plain f = true ->
  lex uw ud (10%N :: rest) = Ok (items, xf) ->
  lex uw ud (hm5_text f ++ 10%N :: 10%N :: rest) = Ok (items', xf') ->
  induced_e um oracle (tokens_of items') ->
  diag_count (events_upto oracle (tokens_of items') (2 + m)) = 1%nat.
Proof.
  intros um uw ud f rest items xf items' xf' oracle m Hum Hl Hp Hsrc Hfile Hie.
  destruct (lex_newline_first uw ud rest items xf Hsrc) as (its & ->).
  rewrite hm5_text_is in Hfile.
  rewrite (lex_block_comment_then_text uw ud _ _ _ xf (hm5_body_ok f Hl) Hsrc) in Hfile.
  apply (f_equal (fun r : outcome (list item * st) => match r with Ok (i, _) => i | _ => [] end)) in Hfile.
  cbv beta iota in Hfile. subst items'.
  set (body := join block_sep (template_mids f)) in *. cbn [map sh_item] in *.
  change (tokens_of (ITok ?a ?b ?c :: ITok ?d ?e ?g :: ITok ?h ?i ?j :: ?r)) with (a :: d :: h :: tokens_of r) in *.
  pose proof (induced_e_induced um oracle _ Hie) as Hind.
  assert (O0 : oracle 0%nat = Matched (s "IsComment") 2).
  { apply Hind; cbn [remaining]; [discriminate|]. apply turn_on_comment_line; reflexivity. }
  assert (O1 : oracle 1%nat = Matched (s "IsEmptyLine") 1).
  { apply Hie; cbn [remaining]; rewrite O0, pop_two; [discriminate|]. apply turn_on_empty_line; [exact Hum|reflexivity]. }
  eapply tokens_reject_one_comment; try exact Hind; try exact O1; try reflexivity.
  cbn [t_val]. change (comment_text body) with (hm5_text f). apply hm5_rejected. exact Hp.
Qed.

(* ------------------------------------------------------------------ Example: the repository's header with its fourth line
   removed, an empty line, a declaration: after the ten comment statements the turn is the empty line *)
Example damaged_hud_then_empty_line :
  let um := fun (_ : str) (_ : list token) => Some (false, 0) in
  let file := lines_text (hm6_lines 3 hud_fields) ++ 10%N :: s "int" ++ [9%N] ++ s "g_x;" ++ [10%N] in
  match lex (fun _ => false) (fun _ => false) file with
  | Ok (items, _) =>
      turn_e um primaries_order (skipn 20 (tokens_of items)) = Some (Matched (s "IsEmptyLine") 1) /\
      turn_e um primaries_order (tokens_of items) = Some (Matched (s "IsComment") 2)
  | _ => False
  end.
Proof. vm_compute. split; reflexivity. Qed.

Example declines_newline_satisfiable : declines_newline (fun _ _ => Some (false, 0)).
Proof. intros name t rest _ _. exists 0. reflexivity. Qed.
