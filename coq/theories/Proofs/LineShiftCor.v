(* Corollaries of line/offset parametricity of the tokenizer model (Proofs/LineShift.v):
   a line splice in front of a text (C12), text continued after a prefix of complete lines (C19). *)
From NV Require Import Model.Base Model.Diag Model.Lexer Proofs.LineShift.
From Coq Require Import Lia.
From NV Require Import Spec.Respell Proofs.LexMain Proofs.RespellProofs.

(* items already collected are only carried along *)
Definition pre_items (acc : list item) (r : outcome (list item * st)) : outcome (list item * st) :=
  match r with
  | Ok (items, x) => Ok (rev acc ++ items, x)
  | Fatal m => Fatal m | Crash e => Crash e | Hang => Hang
  end.

Lemma lex_loop_acc : forall uw ud fuel x acc,
  lex_loop uw ud fuel x acc = pre_items acc (lex_loop uw ud fuel x []).
Proof.
  induction fuel as [|fuel IH]; intros; [reflexivity|]. cbn [lex_loop].
  destruct (step uw ud x) as [|i x'|e]; cbn [pre_items rev app].
  - rewrite app_nil_r. reflexivity.
  - rewrite (IH x' (i :: acc)), (IH x' [i]).
    destruct (lex_loop uw ud fuel x' []) as [[items xf]| | |]; cbn [pre_items rev app]; try reflexivity.
    rewrite <- app_assoc. reflexivity.
  - reflexivity.
Qed.

(* more fuel does not change a result *)
Lemma lex_loop_fuel_mono : forall uw ud f x acc f', lex_loop uw ud f x acc <> Hang -> (f <= f')%nat ->
  lex_loop uw ud f' x acc = lex_loop uw ud f x acc.
Proof.
  induction f as [|f IH]; intros x acc f' Hn Hle; [cbn in Hn; congruence|].
  destruct f' as [|f']; [lia|]. cbn [lex_loop] in *.
  destruct (step uw ud x) as [|i x'|e]; try reflexivity. apply IH; [exact Hn|lia].
Qed.

(* (a) lexing from a shifted state = the shifted result of lexing from the state *)
Theorem lex_from_shift : forall k d uw ud fuel x acc,
  lex_loop uw ud fuel (shl k d x) acc = pre_items acc (sh_out k d (lex_loop uw ud fuel x [])).
Proof.
  intros. rewrite lex_loop_acc. change (@nil item) with (map (sh_item k d) []) at 1.
  rewrite lex_loop_shl. reflexivity.
Qed.

Lemma tokens_of_sh : forall k d items, tokens_of (map (sh_item k d) items) = map (sh_tok k) (tokens_of items).
Proof.
  induction items as [|i items IH]; [reflexivity|]. unfold tokens_of in *. cbn [map flat_map]. rewrite IH.
  destruct i; reflexivity.
Qed.

Lemma kinds_values_sh : forall k ts,
  map (fun t => (t_type t, t_val t)) (map (sh_tok k) ts) = map (fun t => (t_type t, t_val t)) ts.
Proof. intros. rewrite map_map. apply map_ext. intros t. reflexivity. Qed.

(* (b) C12: a line splice in front of ANY text: one skipped item, then the items of the text, one line lower
   and |splice| raw characters further, columns and values identical, diagnostics one line lower *)
Theorem splice_then_text_lex : forall uw ud sp src, sp = splice1 \/ sp = splice2 ->
  lex uw ud (sp ++ src) = pre_items [ISkip 0 (List.length sp)] (sh_out 1 (List.length sp) (lex uw ud src)).
Proof.
  intros uw ud sp src Hsp. unfold lex at 1. cbn [lex_loop]. rewrite (splice_then_text uw ud sp src Hsp).
  change (mkst src (List.length sp) 2 1 []) with (shl 1 (List.length sp) (init src)).
  rewrite lex_from_shift. f_equal. f_equal. unfold lex.
  apply lex_loop_fuel_mono; [apply (lex_no_hang uw ud src)|].
  rewrite app_length. destruct Hsp as [-> | ->]; cbn; lia.
Qed.

Theorem splice_then_text_items : forall uw ud sp src items xf, sp = splice1 \/ sp = splice2 ->
  lex uw ud src = Ok (items, xf) ->
  lex uw ud (sp ++ src) =
    Ok (ISkip 0 (List.length sp) :: map (sh_item 1 (List.length sp)) items, shl 1 (List.length sp) xf).
Proof. intros uw ud sp src items xf Hsp H. rewrite (splice_then_text_lex uw ud sp src Hsp), H. reflexivity. Qed.

Theorem splice_then_text_tokens : forall uw ud sp src items xf items' xf', sp = splice1 \/ sp = splice2 ->
  lex uw ud src = Ok (items, xf) -> lex uw ud (sp ++ src) = Ok (items', xf') ->
  map (fun t => (t_type t, t_val t)) (tokens_of items') = map (fun t => (t_type t, t_val t)) (tokens_of items) /\
  map t_col (tokens_of items') = map t_col (tokens_of items) /\
  map t_line (tokens_of items') = map (fun t => t_line t + 1) (tokens_of items).
Proof.
  intros uw ud sp src items xf items' xf' Hsp H H'.
  rewrite (splice_then_text_items uw ud sp src items xf Hsp H) in H'. inversion H'; subst.
  change (tokens_of (ISkip 0 (List.length sp) :: map (sh_item 1 (List.length sp)) items))
    with (tokens_of (map (sh_item 1 (List.length sp)) items)).
  rewrite tokens_of_sh. repeat split.
  - apply kinds_values_sh.
  - rewrite map_map. apply map_ext. reflexivity.
  - rewrite map_map. apply map_ext. reflexivity.
Qed.

(* the other outcomes are carried over unchanged: a text that makes the tokenizer crash still does behind a splice *)
Theorem splice_then_text_crash : forall uw ud sp src e, sp = splice1 \/ sp = splice2 ->
  lex uw ud src = Crash e -> lex uw ud (sp ++ src) = Crash e.
Proof. intros uw ud sp src e Hsp H. rewrite (splice_then_text_lex uw ud sp src Hsp), H. reflexivity. Qed.

(* (c), weak form, C19: from the state reached after a prefix of n complete lines and m raw characters (rest = src,
   column 1, no diagnostic so far), lexing continues exactly as lexing src from the initial state, n lines lower and
   m characters further *)
Theorem continue_after_prefix : forall uw ud src n m acc items xf fuel,
  lex uw ud src = Ok (items, xf) -> (S (List.length src) <= fuel)%nat ->
  lex_loop uw ud fuel (mkst src m (1 + n) 1 []) acc = Ok (rev acc ++ map (sh_item n m) items, shl n m xf).
Proof.
  intros uw ud src n m acc items xf fuel H Hf.
  change (mkst src m (1 + n) 1 []) with (shl n m (init src)). rewrite lex_from_shift.
  rewrite (lex_loop_fuel_mono uw ud (S (List.length src)) (init src) [] fuel); [|apply (lex_no_hang uw ud src)|exact Hf].
  fold (lex uw ud src). rewrite H. reflexivity.
Qed.

(* ------------------------------------------------------------------ (c), conditional form.
   ext e x = the state x with the text e appended to what remains.  `steps_local e fuel x`: every step of the
   run from x gives the same item, and the same state up to the appended text, when e stands behind - i.e. no
   step of the run looks past the end of the prefix.  THIS is the part that is not proved for a general prefix
   (the locality of the steps inside P); everything else of the composition is. *)
Definition ext (e : str) (x : st) : st := mkst (rest x ++ e) (off x) (line x) (col x) (errs x).

Fixpoint steps_local (uw ud : N -> bool) (e : str) (fuel : nat) (x : st) : Prop :=
  match fuel with
  | O => True
  | S f =>
      match step uw ud x with
      | StepItem i x' => step uw ud (ext e x) = StepItem i (ext e x') /\ steps_local uw ud e f x'
      | _ => True
      end
  end.

Lemma lex_loop_ext : forall uw ud e f x acc items xf g,
  lex_loop uw ud f x acc = Ok (items, xf) -> steps_local uw ud e f x ->
  exists f', (g < f')%nat /\ lex_loop uw ud (f + g) (ext e x) acc = lex_loop uw ud f' (ext e xf) (rev items).
Proof.
  induction f as [|f IH]; intros x acc items xf g H HL; [discriminate|].
  cbn [lex_loop steps_local] in H, HL. destruct (step uw ud x) as [|i x'|ex] eqn:E.
  - inversion H; subst. exists (S f + g)%nat. rewrite rev_involutive. split; [lia|reflexivity].
  - destruct HL as [HS HL]. destruct (IH x' (i :: acc) items xf g H HL) as (f' & Hf & Heq).
    exists f'. split; [exact Hf|]. change (S f + g)%nat with (S (f + g)). cbn [lex_loop]. rewrite HS. exact Heq.
  - discriminate.
Qed.

(* a prefix P that the tokenizer consumes entirely, ending in column 1 of line 1 + n without diagnostics, whose
   steps are local w.r.t. src: the items of P ++ src are those of P followed by the shifted items of src *)
Theorem prefix_then_text_given_locality : forall uw ud P src n itemsP items xf,
  lex uw ud P = Ok (itemsP, mkst [] (List.length P) (1 + n) 1 []) ->
  steps_local uw ud src (S (List.length P)) (init P) ->
  lex uw ud src = Ok (items, xf) ->
  lex uw ud (P ++ src) = Ok (itemsP ++ map (sh_item n (List.length P)) items, shl n (List.length P) xf).
Proof.
  intros uw ud P src n itemsP items xf HP HL Hs.
  destruct (lex_loop_ext uw ud src _ _ _ _ _ (S (List.length src)) HP HL) as (f' & Hf & Heq).
  assert (E : lex_loop uw ud (S (List.length P) + S (List.length src)) (init (P ++ src)) [] =
              Ok (itemsP ++ map (sh_item n (List.length P)) items, shl n (List.length P) xf)).
  { change (init (P ++ src)) with (ext src (init P)). rewrite Heq.
    change (ext src (mkst [] (List.length P) (1 + n) 1 [])) with (mkst src (List.length P) (1 + n) 1 []).
    rewrite (continue_after_prefix uw ud src n (List.length P) (rev itemsP) items xf f' Hs) by lia.
    rewrite rev_involutive. reflexivity. }
  rewrite <- E. unfold lex. symmetry.
  apply lex_loop_fuel_mono; [apply (lex_no_hang uw ud (P ++ src))|]. rewrite app_length. lia.
Qed.

(* non-vacuity: two comment lines in front of a small text; locality checked by evaluation for this text *)
Example prefix_example :
  let nouni := fun _ : N => false in
  let P := s "/* a */" ++ [10%N] ++ s "/* b */" ++ [10%N] in
  let src := s "int" ++ [9%N] ++ s "x;" ++ [10%N] in
  (exists itemsP, lex nouni nouni P = Ok (itemsP, mkst [] (List.length P) (1 + 2) 1 [])) /\
  steps_local nouni nouni src (S (List.length P)) (init P) /\
  map (fun t => (t_type t, t_line t, t_col t)) (match lex nouni nouni (P ++ src) with Ok (its, _) => tokens_of its | _ => [] end)
  = map (fun t => (t_type t, t_line t, t_col t))
        (match lex nouni nouni P, lex nouni nouni src with
         | Ok (a, _), Ok (b, _) => tokens_of a ++ map (sh_tok 2) (tokens_of b) | _, _ => [] end).
Proof. vm_compute. repeat split; eexists; reflexivity. Qed.
