(* C11, UNBOUNDED accept theorems for integer constants: for all Unicode class oracles uw ud, all digit strings of
   any length, every suffix of the source's table (Gen.LexTables.integer_suffixes) and every continuation that starts
   with a delimiter, the first step of the lexer model yields ONE token CONSTANT whose value is the constant,
   spanning exactly it, at line 1 column 1, with no diagnostic.  Reuses Proofs/LexRename.v (pop on plain characters). *)
From NV Require Import Model.Base Model.Diag Model.Lexer Model.NumRe Spec.CConst Gen.LexTables
  Proofs.StrOrder Proofs.LexRename.
From Coq Require Import Lia ZifyBool.

Local Open Scope Z_scope.

(* ------------------------------------------------------------------ the statement *)
Definition lex_one_ok_u (uw ud : N -> bool) (ty w rest : str) : Prop :=
  exists x, step uw ud (init (w ++ rest)) = StepItem (ITok (mktok ty 1 1 (Some w)) 0 (List.length w)) x /\ errs x = [].

(* what may follow the constant: nothing, or an ASCII character that is no letter, digit, underscore or dot *)
Definition alnum (c : N) : bool := ascii_digit c || ascii_alpha c.
Definition delimc (c : N) : bool := (c <? 128)%N && negb (alnum c) && negb (c =? 95)%N && negb (c =? 46)%N.
Definition delim (rest : str) : bool := match rest with [] => true | c :: _ => delimc c end.

(* ------------------------------------------------------------------ the suffix table *)
(* every suffix is made of ASCII letters and digits and starts with a letter that is no hexadecimal digit and none
   of e E x X p P b B *)
Definition sfx_head (a : N) : bool := ascii_alpha a && negb (chr_in a (s "abcdefABCDEFeExXpPbB")).
Definition sfx_ok (sfx : str) : bool :=
  forallb alnum sfx && match sfx with [] => true | a :: _ => sfx_head a end.
Lemma integer_suffixes_ok : forallb sfx_ok integer_suffixes = true.
Proof. vm_compute. reflexivity. Qed.

Lemma str_in_In x l : str_in x l = true -> In x l.
Proof. unfold str_in. intros H. apply existsb_exists in H as [y [Hy E]]. apply str_eqb_eq in E. now subst. Qed.

Lemma suffix_ok sfx : str_in sfx integer_suffixes = true -> sfx_ok sfx = true.
Proof. intros H. apply str_in_In in H. pose proof integer_suffixes_ok as T. rewrite forallb_forall in T. now apply T. Qed.

(* ------------------------------------------------------------------ characters *)
Definition okc (c : N) : bool := negb (chr_in c [63; 60; 58; 37; 10; 9; 92]%N).

Lemma alnum_okc c : alnum c = true -> okc c = true.
Proof. unfold alnum, okc, ascii_digit, ascii_alpha. cbn [chr_in existsb]. lia. Qed.
Lemma okc_facts c : okc c = true -> chr_in c [63; 60; 58; 37]%N = false /\ chr_in c [10; 9; 92]%N = false.
Proof. unfold okc. cbn [chr_in existsb]. lia. Qed.

Section Oracles.
  Variable uw ud : N -> bool.

  Lemma digit_isd c : ascii_digit c = true -> isd ud c = true.
  Proof. unfold isd, ascii_digit. intros H. replace (c <? 128)%N with true by lia. lia. Qed.
  Lemma alnum_isw c : alnum c = true -> isw uw ud c = true.
  Proof. unfold isw, alnum, ascii_digit, ascii_alpha. intros H. replace (c <? 128)%N with true by lia. lia. Qed.
  Lemma delimc_isw c : delimc c = true -> isw uw ud c = false.
  Proof. unfold delimc, isw, alnum. intros H. replace (c <? 128)%N with true by lia. lia. Qed.
  Lemma delimc_isd c : delimc c = true -> isd ud c = false.
  Proof. unfold delimc, isd, alnum. intros H. replace (c <? 128)%N with true by lia. lia. Qed.
  Lemma sfx_head_isd a : sfx_head a = true -> isd ud a = false.
  Proof. unfold sfx_head, isd, ascii_alpha, ascii_digit. intros H. replace (a <? 128)%N with true by lia. lia. Qed.

  (* the first character after the digits: the head of the suffix, or the delimiter *)
  Definition tailc (c : N) : bool :=
    negb (isd ud c) && negb (ishex ud c) && negb (c =? 46)%N && negb (chr_in c (s "eExXpPbB")).
  Definition tail_ok (T : str) : bool := match T with [] => true | c :: _ => tailc c end.

  Lemma sfx_head_tailc a : sfx_head a = true -> tailc a = true.
  Proof.
    intros H. unfold tailc, ishex. rewrite (sfx_head_isd a H).
    unfold sfx_head, ascii_alpha in H. cbn [chr_in existsb s List.map list_ascii_of_string N_of_ascii N_of_digits] in H |- *.
    lia.
  Qed.
  Lemma delimc_tailc c : delimc c = true -> tailc c = true.
  Proof.
    intros H. unfold tailc, ishex. rewrite (delimc_isd c H).
    unfold delimc, alnum, ascii_digit, ascii_alpha in H. cbn [chr_in existsb s List.map list_ascii_of_string N_of_ascii N_of_digits] in H |- *.
    lia.
  Qed.
  Lemma tail_ok_app sfx rest : sfx_ok sfx = true -> delim rest = true -> tail_ok (sfx ++ rest) = true.
  Proof.
    unfold sfx_ok. intros H Hd. apply andb_true_iff in H as [_ H].
    destruct sfx as [|a sfx]; cbn [app tail_ok].
    - destruct rest as [|c r]; [reflexivity|]. now apply delimc_tailc.
    - now apply sfx_head_tailc.
  Qed.

  (* ------------------------------------------------------------------ span *)
  Definition stops (p : N -> bool) (l : str) : bool := match l with [] => true | c :: _ => negb (p c) end.

  Lemma span_app_stop p a b : forallb p a = true -> stops p b = true -> span p (a ++ b) = (a, b).
  Proof.
    induction a as [|c a IH]; cbn [app forallb]; intros Ha Hb.
    - destruct b as [|c b]; [reflexivity|]. cbn [stops] in Hb. apply negb_true_iff in Hb. cbn [span]. now rewrite Hb.
    - apply andb_true_iff in Ha as [Hc Ha]. cbn [span]. rewrite Hc, (IH Ha Hb). reflexivity.
  Qed.

  Lemma span_stop p b : stops p b = true -> span p b = ([], b).
  Proof. intros H. exact (span_app_stop p [] b eq_refl H). Qed.

  Lemma tail_stops_isd T : tail_ok T = true -> stops (isd ud) T = true.
  Proof. destruct T as [|c T]; [reflexivity|]. cbn. unfold tailc. lia. Qed.
  Lemma tail_stops_ishex T : tail_ok T = true -> stops (ishex ud) T = true.
  Proof. destruct T as [|c T]; [reflexivity|]. cbn. unfold tailc. lia. Qed.

  (* ------------------------------------------------------------------ popn over plain characters *)
  Lemma popn_plain : forall v x acc r, forallb okc v = true -> rest x = v ++ r ->
    popn (List.length v) x acc = PopOk (acc ++ v) (shift (List.length v) x).
  Proof.
    induction v as [|c v IH]; intros x acc r Hv Hr; cbn [List.length popn].
    - now rewrite app_nil_r, shift_0.
    - cbn [forallb] in Hv. apply andb_true_iff in Hv as [Hc Hv]. cbn [app] in Hr.
      destruct (okc_facts c Hc) as [H1 H2].
      rewrite (pop1_plain false false x c (v ++ r) Hr (peek1_nohead c _ H1) H2).
      rewrite (IH (shift 1 x) (acc ++ [c]) r Hv); [|rewrite rest_shift, Hr; reflexivity].
      now rewrite shift_shift1, <- app_assoc.
  Qed.

  (* ------------------------------------------------------------------ the float parser declines *)
  Lemma parse_float_none x : fexp_match uw ud (rest x) = None -> ffrac_match uw ud (rest x) = None ->
    fhex_match uw ud (rest x) = None -> parse_float_literal uw ud x = PNone.
  Proof.
    intros H1 H2 H3. unfold parse_float_literal. rewrite H1, H2, H3. destruct (rest x); reflexivity.
  Qed.

  Lemma exp_match_none E dig q T : stops (in_set E) T = true -> exp_match E dig q T = None.
  Proof.
    destruct T as [|c T]; [reflexivity|]. cbn [stops]. intros H. apply negb_true_iff in H.
    unfold exp_match. now rewrite H.
  Qed.

  Lemma tail_stops_e T : tail_ok T = true -> stops (in_set [101; 69]%N) T = true.
  Proof. destruct T as [|c T]; [reflexivity|]. cbn. unfold tailc. cbn [chr_in existsb s List.map list_ascii_of_string N_of_ascii N_of_digits]. lia. Qed.
  Lemma tail_stops_p T : tail_ok T = true -> stops (in_set [112; 80]%N) T = true.
  Proof. destruct T as [|c T]; [reflexivity|]. cbn. unfold tailc. cbn [chr_in existsb s List.map list_ascii_of_string N_of_ascii N_of_digits]. lia. Qed.
  Lemma tail_stops_bx T : tail_ok T = true -> stops (in_set [98; 66; 120; 88]%N) T = true.
  Proof. destruct T as [|c T]; [reflexivity|]. cbn. unfold tailc. cbn [chr_in existsb s List.map list_ascii_of_string N_of_ascii N_of_digits]. lia. Qed.
  Lemma tail_stops_x T : tail_ok T = true -> stops (in_set [120; 88]%N) T = true.
  Proof. destruct T as [|c T]; [reflexivity|]. cbn. unfold tailc. cbn [chr_in existsb s List.map list_ascii_of_string N_of_ascii N_of_digits]. lia. Qed.

  (* digits followed by something that is neither a digit, e/E nor a dot: neither decimal float pattern matches *)
  Lemma fexp_none dg T : forallb (isd ud) dg = true -> stops (isd ud) T = true -> stops (in_set [101; 69]%N) T = true ->
    fexp_match uw ud (dg ++ T) = None.
  Proof.
    intros Hd Hs He. unfold fexp_match. rewrite (span_app_stop _ _ _ Hd Hs).
    destruct (nonnil dg); [|reflexivity]. now rewrite exp_match_none.
  Qed.

  Lemma match46 {A} (c : N) (r : str) (f : str -> A) (y : A) : (c =? 46)%N = false ->
    match c :: r with 46%N :: r1 => f r1 | _ => y end = y.
  Proof.
    intros H. destruct c as [|p]; [reflexivity|].
    repeat (destruct p as [p|p|]; try reflexivity). discriminate.
  Qed.

  Lemma ffrac_none dg T : forallb (isd ud) dg = true -> stops (isd ud) T = true ->
    stops (fun c => (c =? 46)%N) T = true -> ffrac_match uw ud (dg ++ T) = None.
  Proof.
    intros Hd Hs H46. unfold ffrac_match. rewrite (span_app_stop _ _ _ Hd Hs).
    destruct T as [|c T]; [reflexivity|]. cbn [stops] in H46. apply negb_true_iff in H46.
    destruct c as [|p]; [reflexivity|].
    repeat (destruct p as [p|p|]; try reflexivity). discriminate.
  Qed.

  Lemma fhex_none_nonzero c t : (c =? 48)%N = false -> fhex_match uw ud (c :: t) = None.
  Proof.
    intros H. unfold fhex_match. destruct c as [|p]; [reflexivity|].
    repeat (destruct p as [p|p|]; try reflexivity). discriminate.
  Qed.

  Lemma fhex_none_nox t : stops (in_set [120; 88]%N) t = true -> fhex_match uw ud (48%N :: t) = None.
  Proof.
    intros H. unfold fhex_match. lazy beta iota. rewrite (span_stop _ _ H). reflexivity.
  Qed.

  Lemma tail_stops_46 T : tail_ok T = true -> stops (fun c => (c =? 46)%N) T = true.
  Proof. destruct T as [|c T]; [reflexivity|]. cbn. unfold tailc. lia. Qed.
End Oracles.

Section Accept.
  Variable uw ud : N -> bool.

  (* ------------------------------------------------------------------ the Suffix group *)
  Lemma last_chr_forall (p : N -> bool) v : forallb p v = true -> v <> [] -> exists c, last_chr v = Some c /\ p c = true.
  Proof.
    intros Hp Hne. destruct (exists_last Hne) as [u [c ->]]. exists c. unfold last_chr. rewrite rev_app_distr. cbn.
    split; [reflexivity|]. rewrite forallb_app in Hp. cbn in Hp. lia.
  Qed.

  (* after a constant whose last character is not e/E the suffix group takes the letters/digits that follow *)
  Lemma int_suffix_plain const c sfx rest : last_chr const = Some c -> in_set [101; 69]%N c = false ->
    forallb alnum sfx = true -> delim rest = true -> int_suffix uw ud const (sfx ++ rest) = sfx.
  Proof.
    intros Hl Hc Hs Hd. unfold int_suffix. rewrite Hl, Hc.
    destruct sfx as [|a sfx]; cbn [app].
    - destruct rest as [|b r]; [reflexivity|]. cbn [delim] in Hd. now rewrite (delimc_isw uw ud b Hd).
    - cbn [forallb] in Hs. apply andb_true_iff in Hs as [Ha Hs]. rewrite (alnum_isw uw ud a Ha).
      rewrite (span_app_stop (fun ch => isw uw ud ch || (ch =? 46)%N) sfx rest); [reflexivity| |].
      + apply forallb_forall. intros y Hy. rewrite forallb_forall in Hs. now rewrite (alnum_isw uw ud y (Hs y Hy)).
      + destruct rest as [|b r]; [reflexivity|]. cbn [delim stops] in Hd |- *. rewrite (delimc_isw uw ud b Hd).
        unfold delimc in Hd. lia.
  Qed.

  (* ------------------------------------------------------------------ the integer parser, given what the pattern matched *)
  Definition prefix_clean (prefix const : str) : bool :=
    if str_in prefix [s "0b"; s "0B"] then forallb (fun c => chr_in c (s "01")) const
    else if str_eqb prefix (s "0") then forallb (fun c => chr_in c (s "01234567")) const
    else if str_in prefix [s "0x"; s "0X"] then forallb (fun c => chr_in c (s "0123456789abcdefABCDEF")) const
    else true.

  Lemma bad_digit_hls_nil l0 c0 bucket : forall cs idx, forallb (fun c => chr_in c bucket) cs = true ->
    bad_digit_hls l0 c0 idx bucket cs = [].
  Proof.
    induction cs as [|c cs IH]; intros idx H; [reflexivity|]. cbn [forallb] in H. apply andb_true_iff in H as [Hc H].
    cbn [bad_digit_hls]. rewrite Hc, IH by assumption. reflexivity.
  Qed.

  Lemma check_bad_prefix_clean name bucket l0 c0 prefix const x : forallb (fun c => chr_in c bucket) const = true ->
    check_bad_prefix name bucket l0 c0 prefix const x = x.
  Proof. intros H. unfold check_bad_prefix. now rewrite bad_digit_hls_nil. Qed.

  Lemma parse_int_ok x prefix const sfx t :
    int_match uw ud (rest x) = Some (prefix, const, sfx) ->
    rest x = (prefix ++ const ++ sfx) ++ t -> forallb okc (prefix ++ const ++ sfx) = true ->
    str_in sfx integer_suffixes = true -> prefix_clean prefix const = true ->
    parse_integer_literal uw ud x =
      PTok (mktok (s "CONSTANT") (line x) (col x) (Some (prefix ++ const ++ sfx))) (shift (List.length (prefix ++ const ++ sfx)) x).
  Proof.
    intros Hm Hr Hok Hs Hc. unfold parse_integer_literal. rewrite Hm. cbv zeta.
    replace (List.length prefix + List.length const + List.length sfx)%nat with (List.length (prefix ++ const ++ sfx))
      by (rewrite !app_length; lia).
    rewrite (popn_plain _ x [] t Hok Hr). cbn [of_popres app]. rewrite Hs.
    unfold prefix_clean in Hc.
    destruct (str_in prefix [s "0b"; s "0B"]); [now rewrite check_bad_prefix_clean|].
    destruct (str_eqb prefix (s "0")); [now rewrite check_bad_prefix_clean|].
    destruct (str_in prefix [s "0x"; s "0X"]); [now rewrite check_bad_prefix_clean|reflexivity].
  Qed.

  (* ------------------------------------------------------------------ dispatch and step *)
  Lemma try_parsers_int x t x' : parse_float_literal uw ud x = PNone -> parse_integer_literal uw ud x = PTok t x' ->
    try_parsers uw ud parsers x = PTok t x'.
  Proof.
    intros H1 H2.
    assert (E1 : run_parser uw ud (s "parse_float_literal") x = parse_float_literal uw ud x) by reflexivity.
    assert (E2 : run_parser uw ud (s "parse_integer_literal") x = parse_integer_literal uw ud x) by reflexivity.
    unfold parsers. cbn [try_parsers]. rewrite E1, H1, E2, H2. reflexivity.
  Qed.

  Lemma at_splice_digit c t : ascii_digit c = true -> at_splice (c :: t) = false.
  Proof.
    intros H. unfold at_splice, raw_peek. cbn [firstn str_eqb].
    assert (H1 : (c =? 92)%N = false) by (unfold ascii_digit in H; lia).
    assert (H2 : (c =? 63)%N = false) by (unfold ascii_digit in H; lia).
    now rewrite H1, H2.
  Qed.

  Lemma step_const w rest c t tok x' : w ++ rest = c :: t -> ascii_digit c = true ->
    try_parsers uw ud parsers (init (w ++ rest)) = PTok tok x' ->
    step uw ud (init (w ++ rest)) = StepItem (ITok tok 0 (off x')) x'.
  Proof.
    intros Hr Hd Ht. unfold step. rewrite Ht. cbn [Lexer.rest init]. rewrite Hr, (at_splice_digit c t Hd). reflexivity.
  Qed.

  (* the assembly: what remains to be shown per base is (a) the float parser declines, (b) what int_match returns *)
  Lemma accept_from_match prefix const sfx rest c t :
    (prefix ++ const ++ sfx) ++ rest = c :: t -> ascii_digit c = true ->
    parse_float_literal uw ud (init ((prefix ++ const ++ sfx) ++ rest)) = PNone ->
    int_match uw ud ((prefix ++ const ++ sfx) ++ rest) = Some (prefix, const, sfx) ->
    forallb alnum (prefix ++ const ++ sfx) = true -> str_in sfx integer_suffixes = true -> prefix_clean prefix const = true ->
    lex_one_ok_u uw ud (s "CONSTANT") (prefix ++ const ++ sfx) rest.
  Proof.
    intros Hr Hd Hf Hm Ha Hs Hc. set (w := prefix ++ const ++ sfx) in *.
    assert (Hok : forallb okc w = true).
    { apply forallb_forall. intros y Hy. rewrite forallb_forall in Ha. apply alnum_okc. now apply Ha. }
    pose proof (parse_int_ok (init (w ++ rest)) prefix const sfx rest Hm eq_refl Hok Hs Hc) as Hp.
    exists (shift (List.length w) (init (w ++ rest))). split; [|reflexivity].
    rewrite (step_const w rest c t _ _ Hr Hd (try_parsers_int _ _ _ Hf Hp)). reflexivity.
  Qed.

  (* ------------------------------------------------------------------ (1) decimal *)
  Definition nonzero_digit (d : N) : bool := ((49 <=? d) && (d <=? 57))%N.

  Lemma int_const_dec dg T : forallb ascii_digit dg = true -> dg <> [] -> stops (isd ud) T = true ->
    int_const ud false (dg ++ T) = Some (dg, T).
  Proof.
    intros Hd Hne Hs. unfold int_const. destruct (span (ishex ud) (dg ++ T)) as [h r1]. cbn [andb].
    rewrite (span_app_stop (isd ud) dg T); [|apply forallb_forall; intros y Hy; rewrite forallb_forall in Hd; apply digit_isd, Hd; assumption|assumption].
    destruct dg; [congruence|reflexivity].
  Qed.

  Lemma hex_start_nonzero c t : (c =? 48)%N = false -> hex_start ud (c :: t) = false.
  Proof. intros H. unfold hex_start. now rewrite H. Qed.

  Lemma int_match_nonzero c t : (c =? 48)%N = false ->
    int_match uw ud (c :: t) =
      match int_const ud false (c :: t) with Some (k, r) => Some ([], k, int_suffix uw ud k r) | None => None end.
  Proof.
    intros H. unfold int_match. rewrite (hex_start_nonzero c t H). unfold int_match_old. destruct c as [|p]; [reflexivity|].
    repeat (destruct p as [p|p|]; try reflexivity). discriminate.
  Qed.

  Theorem accept_decimal : forall d ds sfx rest,
    nonzero_digit d = true -> forallb ascii_digit ds = true -> str_in sfx integer_suffixes = true -> delim rest = true ->
    lex_one_ok_u uw ud (s "CONSTANT") ((d :: ds) ++ sfx) rest.
  Proof.
    intros d ds sfx rest Hd Hds Hs Hdl.
    pose proof (suffix_ok sfx Hs) as Hso. pose proof (tail_ok_app ud sfx rest Hso Hdl) as HT.
    assert (Hdd : ascii_digit d = true) by (unfold nonzero_digit in Hd; unfold ascii_digit; lia).
    assert (Hd48 : (d =? 48)%N = false) by (unfold nonzero_digit in Hd; lia).
    assert (Hdg : forallb ascii_digit (d :: ds) = true) by (cbn [forallb]; now rewrite Hdd).
    assert (Hisd : forallb (isd ud) (d :: ds) = true).
    { apply forallb_forall. intros y Hy. rewrite forallb_forall in Hdg. now apply digit_isd, Hdg. }
    assert (Hsa : forallb alnum sfx = true) by (unfold sfx_ok in Hso; lia).
    assert (Ew : ((d :: ds) ++ sfx) ++ rest = (d :: ds) ++ (sfx ++ rest)) by now rewrite app_assoc.
    change ((d :: ds) ++ sfx) with ([] ++ (d :: ds) ++ sfx).
    apply (accept_from_match [] (d :: ds) sfx rest d ((ds ++ sfx) ++ rest)); try assumption.
    - reflexivity.
    - apply parse_float_none; cbn [Lexer.rest init app]; change (d :: (ds ++ sfx) ++ rest) with (((d :: ds) ++ sfx) ++ rest); rewrite Ew.
      + apply fexp_none; [assumption|now apply tail_stops_isd|now apply (tail_stops_e ud)].
      + apply ffrac_none; [assumption|now apply tail_stops_isd|now apply (tail_stops_46 ud)].
      + cbn [app]. now apply fhex_none_nonzero.
    - cbn [app]. rewrite (int_match_nonzero d _ Hd48).
      change (d :: (ds ++ sfx) ++ rest) with (((d :: ds) ++ sfx) ++ rest). rewrite Ew.
      rewrite (int_const_dec (d :: ds) (sfx ++ rest) Hdg); [|discriminate|now apply tail_stops_isd].
      destruct (last_chr_forall ascii_digit (d :: ds) Hdg) as [c [Hl Hc]]; [discriminate|].
      rewrite (int_suffix_plain (d :: ds) c sfx rest Hl); [reflexivity| |assumption|assumption].
      unfold ascii_digit in Hc. cbn [in_set existsb]. lia.
    - cbn [app forallb]. unfold alnum at 1. rewrite Hdd. cbn [orb andb]. rewrite forallb_app, Hsa.
      rewrite andb_true_r. apply forallb_forall. intros y Hy. rewrite forallb_forall in Hds. unfold alnum. now rewrite (Hds y Hy).
    - reflexivity.
  Qed.

  (* ------------------------------------------------------------------ constants that start with 0 *)
  Lemma hex_start_nox t : stops (in_set [120; 88]%N) t = true -> hex_start ud (48%N :: t) = false.
  Proof.
    intros H. unfold hex_start. destruct t as [|xc t]; [reflexivity|]. cbn [stops] in H. apply negb_true_iff in H.
    now rewrite H.
  Qed.

  (* 0 not followed by x/X: the alternatives 0[bBxX]* | <empty> decide *)
  Lemma int_match_zero t : stops (in_set [120; 88]%N) t = true -> int_match uw ud (48%N :: t) =
    let (bx, after) := span (in_set [98; 66; 120; 88]%N) t in
    match int_prefixes ud bx after (List.length bx) with
    | Some (pt, c, r) => Some (48%N :: pt, c, int_suffix uw ud c r)
    | None => match int_const ud false (48%N :: t) with Some (c, r) => Some ([], c, int_suffix uw ud c r) | None => None end
    end.
  Proof. intros H. unfold int_match. rewrite (hex_start_nox t H). reflexivity. Qed.

  Lemma int_const_none T : stops (isd ud) T = true -> int_const ud false T = None.
  Proof.
    intros H. unfold int_const. destruct (span (ishex ud) T) as [h r1]. cbn [andb]. now rewrite (span_stop _ _ H).
  Qed.

  Lemma digits_isd dg : forallb ascii_digit dg = true -> forallb (isd ud) dg = true.
  Proof. intros H. apply forallb_forall. intros y Hy. rewrite forallb_forall in H. now apply digit_isd, H. Qed.

  Lemma digit_stops_bx c t : ascii_digit c = true -> stops (in_set [98; 66; 120; 88]%N) (c :: t) = true.
  Proof. unfold ascii_digit. cbn [stops in_set existsb]. lia. Qed.
  Lemma digit_stops_x c t : ascii_digit c = true -> stops (in_set [120; 88]%N) (c :: t) = true.
  Proof. unfold ascii_digit. cbn [stops in_set existsb]. lia. Qed.

  Lemma suffix_after_digits dg sfx rest : forallb ascii_digit dg = true -> dg <> [] -> forallb alnum sfx = true ->
    delim rest = true -> int_suffix uw ud dg (sfx ++ rest) = sfx.
  Proof.
    intros Hd Hne Hs Hdl. destruct (last_chr_forall ascii_digit dg Hd Hne) as [c [Hl Hc]].
    apply (int_suffix_plain dg c sfx rest Hl); [|assumption|assumption].
    unfold ascii_digit in Hc. cbn [in_set existsb]. lia.
  Qed.

  Lemma alnum_digits dg : forallb ascii_digit dg = true -> forallb alnum dg = true.
  Proof. intros H. apply forallb_forall. intros y Hy. rewrite forallb_forall in H. unfold alnum. now rewrite (H y Hy). Qed.

  Lemma float_none_digits dg T t0 : forallb ascii_digit dg = true -> dg ++ T = 48%N :: t0 ->
    stops (isd ud) T = true -> stops (in_set [101; 69]%N) T = true -> stops (fun c => (c =? 46)%N) T = true ->
    stops (in_set [120; 88]%N) t0 = true ->
    parse_float_literal uw ud (init (dg ++ T)) = PNone.
  Proof.
    intros Hd E H1 H2 H3 H4. apply parse_float_none; cbn [Lexer.rest init].
    - apply fexp_none; [now apply digits_isd|assumption|assumption].
    - apply ffrac_none; [now apply digits_isd|assumption|assumption].
    - rewrite E. now apply fhex_none_nox.
  Qed.

  (* ------------------------------------------------------------------ (2) octal: 0 followed by octal digits (also 0 alone) *)
  Lemma oct_is_digit c : is_oct c = true -> ascii_digit c = true.
  Proof. unfold is_oct, ascii_digit. lia. Qed.
  Lemma oct_in_bucket c : is_oct c = true -> chr_in c (s "01234567") = true.
  Proof. unfold is_oct. cbn [chr_in existsb s List.map list_ascii_of_string N_of_ascii N_of_digits]. lia. Qed.

  Theorem accept_octal : forall os sfx rest,
    forallb is_oct os = true -> str_in sfx integer_suffixes = true -> delim rest = true ->
    lex_one_ok_u uw ud (s "CONSTANT") ((48%N :: os) ++ sfx) rest.
  Proof.
    intros os sfx rest Hos Hs Hdl.
    pose proof (suffix_ok sfx Hs) as Hso. pose proof (tail_ok_app ud sfx rest Hso Hdl) as HT.
    assert (Hsa : forallb alnum sfx = true) by (unfold sfx_ok in Hso; lia).
    assert (Hod : forallb ascii_digit os = true).
    { apply forallb_forall. intros y Hy. rewrite forallb_forall in Hos. now apply oct_is_digit, Hos. }
    assert (Hdg : forallb ascii_digit (48%N :: os) = true) by (cbn [forallb]; now rewrite Hod).
    assert (Ew : ((48%N :: os) ++ sfx) ++ rest = (48%N :: os) ++ (sfx ++ rest)) by now rewrite app_assoc.
    assert (Hx : stops (in_set [120; 88]%N) (os ++ sfx ++ rest) = true).
    { destruct os as [|o os]; [now apply (tail_stops_x ud)|]. cbn [app]. apply digit_stops_x. cbn [forallb] in Hod. lia. }
    assert (Hfl : parse_float_literal uw ud (init (((48%N :: os) ++ sfx) ++ rest)) = PNone).
    { rewrite Ew. apply (float_none_digits (48%N :: os) (sfx ++ rest) (os ++ sfx ++ rest)); try assumption; try reflexivity.
      - now apply tail_stops_isd. - now apply (tail_stops_e ud). - now apply (tail_stops_46 ud). }
    destruct os as [|o os].
    - (* "0": no prefix, constant 0 *)
      change (([48%N]) ++ sfx) with ([] ++ [48%N] ++ sfx).
      apply (accept_from_match [] [48%N] sfx rest 48%N (sfx ++ rest)); try assumption; try reflexivity.
      + cbn [app]. rewrite (int_match_zero _ (tail_stops_x ud _ HT)). rewrite (span_stop _ _ (tail_stops_bx ud _ HT)).
        cbn [List.length int_prefixes firstn skipn app hexok_of]. rewrite (int_const_none _ (tail_stops_isd ud _ HT)).
        change (48%N :: sfx ++ rest) with ([48%N] ++ (sfx ++ rest)).
        rewrite (int_const_dec [48%N] (sfx ++ rest) eq_refl); [|discriminate|now apply tail_stops_isd].
        rewrite suffix_after_digits; try assumption; try reflexivity. discriminate.
    - (* 0 + octal digits: prefix 0 *)
      change ((48%N :: o :: os) ++ sfx) with ([48%N] ++ (o :: os) ++ sfx).
      cbn [forallb] in Hod, Hos.
      apply (accept_from_match [48%N] (o :: os) sfx rest 48%N (((o :: os) ++ sfx) ++ rest)); try assumption; try reflexivity.
      + cbn [app]. rewrite int_match_zero; [|apply digit_stops_x; lia].
        rewrite (span_stop (in_set [98; 66; 120; 88]%N) (o :: (os ++ sfx) ++ rest)); [|apply digit_stops_bx; lia].
        cbn [List.length int_prefixes firstn skipn app hexok_of].
        change (o :: (os ++ sfx) ++ rest) with (((o :: os) ++ sfx) ++ rest). rewrite <- app_assoc.
        rewrite (int_const_dec (o :: os) (sfx ++ rest)); [|cbn [forallb]; lia|discriminate|now apply tail_stops_isd].
        rewrite suffix_after_digits; [reflexivity|cbn [forallb]; lia|discriminate|assumption|assumption].
      + change ([48%N] ++ (o :: os) ++ sfx) with (48%N :: (o :: os) ++ sfx). cbn [forallb]. rewrite forallb_app, Hsa.
        rewrite (alnum_digits (o :: os)) by (cbn [forallb]; lia). reflexivity.
      + unfold prefix_clean. cbn [str_in existsb]. 
        replace (str_eqb [48%N] (s "0b")) with false by reflexivity. replace (str_eqb [48%N] (s "0B")) with false by reflexivity.
        replace (str_eqb [48%N] (s "0")) with true by reflexivity. cbn [orb].
        apply forallb_forall. intros y Hy. apply oct_in_bucket.
        assert (Hall : forallb is_oct (o :: os) = true) by (cbn [forallb]; lia).
        rewrite forallb_forall in Hall. now apply Hall.
  Qed.

  (* ------------------------------------------------------------------ (3) binary: 0b / 0B followed by at least one bit *)
  Definition is_bB (c : N) : bool := ((c =? 98) || (c =? 66))%N.
  Lemma bin_is_digit c : is_bin c = true -> ascii_digit c = true.
  Proof. unfold is_bin, ascii_digit. lia. Qed.
  Lemma bin_in_bucket c : is_bin c = true -> chr_in c (s "01") = true.
  Proof. unfold is_bin. cbn [chr_in existsb s List.map list_ascii_of_string N_of_ascii N_of_digits]. lia. Qed.

  Theorem accept_binary : forall b i bits sfx rest,
    is_bB b = true -> forallb is_bin (i :: bits) = true -> str_in sfx integer_suffixes = true -> delim rest = true ->
    lex_one_ok_u uw ud (s "CONSTANT") ((48%N :: b :: i :: bits) ++ sfx) rest.
  Proof.
    intros b i bits sfx rest Hb Hbits Hs Hdl.
    pose proof (suffix_ok sfx Hs) as Hso. pose proof (tail_ok_app ud sfx rest Hso Hdl) as HT.
    assert (Hsa : forallb alnum sfx = true) by (unfold sfx_ok in Hso; lia).
    assert (Hbd : forallb ascii_digit (i :: bits) = true).
    { apply forallb_forall. intros y Hy. rewrite forallb_forall in Hbits. now apply bin_is_digit, Hbits. }
    assert (Hi : ascii_digit i = true) by (cbn [forallb] in Hbd; lia).
    change ((48%N :: b :: i :: bits) ++ sfx) with ([48%N; b] ++ (i :: bits) ++ sfx).
    apply (accept_from_match [48%N; b] (i :: bits) sfx rest 48%N (b :: ((i :: bits) ++ sfx) ++ rest)); try assumption; try reflexivity.
    - (* float *)
      change (([48%N; b] ++ (i :: bits) ++ sfx) ++ rest) with ([48%N] ++ (b :: ((i :: bits) ++ sfx) ++ rest)).
      apply (float_none_digits [48%N] _ (b :: ((i :: bits) ++ sfx) ++ rest)); try reflexivity;
        unfold is_bB in Hb; cbn [stops in_set existsb]; unfold isd, ascii_digit; try lia.
      replace (b <? 128)%N with true by lia. lia.
    - (* the pattern *)
      change (([48%N; b] ++ (i :: bits) ++ sfx) ++ rest) with (48%N :: b :: ((i :: bits) ++ sfx) ++ rest).
      rewrite int_match_zero; [|unfold is_bB in Hb; cbn [stops in_set existsb]; lia].
      assert (Esp : span (in_set [98; 66; 120; 88]%N) (b :: ((i :: bits) ++ sfx) ++ rest) = ([b], ((i :: bits) ++ sfx) ++ rest)).
      { change (b :: ((i :: bits) ++ sfx) ++ rest) with ([b] ++ (((i :: bits) ++ sfx) ++ rest)).
        apply span_app_stop; [unfold is_bB in Hb; cbn [forallb in_set existsb]; lia|].
        cbn [app]. now apply digit_stops_bx. }
      rewrite Esp. cbn [List.length int_prefixes firstn skipn app].
      assert (Eh : hexok_of [b] = false) by (unfold is_bB in Hb; cbn [hexok_of in_set existsb]; lia).
      rewrite Eh. change (i :: (bits ++ sfx) ++ rest) with (((i :: bits) ++ sfx) ++ rest). rewrite <- app_assoc.
      rewrite (int_const_dec (i :: bits) (sfx ++ rest) Hbd); [|discriminate|now apply tail_stops_isd].
      rewrite suffix_after_digits; [reflexivity|assumption|discriminate|assumption|assumption].
    - (* all characters plain *)
      change ([48%N; b] ++ (i :: bits) ++ sfx) with (48%N :: b :: (i :: bits) ++ sfx). cbn [forallb].
      rewrite forallb_app, Hsa, (alnum_digits (i :: bits) Hbd).
      assert (Hab : alnum b = true) by (unfold is_bB in Hb; unfold alnum, ascii_digit, ascii_alpha; lia).
      now rewrite Hab.
    - (* no INVALID_BIN_INT *)
      unfold prefix_clean.
      assert (Ep : str_in [48%N; b] [s "0b"; s "0B"] = true).
      { unfold is_bB in Hb. apply orb_true_iff in Hb as [Hb|Hb]; apply N.eqb_eq in Hb; subst b; reflexivity. }
      rewrite Ep. apply forallb_forall. intros y Hy. apply bin_in_bucket. rewrite forallb_forall in Hbits. now apply Hbits.
  Qed.

  (* ------------------------------------------------------------------ (4) hexadecimal *)
  Definition is_xX (c : N) : bool := ((c =? 120) || (c =? 88))%N.
  Definition Pbx : N -> bool := in_set [98; 66; 120; 88]%N.

  Lemma span_spec p : forall l a b, span p l = (a, b) -> l = a ++ b /\ forallb p a = true /\ stops p b = true.
  Proof.
    induction l as [|c l IH]; intros a b; cbn [span].
    - intros H; inversion H; subst. repeat split.
    - destruct (p c) eqn:E.
      + destruct (span p l) as [x y]. intros H; inversion H; subst. destruct (IH _ _ eq_refl) as [-> [H1 H2]].
        repeat split; [cbn [forallb]; now rewrite E|assumption].
      + intros H; inversion H; subst. repeat split. cbn [stops]. now rewrite E.
  Qed.

  Lemma hex_ishex c : is_hex c = true -> ishex ud c = true.
  Proof. unfold is_hex, is_dec, ishex, isd, ascii_digit. intros H. replace (c <? 128)%N with true by lia. lia. Qed.
  Lemma hex_alnum c : is_hex c = true -> alnum c = true.
  Proof. unfold is_hex, is_dec, alnum, ascii_digit, ascii_alpha. lia. Qed.
  Lemma hex_in_bucket c : is_hex c = true -> chr_in c (s "0123456789abcdefABCDEF") = true.
  Proof. unfold is_hex, is_dec. cbn [chr_in existsb s List.map list_ascii_of_string N_of_ascii N_of_digits]. lia. Qed.
  Lemma hex_not_x c : is_hex c = true -> in_set [120; 88]%N c = false.
  Proof. unfold is_hex, is_dec. cbn [in_set existsb]. lia. Qed.
  Lemma Pbx_not_digit c : Pbx c = true -> isd ud c = false.
  Proof. unfold Pbx, isd, ascii_digit. cbn [in_set existsb]. intros H. replace (c <? 128)%N with true by lia. lia. Qed.

  Lemma int_const_hex hs T : forallb is_hex hs = true -> hs <> [] -> tail_ok ud T = true ->
    int_const ud true (hs ++ T) = Some (hs, T).
  Proof.
    intros Hh Hne HT. unfold int_const.
    rewrite (span_app_stop (ishex ud) hs T); [|apply forallb_forall; intros y Hy; rewrite forallb_forall in Hh; apply hex_ishex, Hh; assumption|now apply tail_stops_ishex].
    destruct hs; [congruence|reflexivity].
  Qed.

  Lemma int_prefixes_S bx after j : int_prefixes ud bx after (S j) =
    match int_const ud (hexok_of (firstn (S j) bx)) (skipn (S j) bx ++ after) with
    | Some (c, r) => Some (firstn (S j) bx, c, r)
    | None => int_prefixes ud bx after j
    end.
  Proof. reflexivity. Qed.

  Lemma stops_skipn_nd l after : forallb (fun c => negb (isd ud c)) l = true -> stops (isd ud) after = true ->
    forall k, stops (isd ud) (skipn k l ++ after) = true.
  Proof.
    intros Hl Ha k. destruct (skipn k l) as [|c r] eqn:E; [exact Ha|].
    cbn [app stops]. rewrite forallb_forall in Hl. apply Hl. rewrite <- (firstn_skipn k l), E. apply in_or_app. right. now left.
  Qed.

  (* the backtracking over the greedy [bBxX]* prefix: every candidate longer than `0x` fails, `0x` succeeds *)
  Lemma int_prefixes_hex xc bs after const T :
    is_xX xc = true -> forallb Pbx bs = true ->
    (bs <> [] -> stops (isd ud) after = true) ->
    int_const ud true (bs ++ after) = Some (const, T) ->
    forall j, (j <= List.length bs)%nat -> int_prefixes ud (xc :: bs) after (S j) = Some ([xc], const, T).
  Proof.
    intros Hx Hbs Hst Hc. induction j as [|j IH]; intros Hj; rewrite int_prefixes_S.
    - cbn [firstn skipn]. assert (E : hexok_of [xc] = true) by (unfold is_xX in Hx; cbn [hexok_of in_set existsb]; lia).
      rewrite E, Hc. reflexivity.
    - destruct bs as [|b0 bs']; [cbn in Hj; lia|].
      cbn [firstn skipn]. change (hexok_of (xc :: b0 :: firstn j bs')) with false.
      rewrite int_const_none; [apply IH; lia|].
      apply stops_skipn_nd; [|apply Hst; discriminate].
      cbn [forallb] in Hbs. apply andb_true_iff in Hbs as [_ Hbs].
      apply forallb_forall. intros y Hy. rewrite forallb_forall in Hbs. now rewrite (Pbx_not_digit y (Hbs y Hy)).
  Qed.

  (* (K1) a leading run of b/B digits is not followed by a decimal digit: the shape that the pattern mis-split before the
     repair (no longer a guard of accept_hex_partial; kept for the relation with Spec.CConst.shape_k1);
     (E) after a last digit e/E the continuation does not start with + or -: the remaining guard *)
  Definition hex_guard_k1 (hs : str) : bool :=
    let (bs, tl) := span is_bB hs in
    match bs with [] => true | _ => match tl with c :: _ => negb (ascii_digit c) | [] => true end end.
  Definition hex_guard_e (hs rest : str) : bool :=
    negb (last_is (s "eE") hs) || match rest with c :: _ => negb (chr_in c (s "+-")) | [] => true end.

  Lemma span_ext p q l : (forall c, In c l -> p c = q c) -> span p l = span q l.
  Proof.
    induction l as [|c l IH]; intros H; [reflexivity|]. cbn [span]. rewrite <- (H c (or_introl eq_refl)).
    rewrite IH; [reflexivity|]. intros y Hy. apply H. now right.
  Qed.

  Lemma span_app_left p a b x y : span p a = (x, y) -> (y <> [] \/ stops p b = true) -> span p (a ++ b) = (x, y ++ b).
  Proof.
    intros Hs Hy. destruct (span_spec p a x y Hs) as [-> [Hx Hst]]. rewrite <- app_assoc.
    apply span_app_stop; [assumption|]. destruct y as [|c y]; [|exact Hst].
    destruct Hy as [Hy|Hy]; [congruence|exact Hy].
  Qed.

  Lemma int_suffix_e const c sfx rest : last_chr const = Some c -> in_set [101; 69]%N c = true ->
    forallb alnum sfx = true -> delim rest = true ->
    match rest with b :: _ => negb (chr_in b (s "+-")) | [] => true end = true ->
    int_suffix uw ud const (sfx ++ rest) = sfx.
  Proof.
    intros Hl Hc Hs Hd Hpm. unfold int_suffix. rewrite Hl, Hc.
    rewrite (span_app_stop (fun ch => isw uw ud ch || in_set [43; 45; 46]%N ch) sfx rest); [reflexivity| |].
    - apply forallb_forall. intros y Hy. rewrite forallb_forall in Hs. now rewrite (alnum_isw uw ud y (Hs y Hy)).
    - destruct rest as [|b r]; [reflexivity|]. cbn [delim stops] in Hd |- *. rewrite (delimc_isw uw ud b Hd).
      unfold delimc in Hd. cbn [chr_in in_set existsb s List.map list_ascii_of_string N_of_ascii N_of_digits] in Hpm |- *. lia.
  Qed.

  Lemma fhex_hexint xc hs T : is_xX xc = true -> forallb is_hex hs = true -> hs <> [] -> tail_ok ud T = true ->
    fhex_match uw ud (48%N :: xc :: hs ++ T) = Some (48%N :: [xc] ++ hs, [], suffix_run uw ud T).
  Proof.
    intros Hx Hh Hne HT. unfold fhex_match. lazy beta iota.
    assert (E1 : span (in_set [120; 88]%N) (xc :: hs ++ T) = ([xc], hs ++ T)).
    { change (xc :: hs ++ T) with ([xc] ++ (hs ++ T)). apply span_app_stop; [unfold is_xX in Hx; cbn [forallb in_set existsb]; lia|].
      destruct hs as [|h hs]; [congruence|]. cbn [app stops]. cbn [forallb] in Hh. apply andb_true_iff in Hh as [Hh _].
      now rewrite (hex_not_x h Hh). }
    rewrite E1. cbn [nonnil].
    rewrite (span_app_stop (ishex ud) hs T); [|apply forallb_forall; intros y Hy; rewrite forallb_forall in Hh; apply hex_ishex, Hh; assumption|now apply tail_stops_ishex].
    assert (En : nonnil hs = true) by (destruct hs; [congruence|reflexivity]). rewrite En.
    destruct T as [|c T']; [reflexivity|].
    assert (H46 : (c =? 46)%N = false) by (cbn [tail_ok] in HT; unfold tailc in HT; lia).
    pose proof (exp_match_none [112; 80]%N (isd ud) false _ (tail_stops_p ud _ HT)) as Hexp.
    clear HT E1. destruct c as [|p]; [lazy beta iota zeta; rewrite Hexp; reflexivity|].
    repeat (destruct p as [p|p|]; try (lazy beta iota zeta; rewrite Hexp; reflexivity)).
    discriminate H46.
  Qed.

  Lemma parse_float_hexint x const sr : fexp_match uw ud (rest x) = None -> ffrac_match uw ud (rest x) = None ->
    fhex_match uw ud (rest x) = Some (const, [], sr) -> chr_in 46%N const = false ->
    parse_float_literal uw ud x = PNone.
  Proof.
    intros H1 H2 H3 Hdot. unfold parse_float_literal. rewrite H1, H2, H3. destruct (rest x); [reflexivity|].
    cbv zeta. cbn [nonempty andb negb Nat.eqb]. rewrite Hdot. reflexivity.
  Qed.

  Lemma hex_no_dot hs : forallb is_hex hs = true -> chr_in 46%N hs = false.
  Proof.
    induction hs as [|c hs IH]; [reflexivity|]. cbn [forallb chr_in existsb]. intros H. apply andb_true_iff in H as [Hc H].
    unfold chr_in in IH. rewrite (IH H). unfold is_hex, is_dec in Hc. lia.
  Qed.

  Theorem accept_hex_partial : forall xc hs sfx rest,
    is_xX xc = true -> forallb is_hex hs = true -> hs <> [] ->
    str_in sfx integer_suffixes = true -> delim rest = true ->
    hex_guard_e hs rest = true ->
    lex_one_ok_u uw ud (s "CONSTANT") ((48%N :: xc :: hs) ++ sfx) rest.
  Proof.
    intros xc hs sfx rest Hx Hh Hne Hs Hdl He.
    pose proof (suffix_ok sfx Hs) as Hso. pose proof (tail_ok_app ud sfx rest Hso Hdl) as HT.
    assert (Hsa : forallb alnum sfx = true) by (unfold sfx_ok in Hso; lia).
    assert (Hxa : alnum xc = true) by (unfold is_xX in Hx; unfold alnum, ascii_digit, ascii_alpha; lia).
    assert (Hha : forallb alnum hs = true).
    { apply forallb_forall. intros y Hy. rewrite forallb_forall in Hh. now apply hex_alnum, Hh. }
    change ((48%N :: xc :: hs) ++ sfx) with ([48%N; xc] ++ hs ++ sfx).
    assert (Ew : ([48%N; xc] ++ hs ++ sfx) ++ rest = 48%N :: xc :: hs ++ (sfx ++ rest)).
    { cbn [app]. now rewrite <- app_assoc. }
    apply (accept_from_match [48%N; xc] hs sfx rest 48%N (xc :: (hs ++ sfx) ++ rest)); try assumption; try reflexivity.
    - (* float parser: "hexadecimal integer" *)
      apply (parse_float_hexint _ (48%N :: [xc] ++ hs) (suffix_run uw ud (sfx ++ rest))); cbn [Lexer.rest init]; try rewrite Ew.
      + change (48%N :: xc :: hs ++ sfx ++ rest) with ([48%N] ++ (xc :: hs ++ sfx ++ rest)).
        apply fexp_none; [reflexivity| |]; unfold is_xX in Hx; cbn [stops in_set existsb]; unfold isd, ascii_digit; [|lia].
        replace (xc <? 128)%N with true by lia. lia.
      + change (48%N :: xc :: hs ++ sfx ++ rest) with ([48%N] ++ (xc :: hs ++ sfx ++ rest)).
        apply ffrac_none; [reflexivity| |]; unfold is_xX in Hx; cbn [stops]; unfold isd, ascii_digit; [|lia].
        replace (xc <? 128)%N with true by lia. lia.
      + now apply fhex_hexint.
      + cbn [app chr_in existsb]. pose proof (hex_no_dot hs Hh) as Hd. unfold chr_in in Hd. rewrite Hd.
        unfold is_xX in Hx. lia.
    - (* the integer pattern *)
      rewrite Ew. unfold int_match.
      assert (Ehs : hex_start ud (48%N :: xc :: hs ++ sfx ++ rest) = true).
      { destruct hs as [|h hs']; [congruence|]. cbn [app hex_start]. cbn [forallb] in Hh. apply andb_true_iff in Hh as [Hh0 _].
        rewrite (hex_ishex h Hh0). unfold is_xX in Hx. cbn [in_set existsb]. lia. }
      rewrite Ehs. cbn [skipn firstn].
      rewrite (span_app_stop (ishex ud) hs (sfx ++ rest)); [|apply forallb_forall; intros y Hy; rewrite forallb_forall in Hh; apply hex_ishex, Hh; assumption|now apply tail_stops_ishex].
      destruct (last_chr_forall is_hex hs Hh Hne) as [c [Hl Hc]].
      destruct (in_set [101; 69]%N c) eqn:Ec.
      + rewrite (int_suffix_e hs c sfx rest Hl Ec Hsa Hdl); [reflexivity|].
        unfold hex_guard_e, last_is in He. unfold last_chr in Hl. destruct (rev hs) as [|c0 r0]; [discriminate|].
        inversion Hl; subst c0. change (chr_in c (s "eE")) with (in_set [101; 69]%N c) in He. rewrite Ec in He.
        cbn [negb orb] in He. exact He.
      + rewrite (int_suffix_plain hs c sfx rest Hl Ec Hsa Hdl). reflexivity.
    - (* all characters plain *)
      change ([48%N; xc] ++ hs ++ sfx) with (48%N :: xc :: hs ++ sfx). cbn [forallb]. rewrite Hxa, forallb_app, Hha, Hsa. reflexivity.
    - (* no INVALID_HEX_INT *)
      unfold prefix_clean.
      assert (E1 : str_in [48%N; xc] [s "0b"; s "0B"] = false).
      { unfold is_xX in Hx. apply orb_true_iff in Hx as [Hx|Hx]; apply N.eqb_eq in Hx; subst xc; reflexivity. }
      assert (E2 : str_eqb [48%N; xc] (s "0") = false) by reflexivity.
      assert (E3 : str_in [48%N; xc] [s "0x"; s "0X"] = true).
      { unfold is_xX in Hx. apply orb_true_iff in Hx as [Hx|Hx]; apply N.eqb_eq in Hx; subst xc; reflexivity. }
      rewrite E1, E2, E3. apply forallb_forall. intros y Hy. apply hex_in_bucket. rewrite forallb_forall in Hh. now apply Hh.
  Qed.
End Accept.

(* ------------------------------------------------------------------ the guards and the documented refuted shapes *)
Lemma k1_tail_run bs r : forallb is_bB bs = true -> forall seen,
  k1_tail (bs ++ r) seen = match bs with [] => k1_tail r seen | _ => k1_tail r true end.
Proof.
  induction bs as [|b bs IH]; intros H seen; [reflexivity|]. cbn [forallb] in H. apply andb_true_iff in H as [Hb H].
  cbn [app k1_tail]. unfold is_bB in Hb. rewrite Hb. rewrite (IH H true). destruct bs; reflexivity.
Qed.

(* hex_guard_k1 is exactly the negation of Spec.CConst.shape_k1 on 0x<digits><suffix> *)
Lemma hex_guard_k1_is_not_shape_k1 xc hs sfx : is_xX xc = true -> sfx_ok sfx = true ->
  shape_k1 ((48%N :: xc :: hs) ++ sfx) = negb (hex_guard_k1 hs).
Proof.
  intros Hx Hso. cbn [app shape_k1]. unfold is_xX in Hx. rewrite Hx. cbn [andb].
  unfold hex_guard_k1. destruct (span is_bB hs) as [bs tl] eqn:E.
  destruct (span_spec _ _ _ _ E) as [-> [Hbs Htl]]. rewrite <- app_assoc, (k1_tail_run bs _ Hbs).
  assert (Hsf : forall seen, k1_tail sfx seen = false).
  { intros seen. destruct sfx as [|a sfx]; [reflexivity|]. unfold sfx_ok in Hso. apply andb_true_iff in Hso as [_ Ha].
    cbn [k1_tail]. unfold sfx_head, ascii_alpha, is_dec in *.
    cbn [chr_in existsb s List.map list_ascii_of_string N_of_ascii N_of_digits] in Ha.
    replace ((a =? 98) || (a =? 66))%N with false by lia. lia. }
  destruct bs as [|b bs].
  - destruct tl as [|c tl]; cbn [app]; [now rewrite Hsf|]. cbn [k1_tail stops] in Htl |- *. unfold is_bB in Htl.
    apply negb_true_iff in Htl. now rewrite Htl.
  - destruct tl as [|c tl]; cbn [app]; [now rewrite Hsf|]. cbn [k1_tail stops] in Htl |- *. unfold is_bB in Htl.
    apply negb_true_iff in Htl. rewrite Htl. cbn [andb]. unfold is_dec, ascii_digit. now rewrite negb_involutive.
Qed.

(* hex_guard_e implies that the constant is not of the shape shape_hex_e_suffix.  It is stronger in one case only:
   last digit e/E, NO suffix, continuation starting with + or - (0x1e+1): that text is one preprocessing number in C,
   not a constant followed by an operator, and the tool reports MAXIMAL_MUNCH (family M4 of C11_reject). *)
Lemma hex_guard_e_not_shape xc hs sfx rest : forallb is_hex hs = true -> sfx_ok sfx = true ->
  hex_guard_e hs rest = true -> shape_hex_e_suffix ((48%N :: xc :: hs) ++ sfx) rest = false.
Proof.
  intros Hh Hso He. cbn [app shape_hex_e_suffix].
  assert (Esp : span is_hex (hs ++ sfx) = (hs, sfx)).
  { apply span_app_stop; [assumption|]. destruct sfx as [|a sfx]; [reflexivity|]. unfold sfx_ok in Hso.
    apply andb_true_iff in Hso as [_ Ha]. cbn [stops]. unfold sfx_head, ascii_alpha, is_hex, is_dec in *.
    cbn [chr_in existsb s List.map list_ascii_of_string N_of_ascii N_of_digits] in Ha. lia. }
  rewrite Esp. unfold hex_guard_e in He. apply orb_true_iff in He as [He|He].
  - apply negb_true_iff in He. rewrite He. cbn [andb]. now rewrite andb_false_r.
  - destruct rest as [|c r]; [now rewrite andb_false_r|]. apply negb_true_iff in He. rewrite He. now rewrite andb_false_r.
Qed.

(* ------------------------------------------------------------------ back to the boolean of Spec/CConst.v *)
Lemma lex_one_ok_of_u ty w rest : lex_one_ok_u nouni nouni ty w rest -> lex_one_ok ty w rest = true.
Proof.
  intros [x [Hs He]]. unfold lex_one_ok. rewrite Hs. cbn [t_type t_val]. rewrite !str_eqb_refl, !Nat.eqb_refl, He. reflexivity.
Qed.

(* ------------------------------------------------------------------ non-vacuity *)
Example accept_examples :
  (* 18446744073709551615ull *)
  nonzero_digit 49 = true /\ forallb ascii_digit (s "8446744073709551615") = true /\ str_in (s "ull") integer_suffixes = true
  /\ lex_one_ok (s "CONSTANT") (s "18446744073709551615ull") (s ";") = true
  (* 0777, 0 *)
  /\ forallb is_oct (s "777") = true /\ lex_one_ok (s "CONSTANT") (s "0777") (s ")") = true /\ lex_one_ok (s "CONSTANT") (s "0") [] = true
  (* 0b1010u *)
  /\ is_bB 98 = true /\ forallb is_bin (s "1010") = true /\ lex_one_ok (s "CONSTANT") (s "0b1010u") (s " ") = true
  (* 0xDEADBEEFul, 0xbbAul (b-run followed by a letter), 0x1e followed by `;` *)
  /\ is_xX 120 = true /\ forallb is_hex (s "DEADBEEF") = true /\ hex_guard_k1 (s "DEADBEEF") = true /\ hex_guard_e (s "DEADBEEF") (s "+1") = true
  /\ lex_one_ok (s "CONSTANT") (s "0xDEADBEEFul") (s "+1") = true
  /\ hex_guard_k1 (s "bbA") = true /\ hex_guard_k1 (s "b3ba") = false /\ hex_guard_e (s "1e") (s ";") = true /\ hex_guard_e (s "1e") (s "+1") = false
  /\ delim (s ";") = true /\ delim (s "+1") = true /\ delim [] = true /\ delim (s "x") = false /\ delim (s ".5") = false.
Proof. vm_compute. repeat split; reflexivity. Qed.

(* the same constants as INSTANCES of the unbounded theorems (hypotheses discharged by evaluation) *)
Example accept_decimal_instance : lex_one_ok (s "CONSTANT") (s "18446744073709551615ull") (s ";") = true.
Proof.
  apply lex_one_ok_of_u.
  exact (accept_decimal nouni nouni 49%N (s "8446744073709551615") (s "ull") (s ";") eq_refl eq_refl eq_refl eq_refl).
Qed.
Example accept_octal_instance : lex_one_ok (s "CONSTANT") (s "0777") (s ")") = true.
Proof. apply lex_one_ok_of_u. exact (accept_octal nouni nouni (s "777") [] (s ")") eq_refl eq_refl eq_refl). Qed.
Example accept_binary_instance : lex_one_ok (s "CONSTANT") (s "0b1010u") (s " ") = true.
Proof. apply lex_one_ok_of_u. exact (accept_binary nouni nouni 98%N 49%N (s "010") (s "u") (s " ") eq_refl eq_refl eq_refl eq_refl). Qed.
Example accept_hex_instance : lex_one_ok (s "CONSTANT") (s "0xDEADBEEFul") (s "+1") = true.
Proof.
  apply lex_one_ok_of_u.
  refine (accept_hex_partial nouni nouni 120%N (s "DEADBEEF") (s "ul") (s "+1") eq_refl eq_refl _ eq_refl eq_refl eq_refl).
  discriminate.
Qed.
(* the former finding K1: a run of b/B digits followed by a decimal digit *)
Example accept_hex_k1_instances :
  shape_k1 (s "0xb3ba") = true /\ lex_one_ok (s "CONSTANT") (s "0xb3ba") (s ";") = true /\
  shape_k1 (s "0XBB98Bl") = true /\ lex_one_ok (s "CONSTANT") (s "0XBB98Bl") (s ")") = true.
Proof.
  split; [reflexivity|]. split.
  - apply lex_one_ok_of_u.
    refine (accept_hex_partial nouni nouni 120%N (s "b3ba") [] (s ";") eq_refl eq_refl _ eq_refl eq_refl eq_refl). discriminate.
  - split; [reflexivity|]. apply lex_one_ok_of_u.
    refine (accept_hex_partial nouni nouni 88%N (s "BB98B") (s "l") (s ")") eq_refl eq_refl _ eq_refl eq_refl eq_refl). discriminate.
Qed.
