(* C01: CheckIdentifierName, CheckComment (Gen/NameChecks.v) and CheckLineCount (Gen/ScopeOps.line_count_run) - all regenerated
   from the source on every run - emit NOTHING on conforming statements.
     CheckIdentifierName: a function is declared at global scope (or inside a user defined type) and its name, and every
       variable name recorded in the scope, are written over [a-z0-9_] (G's lname / gname / tname ...);
     CheckComment: the statement's first line holds no comment at all (G has comments in the 42 header only), or - outside
       functions - every comment of the line is the first token after the blanks or is followed by blanks / comments only;
     CheckLineCount: its only diagnostic is guarded by `context.get_parent_rule() == "CheckFuncDeclarations"`, and no primary
       rule has that name: the check can never report, on any file (the history only holds names of primaries). *)
From NV Require Import Model.Base Model.Lexer Model.RuleChecks Model.NameBase Gen.NameChecks Model.ScopeBase Gen.ScopeOps Gen.Registry
  Proofs.StrOrder.
From Coq Require Import Lia.
Local Open Scope Z_scope.

(* ------------------------------------------------------------------ CheckIdentifierName *)
Definition legal_name (x : str) : bool := forallb (fun c => chr_in c ident_legal) x.

Lemma legal_filter x : legal_name x = true -> filter (fun c => negb (chr_in c ident_legal)) x = [].
Proof.
  induction x as [|c x IH]; cbn [legal_name forallb filter]; [reflexivity|]. intros H. apply andb_true_iff in H as [A B].
  rewrite A. cbn [negb]. now apply IH.
Qed.
Lemma legal_exists x : legal_name x = true -> existsb (fun c => negb (chr_in c ident_legal)) x = false.
Proof.
  induction x as [|c x IH]; cbn [legal_name forallb existsb]; [reflexivity|]. intros H. apply andb_true_iff in H as [A B].
  rewrite A. cbn [negb orb]. now apply IH.
Qed.

Theorem identifier_name_silent toks last glob udt fname fpos vars :
  (str_eqb last ident_func_rule = true -> (glob || udt) = true /\ exists f, fname = Some f /\ legal_name f = true) ->
  forallb (fun x => legal_name (fst (fst x))) vars = true ->
  check_identifier_name toks last glob udt fname fpos vars = Ok [].
Proof.
  intros Hf Hv. unfold check_identifier_name.
  assert (V : flat_map (fun x : str * Z * Z => if existsb (fun c => negb (chr_in c ident_legal)) (fst (fst x))
                                               then [(s "FORBIDDEN_CHAR_NAME", snd (fst x), snd x)] else []) vars = []).
  { induction vars as [|x vars IH]; [reflexivity|]. cbn [forallb flat_map] in *. apply andb_true_iff in Hv as [A B].
    rewrite (legal_exists _ A). cbn [app]. now apply IH. }
  destruct (str_eqb last ident_func_rule).
  - destruct (Hf eq_refl) as [G [f [-> L]]].
    replace (negb glob && negb udt) with false by (destruct glob, udt; cbn in *; congruence).
    cbn [bind]. rewrite (legal_filter _ L). cbn [emit_each bind app]. f_equal. exact V.
  - cbn [bind app]. f_equal. exact V.
Qed.

(* ------------------------------------------------------------------ CheckComment *)
Fixpoint comment_line_ok (first : bool) (l : list token) : bool :=
  match l with
  | [] => true
  | t :: r => (negb (str_in (t_type t) comment_types) || first || comment_is_last r) && comment_line_ok false r
  end.

Lemma comment_scan_quiet : forall l first, comment_line_ok first l = true -> comment_scan false first l = [].
Proof.
  induction l as [|t r IH]; intros first H; [reflexivity|]. cbn [comment_line_ok comment_scan] in *.
  apply andb_true_iff in H as [A B]. rewrite (IH false B), app_nil_r.
  destruct (str_in (t_type t) comment_types); [|reflexivity]. cbn [negb orb] in A. rewrite A. reflexivity.
Qed.

(* outside functions: every comment first on its line or followed by blanks / comments only *)
Theorem comment_silent toks hist cls : comment_inside_function hist cls = false ->
  comment_line_ok true (collect_line toks (skip_ws toks 0)) = true -> check_comment toks hist cls = [].
Proof. intros Hi Hl. unfold check_comment. rewrite Hi. now apply comment_scan_quiet. Qed.

(* anywhere: a line without comment tokens (every statement of G below the 42 header) *)
Lemma comment_scan_no_comment inside : forall l first, forallb (fun t => negb (str_in (t_type t) comment_types)) l = true ->
  comment_scan inside first l = [].
Proof.
  induction l as [|t r IH]; intros first H; [reflexivity|]. cbn [forallb comment_scan] in *. apply andb_true_iff in H as [A B].
  apply negb_true_iff in A. rewrite A, (IH false B). reflexivity.
Qed.
Lemma take_line_sub (P : token -> bool) : forall l, forallb P l = true -> forallb P (take_line l) = true.
Proof.
  induction l as [|t r IH]; [reflexivity|]. cbn [forallb take_line]. intros H. apply andb_true_iff in H as [A B].
  destruct (str_eqb (t_type t) (s "NEWLINE")); [reflexivity|]. cbn [forallb]. now rewrite A, IH.
Qed.
Lemma forallb_skipn {A} (P : A -> bool) n : forall l, forallb P l = true -> forallb P (skipn n l) = true.
Proof. induction n as [|n IH]; intros l H; [exact H|]. destruct l as [|x l]; [reflexivity|]. cbn [skipn forallb] in *. apply IH. now apply andb_true_iff in H as [_ H]. Qed.

Theorem comment_silent_no_comments toks hist cls : forallb (fun t => negb (str_in (t_type t) comment_types)) toks = true ->
  check_comment toks hist cls = [].
Proof.
  intros H. unfold check_comment. apply comment_scan_no_comment. unfold collect_line.
  destruct (skip_ws toks 0 <? 0); [reflexivity|]. apply take_line_sub. now apply forallb_skipn.
Qed.

(* ------------------------------------------------------------------ CheckLineCount *)
Definition r_cfd' : str := s "CheckFuncDeclarations".
Lemma no_primary_is_cfd : forallb (fun p => negb (str_eqb (p_name p) r_cfd')) primaries = true.
Proof. vm_compute. reflexivity. Qed.

Definition is_primary (r : str) : bool := existsb (fun p => str_eqb (p_name p) r) primaries.

Lemma primary_not_cfd r : is_primary r = true -> str_eqb r r_cfd' = false.
Proof.
  unfold is_primary. intros H. apply existsb_exists in H as [p [Hin E]]. apply str_eqb_eq in E. subst r.
  pose proof no_primary_is_cfd as A. rewrite forallb_forall in A. specialize (A _ Hin). now apply negb_true_iff in A.
Qed.

(* the history holds names of primaries (run_rules appends the rule that matched): the parent rule is never the guard's name *)
Theorem line_count_silent glob hist lines nl : forallb is_primary hist = true ->
  snd (line_count_run glob (parent_rule hist) lines nl) = [].
Proof.
  intros H. unfold line_count_run. cbv zeta.
  assert (P : str_eqb (parent_rule hist) (s "CheckFuncDeclarations") = false).
  { unfold parent_rule. destruct hist as [|a [|b r]]; [reflexivity| |]; cbn [forallb] in H.
    - apply andb_true_iff in H as [A _]. exact (primary_not_cfd _ A).
    - apply andb_true_iff in H as [_ H]. apply andb_true_iff in H as [B _]. exact (primary_not_cfd _ B). }
  rewrite P. cbn [andb]. destruct glob; reflexivity.
Qed.
