(* C03, the three counters: unbounded theorems about Gen/Counters.v (argument counter: token level) and
   Model/CounterTrace.v (functions / vars on top of the scope-trace model). *)
From NV Require Import Model.Base Model.RuleChecks Model.CounterBase Gen.Counters Proofs.StrOrder Proofs.RuleChecksProofs.
From Coq Require Import Lia.
Local Open Scope Z_scope.

(* ------------------------------------------------------------------ tokens in the middle of a list *)
Lemma peek_mid pre t post : peek (pre ++ t :: post) (zlen pre) = Some t.
Proof.
  rewrite peek_nonneg by apply zlen_nonneg. unfold zlen. rewrite app_length. cbn [Datatypes.length].
  destruct (Z.ltb_spec (Z.of_nat (Datatypes.length pre)) (Z.of_nat (Datatypes.length pre + S (Datatypes.length post)))); [|lia].
  rewrite Nat2Z.id, nth_error_app2 by lia. now rewrite Nat.sub_diag.
Qed.
Lemma zlen_app {A} (a b : list A) : zlen (a ++ b) = zlen a + zlen b.
Proof. unfold zlen. rewrite app_length. lia. Qed.
Lemma zlen_cons {A} (x : A) l : zlen (x :: l) = 1 + zlen l.
Proof. unfold zlen. cbn [Datatypes.length]. lia. Qed.

Ltac zl := repeat (rewrite zlen_app || rewrite zlen_cons); unfold zlen; cbn [Datatypes.length Z.of_nat]; lia.

(* ------------------------------------------------------------------ balanced token sequences and skip_nest *)
Definition is_open (t : token) : bool := str_in (t_type t) nest_openers.
Definition is_close (t : token) : bool := str_in (t_type t) nest_closers.

Inductive bal : list token -> Prop :=
| bal_nil : bal []
| bal_tok : forall t l, is_open t = false -> is_close t = false -> bal l -> bal (t :: l)
| bal_grp : forall o c g l, closer_of (t_type o) = Some (t_type c) -> bal g -> bal l -> bal (o :: g ++ c :: l).

Lemma closer_of_spec ty c : closer_of ty = Some c ->
  str_in ty nest_openers = true /\ str_in c nest_openers = false /\ str_in c nest_closers = true.
Proof.
  unfold closer_of. destruct (str_eqb ty (s "LBRACKET")) eqn:A; [apply str_eqb_eq in A; intros H; inversion H; subst; repeat split; reflexivity|].
  destruct (str_eqb ty (s "LBRACE")) eqn:B; [apply str_eqb_eq in B; intros H; inversion H; subst; repeat split; reflexivity|].
  destruct (str_eqb ty (s "LPARENTHESIS")) eqn:C; [apply str_eqb_eq in C; intros H; inversion H; subst; repeat split; reflexivity|].
  discriminate.
Qed.
Lemma closer_of_none ty : str_in ty nest_openers = false -> closer_of ty = None.
Proof.
  unfold str_in, nest_openers, closer_of. cbn [existsb]. rewrite orb_false_r. intros H.
  apply orb_false_iff in H as [A H]. apply orb_false_iff in H as [B C]. now rewrite A, B, C.
Qed.

(* scanning a balanced sequence for the closer c that follows it *)
Lemma scan_bal : forall l, bal l -> forall fuel pre c tc post,
  t_type tc = c -> str_in c nest_openers = false -> str_in c nest_closers = true -> (List.length l < fuel)%nat ->
  nest_scan_f fuel (pre ++ l ++ tc :: post) c (zlen pre) = Ok (zlen pre + zlen l).
Proof.
  induction 1 as [|t l Ho Hc Hl IH|o c0 g l Hoc Hg IHg Hl IHl]; intros fuel pre c tc post Htc Hno Hcl Hf.
  - destruct fuel as [|f]; [inversion Hf|]. cbn [app nest_scan_f]. rewrite peek_mid. rewrite Htc, Hno, Hcl, str_eqb_refl. cbn [andb].
    f_equal. zl.
  - destruct fuel as [|f]; [inversion Hf|]. cbn [app nest_scan_f]. rewrite peek_mid. unfold is_open in Ho. unfold is_close in Hc. rewrite Ho, Hc. cbn [andb].
    replace (pre ++ t :: l ++ tc :: post) with ((pre ++ [t]) ++ l ++ tc :: post) by (rewrite <- app_assoc; reflexivity).
    replace (zlen pre + 1) with (zlen (pre ++ [t])) by (rewrite zlen_app; reflexivity).
    rewrite IH; [|assumption|assumption|assumption|cbn [Datatypes.length] in Hf; lia]. f_equal. zl.
  - destruct (closer_of_spec _ _ Hoc) as [Hoo [Hcn Hcc]].
    destruct fuel as [|f]; [inversion Hf|]. cbn [app nest_scan_f]. rewrite peek_mid. rewrite Hoo.
    assert (Hlen : (Datatypes.length (o :: g ++ c0 :: l) = S (Datatypes.length g + S (Datatypes.length l)))%nat)
      by (cbn [Datatypes.length]; rewrite app_length; reflexivity).
    rewrite Hlen in Hf.
    destruct f as [|f']; [lia|]. cbn [skip_nest_f]. rewrite peek_mid, Hoc.
    replace (pre ++ o :: (g ++ c0 :: l) ++ tc :: post) with ((pre ++ [o]) ++ g ++ c0 :: (l ++ tc :: post)).
    2:{ rewrite <- ?app_assoc. cbn [app]. rewrite <- ?app_assoc. cbn [app]. reflexivity. }
    replace (zlen pre + 1) with (zlen (pre ++ [o])) by (rewrite zlen_app; reflexivity).
    rewrite IHg; [|reflexivity|assumption|assumption|lia].
    replace ((pre ++ [o]) ++ g ++ c0 :: l ++ tc :: post) with ((pre ++ o :: g ++ [c0]) ++ l ++ tc :: post).
    2:{ rewrite <- ?app_assoc. cbn [app]. rewrite <- ?app_assoc. cbn [app]. reflexivity. }
    replace (zlen (pre ++ [o]) + zlen g + 1) with (zlen (pre ++ o :: g ++ [c0])).
    2:{ zl. }
    rewrite IHl; [|assumption|assumption|assumption|lia]. f_equal.
    zl.
Qed.

(* skip_nest on an opening bracket followed by a balanced sequence and its closer: the index of that closer *)
Lemma skip_nest_group pre o g c post : closer_of (t_type o) = Some (t_type c) -> bal g ->
  skip_nest (pre ++ o :: g ++ c :: post) (zlen pre) = Ok (zlen pre + 1 + zlen g).
Proof.
  intros Hoc Hg. destruct (closer_of_spec _ _ Hoc) as [Hoo [Hcn Hcc]]. unfold skip_nest, loop_fuel. cbn [skip_nest_f].
  rewrite peek_mid, Hoc.
  replace (pre ++ o :: g ++ c :: post) with ((pre ++ [o]) ++ g ++ c :: post) by (rewrite <- app_assoc; reflexivity).
  replace (zlen pre + 1) with (zlen (pre ++ [o])) by (rewrite zlen_app; reflexivity).
  rewrite scan_bal; [reflexivity|assumption|reflexivity|assumption|assumption|].
  rewrite ?app_length. cbn [Datatypes.length]. rewrite ?app_length. cbn [Datatypes.length]. lia.
Qed.

(* ------------------------------------------------------------------ the parameter list *)
Definition ty_lpar := s "LPARENTHESIS".
Definition ty_rpar := s "RPARENTHESIS".
Definition ty_comma := s "COMMA".

(* the tokens between the parentheses of a parameter list, with n top-level commas: plain tokens (anything but parentheses
   and commas: brackets, `*`, `void`, identifiers ...), commas, and parenthesised groups holding any balanced sequence
   (function pointers, nested parentheses, commas inside them do not count) *)
Inductive plist : list token -> Z -> Prop :=
| pl_nil : plist [] 0
| pl_tok : forall t l n, str_in (t_type t) [ty_lpar; ty_rpar; ty_comma] = false -> plist l n -> plist (t :: l) n
| pl_comma : forall t l n, t_type t = ty_comma -> plist l n -> plist (t :: l) (n + 1)
| pl_grp : forall o c g l n, t_type o = ty_lpar -> t_type c = ty_rpar -> bal g -> plist l n -> plist (o :: g ++ c :: l) n.

Lemma plist_nonneg l n : plist l n -> 0 <= n.
Proof. induction 1; lia. Qed.

Lemma loop_fuel_ge (toks : list token) : (2 * Datatypes.length toks < loop_fuel toks)%nat.
Proof. unfold loop_fuel. lia. Qed.

Lemma ok5 (a1 a2 x y d1 d2 : Z) (E : list em) (v : view) : a1 = a2 -> x = y -> d1 = d2 ->
  @Ok (Z * Z * Z * list em * view) (a1, x, d1, E, v) = Ok (a2, y, d2, E, v).
Proof. now intros -> -> ->. Qed.
Lemma ok3 (a1 a2 x y : Z) (E : list em) : a1 = a2 -> x = y -> @Ok (Z * Z * list em) (a1, x, E) = Ok (a2, y, E).
Proof. now intros -> ->. Qed.
Ltac fin5 := apply ok5; [lia|zl|reflexivity].
Ltac fin3 := apply ok3; [lia|zl].

Lemma args_loop : forall l n, plist l n -> forall fuel pre rp post scope a E v,
  t_type rp = ty_rpar -> (Datatypes.length l + 1 < fuel)%nat ->
  check_func_decl_args_loop1 fuel (pre ++ l ++ rp :: post) scope a (zlen pre) 1 E v
  = Ok (a + n, zlen pre + zlen l + 1, 0, E, v).
Proof.
  induction 1 as [|t l n Ht Hl IH|t l n Ht Hl IH|o c g l n Ho Hc Hg Hl IH]; intros fuel pre rp post scope a E v Hrp Hf.
  - destruct fuel as [|[|f]]; [inversion Hf|cbn in Hf; lia|]. cbn [app check_func_decl_args_loop1]. cbv zeta.
    rewrite peek_mid. cbn [is_none negb andb]. replace (1 >? 0) with true by reflexivity. cbn [andb].
    rewrite !(check1_some _ _ _ _ (peek_mid pre rp post)), Hrp.
    replace (str_eqb ty_rpar (s "LPARENTHESIS")) with false by reflexivity. replace (str_eqb ty_rpar (s "RPARENTHESIS")) with true by reflexivity.
    cbn [truthy]. replace (1 - 1 >? 0) with false by reflexivity. cbn [andb]. fin5.
  - destruct fuel as [|f]; [inversion Hf|]. cbn [app check_func_decl_args_loop1]. cbv zeta.
    rewrite peek_mid. cbn [is_none negb]. replace (1 >? 0) with true by reflexivity. cbn [andb].
    rewrite !(check1_some _ _ _ _ (peek_mid pre t (l ++ rp :: post))).
    cbn [str_in existsb] in Ht. apply orb_false_iff in Ht as [A Ht]. apply orb_false_iff in Ht as [B Ht]. apply orb_false_iff in Ht as [C _].
    unfold ty_lpar, ty_rpar, ty_comma in A, B, C. rewrite A, B, C. cbn [truthy].
    replace (pre ++ t :: l ++ rp :: post) with ((pre ++ [t]) ++ l ++ rp :: post) by (rewrite <- app_assoc; reflexivity).
    replace (zlen pre + 1) with (zlen (pre ++ [t])) by zl.
    rewrite IH; [|exact Hrp|cbn [Datatypes.length] in Hf; lia]. fin5.
  - destruct fuel as [|f]; [inversion Hf|]. cbn [app check_func_decl_args_loop1]. cbv zeta.
    rewrite peek_mid. cbn [is_none negb]. replace (1 >? 0) with true by reflexivity. cbn [andb].
    rewrite !(check1_some _ _ _ _ (peek_mid pre t (l ++ rp :: post))), Ht.
    replace (str_eqb ty_comma (s "LPARENTHESIS")) with false by reflexivity. replace (str_eqb ty_comma (s "RPARENTHESIS")) with false by reflexivity.
    replace (str_eqb ty_comma (s "COMMA")) with true by reflexivity. cbn [truthy].
    replace (pre ++ t :: l ++ rp :: post) with ((pre ++ [t]) ++ l ++ rp :: post) by (rewrite <- app_assoc; reflexivity).
    replace (zlen pre + 1) with (zlen (pre ++ [t])) by zl.
    rewrite IH; [|exact Hrp|cbn [Datatypes.length] in Hf; lia]. fin5.
  - destruct fuel as [|f]; [inversion Hf|]. cbn [app check_func_decl_args_loop1]. cbv zeta.
    rewrite peek_mid. cbn [is_none negb]. replace (1 >? 0) with true by reflexivity. cbn [andb].
    rewrite (check1_some _ _ _ _ (peek_mid pre o ((g ++ c :: l) ++ rp :: post))), Ho.
    replace (str_eqb ty_lpar (s "LPARENTHESIS")) with true by reflexivity. cbn [truthy].
    assert (Hoc : closer_of (t_type o) = Some (t_type c)) by (rewrite Ho, Hc; reflexivity).
    replace (pre ++ o :: (g ++ c :: l) ++ rp :: post) with (pre ++ o :: g ++ c :: (l ++ rp :: post)).
    2:{ rewrite <- ?app_assoc. cbn [app]. reflexivity. }
    rewrite (skip_nest_group pre o g c (l ++ rp :: post) Hoc Hg). cbn [bind].
    replace (pre ++ o :: g ++ c :: l ++ rp :: post) with ((pre ++ o :: g ++ [c]) ++ l ++ rp :: post).
    2:{ rewrite <- ?app_assoc. cbn [app]. rewrite <- ?app_assoc. cbn [app]. reflexivity. }
    replace (zlen pre + 1 + zlen g + 1) with (zlen (pre ++ o :: g ++ [c])) by zl.
    rewrite IH; [|exact Hrp|]. 
    + fin5.
    + cbn [Datatypes.length] in Hf. rewrite app_length in Hf. cbn [Datatypes.length] in Hf. lia.
Qed.

(* CheckFuncDeclaration's parameter count on `name ( l ) tp ...` with fname_pos at the name: the counter ends at 1 + the number of
   top-level commas, and TOO_MANY_ARGS is reported (at the token after the closing parenthesis) iff that exceeds the limit.
   `(void)` and `()` have no comma: they count as ONE parameter (never reported, the limit being 4). *)
Theorem args_iff : forall pre name lp l n rp tp post scope v,
  t_type lp = ty_lpar -> t_type rp = ty_rpar -> plist l n ->
  check_func_decl_args (pre ++ name :: lp :: l ++ rp :: tp :: post) scope (zlen pre) v
  = Ok (args_start + n, zlen pre + 2 + zlen l + 1,
        if args_start + n >? args_limit then [(s "TOO_MANY_ARGS", t_line tp, t_col tp)] else []).
Proof.
  intros pre name lp l n rp tp post scope v Hlp Hrp Hl.
  unfold check_func_decl_args. cbv zeta.
  set (toks := pre ++ name :: lp :: l ++ rp :: tp :: post).
  assert (Plp : peek toks (zlen pre + 1) = Some lp).
  { unfold toks. replace (pre ++ name :: lp :: l ++ rp :: tp :: post) with ((pre ++ [name]) ++ lp :: l ++ rp :: tp :: post) by (rewrite <- app_assoc; reflexivity).
    replace (zlen pre + 1) with (zlen (pre ++ [name])) by zl. apply peek_mid. }
  (* no `)` directly after the name, the `(` is there, it is no blank *)
  rewrite (skip_while_run toks _ (zlen pre + 1) 0).
  2:{ intros j Hj. lia. }
  2:{ cbn [Z.of_nat]. rewrite Z.add_0_r. rewrite (checkl_some _ _ _ _ Plp), Hlp. reflexivity. }
  2:{ intros j Hp _. unfold checkl in Hp. destruct (peek toks j) eqn:Q; [|discriminate].
      destruct (Z.ltb_spec j 0); [pose proof (zlen_nonneg toks); lia|]. eapply peek_some_lt; eassumption. }
  2:{ pose proof (zlen_nonneg pre). lia. }
  cbn [Z.of_nat]. rewrite Z.add_0_r. rewrite (check1_some _ _ _ _ Plp), Hlp.
  replace (str_eqb ty_lpar (s "LPARENTHESIS")) with true by reflexivity. cbn [is_false].
  unfold skip_ws. rewrite (skip_while_run toks _ (zlen pre + 1) 0).
  2:{ intros j Hj. lia. }
  2:{ cbn [Z.of_nat]. rewrite Z.add_0_r. rewrite (checkl_some _ _ _ _ Plp), Hlp. reflexivity. }
  2:{ intros j Hp _. unfold checkl in Hp. destruct (peek toks j) eqn:Q; [|discriminate].
      destruct (Z.ltb_spec j 0); [pose proof (zlen_nonneg toks); lia|]. eapply peek_some_lt; eassumption. }
  2:{ pose proof (zlen_nonneg pre). lia. }
  cbn [Z.of_nat]. rewrite Z.add_0_r.
  unfold toks at 2. replace (pre ++ name :: lp :: l ++ rp :: tp :: post) with ((pre ++ [name; lp]) ++ l ++ rp :: tp :: post).
  2:{ rewrite <- app_assoc. reflexivity. }
  replace (zlen pre + 1 + 1) with (zlen (pre ++ [name; lp])) by zl.
  rewrite (args_loop l n Hl).
  2:{ exact Hrp. }
  2:{ pose proof (loop_fuel_ge toks). unfold toks in *. rewrite !app_length in *. cbn [Datatypes.length] in *. rewrite !app_length in *. cbn [Datatypes.length] in *. lia. }
  cbn [bind]. unfold args_start, args_limit.
  assert (Ptp : peek toks (zlen (pre ++ [name; lp]) + zlen l + 1) = Some tp).
  { unfold toks. replace (pre ++ name :: lp :: l ++ rp :: tp :: post) with ((pre ++ name :: lp :: l ++ [rp]) ++ tp :: post).
    2:{ rewrite <- ?app_assoc. cbn [app]. rewrite <- ?app_assoc. reflexivity. }
    replace (zlen (pre ++ [name; lp]) + zlen l + 1) with (zlen (pre ++ name :: lp :: l ++ [rp])) by zl. apply peek_mid. }
  destruct (1 + n >? 4).
  - rewrite Ptp. cbn [emit bind app]. fin3.
  - fin3.
Qed.
