(* C03, the three counters: unbounded theorems about Gen/Counters.v (argument counter: token level) and
   Model/CounterTrace.v (functions / vars on top of the scope-trace model). *)
From NV Require Import Model.Base Model.RuleChecks Model.CounterBase Gen.Counters Proofs.StrOrder Proofs.RuleChecksProofs.
From NV Require Import Model.ScopeBase Gen.ScopeOps Model.ScopeTrace Model.ScopeBody Model.CounterTrace Proofs.ScopeTraceProofs.
From NV Require Gen.Limits Gen.Registry.
From Coq Require Import Lia.
Local Open Scope Z_scope.

(* ------------------------------------------------------------------ tokens in the middle of a list *)
Lemma peek_mid pre t post : peek (pre ++ t :: post) (zlen pre) = Some t.
Proof.
  rewrite peek_nonneg by apply zlen_nonneg. unfold zlen. rewrite app_length. cbn [Datatypes.length].
  destruct (Z.ltb_spec (Z.of_nat (Datatypes.length pre)) (Z.of_nat (Datatypes.length pre + S (Datatypes.length post)))); [|lia].
  rewrite Nat2Z.id, nth_error_app2 by lia. now rewrite Nat.sub_diag.
Qed.
Lemma zlen_app {A} (a b : list A) : zlen (a ++ b) = zlen a + zlen b.
Proof. unfold zlen. rewrite app_length. lia. Qed.
Lemma zlen_cons {A} (x : A) l : zlen (x :: l) = 1 + zlen l.
Proof. unfold zlen. cbn [Datatypes.length]. lia. Qed.

Ltac zl := repeat (rewrite zlen_app || rewrite zlen_cons); unfold zlen; cbn [Datatypes.length Z.of_nat]; lia.

(* ------------------------------------------------------------------ balanced token sequences and skip_nest *)
Definition is_open (t : token) : bool := str_in (t_type t) nest_openers.
Definition is_close (t : token) : bool := str_in (t_type t) nest_closers.

Inductive bal : list token -> Prop :=
| bal_nil : bal []
| bal_tok : forall t l, is_open t = false -> is_close t = false -> bal l -> bal (t :: l)
| bal_grp : forall o c g l, closer_of (t_type o) = Some (t_type c) -> bal g -> bal l -> bal (o :: g ++ c :: l).

Lemma closer_of_spec ty c : closer_of ty = Some c ->
  str_in ty nest_openers = true /\ str_in c nest_openers = false /\ str_in c nest_closers = true.
Proof.
  unfold closer_of. destruct (str_eqb ty (s "LBRACKET")) eqn:A; [apply str_eqb_eq in A; intros H; inversion H; subst; repeat split; reflexivity|].
  destruct (str_eqb ty (s "LBRACE")) eqn:B; [apply str_eqb_eq in B; intros H; inversion H; subst; repeat split; reflexivity|].
  destruct (str_eqb ty (s "LPARENTHESIS")) eqn:C; [apply str_eqb_eq in C; intros H; inversion H; subst; repeat split; reflexivity|].
  discriminate.
Qed.
Lemma closer_of_none ty : str_in ty nest_openers = false -> closer_of ty = None.
Proof.
  unfold str_in, nest_openers, closer_of. cbn [existsb]. rewrite orb_false_r. intros H.
  apply orb_false_iff in H as [A H]. apply orb_false_iff in H as [B C]. now rewrite A, B, C.
Qed.

(* scanning a balanced sequence for the closer c that follows it *)
Lemma scan_bal : forall l, bal l -> forall fuel pre c tc post,
  t_type tc = c -> str_in c nest_openers = false -> str_in c nest_closers = true -> (List.length l < fuel)%nat ->
  nest_scan_f fuel (pre ++ l ++ tc :: post) c (zlen pre) = Ok (zlen pre + zlen l).
Proof.
  induction 1 as [|t l Ho Hc Hl IH|o c0 g l Hoc Hg IHg Hl IHl]; intros fuel pre c tc post Htc Hno Hcl Hf.
  - destruct fuel as [|f]; [inversion Hf|]. cbn [app nest_scan_f]. rewrite peek_mid. rewrite Htc, Hno, Hcl, str_eqb_refl. cbn [andb].
    f_equal. zl.
  - destruct fuel as [|f]; [inversion Hf|]. cbn [app nest_scan_f]. rewrite peek_mid. unfold is_open in Ho. unfold is_close in Hc. rewrite Ho, Hc. cbn [andb].
    replace (pre ++ t :: l ++ tc :: post) with ((pre ++ [t]) ++ l ++ tc :: post) by (rewrite <- app_assoc; reflexivity).
    replace (zlen pre + 1) with (zlen (pre ++ [t])) by (rewrite zlen_app; reflexivity).
    rewrite IH; [|assumption|assumption|assumption|cbn [Datatypes.length] in Hf; lia]. f_equal. zl.
  - destruct (closer_of_spec _ _ Hoc) as [Hoo [Hcn Hcc]].
    destruct fuel as [|f]; [inversion Hf|]. cbn [app nest_scan_f]. rewrite peek_mid. rewrite Hoo.
    assert (Hlen : (Datatypes.length (o :: g ++ c0 :: l) = S (Datatypes.length g + S (Datatypes.length l)))%nat)
      by (cbn [Datatypes.length]; rewrite app_length; reflexivity).
    rewrite Hlen in Hf.
    destruct f as [|f']; [lia|]. cbn [skip_nest_f]. rewrite peek_mid, Hoc.
    replace (pre ++ o :: (g ++ c0 :: l) ++ tc :: post) with ((pre ++ [o]) ++ g ++ c0 :: (l ++ tc :: post)).
    2:{ rewrite <- ?app_assoc. cbn [app]. rewrite <- ?app_assoc. cbn [app]. reflexivity. }
    replace (zlen pre + 1) with (zlen (pre ++ [o])) by (rewrite zlen_app; reflexivity).
    rewrite IHg; [|reflexivity|assumption|assumption|lia].
    replace ((pre ++ [o]) ++ g ++ c0 :: l ++ tc :: post) with ((pre ++ o :: g ++ [c0]) ++ l ++ tc :: post).
    2:{ rewrite <- ?app_assoc. cbn [app]. rewrite <- ?app_assoc. cbn [app]. reflexivity. }
    replace (zlen (pre ++ [o]) + zlen g + 1) with (zlen (pre ++ o :: g ++ [c0])).
    2:{ zl. }
    rewrite IHl; [|assumption|assumption|assumption|lia]. f_equal.
    zl.
Qed.

(* skip_nest on an opening bracket followed by a balanced sequence and its closer: the index of that closer *)
Lemma skip_nest_group pre o g c post : closer_of (t_type o) = Some (t_type c) -> bal g ->
  skip_nest (pre ++ o :: g ++ c :: post) (zlen pre) = Ok (zlen pre + 1 + zlen g).
Proof.
  intros Hoc Hg. destruct (closer_of_spec _ _ Hoc) as [Hoo [Hcn Hcc]]. unfold skip_nest, loop_fuel. cbn [skip_nest_f].
  rewrite peek_mid, Hoc.
  replace (pre ++ o :: g ++ c :: post) with ((pre ++ [o]) ++ g ++ c :: post) by (rewrite <- app_assoc; reflexivity).
  replace (zlen pre + 1) with (zlen (pre ++ [o])) by (rewrite zlen_app; reflexivity).
  rewrite scan_bal; [reflexivity|assumption|reflexivity|assumption|assumption|].
  rewrite ?app_length. cbn [Datatypes.length]. rewrite ?app_length. cbn [Datatypes.length]. lia.
Qed.

(* ------------------------------------------------------------------ the parameter list *)
Definition ty_lpar := s "LPARENTHESIS".
Definition ty_rpar := s "RPARENTHESIS".
Definition ty_comma := s "COMMA".

(* the tokens between the parentheses of a parameter list, with n top-level commas: plain tokens (anything but parentheses
   and commas: brackets, `*`, `void`, identifiers ...), commas, and parenthesised groups holding any balanced sequence
   (function pointers, nested parentheses, commas inside them do not count) *)
Inductive plist : list token -> Z -> Prop :=
| pl_nil : plist [] 0
| pl_tok : forall t l n, str_in (t_type t) [ty_lpar; ty_rpar; ty_comma] = false -> plist l n -> plist (t :: l) n
| pl_comma : forall t l n, t_type t = ty_comma -> plist l n -> plist (t :: l) (n + 1)
| pl_grp : forall o c g l n, t_type o = ty_lpar -> t_type c = ty_rpar -> bal g -> plist l n -> plist (o :: g ++ c :: l) n.

Lemma plist_nonneg l n : plist l n -> 0 <= n.
Proof. induction 1; lia. Qed.

Lemma loop_fuel_ge (toks : list token) : (2 * Datatypes.length toks < loop_fuel toks)%nat.
Proof. unfold loop_fuel. lia. Qed.

Lemma ok5 (a1 a2 x y d1 d2 : Z) (E : list em) (v : view) : a1 = a2 -> x = y -> d1 = d2 ->
  @Ok (Z * Z * Z * list em * view) (a1, x, d1, E, v) = Ok (a2, y, d2, E, v).
Proof. now intros -> -> ->. Qed.
Lemma ok3 (a1 a2 x y : Z) (E : list em) : a1 = a2 -> x = y -> @Ok (Z * Z * list em) (a1, x, E) = Ok (a2, y, E).
Proof. now intros -> ->. Qed.
Ltac fin5 := apply ok5; [lia|zl|reflexivity].
Ltac fin3 := apply ok3; [lia|zl].

Lemma args_loop : forall l n, plist l n -> forall fuel pre rp post scope a E v,
  t_type rp = ty_rpar -> (Datatypes.length l + 1 < fuel)%nat ->
  check_func_decl_args_loop1 fuel (pre ++ l ++ rp :: post) scope a (zlen pre) 1 E v
  = Ok (a + n, zlen pre + zlen l + 1, 0, E, v).
Proof.
  induction 1 as [|t l n Ht Hl IH|t l n Ht Hl IH|o c g l n Ho Hc Hg Hl IH]; intros fuel pre rp post scope a E v Hrp Hf.
  - destruct fuel as [|[|f]]; [inversion Hf|cbn in Hf; lia|]. cbn [app check_func_decl_args_loop1]. cbv zeta.
    rewrite peek_mid. cbn [is_none negb andb]. replace (1 >? 0) with true by reflexivity. cbn [andb].
    rewrite !(check1_some _ _ _ _ (peek_mid pre rp post)), Hrp.
    replace (str_eqb ty_rpar (s "LPARENTHESIS")) with false by reflexivity. replace (str_eqb ty_rpar (s "RPARENTHESIS")) with true by reflexivity.
    cbn [truthy]. replace (1 - 1 >? 0) with false by reflexivity. cbn [andb]. fin5.
  - destruct fuel as [|f]; [inversion Hf|]. cbn [app check_func_decl_args_loop1]. cbv zeta.
    rewrite peek_mid. cbn [is_none negb]. replace (1 >? 0) with true by reflexivity. cbn [andb].
    rewrite !(check1_some _ _ _ _ (peek_mid pre t (l ++ rp :: post))).
    cbn [str_in existsb] in Ht. apply orb_false_iff in Ht as [A Ht]. apply orb_false_iff in Ht as [B Ht]. apply orb_false_iff in Ht as [C _].
    unfold ty_lpar, ty_rpar, ty_comma in A, B, C. rewrite A, B, C. cbn [truthy].
    replace (pre ++ t :: l ++ rp :: post) with ((pre ++ [t]) ++ l ++ rp :: post) by (rewrite <- app_assoc; reflexivity).
    replace (zlen pre + 1) with (zlen (pre ++ [t])) by zl.
    rewrite IH; [|exact Hrp|cbn [Datatypes.length] in Hf; lia]. fin5.
  - destruct fuel as [|f]; [inversion Hf|]. cbn [app check_func_decl_args_loop1]. cbv zeta.
    rewrite peek_mid. cbn [is_none negb]. replace (1 >? 0) with true by reflexivity. cbn [andb].
    rewrite !(check1_some _ _ _ _ (peek_mid pre t (l ++ rp :: post))), Ht.
    replace (str_eqb ty_comma (s "LPARENTHESIS")) with false by reflexivity. replace (str_eqb ty_comma (s "RPARENTHESIS")) with false by reflexivity.
    replace (str_eqb ty_comma (s "COMMA")) with true by reflexivity. cbn [truthy].
    replace (pre ++ t :: l ++ rp :: post) with ((pre ++ [t]) ++ l ++ rp :: post) by (rewrite <- app_assoc; reflexivity).
    replace (zlen pre + 1) with (zlen (pre ++ [t])) by zl.
    rewrite IH; [|exact Hrp|cbn [Datatypes.length] in Hf; lia]. fin5.
  - destruct fuel as [|f]; [inversion Hf|]. cbn [app check_func_decl_args_loop1]. cbv zeta.
    rewrite peek_mid. cbn [is_none negb]. replace (1 >? 0) with true by reflexivity. cbn [andb].
    rewrite (check1_some _ _ _ _ (peek_mid pre o ((g ++ c :: l) ++ rp :: post))), Ho.
    replace (str_eqb ty_lpar (s "LPARENTHESIS")) with true by reflexivity. cbn [truthy].
    assert (Hoc : closer_of (t_type o) = Some (t_type c)) by (rewrite Ho, Hc; reflexivity).
    replace (pre ++ o :: (g ++ c :: l) ++ rp :: post) with (pre ++ o :: g ++ c :: (l ++ rp :: post)).
    2:{ rewrite <- ?app_assoc. cbn [app]. reflexivity. }
    rewrite (skip_nest_group pre o g c (l ++ rp :: post) Hoc Hg). cbn [bind].
    replace (pre ++ o :: g ++ c :: l ++ rp :: post) with ((pre ++ o :: g ++ [c]) ++ l ++ rp :: post).
    2:{ rewrite <- ?app_assoc. cbn [app]. rewrite <- ?app_assoc. cbn [app]. reflexivity. }
    replace (zlen pre + 1 + zlen g + 1) with (zlen (pre ++ o :: g ++ [c])) by zl.
    rewrite IH; [|exact Hrp|]. 
    + fin5.
    + cbn [Datatypes.length] in Hf. rewrite app_length in Hf. cbn [Datatypes.length] in Hf. lia.
Qed.

(* CheckFuncDeclaration's parameter count on `name ( l ) tp ...` with fname_pos at the name: the counter ends at 1 + the number of
   top-level commas, and TOO_MANY_ARGS is reported (at the token after the closing parenthesis) iff that exceeds the limit.
   `(void)` and `()` have no comma: they count as ONE parameter (never reported, the limit being 4). *)
Theorem args_iff : forall pre name lp l n rp tp post scope v,
  t_type lp = ty_lpar -> t_type rp = ty_rpar -> plist l n ->
  check_func_decl_args (pre ++ name :: lp :: l ++ rp :: tp :: post) scope (zlen pre) v
  = Ok (args_start + n, zlen pre + 2 + zlen l + 1,
        if args_start + n >? args_limit then [(s "TOO_MANY_ARGS", t_line tp, t_col tp)] else []).
Proof.
  intros pre name lp l n rp tp post scope v Hlp Hrp Hl.
  unfold check_func_decl_args. cbv zeta.
  set (toks := pre ++ name :: lp :: l ++ rp :: tp :: post).
  assert (Plp : peek toks (zlen pre + 1) = Some lp).
  { unfold toks. replace (pre ++ name :: lp :: l ++ rp :: tp :: post) with ((pre ++ [name]) ++ lp :: l ++ rp :: tp :: post) by (rewrite <- app_assoc; reflexivity).
    replace (zlen pre + 1) with (zlen (pre ++ [name])) by zl. apply peek_mid. }
  (* no `)` directly after the name, the `(` is there, it is no blank *)
  rewrite (skip_while_run toks _ (zlen pre + 1) 0).
  2:{ intros j Hj. lia. }
  2:{ cbn [Z.of_nat]. rewrite Z.add_0_r. rewrite (checkl_some _ _ _ _ Plp), Hlp. reflexivity. }
  2:{ intros j Hp _. unfold checkl in Hp. destruct (peek toks j) eqn:Q; [|discriminate].
      destruct (Z.ltb_spec j 0); [pose proof (zlen_nonneg toks); lia|]. eapply peek_some_lt; eassumption. }
  2:{ pose proof (zlen_nonneg pre). lia. }
  cbn [Z.of_nat]. rewrite Z.add_0_r. rewrite (check1_some _ _ _ _ Plp), Hlp.
  replace (str_eqb ty_lpar (s "LPARENTHESIS")) with true by reflexivity. cbn [is_false].
  unfold skip_ws. rewrite (skip_while_run toks _ (zlen pre + 1) 0).
  2:{ intros j Hj. lia. }
  2:{ cbn [Z.of_nat]. rewrite Z.add_0_r. rewrite (checkl_some _ _ _ _ Plp), Hlp. reflexivity. }
  2:{ intros j Hp _. unfold checkl in Hp. destruct (peek toks j) eqn:Q; [|discriminate].
      destruct (Z.ltb_spec j 0); [pose proof (zlen_nonneg toks); lia|]. eapply peek_some_lt; eassumption. }
  2:{ pose proof (zlen_nonneg pre). lia. }
  cbn [Z.of_nat]. rewrite Z.add_0_r.
  unfold toks at 2. replace (pre ++ name :: lp :: l ++ rp :: tp :: post) with ((pre ++ [name; lp]) ++ l ++ rp :: tp :: post).
  2:{ rewrite <- app_assoc. reflexivity. }
  replace (zlen pre + 1 + 1) with (zlen (pre ++ [name; lp])) by zl.
  rewrite (args_loop l n Hl).
  2:{ exact Hrp. }
  2:{ pose proof (loop_fuel_ge toks). unfold toks in *. rewrite !app_length in *. cbn [Datatypes.length] in *. rewrite !app_length in *. cbn [Datatypes.length] in *. lia. }
  cbn [bind]. unfold args_start, args_limit.
  assert (Ptp : peek toks (zlen (pre ++ [name; lp]) + zlen l + 1) = Some tp).
  { unfold toks. replace (pre ++ name :: lp :: l ++ rp :: tp :: post) with ((pre ++ name :: lp :: l ++ [rp]) ++ tp :: post).
    2:{ rewrite <- ?app_assoc. cbn [app]. rewrite <- ?app_assoc. reflexivity. }
    replace (zlen (pre ++ [name; lp]) + zlen l + 1) with (zlen (pre ++ name :: lp :: l ++ [rp])) by zl. apply peek_mid. }
  destruct (1 + n >? 4).
  - rewrite Ptp. cbn [emit bind app]. fin3.
  - fin3.
Qed.

(* ================================================================== functions and variables: the counter trace *)
Definition tmf := s "TOO_MANY_FUNCS".
Definition tmv := s "TOO_MANY_VARS_FUNC".
Definition is_func (x : stmt) : bool := str_eqb (st_rule x) r_func_decl.
Definition is_vdecl (x : stmt) : bool := str_eqb (st_rule x) r_var_decl.

(* the codes CheckFunctionsCount emits along a statement list, newest first, starting from `functions = f0`: one at every
   IsFuncDeclaration match that brings the counter above the limit *)
Fixpoint tmf_list (f0 : Z) (l : list stmt) : list str :=
  match l with
  | [] => []
  | x :: r => if is_func x then tmf_list (f0 + 1) r ++ (if f0 + 1 >? functions_limit then [tmf] else []) else tmf_list f0 r
  end.
Fixpoint nfuncs (l : list stmt) : Z := match l with [] => 0 | x :: r => (if is_func x then 1 else 0) + nfuncs r end.
Fixpoint tmv_list (v0 : Z) (l : list stmt) : list str :=
  match l with
  | [] => []
  | x :: r => if is_vdecl x then tmv_list (v0 + 1) r ++ (if v0 + 1 >? vars_limit then [tmv] else []) else tmv_list v0 r
  end.
Fixpoint nvdecls (l : list stmt) : Z := match l with [] => 0 | x :: r => (if is_vdecl x then 1 else 0) + nvdecls r end.

Lemma nfuncs_nonneg l : 0 <= nfuncs l.
Proof. induction l as [|x l IH]; cbn [nfuncs]; [lia|]. destruct (is_func x); lia. Qed.
Lemma nvdecls_nonneg l : 0 <= nvdecls l.
Proof. induction l as [|x l IH]; cbn [nvdecls]; [lia|]. destruct (is_vdecl x); lia. Qed.

(* how many: everything above the limit *)
Lemma tmf_count : forall l f0, 0 <= f0 -> zlen (tmf_list f0 l) = Z.max 0 (f0 + nfuncs l - functions_limit) - Z.max 0 (f0 - functions_limit).
Proof.
  induction l as [|x l IH]; intros f0 H0; cbn [tmf_list nfuncs].
  - unfold zlen. cbn. lia.
  - pose proof (nfuncs_nonneg l). destruct (is_func x).
    + unfold zlen in *. rewrite app_length, Nat2Z.inj_add, IH by lia. unfold functions_limit in *.
      destruct (Z.gtb_spec (f0 + 1) 5); cbn [Datatypes.length Z.of_nat]; lia.
    + rewrite IH by lia. reflexivity.
Qed.
Lemma tmv_count : forall l v0, 0 <= v0 -> zlen (tmv_list v0 l) = Z.max 0 (v0 + nvdecls l - vars_limit) - Z.max 0 (v0 - vars_limit).
Proof.
  induction l as [|x l IH]; intros v0 H0; cbn [tmv_list nvdecls].
  - unfold zlen. cbn. lia.
  - pose proof (nvdecls_nonneg l). destruct (is_vdecl x).
    + unfold zlen in *. rewrite app_length, Nat2Z.inj_add, IH by lia. unfold vars_limit in *.
      destruct (Z.gtb_spec (v0 + 1) 5); cbn [Datatypes.length Z.of_nat]; lia.
    + rewrite IH by lia. reflexivity.
Qed.

(* ------------------------------------------------------------------ the counter model follows the scope model *)
Lemma crun_app : forall a b q, crun q (a ++ b) = match crun q a with Some q' => crun q' b | None => None end.
Proof. induction a as [|x a IH]; intros b q; cbn [app crun]; [reflexivity|]. destruct (cstep q x); [apply IH|reflexivity]. Qed.

Lemma cstep_base q x q' : cstep q x = Some q' -> step (base q) x = Some (base q').
Proof.
  unfold cstep. destruct (step (base q) x) as [b'|]; [|discriminate].
  destruct (str_eqb (st_rule x) r_func_decl); destruct (str_eqb (st_rule x) r_var_decl);
    try destruct (vars q) as [|v0 r]; try destruct (var_decl_run _ _); intros H; inversion H; reflexivity.
Qed.
Lemma cstep_total q x b' : step (base q) x = Some b' -> exists q', cstep q x = Some q' /\ base q' = b'.
Proof.
  intros H. unfold cstep. rewrite H.
  destruct (str_eqb (st_rule x) r_func_decl); destruct (str_eqb (st_rule x) r_var_decl);
    try destruct (vars q) as [|v0 r]; try destruct (var_decl_run _ _); eexists; split; reflexivity.
Qed.
Lemma crun_total : forall l q b', run (base q) l = Some b' -> exists q', crun q l = Some q' /\ base q' = b'.
Proof.
  induction l as [|x l IH]; intros q b' H; cbn [run crun] in *.
  - inversion H. exists q. split; reflexivity.
  - destruct (step (base q) x) as [b1|] eqn:S1; [|discriminate].
    destruct (cstep_total q x b1 S1) as [q1 [C1 B1]]. rewrite C1. apply IH. now rewrite B1.
Qed.

(* statements that are no IsFuncDeclaration match leave the function counter and its diagnostics alone *)
Lemma cstep_funcs q x q' : cstep q x = Some q' ->
  functions q' = (if is_func x then functions q + 1 else functions q) /\
  fems q' = (if is_func x then functions_count_run (head_kind (base q)) (functions q + 1) else []) ++ fems q.
Proof.
  unfold cstep, is_func. destruct (step (base q) x) as [b'|]; [|discriminate].
  destruct (str_eqb (st_rule x) r_func_decl); destruct (str_eqb (st_rule x) r_var_decl);
    try destruct (vars q) as [|v0 r]; try destruct (var_decl_run _ _); intros H; inversion H; split; reflexivity.
Qed.
Lemma crun_no_func : forall l q q', forallb (fun x => negb (is_func x)) l = true -> crun q l = Some q' ->
  functions q' = functions q /\ fems q' = fems q.
Proof.
  induction l as [|x l IH]; intros q q' Hn H; cbn [crun] in H; [inversion H; split; reflexivity|].
  cbn [forallb] in Hn. apply andb_true_iff in Hn as [Hx Hn]. apply negb_true_iff in Hx.
  destruct (cstep q x) as [q1|] eqn:C; [|discriminate]. destruct (cstep_funcs _ _ _ C) as [A B]. rewrite Hx in A, B.
  cbn [app] in B. destruct (IH _ _ Hn H) as [A' B']. split; congruence.
Qed.
Lemma cstep_vems q x q' : cstep q x = Some q' -> is_vdecl x = false -> vems q' = vems q.
Proof.
  unfold cstep, is_vdecl. destruct (step (base q) x) as [b'|]; [|discriminate]. intros H Hv. rewrite Hv in H.
  destruct (str_eqb (st_rule x) r_func_decl); inversion H; reflexivity.
Qed.
Lemma crun_no_vdecl : forall l q q', forallb (fun x => negb (is_vdecl x)) l = true -> crun q l = Some q' -> vems q' = vems q.
Proof.
  induction l as [|x l IH]; intros q q' Hn H; cbn [crun] in H; [inversion H; reflexivity|].
  cbn [forallb] in Hn. apply andb_true_iff in Hn as [Hx Hn]. apply negb_true_iff in Hx.
  destruct (cstep q x) as [q1|] eqn:C; [|discriminate]. rewrite (IH _ _ Hn H). eapply cstep_vems; eassumption.
Qed.

(* ------------------------------------------------------------------ 5 functions *)
Lemma tmf_list_nofunc : forall l f0, forallb (fun x => negb (is_func x)) l = true -> tmf_list f0 l = [] /\ nfuncs l = 0.
Proof.
  induction l as [|x l IH]; intros f0 H; cbn [tmf_list nfuncs]; [split; reflexivity|].
  cbn [forallb] in H. apply andb_true_iff in H as [Hx H]. apply negb_true_iff in Hx. rewrite Hx. destruct (IH f0 H) as [A B]. rewrite A, B. split; reflexivity.
Qed.
Lemma nfuncs_app a b : nfuncs (a ++ b) = nfuncs a + nfuncs b.
Proof. induction a as [|x a IH]; cbn [app nfuncs]; [lia|]. rewrite IH. lia. Qed.
Lemma tmf_list_app : forall a b f0, tmf_list f0 (a ++ b) = tmf_list (f0 + nfuncs a) b ++ tmf_list f0 a.
Proof.
  induction a as [|x a IH]; intros b f0; cbn [app tmf_list nfuncs].
  - rewrite Z.add_0_r, app_nil_r. reflexivity.
  - destruct (is_func x).
    + rewrite IH, app_assoc. do 3 f_equal. lia.
    + rewrite IH. reflexivity.
Qed.

Lemma nofunc_app a b : forallb (fun x => negb (is_func x)) a = true -> forallb (fun x => negb (is_func x)) b = true ->
  forallb (fun x => negb (is_func x)) (a ++ b) = true.
Proof. intros A B. rewrite forallb_app, A, B. reflexivity. Qed.
Lemma skips_nofunc gap : skips gap -> forallb (fun x => negb (is_func x)) gap = true.
Proof.
  induction 1 as [|x l [Hs _] _ IH]; [reflexivity|]. cbn [forallb]. rewrite IH, andb_true_r. unfold is_func.
  unfold skipped, str_in, update_skipped in Hs. cbn [existsb] in Hs. rewrite orb_false_r in Hs.
  repeat (apply orb_true_iff in Hs as [Hs|Hs]); apply str_eqb_eq in Hs; rewrite Hs; reflexivity.
Qed.
Lemma plain_nofunc r nl o : plain r = true -> negb (is_func (mkstmt r nl o)) = true.
Proof.
  intros Hp. unfold plain in Hp. apply negb_true_iff in Hp. unfold special_rules in Hp. cbn [app] in Hp.
  apply str_in_cons_false in Hp as [_ Hp]. apply str_in_cons_false in Hp as [_ Hp]. apply str_in_cons_false in Hp as [_ Hp].
  apply str_in_cons_false in Hp as [D _]. unfold is_func. cbn [st_rule]. change r_func_decl with r_func. now rewrite D.
Qed.
Lemma bodies_nofunc : (forall u, unit1 u -> forallb (fun x => negb (is_func x)) u = true) /\
                      (forall b, body b -> forallb (fun x => negb (is_func x)) b = true).
Proof.
  apply unit1_body_ind.
  - intros r nl Hp. cbn [forallb]. now rewrite plain_nofunc.
  - intros nl. reflexivity.
  - intros nl gap nlo b nlc [Hg _] _ IHb. cbn [forallb]. replace (negb (is_func (s_ctl nl))) with true by reflexivity. cbn [andb].
    apply nofunc_app; [apply skips_nofunc; exact Hg|]. cbn [forallb]. replace (negb (is_func (s_open nlo))) with true by reflexivity. cbn [andb].
    apply nofunc_app; [exact IHb|reflexivity].
  - intros nl gap u Hg _ IHu. cbn [forallb]. replace (negb (is_func (s_ctl nl))) with true by reflexivity. cbn [andb].
    apply nofunc_app; [apply skips_nofunc; exact Hg|exact IHu].
  - reflexivity.
  - intros x b [Hs Ho] _ IHb. cbn [forallb]. rewrite IHb, andb_true_r.
    assert (H1 : skips [x]) by (constructor; [split; assumption|constructor]). apply skips_nofunc in H1. cbn [forallb] in H1. now rewrite andb_true_r in H1.
  - intros u b _ IHu _ IHb. now apply nofunc_app.
Qed.

(* every unit of a file is one statement followed by statements that are no IsFuncDeclaration match; it starts and ends with
   the global scope current *)
Lemma top_unit_shape u : top_unit u -> exists x r, u = x :: r /\ forallb (fun y => negb (is_func y)) r = true /\
  (is_func x = true -> exists nl, x = s_func nl).
Proof.
  intros [x Hx|r nl Hp|nl gap nlo b nlc [Hg _] Hb|cls nl gap nlo b nlc Hi Hc [Hg _] Hb].
  - exists x, []. repeat split. intros Hf. assert (H1 : skips [x]) by (constructor; [exact Hx|constructor]). apply skips_nofunc in H1.
    cbn [forallb] in H1. rewrite andb_true_r in H1. apply negb_true_iff in H1. congruence.
  - exists (mkstmt r nl None), []. repeat split. intros Hf. pose proof (plain_nofunc r nl None Hp) as H1. apply negb_true_iff in H1. congruence.
  - exists (s_func nl), (gap ++ s_open nlo :: b ++ [s_close nlc]). split; [reflexivity|]. split; [|intros _; exists nl; reflexivity].
    apply nofunc_app; [apply skips_nofunc; exact Hg|]. cbn [forallb]. replace (negb (is_func (s_open nlo))) with true by reflexivity.
    apply nofunc_app; [apply (proj2 bodies_nofunc); exact Hb|reflexivity].
  - exists (mkstmt r_utype nl (Some cls)), (gap ++ s_open nlo :: b ++ [s_close nlc]). split; [reflexivity|]. split; [|intros Hf; discriminate].
    apply nofunc_app; [apply skips_nofunc; exact Hg|]. cbn [forallb]. replace (negb (is_func (s_open nlo))) with true by reflexivity.
    apply nofunc_app; [apply (proj2 bodies_nofunc); exact Hb|reflexivity].
Qed.

Lemma top_unit_base u : top_unit u -> forall g hs E, isglobal g -> last_ok hs ->
  exists b' g', run (mkstate [g] hs E) u = Some b' /\ chain b' = [g'] /\ isglobal g' /\ last_ok (hist b').
Proof.
  intros Hu g hs E Hg Hl.
  destruct Hu as [x [Hs Ho]|r nl Hp|nl gap nlo b nlc Hgap Hb|cls nl gap nlo b nlc Hi Hc Hgap Hb].
  - destruct (skipped_facts _ Hs) as [A B]. cbn [run].
    assert (D : str_eqb (st_rule x) r_cfd = false).
    { unfold skipped, str_in, update_skipped in Hs. cbn [existsb] in Hs. rewrite orb_false_r in Hs.
      repeat (apply orb_true_iff in Hs as [Hs|Hs]); apply str_eqb_eq in Hs; rewrite Hs; reflexivity. }
    rewrite (step_global_plain g [] hs E x Hg A B Ho D Hl). eexists. eexists. split; [reflexivity|]. repeat split; assumption.
  - destruct (plain_spec _ Hp). cbn [run].
    rewrite (step_global_plain g [] hs E (mkstmt r nl None) Hg); try assumption; try reflexivity.
    eexists. eexists. split; [reflexivity|]. repeat split; assumption.
  - apply (depth_back_at_file_level g hs E (s_func nl) k_function gap nlo b nlc Hg (func_opener nl) Hl Hgap Hb).
  - apply (depth_back_at_file_level g hs E _ cls gap nlo b nlc Hg (utype_opener nl cls Hi Hc) Hl Hgap Hb).
Qed.

Definition at_file_level (q : cstate) : Prop := exists g, chain (base q) = [g] /\ isglobal g /\ last_ok (hist (base q)).

(* C03, 5 functions: along ANY file (functions, prototypes and globals as plain statements, user-defined types, blank / comment /
   preprocessor lines) the counter is the number of IsFuncDeclaration matches and TOO_MANY_FUNCS is emitted at exactly those
   matches that bring it above the limit *)
Theorem funcs_file : forall f, file f -> forall q, at_file_level q ->
  exists q', crun q f = Some q' /\ at_file_level q' /\
    functions q' = functions q + nfuncs f /\ fems q' = tmf_list (functions q) f ++ fems q.
Proof.
  induction 1 as [|u f Hu Hf IH]; intros q Hq.
  - exists q. cbn [crun nfuncs tmf_list app]. rewrite Z.add_0_r. repeat split; assumption.
  - destruct Hq as [g [Hc [Hg Hl]]].
    destruct q as [[ch hs E] fn vs fe ve]. cbn [base chain hist] in Hc, Hl. subst ch.
    destruct (top_unit_base u Hu g hs E Hg Hl) as [b' [g' [R [C' [G' L']]]]].
    destruct (crun_total u (mkc (mkstate [g] hs E) fn vs fe ve) b' R) as [q1 [C1 B1]].
    destruct (top_unit_shape u Hu) as [x [r [Eu [Hr Hx]]]].
    assert (F1 : functions q1 = fn + nfuncs u /\ fems q1 = tmf_list fn u ++ fe).
    { subst u. cbn [crun] in C1. destruct (cstep (mkc (mkstate [g] hs E) fn vs fe ve) x) as [q0|] eqn:S0; [|discriminate].
      destruct (cstep_funcs _ _ _ S0) as [A B]. destruct (crun_no_func _ _ _ Hr C1) as [A' B']. cbn [functions fems base] in A, B.
      destruct (tmf_list_nofunc r (if is_func x then fn + 1 else fn) Hr) as [T N]. cbn [nfuncs tmf_list]. rewrite N.
      destruct (is_func x) eqn:Fx.
      - destruct (tmf_list_nofunc r (fn + 1) Hr) as [T' _]. rewrite T'. cbn [app]. split; [lia|].
        rewrite B', B. unfold head_kind. cbn [chain]. rewrite Hg. unfold functions_count_run.
        replace (str_eqb k_global (s "GlobalScope")) with true by reflexivity. reflexivity.
      - destruct (tmf_list_nofunc r fn Hr) as [T' _]. rewrite T'. split; [lia|]. rewrite B', B. reflexivity. }
    destruct F1 as [F1 F2].
    destruct (IH q1) as [q' [R' [Q' [A' B']]]]; [exists g'; rewrite B1; repeat split; assumption|].
    exists q'. rewrite crun_app, C1. split; [exact R'|]. split; [exact Q'|]. split.
    + rewrite A', F1, nfuncs_app. cbn [functions]. lia.
    + rewrite B', F2, F1, tmf_list_app. cbn [functions fems]. rewrite app_assoc. reflexivity.
Qed.

(* from the start of a file: k definitions give max(0, k - 5) diagnostics - none up to 5, one for each definition from the 6th on *)
Theorem funcs_iff : forall f, file f ->
  exists q, crun cstate0 f = Some q /\ functions q = nfuncs f /\ fems q = tmf_list 0 f /\
    zlen (fems q) = Z.max 0 (nfuncs f - functions_limit).
Proof.
  intros f Hf. destruct (funcs_file f Hf cstate0) as [q [R [_ [A B]]]].
  { exists global0. repeat split. }
  exists q. split; [exact R|]. cbn [cstate0 functions fems] in A, B. unfold counters_start in A, B. rewrite app_nil_r in B.
  split; [lia|]. split; [exact B|]. rewrite B, tmf_count by lia. unfold functions_limit. lia.
Qed.

(* ------------------------------------------------------------------ 5 variables *)
Definition vdecl (nl : Z) : stmt := mkstmt r_var_decl nl None.
Definition cinv (q : cstate) : Prop := List.length (vars q) = List.length (chain (base q)).

Lemma resize_length vs n : List.length (resize vs n) = n.
Proof.
  unfold resize. destruct (Nat.ltb_spec (List.length vs) n).
  - rewrite app_length, repeat_length. lia.
  - rewrite skipn_length. lia.
Qed.
Lemma resize_same vs : resize vs (List.length vs) = vs.
Proof. unfold resize. rewrite Nat.ltb_irrefl, Nat.sub_diag. reflexivity. Qed.
Lemma resize_push vs : resize vs (S (List.length vs)) = counters_start :: vs.
Proof. unfold resize. replace (Nat.ltb (List.length vs) (S (List.length vs))) with true by (symmetry; apply Nat.ltb_lt; lia).
  replace (S (List.length vs) - List.length vs)%nat with 1%nat by lia. reflexivity. Qed.

Lemma cstep_cinv q x q' : cstep q x = Some q' -> cinv q'.
Proof.
  unfold cstep, cinv. destruct (step (base q) x) as [b'|]; [|discriminate].
  destruct (str_eqb (st_rule x) r_func_decl); destruct (str_eqb (st_rule x) r_var_decl);
    try destruct (vars q) as [|v0 r]; try destruct (var_decl_run _ _); intros H; inversion H; cbn [vars base]; apply resize_length.
Qed.

(* a statement that is no declaration: the counters of the scopes that stay are untouched *)
Lemma cstep_other q x b' : step (base q) x = Some b' -> is_vdecl x = false ->
  exists q', cstep q x = Some q' /\ base q' = b' /\ vars q' = resize (vars q) (List.length (chain b')) /\ vems q' = vems q.
Proof.
  intros H Hv. unfold cstep, is_vdecl in *. rewrite H, Hv.
  destruct (str_eqb (st_rule x) r_func_decl); eexists; (split; [reflexivity|]); repeat split.
Qed.

(* a declaration directly in a Function scope: counted there, reported above the limit *)
Lemma cstep_vdecl q nl F rest v0 vr : chain (base q) = F :: rest -> s_kind F = k_function -> vars q = v0 :: vr -> cinv q ->
  exists q', cstep q (vdecl nl) = Some q' /\ base q' = mkstate (bump F nl :: rest) (r_var_decl :: hist (base q)) (ems (base q)) /\
    vars q' = (v0 + 1) :: vr /\ vems q' = (if v0 + 1 >? vars_limit then [tmv] else []) ++ vems q /\ fems q' = fems q /\ functions q' = functions q.
Proof.
  intros Hc Hk Hv Hi. destruct q as [[ch hs E] fn vs fe ve]. cbn [base chain hist vars vems fems functions] in *. subst ch vs.
  assert (G : nonglobal F) by (unfold nonglobal; rewrite Hk; reflexivity).
  assert (B : bl F = false) by (unfold bl, is_class; rewrite Hk; reflexivity).
  unfold cstep. cbn [base]. rewrite (step_plainlike (mkstate (F :: rest) hs E) (vdecl nl) F rest eq_refl); try reflexivity; [|exact G].
  cbn [hist ems vdecl st_rule st_nl]. rewrite update_stable; [|reflexivity|reflexivity|change (bl (bump F nl)) with (bl F); now rewrite B].
  replace (str_eqb r_var_decl r_func_decl) with false by reflexivity. replace (str_eqb r_var_decl r_var_decl) with true by reflexivity.
  cbn [vars functions fems vems]. unfold head_kind. cbn [chain]. rewrite Hk. unfold var_decl_run.
  replace (str_eqb k_function (s "Function")) with true by reflexivity. cbv zeta.
  eexists. split; [reflexivity|]. cbn [base chain hist vars vems fems functions]. unfold cinv in Hi. cbn [vars base chain Datatypes.length] in Hi.
  replace (Datatypes.length (bump F nl :: rest)) with (Datatypes.length ((v0 + 1) :: vr)) by (cbn [Datatypes.length]; lia).
  rewrite resize_same. repeat split.
Qed.

Lemma crun_vdecls : forall nls q F rest v0 vr, chain (base q) = F :: rest -> s_kind F = k_function -> vars q = v0 :: vr -> cinv q ->
  exists q' F', crun q (map vdecl nls) = Some q' /\ chain (base q') = F' :: rest /\ s_kind F' = k_function /\ s_multi F' = s_multi F /\
    s_lines F' = s_lines F + total_nl (map vdecl nls) /\
    hist (base q') = names (map vdecl nls) ++ hist (base q) /\ ems (base q') = ems (base q) /\
    vars q' = (v0 + zlen nls) :: vr /\ vems q' = tmv_list v0 (map vdecl nls) ++ vems q /\ cinv q'.
Proof.
  induction nls as [|nl nls IH]; intros q F rest v0 vr Hc Hk Hv Hi.
  - exists q, F. cbn [map crun tmv_list app total_nl fold_right names rev]. unfold zlen. cbn [Datatypes.length Z.of_nat]. rewrite !Z.add_0_r.
    repeat split; assumption.
  - destruct (cstep_vdecl q nl F rest v0 vr Hc Hk Hv Hi) as [q1 [S1 [B1 [V1 [E1 _]]]]].
    assert (C1 : chain (base q1) = bump F nl :: rest) by (rewrite B1; reflexivity).
    destruct (IH q1 (bump F nl) rest (v0 + 1) vr C1 Hk V1 (cstep_cinv _ _ _ S1)) as [q' [F' [R [C' [K' [M' [L' [H' [Em' [V' [E' I']]]]]]]]]]].
    exists q', F'. cbn [map crun]. rewrite S1. split; [exact R|]. split; [exact C'|]. split; [exact K'|]. split; [exact M'|]. split.
    { rewrite L'. cbn [bump s_lines total_nl fold_right vdecl st_nl]. fold (total_nl (map vdecl nls)). lia. }
    split. { rewrite H', B1, names_cons, <- app_assoc. reflexivity. }
    split.
    { rewrite Em', B1. reflexivity. }
    split. { rewrite V'. f_equal. unfold zlen. cbn [Datatypes.length]. lia. }
    split; [|exact I'].
    rewrite E', E1. cbn [tmv_list]. replace (is_vdecl (vdecl nl)) with true by reflexivity. rewrite app_assoc. reflexivity.
Qed.

Lemma crun_skips_c : forall gap q h rest, chain (base q) = h :: rest -> nonglobal h -> skips gap -> cinv q ->
  exists q', crun q gap = Some q' /\
    base q' = mkstate (mksc (s_kind h) (s_lines h + total_nl gap) (s_instr h + zlen gap) (s_multi h) :: rest) (names gap ++ hist (base q)) (ems (base q)) /\
    vars q' = vars q /\ vems q' = vems q /\ cinv q'.
Proof.
  induction gap as [|x gap IH]; intros q h rest Hc G Hg Hi.
  - exists q. cbn [crun total_nl fold_right names map rev app]. unfold zlen. cbn [Datatypes.length Z.of_nat]. rewrite !Z.add_0_r.
    destruct q as [[ch hs E] fn vs fe ve]. cbn [base chain hist ems] in *. subst ch. destruct h. repeat split; assumption.
  - inversion Hg as [|? ? Hx Hg']; subst.
    destruct q as [[ch hs E] fn vs fe ve]. cbn [base chain hist ems vars vems] in *. subst ch.
    assert (Hv : is_vdecl x = false).
    { destruct Hx as [Hs _]. unfold is_vdecl. unfold skipped, str_in, update_skipped in Hs. cbn [existsb] in Hs. rewrite orb_false_r in Hs.
      repeat (apply orb_true_iff in Hs as [Hs|Hs]); apply str_eqb_eq in Hs; rewrite Hs; reflexivity. }
    destruct (cstep_other (mkc (mkstate (h :: rest) hs E) fn vs fe ve) x _ (step_skip (mkstate (h :: rest) hs E) x h rest eq_refl Hx G) Hv)
      as [q1 [S1 [B1 [V1 E1]]]].
    cbn [crun]. rewrite S1. cbn [vars vems chain hist ems] in V1, E1.
    unfold cinv in Hi. cbn [vars base chain] in Hi.
    replace (Datatypes.length (bump h (st_nl x) :: rest)) with (Datatypes.length vs) in V1 by (cbn [Datatypes.length] in *; lia).
    rewrite resize_same in V1.
    destruct (IH q1 (bump h (st_nl x)) rest) as [q' [R [B' [V' [E' I']]]]]; [rewrite B1; reflexivity|exact G|exact Hg'|eapply cstep_cinv; exact S1|].
    exists q'. split; [exact R|]. split.
    + rewrite B', B1. cbn [bump s_kind s_lines s_instr s_multi hist ems total_nl fold_right]. fold (total_nl gap).
      rewrite names_cons, <- app_assoc. cbn [app]. f_equal. f_equal. apply sc_eq; [lia|unfold zlen; cbn [Datatypes.length]; lia].
    + rewrite V', V1, E', E1. repeat split. exact I'.
Qed.

Lemma body_decls nls rest : body rest -> body (map vdecl nls ++ rest).
Proof.
  intros Hr. induction nls as [|nl nls IH]; [exact Hr|]. cbn [map app].
  apply (B_unit [vdecl nl]); [apply U_plain; reflexivity|exact IH].
Qed.

(* C03, 5 variables: a function whose body starts with the declarations `nls` (IsVarDeclaration matches directly in the function's
   block) and goes on with any well-nested body without further declarations: the counter starts at 0 for THIS function whatever
   came before, and TOO_MANY_VARS_FUNC is emitted once for every declaration beyond the limit - none up to 5 *)
Theorem vars_iff : forall q nl gap nlo nls rest nlc, at_file_level q -> cinv q -> gap_ok gap -> body rest ->
  forallb (fun x => negb (is_vdecl x)) rest = true ->
  exists q', crun q (block_of (s_func nl) gap nlo (map vdecl nls ++ rest) nlc) = Some q' /\
    vems q' = tmv_list 0 (map vdecl nls) ++ vems q /\
    zlen (tmv_list 0 (map vdecl nls)) = Z.max 0 (zlen nls - vars_limit) /\
    at_file_level q' /\ cinv q'.
Proof.
  intros q nl gap nlo nls rest nlc [g [Hc [Hg Hl]]] Hi Hgap Hrest Hnv.
  destruct q as [[ch hs E] fn vs fe ve]. cbn [base chain hist] in Hc, Hl. subst ch.
  assert (Hb : body (map vdecl nls ++ rest)) by (apply body_decls; exact Hrest).
  destruct (depth_back_at_file_level g hs E (s_func nl) k_function gap nlo (map vdecl nls ++ rest) nlc Hg (func_opener nl) Hl Hgap Hb)
    as [bf [g' [R [C' [G' L']]]]].
  destruct (crun_total _ (mkc (mkstate [g] hs E) fn vs fe ve) bf R) as [q' [CR B']].
  exists q'. split; [exact CR|].
  (* the prefix: header, gap, `{` *)
  assert (Ew : block_of (s_func nl) gap nlo (map vdecl nls ++ rest) nlc
               = [s_func nl] ++ gap ++ [s_open nlo] ++ map vdecl nls ++ (rest ++ [s_close nlc])).
  { unfold block_of. cbn [app]. rewrite <- !app_assoc. reflexivity. }
  rewrite Ew in CR.
  unfold cinv in Hi. cbn [vars base chain Datatypes.length] in Hi.
  destruct (cstep_other (mkc (mkstate [g] hs E) fn vs fe ve) (s_func nl) _ (step_opener g [] hs E (s_func nl) k_function Hg (func_opener nl) Hl) eq_refl)
    as [q1 [S1 [B1 [V1 E1]]]].
  cbn [vars vems chain Datatypes.length] in V1, E1.
  replace 2%nat with (S (Datatypes.length vs)) in V1 by lia. rewrite resize_push in V1.
  rewrite crun_app in CR. cbn [crun] in CR. rewrite S1 in CR.
  destruct Hgap as [Hgs Hgl].
  destruct (crun_skips_c gap q1 (new_scope k_function false) [bump g nl]) as [q2 [R2 [B2 [V2 [E2 I2]]]]];
    [rewrite B1; reflexivity|reflexivity|exact Hgs|eapply cstep_cinv; exact S1|].
  rewrite crun_app, R2 in CR.
  set (F1 := mksc (s_kind (new_scope k_function false)) (s_lines (new_scope k_function false) + total_nl gap)
                  (s_instr (new_scope k_function false) + zlen gap) (s_multi (new_scope k_function false))) in *.
  assert (S3 : step (base q2) (s_open nlo) = Some (mkstate (mksc (s_kind F1) (s_lines F1 + nlo) (s_instr F1 + 1) true :: [bump g nl])
                 (r_block_start :: hist (base q2)) (brace_line_test (s_kind F1) (s_lines F1) ++ ems (base q2)))).
  { apply (step_open_mark (base q2) nlo F1 [bump g nl]); [rewrite B2; reflexivity|reflexivity|].
    rewrite B2, B1. cbn [hist]. rewrite scan_gap; [|exact Hgs|reflexivity|reflexivity]. unfold F1. cbn [s_lines new_scope].
    replace (0 + total_nl gap - zlen gap >=? 1) with false; [reflexivity|]. symmetry. rewrite Z.geb_leb. apply Z.leb_gt. lia. }
  destruct (cstep_other q2 (s_open nlo) _ S3 eq_refl) as [q3 [C3 [B3 [V3 E3]]]].
  rewrite crun_app in CR. cbn [crun] in CR. rewrite C3 in CR.
  cbn [chain Datatypes.length] in V3. rewrite V2, V1 in V3.
  replace 2%nat with (Datatypes.length (counters_start :: vs)) in V3 by (cbn [Datatypes.length]; lia). rewrite resize_same in V3.
  (* the declarations *)
  destruct (crun_vdecls nls q3 (mksc (s_kind F1) (s_lines F1 + nlo) (s_instr F1 + 1) true) [bump g nl] counters_start vs)
    as [q4 [F4 [R4 [C4 [K4 [M4 [L4 [H4 [Em4 [V4 [E4 I4]]]]]]]]]]];
    [rewrite B3; reflexivity|reflexivity|exact V3|eapply cstep_cinv; exact C3|].
  rewrite crun_app, R4 in CR.
  (* the rest of the body and the closing brace hold no declaration *)
  assert (Hnv' : forallb (fun x => negb (is_vdecl x)) (rest ++ [s_close nlc]) = true) by (rewrite forallb_app, Hnv; reflexivity).
  pose proof (crun_no_vdecl _ _ _ Hnv' CR) as E5.
  split; [rewrite E5, E4, E3, E2, E1; reflexivity|].
  split.
  { rewrite tmv_count by (unfold counters_start; lia). unfold vars_limit.
    assert (Hn : nvdecls (map vdecl nls) = zlen nls).
    { clear. induction nls as [|a l IH]; [reflexivity|]. cbn [map nvdecls]. replace (is_vdecl (vdecl a)) with true by reflexivity.
      rewrite IH. unfold zlen. cbn [Datatypes.length]. lia. }
    rewrite Hn. lia. }
  split.
  - exists g'. rewrite B'. repeat split; assumption.
  - (* the invariant holds after any step *)
    clear - CR I4. revert CR. generalize (rest ++ [s_close nlc]). intros l. revert q4 I4.
    induction l as [|x l IH]; intros q4 I4 CR; cbn [crun] in CR; [inversion CR; subst; exact I4|].
    destruct (cstep q4 x) as [q5|] eqn:S5; [|discriminate]. apply (IH q5); [eapply cstep_cinv; exact S5|exact CR].
Qed.

(* ------------------------------------------------------------------ ties *)
Lemma counter_limits_tie :
  NV.Gen.Limits.limits_check_functions_count = [("context.scope.functions"%string, ">"%string, functions_limit)] /\
  NV.Gen.Limits.limits_check_variable_declaration = [("context.scope.vars"%string, ">"%string, vars_limit)] /\
  NV.Gen.Limits.limits_check_func_declaration = [("arg"%string, ">"%string, args_limit)].
Proof. repeat split; reflexivity. Qed.
(* the three checks are dependents of the primaries the model attaches them to *)
Lemma counter_checks_depend :
  forallb (fun c => negb (str_eqb (NV.Gen.Registry.c_name c) (s "CheckFunctionsCount")) || str_eqb (List.concat (NV.Gen.Registry.c_depends c)) r_func_decl)
          NV.Gen.Registry.checks = true /\
  forallb (fun c => negb (str_eqb (NV.Gen.Registry.c_name c) (s "CheckVariableDeclaration")) || str_eqb (List.concat (NV.Gen.Registry.c_depends c)) r_var_decl)
          NV.Gen.Registry.checks = true /\
  func_declaration_depends = [s "IsFuncDeclaration"; s "IsFuncPrototype"; s "IsUserDefinedType"].
Proof. repeat split; reflexivity. Qed.
(* the only statement of the argument-counting slice that is not translated only tests blanks and emits NO_SPC_BFR_PAR *)
Lemma args_left_out_expected : args_left_out = ["context.check_token(i - 1, ['SPACE', 'TAB']) is True"%string].
Proof. reflexivity. Qed.
(* every store to .functions / .vars / .fname_pos in the source; CheckBlockStart's `functions -= 1` sits in the tmp_scope branch
   (tmp_scope is only ever None, see scope_write_sites_expected) *)
Lemma counter_write_sites_expected : counter_write_sites =
  ["norminette/rules/check_block_start.py:run: context.scope.functions -= 1"%string;
   "norminette/rules/check_variable_declaration.py:run: context.scope.vars += 1"%string;
   "norminette/rules/is_func_declaration.py:check_func_format: context.fname_pos = i"%string;
   "norminette/rules/is_func_declaration.py:run: context.scope.functions += 1"%string;
   "norminette/rules/is_func_prototype.py:check_func_format: context.fname_pos = i"%string;
   "norminette/context.py:__init__: self.fname_pos = 0"%string;
   "norminette/scope.py:__init__: self.vars = 0"%string;
   "norminette/scope.py:__init__: self.functions = 0"%string;
   "norminette/scope.py:__init__: self.fname_pos = 0"%string].
Proof. reflexivity. Qed.

(* ------------------------------------------------------------------ non-vacuity: the boundary cases evaluated in the model *)
Definition x_small_func : list stmt := block_of (s_func 1) [] 1 [mkstmt (s "IsExpressionStatement") 1 None] 1.
Definition x_blank_c : stmt := mkstmt (s "IsEmptyLine") 1 None.
Definition file_of (k : nat) : list stmt := List.concat (repeat (x_small_func ++ [x_blank_c]) k).
Example funcs_at_the_boundary : map (fun k => match crun cstate0 (file_of k) with Some q => Some (functions q, fems q) | None => None end) [5%nat; 6%nat; 8%nat]
  = [Some (5, []); Some (6, [tmf]); Some (8, [tmf; tmf; tmf])].
Proof. vm_compute. reflexivity. Qed.
Lemma file_of_is_file k : file (file_of k).
Proof.
  induction k as [|k IH]; [constructor|]. unfold file_of. cbn [repeat List.concat]. fold (file_of k). rewrite <- app_assoc.
  apply (F_cons x_small_func).
  - apply (T_func 1 [] 1 [mkstmt (s "IsExpressionStatement") 1 None] 1).
    + split; [constructor|unfold total_nl, zlen; cbn; lia].
    + apply (B_unit [mkstmt (s "IsExpressionStatement") 1 None] []); [apply U_plain; reflexivity|constructor].
  - apply (F_cons [x_blank_c]); [apply T_skip; split; reflexivity|exact IH].
Qed.
Definition func_with_vars (v : nat) : list stmt :=
  block_of (s_func 1) [] 1 (map vdecl (repeat 1 v) ++ [x_blank_c; mkstmt (s "IsExpressionStatement") 1 None]) 1.
(* a first function with 7 declarations, then one with 5 / 6: the second counter starts from 0 *)
Example vars_at_the_boundary :
  map (fun v => match crun cstate0 (func_with_vars 7 ++ [x_blank_c] ++ func_with_vars v) with Some q => Some (vems q, vars q) | None => None end) [5%nat; 6%nat]
  = [Some ([tmv; tmv], [0]); Some ([tmv; tmv; tmv], [0])].
Proof. vm_compute. reflexivity. Qed.
(* `int f(int a, void *b, char ( *g)(int, int), int d[2], int e)` : five parameters, commas inside the parentheses of the function
   pointer do not count; and `f(void)` counts as one *)
Definition tk (ty : string) (c : Z) : token := mk_tok (s ty) 3 c.
Definition x_params5 : list token :=
  [tk "INT" 7; tk "SPACE" 10; tk "IDENTIFIER" 11; tk "COMMA" 12; tk "SPACE" 13; tk "VOID" 14; tk "SPACE" 18; tk "MULT" 19; tk "IDENTIFIER" 20; tk "COMMA" 21;
   tk "SPACE" 22; tk "CHAR" 23; tk "SPACE" 27; tk "LPARENTHESIS" 28; tk "MULT" 29; tk "IDENTIFIER" 30; tk "RPARENTHESIS" 31;
   tk "LPARENTHESIS" 32; tk "INT" 33; tk "COMMA" 36; tk "SPACE" 37; tk "INT" 38; tk "RPARENTHESIS" 41; tk "COMMA" 42; tk "SPACE" 43;
   tk "INT" 44; tk "SPACE" 47; tk "IDENTIFIER" 48; tk "LBRACKET" 49; tk "CONSTANT" 50; tk "RBRACKET" 51; tk "COMMA" 52; tk "SPACE" 53;
   tk "INT" 54; tk "SPACE" 57; tk "IDENTIFIER" 58].
Definition x_decl5 : list token := [tk "INT" 1; tk "TAB" 4; tk "IDENTIFIER" 5; tk "LPARENTHESIS" 6] ++ x_params5 ++ [tk "RPARENTHESIS" 59; tk "NEWLINE" 60].
Example args_five : check_func_decl_args x_decl5 42 2 (mkview [] [] false 0 false false) = Ok (5, 41, [(s "TOO_MANY_ARGS", 3, 60)]).
Proof. vm_compute. reflexivity. Qed.
Example args_void : check_func_decl_args [tk "INT" 1; tk "TAB" 4; tk "IDENTIFIER" 5; tk "LPARENTHESIS" 6; tk "VOID" 7; tk "RPARENTHESIS" 11; tk "NEWLINE" 12] 7 2
                      (mkview [] [] false 0 false false) = Ok (1, 6, []).
Proof. vm_compute. reflexivity. Qed.
(* `int, char ( *g)(int, int)` is a parameter list with one top-level comma: the hypotheses of args_iff are inhabited *)
Example a_plist : plist [tk "INT" 1; tk "COMMA" 4; tk "CHAR" 6; tk "LPARENTHESIS" 11; tk "MULT" 12; tk "IDENTIFIER" 13; tk "RPARENTHESIS" 14;
                         tk "LPARENTHESIS" 15; tk "INT" 16; tk "COMMA" 19; tk "INT" 21; tk "RPARENTHESIS" 24] (0 + 1).
Proof.
  apply pl_tok; [reflexivity|]. apply pl_comma; [reflexivity|]. apply pl_tok; [reflexivity|].
  apply (pl_grp (tk "LPARENTHESIS" 11) (tk "RPARENTHESIS" 14) [tk "MULT" 12; tk "IDENTIFIER" 13]); [reflexivity|reflexivity| |].
  - apply bal_tok; [reflexivity|reflexivity|]. apply bal_tok; [reflexivity|reflexivity|]. constructor.
  - apply (pl_grp (tk "LPARENTHESIS" 15) (tk "RPARENTHESIS" 24) [tk "INT" 16; tk "COMMA" 19; tk "INT" 21] []); [reflexivity|reflexivity| |constructor].
    repeat (apply bal_tok; [reflexivity|reflexivity|]). constructor.
Qed.
