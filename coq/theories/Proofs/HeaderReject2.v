(* C13, reject direction at file level, continued: the condition "the first token is not a block comment" read off the
   SOURCE TEXT (Proofs/FirstToken.v: only a text that begins with `/*` yields a MULT_COMMENT token first), and the
   classes Hm1 / Hm2 / Hm4 (no header, code first, // comments). *)
From NV Require Import Model.Base Model.Diag Model.Lexer Model.RuleChecks Model.EngineTok0 Model.Engine Model.RegistryOrder
  Gen.Registry Gen.IsComment Model.EngineTok
  Model.HeaderRe Model.HeaderState Gen.HeaderRe Gen.HeaderSM Model.Header Proofs.HeaderReProofs Proofs.HeaderProofs
  Proofs.LineShift Proofs.LineShiftCor Proofs.CommentLines Proofs.HeaderLex Proofs.HeaderTurns Proofs.HeaderReject
  Proofs.FirstToken.
From Coq Require Import Lia.

Local Open Scope Z_scope.

(* the text does not begin with the two characters `/*` *)
Definition no_opening (src : str) : Prop := raw_peek 2 src <> Some (s "/*").

Theorem first_tok_from_text : forall uw ud src t lo hi its xf,
  lex uw ud src = Ok (ITok t lo hi :: its, xf) -> no_opening src ->
  first_tok_not_block (tokens_of (ITok t lo hi :: its)) = true.
Proof.
  intros uw ud src t lo hi its xf H Hn.
  exact (first_item_not_mult uw ud src _ xf t lo hi its H eq_refl Hn).
Qed.

(* Hm1 / Hm2 / Hm4 and every other file that does not begin with `/*` and whose first item is a token:
   exactly one INVALID_HEADER once that first statement is recognised *)
Theorem file_reject_no_opening : forall uw ud file t lo hi its xf' oracle name jmp m,
  lex uw ud file = Ok (ITok t lo hi :: its, xf') -> no_opening file -> oracle 0%nat = Matched name jmp ->
  diag_count (events_upto oracle (tokens_of (ITok t lo hi :: its)) (S m)) = 1%nat.
Proof.
  intros uw ud file t lo hi its xf' oracle name jmp m H Hn Ho.
  exact (file_reject_first uw ud file _ xf' oracle name jmp m H (first_tok_from_text uw ud file t lo hi its xf' H Hn) Ho).
Qed.

(* a text that begins with `//`: if the tokenizer accepts it, its first item is a token (the line comment) *)
Lemma line_comment_first : forall uw ud r items xf, lex uw ud (47%N :: 47%N :: r) = Ok (items, xf) ->
  exists t lo hi its, items = ITok t lo hi :: its.
Proof.
  intros uw ud r items xf H. unfold lex in H. cbn [lex_loop] in H.
  assert (A : at_splice (47%N :: 47%N :: r) = false) by (cbn; reflexivity).
  destruct (step uw ud (init (47%N :: 47%N :: r))) as [|i x1|e] eqn:Es; [| |discriminate H].
  - exfalso. unfold step in Es. cbn [init rest] in Es. rewrite A in Es.
    destruct (try_parsers uw ud parsers (init (47%N :: 47%N :: r))); discriminate Es.
  - rewrite lex_loop_acc in H. destruct (lex_loop uw ud _ x1 []) as [[its1 xf1]| | |]; cbn [pre_items rev app] in H; try discriminate H.
    inversion H; subst. clear H. unfold step in Es. cbn [init rest] in Es.
    rewrite A in Es.
    set (x := init (47%N :: 47%N :: r)) in *.
    destruct (try_parsers uw ud parsers x) as [|t0 x0|e0] eqn:Et; [|inversion Es; eauto|discriminate Es].
    exfalso. clear Es. revert Et.
    destruct (run_parser_names uw ud x) as (E1 & E2 & E3 & E4 & E5 & E6 & E7 & _).
    unfold parsers. cbn [try_parsers]. rewrite E1, E2, E3, E4, E5, E6, E7.
    assert (F1 : parse_float_literal uw ud x = PNone) by (subst x; cbn; reflexivity).
    assert (F2 : parse_integer_literal uw ud x = PNone) by (subst x; cbn; reflexivity).
    assert (F3 : parse_char_literal x = PNone) by (subst x; cbn; reflexivity).
    assert (F4 : parse_string_literal x = PNone) by (subst x; cbn; reflexivity).
    assert (F5 : parse_identifier x = PNone) by (subst x; cbn; reflexivity).
    assert (F6 : parse_whitespace x = PNone) by (subst x; cbn; reflexivity).
    rewrite F1, F2, F3, F4, F5, F6.
    assert (F7 : parse_line_comment x <> PNone).
    { subst x. unfold parse_line_comment. cbn [rest raw_peek firstn].
      change (negb (str_eqb [47%N; 47%N] (s "//"))) with false. cbv iota. unfold of_popres.
      destruct (popn 2 _ []); try discriminate. destruct (lc_loop _ _ _); discriminate. }
    destruct (parse_line_comment x); [congruence|discriminate|discriminate].
Qed.

(* Hm4: the header written with // comments (or any file that begins with `//`) *)
Theorem file_reject_Hm4 : forall uw ud r items' xf' oracle name jmp m,
  lex uw ud (47%N :: 47%N :: r) = Ok (items', xf') -> oracle 0%nat = Matched name jmp ->
  diag_count (events_upto oracle (tokens_of items') (S m)) = 1%nat.
Proof.
  intros uw ud r items' xf' oracle name jmp m H Ho.
  destruct (line_comment_first uw ud r items' xf' H) as (t & lo & hi & its & ->).
  apply (file_reject_no_opening uw ud (47%N :: 47%N :: r) t lo hi its xf' oracle name jmp m H); [|exact Ho].
  unfold no_opening. cbn [raw_peek firstn]. intros E. inversion E.
Qed.

Lemma hm4_text_begins : forall f rest, exists r,
  lines_text (map (fun m => s "//" ++ m) (template_mids f)) ++ rest = 47%N :: 47%N :: r.
Proof. intros f rest. unfold template_mids, lines_text. cbn [map List.concat app]. eexists. reflexivity. Qed.

(* the same conditions for the text after a damaged header (Hm6 / Hm7 / Hm8): src begins with an empty line, or
   its first item is a token and it does not begin with `/*` *)
Theorem src_condition : forall uw ud src items xf,
  lex uw ud src = Ok (items, xf) ->
  ((exists r, src = 10%N :: r) \/ (no_opening src /\ exists t lo hi its, items = ITok t lo hi :: its)) ->
  first_tok_not_block (tokens_of items) = true.
Proof.
  intros uw ud src items xf H [(r & ->)|(Hn & t & lo & hi & its & ->)].
  - exact (blank_line_first_tok uw ud r items xf H).
  - exact (first_tok_from_text uw ud src t lo hi its xf H Hn).
Qed.
