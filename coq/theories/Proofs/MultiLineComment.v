(* A block comment whose body contains newlines is ONE MULT_COMMENT token, whatever follows the closing `*/`; line and
   column advance as the pop of a newline inside a comment does it.  (Proofs/CommentLines.v: one-line bodies.) *)
From NV Require Import Model.Base Model.Diag Model.Lexer Model.NumRe Spec.TruePos Spec.Normalise
  Proofs.LexText Proofs.LineShift Proofs.LineShiftCor Proofs.CommentLines.
From Coq Require Import Lia.

Local Open Scope Z_scope.

(* characters of a multi-line body: as cok, but the newline is allowed *)
Definition cokm (c : N) : bool := negb (N.eqb c 92 || N.eqb c 63 || N.eqb c 9).
Fixpoint chainm_ok (prev : N) (b : str) : bool :=
  match b with
  | [] => true
  | c :: b' => cokm c && pair_ok prev c && chainm_ok c b'
  end.
Definition bodym_ok (body : str) : bool := chainm_ok 42 (body ++ [42%N]).

(* position after the body: a newline goes to column 1 of the next line (pop_finish: set_pos (line + 1) 0, then + size) *)
Fixpoint posm (l c : Z) (b : str) : Z * Z :=
  match b with
  | [] => (l, c)
  | ch :: b' => if N.eqb ch 10 then posm (l + 1) 1 b' else posm l (c + 1) b'
  end.

Lemma cokm_inv c : cokm c = true -> N.eqb c 92 = false /\ N.eqb c 63 = false /\ N.eqb c 9 = false.
Proof. unfold cokm. intros H. apply negb_true_iff in H. repeat (apply orb_false_iff in H; destruct H as [H ?]). auto. Qed.

Lemma cokm_cok c : cokm c = true -> N.eqb c 10 = false -> cok c = true.
Proof. intros H H10. destruct (cokm_inv c H) as (A & B & C). unfold cok. rewrite A, B, H10, C. reflexivity. Qed.

(* popping a newline inside (or outside) a comment *)
Lemma pop1_newline us t x : rest x = 10%N :: t ->
  pop1 us false x = PopOk [10%N] (mkst t (off x + 1)%nat (line x + 1) 1 (errs x)).
Proof.
  intros Hr. assert (Hd : match t with d :: _ => std_digraph 10 d = None | [] => True end) by (destruct t; [exact I|reflexivity]).
  unfold pop1, pop_loop_bound. rewrite pop_inner_S. rewrite Hr, (peek1_single 10 t eq_refl Hd).
  change (negb (is_bs [10%N])) with true. cbv iota.
  unfold pop_finish. change (is_nl [10%N]) with true. change (ends_with [9%N] [10%N]) with false. cbv iota.
  unfold advance, set_pos. cbn [rest off line col errs]. rewrite Hr. reflexivity.
Qed.

Lemma pop1_body_char us c t x : rest x = c :: t -> cokm c = true ->
  match t with d :: _ => std_digraph c d = None | [] => True end ->
  pop1 us false x = PopOk [c] (mkst t (off x + 1)%nat (fst (posm (line x) (col x) [c])) (snd (posm (line x) (col x) [c])) (errs x)).
Proof.
  intros Hr Hc Hd. cbn [posm]. destruct (N.eqb c 10) eqn:E.
  - apply N.eqb_eq in E. subst c. cbn [fst snd]. apply pop1_newline. exact Hr.
  - cbn [fst snd]. apply (pop1_single us c t x Hr (cokm_cok c Hc E) Hd).
Qed.

Lemma posm_snoc : forall b l c ch, posm l c (b ++ [ch]) = posm (fst (posm l c b)) (snd (posm l c b)) [ch].
Proof. induction b as [|a b IH]; intros l c ch; [reflexivity|]. cbn [app posm]. destruct (N.eqb a 10); apply IH. Qed.

Lemma posm_cons : forall b l c ch, posm l c (ch :: b) = posm (fst (posm l c [ch])) (snd (posm l c [ch])) b.
Proof. intros b l c ch. cbn [posm]. destruct (N.eqb ch 10); reflexivity. Qed.

Lemma chainm_head c b z more : chainm_ok c (b ++ [z]) = true ->
  match b ++ z :: more with d :: _ => std_digraph c d = None | [] => True end.
Proof.
  destruct b as [|d b']; cbn [app chainm_ok]; intros H; apply andb_prop in H; destruct H as [H _];
    apply andb_prop in H; destruct H as [_ H]; apply pair_ok_inv in H; tauto.
Qed.

Lemma mc_chain_ml : forall b prev w x tail fuel,
  rest x = b ++ 42%N :: 47%N :: tail -> chainm_ok prev (b ++ [42%N]) = true -> (List.length b + 2 <= fuel)%nat ->
  mc_loop fuel (w ++ [prev]) x =
    MDone (w ++ [prev] ++ b ++ [42%N; 47%N]) false
          (mkst tail (off x + List.length b + 2)%nat (fst (posm (line x) (col x) b)) (snd (posm (line x) (col x) b) + 2) (errs x)).
Proof.
  induction b as [|c b IH]; intros prev w x tail fuel Hr Hc Hf.
  - (* the closing star and slash: the one-line lemma with an empty body *)
    assert (Hc' : chain_ok prev ([] ++ [42%N]) = true).
    { cbn [app chainm_ok chain_ok] in *. apply andb_prop in Hc. destruct Hc as [Hc _]. apply andb_prop in Hc. destruct Hc as [_ Hp].
      rewrite Hp. reflexivity. }
    rewrite (mc_chain [] prev w x tail fuel Hr Hc' Hf). cbn [posm fst snd List.length]. f_equal. f_equal; lia.
  - destruct fuel as [|f]; [cbn in Hf; lia|]. cbn [app] in Hr, Hc. cbn [chainm_ok] in Hc.
    apply andb_prop in Hc. destruct Hc as [Hc Hch]. apply andb_prop in Hc. destruct Hc as [Hcok Hp].
    destruct (cokm_inv c Hcok) as (_ & H63 & _). pose proof (chainm_head c b 42 (47%N :: tail) Hch) as Hd.
    cbn [mc_loop]. rewrite Hr, (peek1_single c _ H63 Hd). rewrite (pop1_body_char true c _ x Hr Hcok Hd).
    change (s "*/") with [42%N; 47%N]. rewrite <- app_assoc. cbn [app]. rewrite ends2.
    destruct (pair_ok_inv prev c Hp) as [_ Hpc].
    replace (N.eqb 42 prev && (N.eqb 47 c && true)) with false
      by (rewrite andb_true_r, (N.eqb_sym 42 prev), (N.eqb_sym 47 c); symmetry; exact Hpc).
    change (w ++ [prev; c]) with (w ++ [prev] ++ [c]). rewrite app_assoc.
    rewrite (IH c (w ++ [prev]) _ tail f); [|reflexivity|exact Hch|cbn in Hf; lia].
    cbn [rest off line col errs List.length app]. rewrite <- !app_assoc. cbn [app].
    rewrite (posm_cons b (line x) (col x) c). f_equal. f_equal; lia.
Qed.

(* ------------------------------------------------------------------ one step on `/* body */ tail`, body with newlines *)
Lemma parse_comment_ml body tail o l c e : bodym_ok body = true ->
  parse_multi_line_comment (mkst (47%N :: 42%N :: body ++ 42%N :: 47%N :: tail) o l c e) =
    PTok (mktok MULT_COMMENT l c (Some (comment_text body)))
         (mkst tail (o + List.length body + 4)%nat (fst (posm l (c + 2) body)) (snd (posm l (c + 2) body) + 2) e).
Proof.
  intros Hb. set (T := body ++ 42%N :: 47%N :: tail).
  assert (Hd : match T with d :: _ => std_digraph 42 d = None | [] => True end) by (destruct T; [exact I|reflexivity]).
  unfold parse_multi_line_comment. cbn [rest raw_peek firstn].
  change (negb (str_eqb [47%N; 42%N] (s "/*"))) with false. cbn iota. unfold of_popres. cbn [popn].
  rewrite (pop1_single false 47 (42%N :: T) (mkst (47%N :: 42%N :: T) _ _ _ _) eq_refl eq_refl eq_refl).
  rewrite (pop1_single false 42 T (mkst (42%N :: T) _ _ _ _) eq_refl eq_refl Hd). cbn [app rest off line col errs].
  change [47%N; 42%N] with ([47%N] ++ [42%N]).
  rewrite (mc_chain_ml body 42 [47%N] _ tail); [|reflexivity|exact Hb|subst T; rewrite app_length; cbn [List.length]; lia].
  cbn [rest off line col errs app]. unfold comment_text, MULT_COMMENT.
  replace (c + 1 + 1) with (c + 2) by lia. f_equal. f_equal; lia.
Qed.

Theorem step_comment_ml uw ud body tail o l c e : bodym_ok body = true ->
  step uw ud (mkst (47%N :: 42%N :: body ++ 42%N :: 47%N :: tail) o l c e) =
    StepItem (ITok (mktok MULT_COMMENT l c (Some (comment_text body))) o (o + List.length body + 4)%nat)
             (mkst tail (o + List.length body + 4)%nat (fst (posm l (c + 2) body)) (snd (posm l (c + 2) body) + 2) e).
Proof.
  intros Hb. unfold step. cbn [rest].
  assert (A : at_splice (47%N :: 42%N :: body ++ 42%N :: 47%N :: tail) = false) by (cbn; reflexivity).
  rewrite A, (parsers_on_comment uw ud _ o l c e _ _ (parse_comment_ml body tail o l c e Hb)). reflexivity.
Qed.

Definition count_nl (b : str) : Z := Z.of_nat (List.length (filter (N.eqb 10) b)).

Lemma posm_line : forall b l c, fst (posm l c b) = l + count_nl b.
Proof.
  induction b as [|ch b IH]; intros l c; [unfold count_nl; cbn; lia|]. cbn [posm]. unfold count_nl in *. cbn [filter].
  rewrite (N.eqb_sym 10 ch). destruct (N.eqb ch 10); rewrite IH; cbn [List.length]; lia.
Qed.

(* ------------------------------------------------------------------ one (multi-line) block comment, a newline, then any text *)
Theorem lex_block_comment_then_text : forall uw ud body src items xf, bodym_ok body = true ->
  lex uw ud src = Ok (items, xf) ->
  lex uw ud (comment_text body ++ 10%N :: src) =
    Ok (ITok (mktok MULT_COMMENT 1 1 (Some (comment_text body))) 0 (List.length body + 4)%nat
        :: ITok (mktok NEWLINE (1 + count_nl body) (snd (posm 1 3 body) + 2) None) (List.length body + 4)%nat (List.length body + 4 + 1)%nat
        :: map (sh_item (count_nl body + 1) (List.length body + 4 + 1)%nat) items,
        shl (count_nl body + 1) (List.length body + 4 + 1)%nat xf).
Proof.
  intros uw ud body src items xf Hb Hs. unfold lex at 1. unfold init.
  assert (E : comment_text body ++ 10%N :: src = 47%N :: 42%N :: body ++ 42%N :: 47%N :: 10%N :: src).
  { unfold comment_text. cbn [app]. rewrite <- app_assoc. reflexivity. }
  rewrite E. assert (HL : List.length (47%N :: 42%N :: body ++ 42%N :: 47%N :: 10%N :: src) = (List.length body + 5 + List.length src)%nat).
  { cbn [List.length]. rewrite app_length. cbn [List.length]. lia. }
  rewrite HL. replace (S (List.length body + 5 + List.length src)) with (S (S (List.length body + 4 + List.length src))) by lia.
  cbn [lex_loop]. rewrite (step_comment_ml uw ud body (10%N :: src) 0 1 1 [] Hb). rewrite step_newline.
  change (1 + 2) with 3. rewrite posm_line.
  replace (1 + count_nl body + 1) with (1 + (count_nl body + 1)) by lia.
  rewrite (continue_after_prefix uw ud src (count_nl body + 1) _ _ items xf _ Hs) by lia.
  cbn [rev app]. replace (0 + List.length body + 4)%nat with (List.length body + 4)%nat by lia. reflexivity.
Qed.

(* a real two-line comment *)
Example two_line_comment :
  let nouni := fun _ : N => false in
  let body := s " first line" ++ [10%N] ++ s "** second, with stars * and a / " in
  bodym_ok body = true /\ count_nl body = 1 /\
  match lex nouni nouni (comment_text body ++ 10%N :: s "int x;") with
  | Ok (ITok t1 _ _ :: ITok t2 _ _ :: ITok t3 _ _ :: _, _) =>
      (t_type t1, t_val t1, t_line t1, t_col t1) = (MULT_COMMENT, Some (comment_text body), 1, 1) /\
      (t_type t2, t_line t2, t_col t2) = (NEWLINE, 2, 35) /\ (t_type t3, t_line t3, t_col t3) = (s "INT", 3, 1)
  | _ => False
  end.
Proof. vm_compute. repeat split; reflexivity. Qed.
