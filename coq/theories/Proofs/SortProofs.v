(* Generic facts about min_by and the insertion sort that models list.sort(),
   for a comparator that is a strict weak order on the elements satisfying P. *)
From NV Require Import Model.Base Model.Diag Model.Errors.
From Coq Require Import Lia Sorting.Sorted Sorting.Permutation.

Section SWO.
  Context {A : Type} (lt : A -> A -> bool) (P : A -> Prop).
  Hypothesis irrefl : forall a, P a -> lt a a = false.
  Hypothesis trans : forall a b c, P a -> P b -> P c -> lt a b = true -> lt b c = true -> lt a c = true.
  Hypothesis negtrans : forall a b c, P a -> P b -> P c -> lt a b = false -> lt b c = false -> lt a c = false.

  Lemma swo_asym a b : P a -> P b -> lt a b = true -> lt b a = false.
  Proof.
    intros Pa Pb H. destruct (lt b a) eqn:E; [|reflexivity].
    pose proof (trans a b a Pa Pb Pa H E) as T. rewrite irrefl in T by assumption. discriminate.
  Qed.

  Definition le (x y : A) : Prop := lt y x = false.

  (* ---- min_by ---- *)
  Lemma fold_min_spec r : forall m, P m -> Forall P r ->
    let m' := fold_left (fun m y => if lt y m then y else m) r m in
    In m' (m :: r) /\ forall x, In x (m :: r) -> lt x m' = false.
  Proof.
    induction r as [|y r IH]; intros m Pm Pr; cbn [fold_left].
    - split; [now left|]. intros x [<-|[]]. now apply irrefl.
    - inversion Pr as [|? ? Py Pr']; subst.
      set (m2 := if lt y m then y else m).
      assert (Pm2 : P m2) by (unfold m2; destruct (lt y m); assumption).
      destruct (IH m2 Pm2 Pr') as [Hin Hmin].
      set (m' := fold_left (fun m0 y0 => if lt y0 m0 then y0 else m0) r m2) in *.
      assert (Pm' : P m').
      { destruct Hin as [<-|Hin]; [assumption|]. rewrite Forall_forall in Pr'. now apply Pr'. }
      split.
      + destruct Hin as [Hin|Hin].
        * unfold m2 in Hin. destruct (lt y m); [right; left|left]; congruence.
        * right; right; assumption.
      + intros x [<-|[<-|Hx]].
        * (* x = m *)
          unfold m2 in *. destruct (lt y m) eqn:E.
          -- destruct (lt m m') eqn:E2; [|reflexivity].
             pose proof (trans _ _ _ Py Pm Pm' E E2) as T.
             rewrite (Hmin y (or_introl eq_refl)) in T. discriminate.
          -- apply Hmin. now left.
        * (* x = y *)
          unfold m2 in *. destruct (lt y m) eqn:E.
          -- apply Hmin. now left.
          -- eapply negtrans; [exact Py|exact Pm|exact Pm'|exact E|]. apply Hmin. now left.
        * apply Hmin. now right.
  Qed.

  Lemma min_by_spec d l : l <> [] -> Forall P l ->
    In (min_by lt d l) l /\ forall x, In x l -> lt x (min_by lt d l) = false.
  Proof.
    destruct l as [|m r]; [congruence|]. intros _ Pl. inversion Pl; subst.
    unfold min_by. now apply fold_min_spec.
  Qed.

  (* ---- insertion sort ---- *)
  Lemma insert_perm x l : Permutation (x :: l) (insert_by lt x l).
  Proof.
    induction l as [|y r IH]; cbn; [reflexivity|].
    destruct (lt x y); [reflexivity|].
    rewrite perm_swap. now constructor.
  Qed.

  Lemma insert_in x l w : In w (insert_by lt x l) -> w = x \/ In w l.
  Proof.
    intros H. apply (Permutation_in _ (Permutation_sym (insert_perm x l))) in H.
    destruct H; [left; congruence|right; assumption].
  Qed.

  Lemma insert_sorted x l : P x -> Forall P l -> StronglySorted le l -> StronglySorted le (insert_by lt x l).
  Proof.
    intros Px. induction l as [|y r IH]; intros Pl Hs; cbn.
    - constructor; constructor.
    - inversion Pl as [|? ? Py Pr]; subst. inversion Hs as [|? ? Hs' Hy]; subst.
      destruct (lt x y) eqn:E.
      + constructor; [assumption|]. constructor.
        * unfold le. now apply swo_asym.
        * rewrite Forall_forall in *. intros z Hz. unfold le.
          destruct (lt z x) eqn:E2; [|reflexivity].
          pose proof (trans _ _ _ (Pr z Hz) Px Py E2 E) as T.
          specialize (Hy z Hz). unfold le in Hy. congruence.
      + constructor; [now apply IH|].
        rewrite Forall_forall in *. intros w Hw. apply insert_in in Hw as [->|Hw].
        * exact E.
        * now apply Hy.
  Qed.

  Lemma insert_P x l : P x -> Forall P l -> Forall P (insert_by lt x l).
  Proof.
    intros Px Pl. rewrite Forall_forall in *. intros w Hw. apply insert_in in Hw as [->|Hw]; auto.
  Qed.

  Lemma fold_insert_sorted l : forall acc, Forall P acc -> Forall P l -> StronglySorted le acc ->
    StronglySorted le (fold_left (fun acc x => insert_by lt x acc) l acc).
  Proof.
    induction l as [|x l IH]; intros acc Pa Pl Hs; cbn; [assumption|].
    inversion Pl; subst. apply IH; [now apply insert_P|assumption|now apply insert_sorted].
  Qed.

  Lemma sort_by_sorted l : Forall P l -> StronglySorted le (sort_by lt l).
  Proof. intros Pl. unfold sort_by. apply fold_insert_sorted; [constructor|assumption|constructor]. Qed.

  Lemma fold_insert_perm l : forall acc, Permutation (acc ++ l) (fold_left (fun acc x => insert_by lt x acc) l acc).
  Proof.
    induction l as [|x l IH]; intros acc; cbn; [now rewrite app_nil_r|].
    rewrite <- IH. rewrite <- insert_perm. cbn. symmetry. apply Permutation_middle.
  Qed.

  Lemma sort_by_perm l : Permutation l (sort_by lt l).
  Proof. unfold sort_by. apply (fold_insert_perm l []). Qed.
End SWO.
