(* C16 - options change the presentation, never the findings.  Lemmas about Model/Options.v. *)
From NV Require Import Model.Base Model.Diag Model.Errors Model.Cli Model.Engine Model.Options Gen.Options Gen.Catalogue
  Proofs.StrOrder.
From Coq Require Import Lia.
Local Open Scope Z_scope.

(* ================================================================== ties to the source (Gen.Options) *)
Lemma debug_reads_reviewed : debug_reads = reviewed_debug_reads.
Proof. reflexivity. Qed.

(* every syntactic use of a debug level prints, raises the controlled error, or passes the value along *)
Lemma debug_reads_presentation_only : forallb (fun e => presentation_use (snd e)) debug_reads = true.
Proof. vm_compute. reflexivity. Qed.

Lemma skip_reads_reviewed : skip_reads = reviewed_skip_reads.
Proof. reflexivity. Qed.

Lemma define_guard_structure :
  define_codes_before_guard = [s "MACRO_NAME_CAPITAL"; s "MACRO_FUNC_FORBIDDEN"] /\
  define_codes_after_guard = [s "PREPROC_CONSTANT"; s "PREPROC_CONSTANT"] /\
  define_after_guard_calls = reviewed_define_after_guard_calls /\
  define_after_guard_targets = ["i"%string] /\
  silenced_code_mentions = reviewed_silenced_code_mentions /\
  dynamic_emitters = reviewed_dynamic_emitters.
Proof. repeat split; reflexivity. Qed.

Lemma presentation_reads_reviewed :
  main_args_reads = reviewed_main_args_reads /\
  formatter_option_reads = reviewed_formatter_option_reads /\
  presentation_names_in_analysis = [] /\
  argparse_table = reviewed_argparse_table.
Proof. repeat split; reflexivity. Qed.

(* -o is parsed and never read *)
Lemma only_filename_never_read :
  existsb (fun e => String.eqb (fst (fst e)) "only_filename") main_args_reads = false.
Proof. vm_compute. reflexivity. Qed.

(* ================================================================== the loop: same loop as Engine.run *)
Section Erase.
  Context {St : Type}.
  Variable step : Z -> St -> sres St.
  Variable d : Z.

  Lemma run_st_erases : forall fuel (st : St) n unrec acc oracle iter,
    (forall k, oracle (iter + k)%nat = oracle_from step d st k) ->
    run fuel oracle iter d n unrec acc = outcome_map fst (run_st fuel step d st n unrec acc).
  Proof.
    induction fuel as [|f IH]; intros st n unrec acc oracle iter H; [reflexivity|].
    cbn [run run_st]. destruct n as [|n'].
    - destruct (Nat.ltb 0 unrec && (d =? 0)); reflexivity.
    - pose proof (H 0%nat) as H0. rewrite Nat.add_0_r in H0. cbn [oracle_from] in H0. rewrite H0.
      destruct (step d st) as [name jump st'|st'|m|e] eqn:E; cbn [erase_sres]; try reflexivity.
      + destruct (Nat.ltb 0 unrec && (d =? 0)); [reflexivity|].
        apply IH. intros k. replace (S iter + k)%nat with (iter + S k)%nat by lia.
        rewrite H. cbn [oracle_from]. rewrite E. reflexivity.
      + apply IH. intros k. replace (S iter + k)%nat with (iter + S k)%nat by lia.
        rewrite H. cbn [oracle_from]. rewrite E. reflexivity.
  Qed.
End Erase.

Theorem run_st_is_engine_run {St} (step : Z -> St -> sres St) d st ntokens :
  run_file (oracle_from step d st) d ntokens = outcome_map fst (run_st (S ntokens) step d st ntokens 0 []).
Proof. unfold run_file. apply run_st_erases. intros k. reflexivity. Qed.

(* ================================================================== the debug level *)
(* the rules read the debug level only to decide whether to raise: whenever two levels both let a turn of the
   loop finish, the turn does the same thing (Gen.Options.debug_reads: every read guards a raise or a print) *)
Definition debug_insensitive {St} (step : Z -> St -> sres St) : Prop :=
  forall d1 d2 st, raises (step d1 st) = false -> raises (step d2 st) = false -> step d1 st = step d2 st.

(* ... and they raise only at level 0 (every guard is `== 0`) *)
Definition raises_only_at_zero {St} (step : Z -> St -> sres St) : Prop :=
  forall d st, raises (step 0 st) = false -> step d st = step 0 st.

Section Debug.
  Context {St : Type}.
  Variable step : Z -> St -> sres St.

  Theorem debug_only_presentation_st : debug_insensitive step ->
    forall fuel d1 d2 st n u acc r1 r2,
      run_st fuel step d1 st n u acc = Ok r1 -> run_st fuel step d2 st n u acc = Ok r2 -> r1 = r2.
  Proof.
    intros HI. induction fuel as [|f IH]; intros d1 d2 st n u acc r1 r2; cbn [run_st]; [discriminate|].
    destruct n as [|n'].
    - destruct (Nat.ltb 0 u && (d1 =? 0)); [discriminate|].
      destruct (Nat.ltb 0 u && (d2 =? 0)); [discriminate|]. congruence.
    - destruct (step d1 st) as [nm1 j1 s1|s1|m1|e1] eqn:E1; try discriminate;
        destruct (step d2 st) as [nm2 j2 s2|s2|m2|e2] eqn:E2; try discriminate;
        (assert (E : step d1 st = step d2 st)
           by (apply HI; [rewrite E1|rewrite E2]; reflexivity));
        rewrite E1, E2 in E; inversion E; subst.
      + destruct (Nat.ltb 0 u && (d1 =? 0)); [discriminate|].
        destruct (Nat.ltb 0 u && (d2 =? 0)); [discriminate|]. apply IH.
      + apply IH.
  Qed.

  Theorem debug_zero_verdict_everywhere : raises_only_at_zero step ->
    forall fuel d st n u acc r, run_st fuel step 0 st n u acc = Ok r -> run_st fuel step d st n u acc = Ok r.
  Proof.
    intros HZ. induction fuel as [|f IH]; intros d st n u acc r; cbn [run_st]; [discriminate|].
    destruct n as [|n'].
    - destruct (Nat.ltb 0 u); cbn [andb]; [rewrite Z.eqb_refl; discriminate|]. cbn. trivial.
    - destruct (step 0 st) as [nm j s0|s0|m|e] eqn:E0; try discriminate;
        (rewrite (HZ d st) by (rewrite E0; reflexivity)); rewrite E0.
      + destruct (Nat.ltb 0 u); cbn [andb]; [rewrite Z.eqb_refl; discriminate|]. apply IH.
      + apply IH.
  Qed.
End Debug.

(* the statement about diagnostics: state = (core, diagnostics so far) *)
Theorem debug_only_presentation : forall (Core : Type) (step : Z -> Core * list diag -> sres (Core * list diag)),
  debug_insensitive step ->
  forall ntokens d1 d2 st segs1 c1 ds1 segs2 c2 ds2,
    run_st (S ntokens) step d1 st ntokens 0 [] = Ok (segs1, (c1, ds1)) ->
    run_st (S ntokens) step d2 st ntokens 0 [] = Ok (segs2, (c2, ds2)) ->
    ds1 = ds2 /\ status ds1 = status ds2 /\ segs1 = segs2.
Proof.
  intros Core step HI ntokens d1 d2 st segs1 c1 ds1 segs2 c2 ds2 H1 H2.
  pose proof (debug_only_presentation_st step HI _ _ _ _ _ _ _ _ _ H1 H2) as E. inversion E; subst. repeat split.
Qed.

(* ================================================================== -R *)
Lemma str_in_In x l : str_in x l = true <-> In x l.
Proof.
  unfold str_in. rewrite existsb_exists. split.
  - intros [y [Hy E]]. apply str_eqb_eq in E. subst. exact Hy.
  - intros H. exists x. split; [exact H|apply str_eqb_refl].
Qed.

Theorem skip_define_iff : forall r, skip_define_of r = true <-> exists l, r = Some l /\ In check_define_word l.
Proof.
  intros [l|]; cbn [skip_define_of].
  - rewrite str_in_In. split; [intros H; exists l; auto|intros [l' [E H]]; inversion E; subst; exact H].
  - split; [discriminate|intros [l [E _]]; discriminate].
Qed.

Theorem R_unknown_ignored : forall w, w <> check_define_word -> skip_define_of (Some [w]) = false.
Proof.
  intros w H. destruct (skip_define_of (Some [w])) eqn:E; [|reflexivity].
  apply skip_define_iff in E as [l [E H1]]. inversion E; subst. destruct H1 as [H1|[]]. congruence.
Qed.

Theorem R_unknown_words_ignored : forall l, ~ In check_define_word l -> skip_define_of (Some l) = false.
Proof.
  intros l H. destruct (skip_define_of (Some l)) eqn:E; [|reflexivity].
  apply skip_define_iff in E as [l' [E H1]]. inversion E; subst. contradiction.
Qed.

Lemma args_of_app fl f : args_of (fl ++ [f]) = apply_flag (args_of fl) f.
Proof. unfold args_of. rewrite fold_left_app. reflexivity. Qed.

Definition is_R (f : flag) : bool := match f with FlR _ => true | _ => false end.

Lemma apply_flag_R_other a f : is_R f = false -> a_R (apply_flag a f) = a_R a.
Proof. destruct f; cbn; intros; try reflexivity; discriminate. Qed.

Lemma fold_R_other : forall fl a, forallb (fun f => negb (is_R f)) fl = true -> a_R (fold_left apply_flag fl a) = a_R a.
Proof.
  induction fl as [|f fl IH]; intros a H; [reflexivity|]. cbn [fold_left forallb] in *.
  apply andb_true_iff in H as [H1 H2]. rewrite IH by exact H2. apply apply_flag_R_other.
  now apply negb_true_iff in H1.
Qed.

(* the command line as argparse hands it over: the LAST -R word decides, alone; no -R at all: nothing is skipped *)
Theorem R_last_word_decides : forall fl w rest, forallb (fun f => negb (is_R f)) rest = true ->
  c_skip_define (ctx_of_options (fl ++ FlR w :: rest)) = str_eqb check_define_word w.
Proof.
  intros fl w rest H. unfold ctx_of_options, ctx_of_args, args_of. cbn [c_skip_define].
  rewrite fold_left_app. cbn [fold_left]. rewrite fold_R_other by exact H.
  cbn [apply_flag a_R skip_define_of str_in existsb]. apply orb_false_r.
Qed.

Theorem R_absent : forall fl, forallb (fun f => negb (is_R f)) fl = true -> c_skip_define (ctx_of_options fl) = false.
Proof.
  intros fl H. unfold ctx_of_options, ctx_of_args, args_of. cbn [c_skip_define]. rewrite fold_R_other by exact H. reflexivity.
Qed.

(* the define check itself *)
Lemma define_check_skip : forall o,
  define_check true o = filter (fun c => negb (str_in c silenced_codes)) (define_check false o).
Proof. intros [[] [] [] []]; vm_compute; reflexivity. Qed.

Lemma define_check_codes : forall o c, In c (define_check false o) ->
  In c (define_codes_before_guard ++ define_codes_after_guard).
Proof.
  intros o c H. apply str_in_In. revert H. destruct o as [[] [] [] []]; cbn; intros H;
    repeat (destruct H as [H|H]; [subst c; vm_compute; reflexivity|]); destruct H.
Qed.

(* the silenced codes are exactly what the property calls the #define-value diagnostics *)
Lemma silenced_is_define_value : forall c, str_in c silenced_codes = str_in c define_value_codes.
Proof.
  intros c. change silenced_codes with [s "PREPROC_CONSTANT"; s "PREPROC_CONSTANT"].
  unfold define_value_codes, str_in. cbn [existsb]. destruct (str_eqb c (s "PREPROC_CONSTANT")); reflexivity.
Qed.

(* -R CheckDefine removes only the #define-value diagnostics, on every #define line *)
Lemma define_check_value_only : forall o,
  define_check true o = filter (fun c => negb (str_in c define_value_codes)) (define_check false o).
Proof. intros [[] [] [] []]; vm_compute; reflexivity. Qed.

(* `# define foo(x) x` (and with a rejected value): the diagnostics about the NAME and about function-like macros stay *)
Lemma define_check_keeps_name_checks : forall bad,
  define_check true (mkdobs true false true bad) = [s "MACRO_NAME_CAPITAL"; s "MACRO_FUNC_FORBIDDEN"] /\
  (forall o c, In c (define_check false o) -> str_in c define_value_codes = false -> In c (define_check true o)).
Proof.
  intros bad. split; [destruct bad; reflexivity|].
  intros o c H Hc. rewrite define_check_value_only. apply filter_In. split; [exact H|]. rewrite Hc. reflexivity.
Qed.

(* whole run.  Hypothesis: a turn of the loop under skip_define does what it does without, minus the silenced
   diagnostics - the only reader of skip_define is the guard of the define check (Gen.Options.skip_reads), what follows
   the guard only emits (define_after_guard_calls / targets), nobody else emits these codes
   (silenced_code_mentions) and no rule reads the diagnostics list. *)
Definition skip_filters {Core} (es : emit_step Core) : Prop :=
  forall d c, raises (es false d c) = false -> es true d c = map_emitted filter_silenced (es false d c).

Lemma filter_silenced_app a b : filter_silenced (a ++ b) = filter_silenced a ++ filter_silenced b.
Proof. apply filter_app. Qed.

Section Skip.
  Context {Core : Type}.
  Variable es : emit_step Core.
  Hypothesis HS : skip_filters es.

  Theorem R_checkdefine_removes_only_st : forall fuel d c ds n u acc segs c' ds',
    run_st fuel (lift_emit es false) d (c, ds) n u acc = Ok (segs, (c', ds')) ->
    run_st fuel (lift_emit es true) d (c, filter_silenced ds) n u acc = Ok (segs, (c', filter_silenced ds')).
  Proof.
    induction fuel as [|f IH]; intros d c ds n u acc segs c' ds'; cbn [run_st]; [discriminate|].
    destruct n as [|n'].
    - destruct (Nat.ltb 0 u && (d =? 0)); [discriminate|]. intros H. inversion H; subst. reflexivity.
    - unfold lift_emit. cbn [fst snd].
      destruct (es false d c) as [nm j [c1 e1]|[c1 e1]|m|e] eqn:E; try discriminate;
        (rewrite (HS d c) by (rewrite E; reflexivity)); rewrite E; cbn [map_emitted].
      + destruct (Nat.ltb 0 u && (d =? 0)); [discriminate|]. intros H.
        rewrite <- filter_silenced_app. apply IH. exact H.
      + intros H. rewrite <- filter_silenced_app. apply IH. exact H.
  Qed.
End Skip.

Theorem R_checkdefine_removes_only : forall (Core : Type) (es : emit_step Core), skip_filters es ->
  forall ntokens d c segs c' ds',
    run_st (S ntokens) (lift_emit es false) d (c, []) ntokens 0 [] = Ok (segs, (c', ds')) ->
    run_st (S ntokens) (lift_emit es true) d (c, []) ntokens 0 [] = Ok (segs, (c', filter_silenced ds')).
Proof. intros Core es HS ntokens d c segs c' ds' H. apply (R_checkdefine_removes_only_st es HS _ _ _ [] _ _ _ _ _ _ H). Qed.

(* what is kept: everything whose code is not PREPROC_CONSTANT *)
Lemma filter_silenced_spec : forall ds d, In d (filter_silenced ds) <-> In d ds /\ d_name d <> s "PREPROC_CONSTANT".
Proof.
  intros ds d. unfold filter_silenced. rewrite filter_In. unfold keep_diag. rewrite negb_true_iff.
  split; intros [H1 H2]; (split; [exact H1|]).
  - intros E; rewrite E in H2; vm_compute in H2; discriminate.
  - destruct (str_in (d_name d) silenced_codes) eqn:E; [|reflexivity].
    apply str_in_In in E. change silenced_codes with [s "PREPROC_CONSTANT"; s "PREPROC_CONSTANT"] in E.
    destruct E as [E|[E|[]]]; symmetry in E; contradiction.
Qed.

(* non-vacuity of skip_filters: a loop whose turns are #define statements checked by define_check *)
Definition toy_diag (c : str) : diag := mkdiag c [] (s "Error") [mkhl 1 1 None None].
Definition toy_step : emit_step (list define_obs) :=
  fun skip d core =>
    match core with
    | [] => SNoMatch ([], [])
    | o :: r => SMatched (s "IsPreprocessorStatement") 1 (r, toy_diag (s "PREPROC_BAD_INDENT") :: map toy_diag (define_check skip o))
    end.

Lemma toy_step_skip_filters : skip_filters toy_step.
Proof.
  intros d [|o r] _; [reflexivity|]. cbn [toy_step map_emitted]. f_equal. f_equal.
  rewrite define_check_skip. unfold filter_silenced. cbn [filter].
  replace (keep_diag (toy_diag (s "PREPROC_BAD_INDENT"))) with true by (vm_compute; reflexivity).
  f_equal. induction (define_check false o) as [|c l IH]; [reflexivity|].
  cbn [filter map]. unfold keep_diag at 1. cbn [toy_diag d_name].
  destruct (negb (str_in c silenced_codes)); cbn [map]; rewrite IH; reflexivity.
Qed.

(* ================================================================== formats and colours *)
Theorem views_independent : forall a1 a2 files, views a1 files = views a2 files.
Proof.
  intros a1 a2 files. unfold views.
  assert (E : forall j1 j2, omap (file_view j1) files = omap (file_view j2) files).
  { intros j1 j2. induction files as [|f r IH]; [reflexivity|]. cbn [omap]. rewrite IH.
    destruct j1, j2; reflexivity. }
  apply E.
Qed.

(* the verdicts decide the exit status, whatever the options *)
Lemma status_two : forall ds, status ds = s "OK" \/ status ds = s "Error".
Proof. intros ds. unfold status. destruct (forallb _ ds); auto. Qed.

Theorem exit_from_views : forall a files vs, views a files = Some vs ->
  exit_code files = if existsb (fun v => str_eqb (v_status v) (s "Error")) vs then 1 else 0.
Proof.
  intros a files. unfold views. generalize (is_json a) as j. intros j.
  unfold exit_code. induction files as [|f r IH]; intros vs H.
  - inversion H. reflexivity.
  - cbn [omap] in H. destruct (file_view j f) as [v|] eqn:Ev; [|discriminate].
    destruct (omap (file_view j) r) as [vr|] eqn:Er; [|discriminate]. inversion H; subst. cbn [existsb].
    assert (Es : v_status v = status (f_errors f)).
    { unfold file_view in Ev. destruct j; [unfold json_view in Ev|unfold human_view in Ev];
        cbn [json_of j_errors j_status] in Ev;
        destruct (omap dview_of (sort_diags (f_errors f))); inversion Ev; reflexivity. }
    rewrite Es. specialize (IH vr eq_refl).
    destruct (str_eqb (status (f_errors f)) (s "Error")); cbn [orb]; [reflexivity|exact IH].
Qed.

(* the humanized text is a function of the views alone *)
Definition named_view (f : file) : option (str * fview) :=
  match human_view f with Some v => Some (f_base f, v) | None => None end.

Lemma human_lines_factor : forall c ds vs, omap dview_of ds = Some vs ->
  human_lines c ds = Ok (List.concat (map (render_line c) vs)).
Proof.
  intros c. induction ds as [|d r IH]; intros vs H.
  - inversion H. reflexivity.
  - cbn [omap] in H. destruct (dview_of d) as [v|] eqn:Ev; [|discriminate].
    destruct (omap dview_of r) as [vr|] eqn:Er; [|discriminate]. inversion H; subst.
    cbn [human_lines]. rewrite (IH vr eq_refl).
    unfold dview_of in Ev. unfold human_line. destruct (d_hls d) as [|h hs]; [discriminate|]. inversion Ev; subst.
    reflexivity.
Qed.

Theorem human_text_factors : forall c files bvs, omap named_view files = Some bvs ->
  human_fmt c files = Ok (render_views c bvs).
Proof.
  intros c. induction files as [|f r IH]; intros bvs H.
  - inversion H. reflexivity.
  - cbn [omap] in H. destruct (named_view f) as [bv|] eqn:Ev; [|discriminate].
    destruct (omap named_view r) as [br|] eqn:Er; [|discriminate]. inversion H; subst.
    cbn [human_fmt]. rewrite (IH br eq_refl).
    unfold named_view, human_view in Ev.
    destruct (omap dview_of (sort_diags (f_errors f))) as [vs|] eqn:Es; [|discriminate]. inversion Ev; subst.
    unfold human_file. rewrite (human_lines_factor c _ vs Es). reflexivity.
Qed.

(* stripping the colour sequences from the coloured text gives the uncoloured text *)
Lemma strip_plain : forall x y, no_esc x = true -> strip_esc_aux false (x ++ y) = x ++ strip_esc_aux false y.
Proof.
  induction x as [|c r IH]; intros y H; [reflexivity|].
  unfold no_esc, chr_in in H. cbn [existsb] in H. rewrite negb_orb in H. apply andb_true_iff in H as [H1 H2].
  cbn [app strip_esc_aux]. rewrite N.eqb_sym. apply negb_true_iff in H1. rewrite H1. f_equal. apply IH. exact H2.
Qed.

Lemma strip_inside : forall x y, chr_in 109 x = false -> strip_esc_aux true (x ++ 109%N :: y) = strip_esc_aux false y.
Proof.
  induction x as [|c r IH]; intros y H; [reflexivity|].
  unfold chr_in in H. cbn [existsb] in H. apply orb_false_iff in H as [H1 H2].
  cbn [app strip_esc_aux]. rewrite N.eqb_sym, H1. apply IH. exact H2.
Qed.

Lemma no_esc_app x y : no_esc (x ++ y) = no_esc x && no_esc y.
Proof. unfold no_esc, chr_in. rewrite existsb_app. apply negb_orb. Qed.

Lemma no_esc_repeat n : no_esc (repeat 32%N n) = true.
Proof. induction n as [|n IH]; [reflexivity|]. exact IH. Qed.

Lemma no_esc_uint u : no_esc (uint_digits u) = true.
Proof. induction u; try reflexivity; exact IHu. Qed.

Lemma no_esc_dec z : no_esc (dec_of_Z z) = true.
Proof. destruct z; [reflexivity|apply no_esc_uint|]. cbn [dec_of_Z]. apply no_esc_uint. Qed.

Lemma no_esc_pad_left n x : no_esc x = true -> no_esc (pad_left n x) = true.
Proof. intros H. unfold pad_left. rewrite no_esc_app, no_esc_repeat, H. reflexivity. Qed.

Lemma no_esc_pad_right n x : no_esc x = true -> no_esc (pad_right n x) = true.
Proof. intros H. unfold pad_right. rewrite no_esc_app, no_esc_repeat, H. reflexivity. Qed.

(* no colour code contains the letter m (the end of the escape sequence) *)
Lemma colour_codes_ok : forallb (fun e => negb (chr_in 109 (91%N :: fst e))) color_table = true.
Proof. vm_compute. reflexivity. Qed.

Lemma error_color_ok : forall tbl name c, forallb (fun e => negb (chr_in 109 (91%N :: fst e))) tbl = true ->
  error_color tbl name = Some c -> chr_in 109 (91%N :: c) = false.
Proof.
  induction tbl as [|[c0 names] r IH]; intros name c H E; [discriminate|].
  cbn [forallb fst] in H. apply andb_true_iff in H as [H1 H2]. cbn [error_color] in E.
  destruct (str_in name names); [inversion E; subst; now apply negb_true_iff in H1|]. exact (IH _ _ H2 E).
Qed.

Lemma strip_seq : forall code text rest, chr_in 109 (91%N :: code) = false -> no_esc text = true ->
  strip_esc_aux false (([esc; 91%N] ++ code ++ s "m" ++ text ++ [esc] ++ s "[0m") ++ rest) = text ++ strip_esc_aux false rest.
Proof.
  intros code text rest Hc Ht.
  replace (([esc; 91%N] ++ code ++ s "m" ++ text ++ [esc] ++ s "[0m") ++ rest)
    with (esc :: (91%N :: code) ++ 109%N :: (text ++ esc :: ([91%N; 48%N] ++ 109%N :: rest))).
  2:{ change (s "m") with [109%N]. change (s "[0m") with [91%N; 48%N; 109%N]. cbn [app].
      repeat rewrite <- app_assoc. cbn [app]. repeat rewrite <- app_assoc. reflexivity. }
  change (strip_esc_aux false (esc :: (91%N :: code) ++ 109%N :: (text ++ esc :: ([91%N; 48%N] ++ 109%N :: rest))))
    with (strip_esc_aux true ((91%N :: code) ++ 109%N :: (text ++ esc :: ([91%N; 48%N] ++ 109%N :: rest)))).
  rewrite strip_inside by exact Hc. rewrite strip_plain by exact Ht. reflexivity.
Qed.

Lemma strip_colorize : forall v rest, no_esc (v_text v) = true ->
  strip_esc_aux false (colorize_v true v ++ rest) = colorize_v false v ++ strip_esc_aux false rest.
Proof.
  intros v rest H. unfold colorize_v. destruct (error_color color_table (v_name v)) as [c|] eqn:E.
  - apply strip_seq; [exact (error_color_ok _ _ _ colour_codes_ok E)|exact H].
  - apply strip_plain. exact H.
Qed.

Lemma strip_line : forall v rest, dview_plain v = true ->
  strip_esc_aux false (render_line true v ++ rest) = render_line false v ++ strip_esc_aux false rest.
Proof.
  intros v rest H. unfold dview_plain in H. apply andb_true_iff in H as [H H3]. apply andb_true_iff in H as [H1 H2].
  unfold render_line.
  set (pre := [10%N] ++ v_level v ++ s ": " ++ pad_right 20 (v_name v) ++ s " " ++ s "(line: "
              ++ pad_left 3 (dec_of_Z (v_line v)) ++ s ", col: " ++ pad_left 3 (dec_of_Z (v_col v)) ++ s "):" ++ [9%N]).
  assert (Hp : no_esc pre = true).
  { unfold pre. repeat rewrite no_esc_app. rewrite H1, (no_esc_pad_right 20 _ H2),
      (no_esc_pad_left 3 _ (no_esc_dec (v_line v))), (no_esc_pad_left 3 _ (no_esc_dec (v_col v))). reflexivity. }
  assert (Ec : forall c, [10%N] ++ v_level v ++ s ": " ++ pad_right 20 (v_name v) ++ s " " ++ s "(line: "
              ++ pad_left 3 (dec_of_Z (v_line v)) ++ s ", col: " ++ pad_left 3 (dec_of_Z (v_col v)) ++ s "):" ++ [9%N]
              ++ colorize_v c v = pre ++ colorize_v c v).
  { intros c. unfold pre. repeat rewrite <- app_assoc. reflexivity. }
  rewrite !Ec. rewrite <- !app_assoc. rewrite strip_plain by exact Hp. f_equal. apply strip_colorize. exact H3.
Qed.

Lemma strip_lines : forall vs rest, forallb dview_plain vs = true ->
  strip_esc_aux false (List.concat (map (render_line true) vs) ++ rest)
  = List.concat (map (render_line false) vs) ++ strip_esc_aux false rest.
Proof.
  induction vs as [|v r IH]; intros rest H; [reflexivity|]. cbn [forallb] in H. apply andb_true_iff in H as [H1 H2].
  cbn [map List.concat]. rewrite <- !app_assoc. rewrite strip_line by exact H1. f_equal. apply IH. exact H2.
Qed.

Theorem colours_strip : forall bvs, forallb fview_plain bvs = true ->
  strip_esc (render_views true bvs) = render_views false bvs.
Proof.
  unfold strip_esc, render_views.
  assert (G : forall bvs rest, forallb fview_plain bvs = true ->
            strip_esc_aux false (List.concat (map (render_file true) bvs) ++ rest)
            = List.concat (map (render_file false) bvs) ++ strip_esc_aux false rest).
  { induction bvs as [|bv r IH]; intros rest H; [reflexivity|]. cbn [forallb] in H. apply andb_true_iff in H as [H1 H2].
    cbn [map List.concat]. rewrite <- !app_assoc. unfold render_file at 1 3.
    unfold fview_plain in H1. apply andb_true_iff in H1 as [H1 H5]. apply andb_true_iff in H1 as [H3 H4].
    rewrite <- !app_assoc.
    rewrite strip_plain by exact H3. f_equal.
    rewrite strip_plain by reflexivity. f_equal.
    rewrite strip_plain by exact H4. f_equal.
    rewrite strip_plain by reflexivity. f_equal.
    rewrite strip_lines by exact H5. f_equal.
    rewrite (strip_plain [10%N]) by reflexivity. f_equal. apply IH. exact H2. }
  intros bvs H. pose proof (G bvs [] H) as E. rewrite !app_nil_r in E. exact E.
Qed.

(* the three together: what both formats show is the same list of (verdict, diagnostics), whatever the options *)
Theorem format_colour_independent : forall a1 a2 files,
  views a1 files = views a2 files /\
  (forall bvs, omap named_view files = Some bvs ->
     human_fmt (use_colors_of a1) files = Ok (render_views (use_colors_of a1) bvs) /\
     (forallb fview_plain bvs = true -> strip_esc (render_views true bvs) = render_views false bvs)) /\
  (forall vs, views a1 files = Some vs ->
     exit_code files = if existsb (fun v => str_eqb (v_status v) (s "Error")) vs then 1 else 0).
Proof.
  intros a1 a2 files. split; [apply views_independent|]. split.
  - intros bvs H. split; [apply human_text_factors; exact H|apply colours_strip].
  - intros vs H. exact (exit_from_views a1 files vs H).
Qed.

(* ================================================================== inline content *)
Lemma inline_branch_reviewed : inline_branch = reviewed_inline_branch.
Proof. reflexivity. Qed.

(* the two str.replace passes of main() compute the universal-newline translation of open() *)
Lemma translate_inline_universal_len : forall n x, (List.length x <= n)%nat -> translate_inline x = universal_newlines x.
Proof.
  unfold translate_inline.
  induction n as [|n IH]; intros x H.
  - destruct x; [reflexivity|cbn in H; lia].
  - destruct x as [|c r]; [reflexivity|]. cbn [List.length] in H.
    destruct r as [|c2 r'].
    + cbn. destruct (N.eqb c 13); reflexivity.
    + cbn [py_replace_crlf universal_newlines]. cbn [List.length] in H.
      destruct (N.eqb c 13) eqn:E1; cbn [andb].
      * destruct (N.eqb c2 10) eqn:E2.
        -- cbn [py_replace_cr map]. change (N.eqb 10 13) with false. cbn iota. f_equal.
           apply (IH r'). lia.
        -- cbn [py_replace_cr map]. rewrite E1. f_equal. apply (IH (c2 :: r')). cbn [List.length]. lia.
      * cbn [py_replace_cr map]. rewrite E1. f_equal. apply (IH (c2 :: r')). cbn [List.length]. lia.
Qed.

Theorem translate_inline_universal : forall x, translate_inline x = universal_newlines x.
Proof. intros x. apply (translate_inline_universal_len (List.length x)). lia. Qed.

Lemma universal_newlines_id : forall x, chr_in 13 x = false -> universal_newlines x = x.
Proof.
  induction x as [|c r IH]; intros H; [reflexivity|].
  unfold chr_in in H. cbn [existsb] in H. apply orb_false_iff in H as [H1 H2].
  cbn [universal_newlines]. rewrite N.eqb_sym, H1. f_equal. apply IH. exact H2.
Qed.

(* --cfile/--hfile + --filename: the analysis gets the same File (path, basename, source) and the same context options
   as for a file of that name holding those bytes - for ALL non-empty contents, carriage returns included.
   `raw` gives the bytes on disk (as code points: UTF-8 decoding is modelled as the identity); the content must be
   non-empty because main() tests its truthiness (an empty --cfile is ignored, see C16_example_inline). *)
Theorem inline_same_as_file_raw : forall raw a a' path content,
  content <> [] -> path <> [] -> raw path = Some content ->
  (a_cfile a = Some content /\ a_filename a = Some path \/
   truthy (a_cfile a) = false /\ a_hfile a = Some content /\ a_filename a = Some path) ->
  truthy (a_cfile a') = false -> truthy (a_hfile a') = false -> a_file a' = [path] ->
  a_debug a = a_debug a' -> a_R a = a_R a' ->
  map (input_of (disk_of_raw raw)) (files_of_args a) = map (input_of (disk_of_raw raw)) (files_of_args a')
  /\ ctx_of_args a = ctx_of_args a'.
Proof.
  intros raw a a' path content Hc Hp Hr Ha Hc' Hh' Hf' Hdb HR. split.
  - unfold files_of_args. rewrite Hc', Hh', Hf'. cbn [orb map]. unfold input_of at 2. cbn [mf_path mf_source].
    unfold disk_of_raw at 2. rewrite Hr. rewrite <- translate_inline_universal.
    destruct content as [|c0 cr]; [contradiction|]. destruct path as [|p0 pr]; [contradiction|].
    destruct Ha as [[E1 E2]|[E0 [E1 E2]]].
    + rewrite E1, E2. reflexivity.
    + rewrite E0, E1, E2. reflexivity.
  - unfold ctx_of_args. rewrite Hdb, HR. reflexivity.
Qed.

(* default names when --filename is absent *)
Lemma inline_default_names : forall c,
  c <> [] ->
  map mf_path (files_of_args (args_of [FlCfile c])) = [s "file.c"] /\
  map mf_path (files_of_args (args_of [FlHfile c])) = [s "file.h"] /\
  map mf_path (files_of_args (args_of [FlHfile c; FlCfile c])) = [s "file.c"].
Proof. intros [|c0 cr] H; [contradiction|]. repeat split. Qed.
