(* C01: CheckSpacing (Gen.RuleChecks.check_spacing, regenerated from the source on every run) emits NOTHING on a
   conforming statement: loop invariant over the whole statement.  A position of the statement is fine when
     - it holds a SPACE that is not in column 1, does not follow a TAB, is not followed by a SPACE or a TAB, and the blanks
       starting there do not reach the line end (unless a brace stands before it);
     - or a TAB that is not in column 1, or a TAB in column 1 whose run of tabs does not reach the line end;
     - or any other token.
   G writes single spaces between lexemes only, tabs as indentation / alignment, nothing before a line end. *)
From NV Require Import Model.Base Model.RuleChecks Gen.RuleChecks Proofs.StrOrder Proofs.RuleChecksProofs Proofs.RuleChecksProofs2
  Proofs.RuleChecksSpacing Proofs.SpacingTotal.
From Coq Require Import Lia.
Local Open Scope Z_scope.

Definition col_is_1 (toks : list token) (j : Z) : bool := match peek toks j with Some t => t_col t =? 1 | None => true end.

Definition sp_ok (toks : list token) (j : Z) : bool :=
  if truthy (check1 toks j (s "SPACE")) then
    negb (truthy (check1 toks (if j >? 0 then j - 1 else 0) (s "TAB")))
    && negb (col_is_1 toks j)
    && negb (negb (skip_ws toks j =? j) && truthy (check1 toks (skip_ws toks j) (s "NEWLINE"))
             && negb (truthy (checkl toks (j - 1) [s "LBRACE"; s "RBRACE"])))
    && negb (truthy (check1 toks (j + 1) (s "SPACE")))
    && negb (truthy (check1 toks (j + 1) (s "TAB")))
  else if truthy (check1 toks j (s "TAB")) then
    negb (col_is_1 toks j) || negb (truthy (check1 toks (skip_while toks (tab_pred toks) j) (s "NEWLINE")))
  else true.

Lemma truthy_peek toks j ty : truthy (check1 toks j ty) = true -> exists t, peek toks j = Some t.
Proof. unfold check1. destruct (peek toks j); [eauto|discriminate]. Qed.

Lemma spacing_quiet_run toks scope v : forall fuel i E, 0 <= i ->
  (Z.to_nat (slice_len toks scope - i) < fuel)%nat ->
  (forall j, i <= j < slice_len toks scope -> sp_ok toks j = true) ->
  exists i', check_spacing_loop1 fuel toks scope i false false E v = Ok (i', false, false, E, v).
Proof.
  induction fuel as [|f IH]; intros i E Hi Hf Hok; [lia|].
  cbn [check_spacing_loop1]. cbv zeta. fold (slice_len toks scope).
  unfold in_range0. destruct ((0 <=? i) && (i <? slice_len toks scope)) eqn:R; [|eexists; reflexivity].
  apply andb_true_iff in R as [_ R]. apply Z.ltb_lt in R.
  assert (H := Hok i ltac:(lia)). unfold sp_ok in H.
  assert (Next : forall i2, i + 1 <= i2 -> exists i', check_spacing_loop1 f toks scope i2 false false E v = Ok (i', false, false, E, v)).
  { intros i2 H2. apply IH; [lia|lia|]. intros j Hj. apply Hok. lia. }
  fold (tab_pred toks).
  destruct (truthy (check1 toks i (s "SPACE"))) eqn:S.
  - apply andb_true_iff in H as [H H5]. apply andb_true_iff in H as [H H4]. apply andb_true_iff in H as [H H3].
    apply andb_true_iff in H as [H1 H2]. apply negb_true_iff in H1, H2, H3, H4, H5.
    rewrite H1. destruct (truthy_peek _ _ _ S) as [t Pt]. rewrite Pt. cbn [need_tok].
    unfold col_is_1 in H2. rewrite Pt in H2. rewrite H2. rewrite H3, H4, H5. apply Next. lia.
  - destruct (truthy (check1 toks i (s "TAB"))) eqn:T.
    + destruct (truthy_peek _ _ _ T) as [t Pt]. rewrite Pt. cbn [need_tok]. unfold col_is_1 in H. rewrite Pt in H.
      destruct (t_col t =? 1) eqn:C.
      * cbn [negb orb] in H. apply negb_true_iff in H. rewrite H. apply Next.
        apply skip_while_gt. unfold tab_pred. exact T.
      * apply Next. lia.
    + apply Next. lia.
Qed.

(* CheckSpacing, the whole check *)
Theorem spacing_silent toks scope v : v_history v <> [] -> (forall j, 0 <= j < slice_len toks scope -> sp_ok toks j = true) ->
  check_spacing toks scope v = Ok ([], v).
Proof.
  intros Hh Hok. unfold check_spacing. cbv zeta. unfold hist_back. destruct (v_history v) as [|h1 rest]; [congruence|].
  cbn [Nat.sub nth_error need_hist]. destruct (str_in h1 _); [reflexivity|].
  destruct (spacing_quiet_run toks scope v (loop_fuel toks) 0 [] ltac:(lia)) as [i' R].
  - pose proof (SpacingTotal.slice_len_le toks scope). unfold loop_fuel, zlen in *. lia.
  - intros j Hj. apply Hok. lia.
  - rewrite R. reflexivity.
Qed.
