(* CheckSpacing.run ends normally on every statement the registry passes: no new_error on a missing token, the loop index grows in
   every turn and the fuel of the generated loop always suffices.  (Shared by C02 - the W theorems need no "returned normally"
   hypothesis - and C05.) *)
From NV Require Import Model.Base Model.RuleChecks Gen.RuleChecks Proofs.StrOrder Proofs.RuleChecksProofs Proofs.RuleChecksProofs2
  Proofs.RuleChecksSpacing.
From Coq Require Import Lia.
Local Open Scope Z_scope.

(* ------------------------------------------------------------------ tokens that exist *)
Lemma peek_lt_some toks i : 0 <= i < zlen toks -> exists t, peek toks i = Some t.
Proof.
  intros H. rewrite peek_nonneg by lia. destruct (Z.ltb_spec i (zlen toks)); [|lia].
  destruct (nth_error toks (Z.to_nat i)) eqn:E; [eexists; reflexivity|]. apply nth_error_None in E. unfold zlen in *. lia.
Qed.
Lemma peek_none_ge toks i : 0 <= i -> peek toks i = None -> zlen toks <= i.
Proof. intros H N. destruct (Z.ltb_spec i (zlen toks)) as [L|L]; [|lia]. destruct (peek_lt_some toks i) as [t E]; [lia|congruence]. Qed.
Lemma nonempty_peek0 toks : toks <> [] -> exists t, peek toks 0 = Some t.
Proof. intros H. apply peek_lt_some. destruct toks; [congruence|]. unfold zlen. cbn [Datatypes.length]. lia. Qed.
Lemma skip_ws_ge toks i : i <= skip_ws toks i.
Proof. apply skip_while_f_ge. Qed.

(* ================================================================== CheckSpacing *)
(* every position a `while p(x): x += 1` loop ran over satisfies p *)
Lemma skip_while_f_all fuel p : forall i j, i <= j < skip_while_f fuel p i -> p j = true.
Proof.
  induction fuel as [|f IH]; intros i j H; cbn [skip_while_f] in H; [lia|].
  destruct (p i) eqn:E; [|lia]. destruct (Z.eq_dec j i) as [->|Hn]; [exact E|]. apply (IH (i + 1)). lia.
Qed.
Lemma skip_while_all toks p i j : i <= j < skip_while toks p i -> p j = true.
Proof. apply skip_while_f_all. Qed.
Lemma skip_while_gt toks p i : p i = true -> i + 1 <= skip_while toks p i.
Proof.
  intros H. unfold skip_while, loop_fuel. cbn [skip_while_f]. rewrite H.
  apply (skip_while_f_ge (S (2 * Datatypes.length toks)) p (i + 1)).
Qed.

Lemma slice_len_le toks scope : slice_len toks scope <= zlen toks.
Proof.
  unfold slice_len, py_slice_to, zlen. destruct (scope <? 0); rewrite firstn_length; lia.
Qed.


Lemma slice_len_le_scope toks scope : 0 <= scope -> slice_len toks scope <= scope.
Proof. intros H. unfold slice_len, py_slice_to, zlen. destruct (Z.ltb_spec scope 0); [lia|]. rewrite firstn_length. lia. Qed.

Lemma check1_excl toks j A B : truthy (check1 toks j A) = true -> str_eqb A B = false -> truthy (check1 toks j B) = false.
Proof.
  unfold check1. destruct (peek toks j) as [t|]; [|discriminate]. cbn [truthy]. intros H HAB.
  destruct (str_eqb (t_type t) A) eqn:E; [|discriminate]. apply str_eqb_eq in E. rewrite E, HAB. reflexivity.
Qed.

Section Total.
  Variables (toks : list token) (scope : Z).
  Hypothesis Hscope : 0 <= scope.

  Lemma spacing_loop_total : forall fuel i a b E v, 0 <= i -> Z.max 0 (zlen toks - i) < Z.of_nat fuel ->
    exists r, check_spacing_loop1 fuel toks scope i a b E v = Ok r.
  Proof.
    induction fuel as [|f IH]; intros i a b E v Hi Hf; [lia|].
    cbn [check_spacing_loop1]. cbv zeta. fold ty_space. fold (sp_pred toks scope). fold (tab_pred toks).
    destruct (in_range0 i (zlen (py_slice_to toks scope))) eqn:Hr; [|eexists; reflexivity].
    assert (Hil : i < zlen toks /\ i < scope).
    { unfold in_range0 in Hr. apply andb_true_iff in Hr as [_ Hr]. apply Z.ltb_lt in Hr.
      pose proof (slice_len_le toks scope). pose proof (slice_len_le_scope toks scope Hscope). unfold slice_len in *. lia. }
    destruct Hil as [Hil His].
    destruct (peek_lt_some toks i) as [ti Pi]; [lia|].
    pose proof (skip_while_ge toks (sp_pred toks scope) i) as F1.
    pose proof (skip_while_ge toks (sp_pred toks scope) (i + 1)) as F2.
    pose proof (skip_while_ge toks (tab_pred toks) i) as F3.
    (* the token the col-1 branch reports: the one after the spaces, or - at the end of the tokens - the last space *)
    assert (FK : truthy (check1 toks i ty_space) = true ->
                 exists tk, or_tok (peek toks (skip_while toks (sp_pred toks scope) i)) (peek toks (skip_while toks (sp_pred toks scope) i - 1)) = Some tk).
    { intros Q. assert (G : i + 1 <= skip_while toks (sp_pred toks scope) i).
      { apply skip_while_gt. unfold sp_pred. rewrite Q. replace (i <? scope) with true by (symmetry; apply Z.ltb_lt; lia). reflexivity. }
      destruct (peek toks (skip_while toks (sp_pred toks scope) i)) as [tk|]; [exists tk; reflexivity|]. cbn [or_tok].
      apply peek_lt_some.
      assert (Hp : sp_pred toks scope (skip_while toks (sp_pred toks scope) i - 1) = true) by (apply (skip_while_all toks _ i); lia).
      unfold sp_pred in Hp. apply andb_true_iff in Hp as [_ Hp]. split; [lia|]. apply (check1_true_lt toks _ ty_space); [lia|exact Hp]. }
    assert (G1 : truthy (check1 toks i ty_space) = true -> i + 1 <= skip_while toks (sp_pred toks scope) i).
    { intros Q. apply skip_while_gt. unfold sp_pred. rewrite Q. replace (i <? scope) with true by (symmetry; apply Z.ltb_lt; lia). reflexivity. }
    assert (G3 : truthy (check1 toks i (s "TAB")) = true -> i + 1 <= skip_while toks (tab_pred toks) i).
    { intros Q. apply skip_while_gt. exact Q. }
    assert (Next : forall j a' b' E', i + 1 <= j -> exists r, check_spacing_loop1 f toks scope j a' b' E' v = Ok r).
    { intros j a' b' E' Hj. apply IH; lia. }
    assert (Pk : forall e, 0 <= e < zlen toks -> exists t, peek toks e = Some t) by (intros e He; apply peek_lt_some; exact He).
    assert (Lt : forall j c, 0 <= j -> truthy (check1 toks j c) = true -> j < zlen toks) by (intros j c H0 Q; eapply check1_true_lt; eassumption).
    rewrite Pi. cbn [need_tok]. replace (i + 1 - 1) with i by lia. rewrite ?Pi.
    destruct (i >? 0) eqn:Qi; [apply Z.gtb_lt in Qi|].
    2:{ (* i = 0: the token before the first one is the first one itself - a SPACE is no TAB *)
        destruct (truthy (check1 toks i ty_space)) eqn:Qs0.
        - assert (i = 0) by (rewrite Z.gtb_ltb in Qi; apply Z.ltb_ge in Qi; lia).
          assert (Hnt : truthy (check1 toks 0 (s "TAB")) = false) by (subst i; apply (check1_excl toks 0 ty_space); [exact Qs0|reflexivity]).
          rewrite Hnt. specialize (G1 eq_refl). repeat first
      [ match goal with |- exists r, Ok _ = Ok r => eexists; reflexivity end
      | match goal with |- exists r, check_spacing_loop1 _ toks scope _ _ _ _ _ = Ok r => apply Next; lia end
      | progress cbn [emit bind need_tok]
      | match goal with |- exists r, (if ?c then _ else _) = Ok r =>
          let Q := fresh "Q" in destruct c eqn:Q;
          try (specialize (G1 Q)); try (specialize (G1 eq_refl)); try (specialize (G3 Q)); try (specialize (G3 eq_refl));
          try (match type of Q with truthy (check1 _ ?j ?c0) = true => assert (j < zlen toks) by (apply (Lt j c0); [lia|exact Q]) end)
        end
      | match goal with |- context [emit _ (or_tok _ _) _] =>
          let tt := fresh "tt" in let PP := fresh "PP" in destruct (FK eq_refl) as [tt PP]; rewrite PP
        end
      | match goal with |- context [emit _ (peek _ ?e) _] =>
          let tt := fresh "tt" in let PP := fresh "PP" in destruct (Pk e) as [tt PP]; [lia|rewrite PP]
        end ].
        - repeat first
      [ match goal with |- exists r, Ok _ = Ok r => eexists; reflexivity end
      | match goal with |- exists r, check_spacing_loop1 _ toks scope _ _ _ _ _ = Ok r => apply Next; lia end
      | progress cbn [emit bind need_tok]
      | match goal with |- exists r, (if ?c then _ else _) = Ok r =>
          let Q := fresh "Q" in destruct c eqn:Q;
          try (specialize (G1 Q)); try (specialize (G1 eq_refl)); try (specialize (G3 Q)); try (specialize (G3 eq_refl));
          try (match type of Q with truthy (check1 _ ?j ?c0) = true => assert (j < zlen toks) by (apply (Lt j c0); [lia|exact Q]) end)
        end
      | match goal with |- context [emit _ (or_tok _ _) _] =>
          let tt := fresh "tt" in let PP := fresh "PP" in destruct (FK eq_refl) as [tt PP]; rewrite PP
        end
      | match goal with |- context [emit _ (peek _ ?e) _] =>
          let tt := fresh "tt" in let PP := fresh "PP" in destruct (Pk e) as [tt PP]; [lia|rewrite PP]
        end ]. }
    repeat first
      [ match goal with |- exists r, Ok _ = Ok r => eexists; reflexivity end
      | match goal with |- exists r, check_spacing_loop1 _ toks scope _ _ _ _ _ = Ok r => apply Next; lia end
      | progress cbn [emit bind need_tok]
      | match goal with |- exists r, (if ?c then _ else _) = Ok r =>
          let Q := fresh "Q" in destruct c eqn:Q;
          try (specialize (G1 Q)); try (specialize (G1 eq_refl)); try (specialize (G3 Q)); try (specialize (G3 eq_refl));
          try (match type of Q with truthy (check1 _ ?j ?c0) = true => assert (j < zlen toks) by (apply (Lt j c0); [lia|exact Q]) end)
        end
      | match goal with |- context [emit _ (or_tok _ _) _] =>
          let tt := fresh "tt" in let PP := fresh "PP" in destruct (FK eq_refl) as [tt PP]; rewrite PP
        end
      | match goal with |- context [emit _ (peek _ ?e) _] =>
          let tt := fresh "tt" in let PP := fresh "PP" in destruct (Pk e) as [tt PP]; [lia|rewrite PP]
        end ].
  Qed.


  (* CheckSpacing.run returns normally on every statement the registry passes (history not empty, tkn_scope not negative) *)
  Theorem check_spacing_total : forall v, v_history v <> [] -> exists r, check_spacing toks scope v = Ok r.
  Proof.
    intros v Hh. destruct (v_history v) as [|h1 rest] eqn:Hv; [congruence|].
    unfold check_spacing. cbv zeta. unfold hist_back. rewrite Hv. cbn [Nat.sub nth_error need_hist].
    destruct (str_in h1 _); [eexists; reflexivity|].
    destruct (spacing_loop_total (loop_fuel toks) 0 false false [] v) as [[[[[i1 a1] b1] E1] v1] R]; [lia| |].
    - unfold loop_fuel, zlen. lia.
    - rewrite R. eexists. reflexivity.
  Qed.
End Total.

Theorem check_spacing_crash_no_history : forall toks scope v, v_history v = [] -> check_spacing toks scope v = Crash IndexError.
Proof. intros toks scope v Hh. unfold check_spacing. cbv zeta. unfold hist_back. rewrite Hh. reflexivity. Qed.

(* the invocation that used to raise AttributeError (`int<TAB>a;\<newline><space><EOF>`, recorded from the implementation): the
   tokens end inside the column-1 run of spaces - SPACE_REPLACE_TAB is now reported at the last token *)
Definition crash_tokens : list token :=
  [mk_tok (s "INT") 1 1; mk_tok (s "TAB") 1 4; mk_tok (s "IDENTIFIER") 1 5; mk_tok (s "SEMI_COLON") 1 6; mk_tok (s "SPACE") 2 1].
Definition crash_view : view := mkview [s "IsVarDeclaration"] (s "GlobalScope") true 0 true false.
Theorem check_spacing_reports_at_eof_blank : check_spacing crash_tokens 5 crash_view = Ok ([(s "SPACE_REPLACE_TAB", 2, 1)], crash_view).
Proof. vm_compute. reflexivity. Qed.
